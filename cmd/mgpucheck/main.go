// mgpucheck decides structural clauses of the given properties from /repo's
// current source. Usage: mgpucheck <Cxx> quick|thorough
package main

import (
	"encoding/json"
	"fmt"
	"os"
	"path/filepath"
	"runtime/debug"
	"sort"

	"verif/internal/core"
	"verif/internal/rules"
)

func main() {
	if len(os.Args) < 2 {
		fmt.Fprintln(os.Stderr, "usage: mgpucheck <Cxx> quick|thorough")
		os.Exit(2)
	}
	verifDir, _ := os.Getwd()
	if exe, err := os.Executable(); err == nil {
		verifDir = filepath.Dir(filepath.Dir(exe))
	}
	if out := os.Getenv("VERIF_OUT"); out != "" {
		// self-validation runs (scratch copies of the repository) write their
		// evidence and replay files elsewhere; known_findings.json is still read from /verif
		os.MkdirAll(out, 0o755)
		if b, err := os.ReadFile(filepath.Join(verifDir, "known_findings.json")); err == nil {
			os.WriteFile(filepath.Join(out, "known_findings.json"), b, 0o644)
		}
		verifDir = out
	}
	defer func() {
		if r := recover(); r != nil {
			fmt.Fprintf(os.Stderr, "CHECK-BROKEN: panic: %v\n%s\n", r, debug.Stack())
			os.Exit(2)
		}
	}()
	core.NamesFile = filepath.Join(filepath.Dir(filepath.Dir(func() string { e, _ := os.Executable(); return e }())), "testdata", "names.json")
	core.HelpersFile = filepath.Join(filepath.Dir(core.NamesFile), "helpers.json")
	if os.Args[1] == "gen-names" {
		core.HelpersFile = ""
		// records today's parameter and local names (see internal/core/names.go); run by hand
		// when the rules are adapted to a new version of the repository, never by a check
		core.NamesFile = ""
		c := core.NewCtx("DBG", "quick")
		c.Load("./amd/...", "./nvidia/...")
		n := c.GenNames(os.Args[2])
		fmt.Println("functions recorded:", n)
		// the one-expression helpers of this version (see internal/core/inline.go)
		sort.Strings(core.RecordedHelpers)
		hb, _ := json.MarshalIndent(core.RecordedHelpers, "", " ")
		if err := os.WriteFile(filepath.Join(filepath.Dir(os.Args[2]), "helpers.json"), hb, 0o644); err != nil {
			panic(err)
		}
		fmt.Println("one-expression helpers recorded:", len(core.RecordedHelpers))
		return
	}
	if os.Args[1] == "debug-proto" {
		c := core.NewCtx("DBG", "quick")
		c.Load(os.Args[2:]...)
		c.BuildSSA()
		rules.DebugProto(c, os.Args[2:])
		return
	}
	if os.Args[1] == "debug-unused-params" {
		c := core.NewCtx("DBG", "quick")
		c.Load(os.Args[2:]...)
		c.BuildSSA()
		for _, rel := range os.Args[2:] {
			for _, fn := range c.SrcFuncs(rel) {
				for i, p := range fn.Params {
					if i == 0 && fn.Signature.Recv() != nil {
						continue
					}
					if p.Name() == "_" || p.Name() == "" {
						continue
					}
					if len(*p.Referrers()) == 0 {
						fmt.Printf("%s: %s.%s ignores parameter %s %s\n", c.Position(fn.Pos()), rel, core.FuncName(fn), p.Name(), p.Type())
					}
				}
			}
		}
		return
	}
	if os.Args[1] == "debug-encsib" {
		c := core.NewCtx("DBG", "quick")
		rules.DebugEncodingSiblings(c)
		rules.DebugEncodingSiblingsCount(c)
		return
	}
	if os.Args[1] == "debug-shared" {
		c := core.NewCtx("DBG", "quick")
		rules.DebugShared(c)
		rules.DebugEntryLocks(c)
		rules.DebugAppWrites(c)
		return
	}
	if os.Args[1] == "debug-fieldflow" {
		c := core.NewCtx("DBG", "quick")
		rules.DebugFieldFlow(c, os.Args[2], os.Args[3:])
		return
	}
	if os.Args[1] == "debug-shared-handlers" {
		c := core.NewCtx("DBG", "quick")
		rules.DebugSharedHandlers(c)
		return
	}
	if os.Args[1] == "debug-layout" {
		c := core.NewCtx("DBG", "quick")
		rules.DebugLayout(c)
		return
	}
	if os.Args[1] == "debug-siblings" {
		c := core.NewCtx("DBG", "quick")
		rules.DebugSiblings(c)
		return
	}
	if os.Args[1] == "debug-prov" {
		c := core.NewCtx("DBG", "quick")
		c.Load(os.Args[2:]...)
		c.BuildSSA()
		rules.DebugProv(c, os.Args[2:])
		return
	}
	prop := os.Args[1]
	tier := "quick"
	if len(os.Args) > 2 {
		tier = os.Args[2]
	}
	if t := os.Getenv("VERIF_TIER"); t != "" && len(os.Args) <= 2 {
		tier = t
	}
	chk := rules.Registry[prop]
	if chk == nil {
		fmt.Fprintf(os.Stderr, "CHECK-BROKEN: no check registered for %s\n", prop)
		os.Exit(2)
	}
	c := core.NewCtx(prop, tier)
	if tier == "thorough" {
		c.Load("./...")
	}
	meta := chk.Run(c)
	if tier == "thorough" {
		rules.Thorough(c, prop)
		// self-validation results written by tools/mut.py (run by ./check before this binary)
		if b, err := os.ReadFile(filepath.Join(filepath.Dir(os.Args[0]), "validation-"+prop+".json")); err == nil {
			var val map[string]any
			if json.Unmarshal(b, &val) == nil {
				if c.Extra == nil {
					c.Extra = map[string]any{}
				}
				c.Extra["self_validation"] = val
				if bad, _ := val["failed"].(float64); bad > 0 {
					fmt.Fprintf(os.Stderr, "CHECK-BROKEN: %v of the checker's own variants did not behave as required (see %s)\n", bad, "bin/validation-"+prop+".json")
					c.Finish(verifDir, meta)
					os.Exit(2)
				}
			}
		}
	}
	os.Exit(c.Finish(verifDir, meta))
}
