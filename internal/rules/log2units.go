package rules

import (
	"go/token"
	"go/types"
	"regexp"

	"golang.org/x/tools/go/ssa"

	"verif/internal/core"
)

// Units of sizes: bytes or log2(bytes).
//
// The builders of this repository carry page sizes, interleaving sizes and row sizes as
// exponents (fields and parameters called log2..., ...AsPowerOf2) and the components turn them
// into byte counts with a shift. A value of that kind that reaches a place expecting bytes - a
// parameter or field without "log2" in its name, an operand of * / % - is off by orders of
// magnitude (6 instead of 64) and nothing fails: addresses are merely cut at the wrong places.
// The rule follows every value read from a log2-named field or parameter through conversions and
// +/- and requires that it ends as a shift count, in a comparison, or in a field / parameter /
// function that is log2-named itself.

var log2Name = regexp.MustCompile(`(?i)log2|powerof2`)

func checkLog2Units(c *core.Ctx, rule string, floor int, why string, pis ...*PkgInfo) {
	st := c.Rule(rule, "a size carried as an exponent stays an exponent until it is shifted: every value read from a field or parameter whose name says log2 / ...AsPowerOf2 (followed through conversions, + and -) is used only as a shift count, in a comparison, or is stored into a field, passed as a parameter or handed to a function of this module that is log2-named itself. Passing it where bytes are expected (a parameter called interleaveSize, an operand of / or %) makes the component cut addresses every 6 bytes instead of every 64. "+why, floor)
	for _, pi := range pis {
		for _, fn := range pi.Funcs {
			var sources []ssa.Value
			for _, p := range fn.Params {
				if log2Name.MatchString(p.Name()) {
					if _, ok := p.Type().Underlying().(*types.Basic); ok {
						sources = append(sources, p)
					}
				}
			}
			for _, b := range fn.Blocks {
				for _, in := range b.Instrs {
					switch x := in.(type) {
					case *ssa.UnOp:
						if x.Op == token.MUL {
							if f := core.LoadedField(x); f != nil && log2Name.MatchString(f.Name()) {
								if _, ok := x.Type().Underlying().(*types.Basic); ok {
									sources = append(sources, x)
								}
							}
						}
					case *ssa.Field:
						if st, ok := x.X.Type().Underlying().(*types.Struct); ok && log2Name.MatchString(st.Field(x.Field).Name()) {
							sources = append(sources, x)
						}
					}
				}
			}
			for _, src := range sources {
				st.Instances++
				c.MarkAnalysed(fn)
				var bad ssa.Instruction
				what := ""
				seen := map[ssa.Value]bool{}
				var follow func(v ssa.Value, d int)
				follow = func(v ssa.Value, d int) {
					if d > 6 || seen[v] || v.Referrers() == nil || bad != nil {
						return
					}
					seen[v] = true
					for _, r := range *v.Referrers() {
						switch x := r.(type) {
						case *ssa.Convert:
							follow(x, d+1)
						case *ssa.ChangeType:
							follow(x, d+1)
						case *ssa.Phi:
							follow(x, d+1)
						case *ssa.BinOp:
							switch x.Op {
							case token.SHL, token.SHR:
								if x.X == v && x.Y != v {
									// the exponent is itself shifted: it is being used as a quantity
									if _, isC := x.Y.(*ssa.Const); !isC {
										bad, what = x, "shifted as if it were a quantity"
									}
								}
							case token.ADD, token.SUB:
								follow(x, d+1)
							case token.MUL, token.QUO, token.REM:
								bad, what = x, "an operand of "+x.Op.String()
							}
						case *ssa.Store:
							if x.Val != v {
								continue
							}
							if f := core.FieldOfAddr(x.Addr); f != nil && !log2Name.MatchString(f.Name()) {
								bad, what = x, "stored into the field "+f.Name()
							}
						case *ssa.Call:
							cal := x.Call.StaticCallee()
							if cal == nil || cal.Pkg == nil || len(cal.Params) == 0 {
								continue
							}
							if cal.Pkg.Pkg.Path() != fn.Pkg.Pkg.Path() && !hasPrefixPath(cal.Pkg.Pkg.Path(), core.ModPath) {
								continue
							}
							if log2Name.MatchString(cal.Name()) {
								continue
							}
							for i, a := range x.Call.Args {
								if a == v && i < len(cal.Params) && !log2Name.MatchString(cal.Params[i].Name()) {
									bad, what = x, "passed to "+core.FuncName(cal)+" as its parameter "+cal.Params[i].Name()
								}
							}
						}
					}
				}
				follow(src, 0)
				st.Ob(bad == nil)
				if bad != nil {
					c.ReportAt(rule, fn, bad.Pos(), "exponent-used-as-size:"+core.FuncName(fn), core.FuncName(fn)+" reads an exponent ("+short(core.NewLocalProv(c).Of(src))+") and it is "+what+", which is not log2-named: the receiving side takes log2(bytes) for bytes. "+why)
				}
			}
		}
	}
}

func hasPrefixPath(p, prefix string) bool {
	return len(p) >= len(prefix) && p[:len(prefix)] == prefix
}
