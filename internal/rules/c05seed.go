package rules

import (
	"fmt"
	"go/ast"
	"go/parser"
	"go/token"
	"os"
	"path/filepath"
	"regexp"
	"sort"
	"strconv"
	"strings"

	"verif/internal/core"
)

// R05.6: a workload that seeds the global generator to pin its inputs gets pinned inputs.
//
// Since Go 1.24, math/rand.Seed is a no-op in a module whose go.mod says go >= 1.24
// unless GODEBUG randseednop=0 is in force; the global generator is then seeded from
// the host on every run. Every file of the module (tests excluded) is parsed, the
// import that `rand` refers to is resolved per file, and each call math/rand.Seed(k)
// is an obligation on go.mod: a go directive below 1.24, or a godebug line
// randseednop=0 (which applies to every main package of the module).
func checkSeedEffective(c *core.Ctx) {
	st := c.Rule("R05.6", "a benchmark or sample that calls math/rand.Seed(k) to pin its inputs runs with pinned inputs: the module's go.mod has a go directive below 1.24 or a `godebug randseednop=0` line; otherwise Seed is a no-op, the inputs (and with them kernel times and every counter) differ from run to run", 8)
	mod, err := os.ReadFile(filepath.Join(core.RepoDir, "go.mod"))
	if err != nil {
		c.Report(core.Finding{Rule: "R05.6", Kind: "anchor", Pkg: ".", Func: "go.mod", Detail: "anchor", Msg: "go.mod not readable"})
		return
	}
	effective := false
	why := ""
	if m := regexp.MustCompile(`(?m)^go\s+(\d+)\.(\d+)`).FindStringSubmatch(string(mod)); m != nil {
		maj, _ := strconv.Atoi(m[1])
		min, _ := strconv.Atoi(m[2])
		if maj == 1 && min < 24 {
			effective = true
		}
		why = "go " + m[1] + "." + m[2]
	}
	if regexp.MustCompile(`(?m)^\s*(godebug\s+)?randseednop=0\s*$`).Match(mod) && regexp.MustCompile(`(?m)^godebug\b`).Match(mod) {
		effective = true
	}
	var files []string
	filepath.Walk(core.RepoDir, func(path string, info os.FileInfo, err error) error {
		if err != nil {
			return nil
		}
		if info.IsDir() {
			n := info.Name()
			if n == ".git" || n == "node_modules" || n == "testdata" || (strings.HasPrefix(n, "_") && path != core.RepoDir) {
				return filepath.SkipDir
			}
			// nested modules are separate builds
			if path != core.RepoDir {
				if _, e := os.Stat(filepath.Join(path, "go.mod")); e == nil {
					return filepath.SkipDir
				}
			}
			return nil
		}
		if strings.HasSuffix(path, ".go") && !strings.HasSuffix(path, "_test.go") {
			files = append(files, path)
		}
		return nil
	})
	sort.Strings(files)
	fset := token.NewFileSet()
	parsed := 0
	for _, f := range files {
		src, err := os.ReadFile(f)
		if err != nil || !strings.Contains(string(src), "Seed(") {
			continue
		}
		af, err := parser.ParseFile(fset, f, src, 0)
		if err != nil {
			continue
		}
		parsed++
		local := ""
		for _, im := range af.Imports {
			if p, _ := strconv.Unquote(im.Path.Value); p == "math/rand" {
				local = "rand"
				if im.Name != nil {
					local = im.Name.Name
				}
			}
		}
		if local == "" || local == "_" {
			continue
		}
		rel, _ := filepath.Rel(core.RepoDir, f)
		for _, d := range af.Decls {
			fd, ok := d.(*ast.FuncDecl)
			if !ok || fd.Body == nil {
				continue
			}
			ast.Inspect(fd.Body, func(n ast.Node) bool {
				call, ok := n.(*ast.CallExpr)
				if !ok {
					return true
				}
				sel, ok := call.Fun.(*ast.SelectorExpr)
				if !ok || sel.Sel.Name != "Seed" {
					return true
				}
				id, ok := sel.X.(*ast.Ident)
				if !ok || id.Name != local || id.Obj != nil { // id.Obj != nil: a local variable shadows the package
					return true
				}
				st.Instances++
				st.Ob(effective)
				if !effective {
					pos := fset.Position(call.Pos())
					c.Report(core.Finding{Rule: "R05.6", Pkg: filepath.Dir(rel), Func: core.DeclName(fd), Detail: "seed-is-a-no-op", Pos: fmt.Sprintf("%s:%d", rel, pos.Line),
						Msg: fmt.Sprintf("%s calls rand.Seed to pin its inputs, but go.mod says %s without `godebug randseednop=0`: since Go 1.24 the call does nothing and the global generator is seeded from the host, so two runs of this workload use different inputs (floydwarshall: kernel_time 89.169 / 89.341 / 89.376 us over three runs)", core.DeclName(fd), why)})
				}
				return true
			})
		}
	}
	st.Sample("%d files mention Seed(; go.mod: %s; seed effective: %v", parsed, why, effective)
}
