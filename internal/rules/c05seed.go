package rules

import (
	"fmt"
	"go/ast"
	"go/parser"
	"go/token"
	"os"
	"path/filepath"
	"regexp"
	"sort"
	"strconv"
	"strings"

	"golang.org/x/tools/go/ssa"

	"verif/internal/core"
)

// R05.6: a workload that seeds the global generator to pin its inputs gets pinned inputs.
//
// Since Go 1.24, math/rand.Seed is a no-op in a module whose go.mod says go >= 1.24
// unless GODEBUG randseednop=0 is in force; the global generator is then seeded from
// the host on every run. Every file of the module (tests excluded) is parsed, the
// import that `rand` refers to is resolved per file, and each call math/rand.Seed(k)
// is an obligation on go.mod: a go directive below 1.24, or a godebug line
// randseednop=0 (which applies to every main package of the module).
func checkSeedEffective(c *core.Ctx) {
	st := c.Rule("R05.6", "a benchmark or sample that calls math/rand.Seed(k) to pin its inputs runs with pinned inputs: the module's go.mod has a go directive below 1.24 or a `godebug randseednop=0` line; otherwise Seed is a no-op, the inputs (and with them kernel times and every counter) differ from run to run", 8)
	mod, err := os.ReadFile(filepath.Join(core.RepoDir, "go.mod"))
	if err != nil {
		c.Report(core.Finding{Rule: "R05.6", Kind: "anchor", Pkg: ".", Func: "go.mod", Detail: "anchor", Msg: "go.mod not readable"})
		return
	}
	effective := false
	why := ""
	if m := regexp.MustCompile(`(?m)^go\s+(\d+)\.(\d+)`).FindStringSubmatch(string(mod)); m != nil {
		maj, _ := strconv.Atoi(m[1])
		min, _ := strconv.Atoi(m[2])
		if maj == 1 && min < 24 {
			effective = true
		}
		why = "go " + m[1] + "." + m[2]
	}
	if regexp.MustCompile(`(?m)^\s*(godebug\s+)?randseednop=0\s*$`).Match(mod) && regexp.MustCompile(`(?m)^godebug\b`).Match(mod) {
		effective = true
	}
	var files []string
	filepath.Walk(core.RepoDir, func(path string, info os.FileInfo, err error) error {
		if err != nil {
			return nil
		}
		if info.IsDir() {
			n := info.Name()
			if n == ".git" || n == "node_modules" || n == "testdata" || (strings.HasPrefix(n, "_") && path != core.RepoDir) {
				return filepath.SkipDir
			}
			// nested modules are separate builds
			if path != core.RepoDir {
				if _, e := os.Stat(filepath.Join(path, "go.mod")); e == nil {
					return filepath.SkipDir
				}
			}
			return nil
		}
		if strings.HasSuffix(path, ".go") && !strings.HasSuffix(path, "_test.go") {
			files = append(files, path)
		}
		return nil
	})
	sort.Strings(files)
	fset := token.NewFileSet()
	parsed := 0
	for _, f := range files {
		src, err := os.ReadFile(f)
		if err != nil || !strings.Contains(string(src), "Seed(") {
			continue
		}
		af, err := parser.ParseFile(fset, f, src, 0)
		if err != nil {
			continue
		}
		parsed++
		local := ""
		for _, im := range af.Imports {
			if p, _ := strconv.Unquote(im.Path.Value); p == "math/rand" {
				local = "rand"
				if im.Name != nil {
					local = im.Name.Name
				}
			}
		}
		if local == "" || local == "_" {
			continue
		}
		rel, _ := filepath.Rel(core.RepoDir, f)
		for _, d := range af.Decls {
			fd, ok := d.(*ast.FuncDecl)
			if !ok || fd.Body == nil {
				continue
			}
			ast.Inspect(fd.Body, func(n ast.Node) bool {
				call, ok := n.(*ast.CallExpr)
				if !ok {
					return true
				}
				sel, ok := call.Fun.(*ast.SelectorExpr)
				if !ok || sel.Sel.Name != "Seed" {
					return true
				}
				id, ok := sel.X.(*ast.Ident)
				if !ok || id.Name != local || id.Obj != nil { // id.Obj != nil: a local variable shadows the package
					return true
				}
				st.Instances++
				st.Ob(effective)
				if !effective {
					pos := fset.Position(call.Pos())
					c.Report(core.Finding{Rule: "R05.6", Pkg: filepath.Dir(rel), Func: core.DeclName(fd), Detail: "seed-is-a-no-op", Pos: fmt.Sprintf("%s:%d", rel, pos.Line),
						Msg: fmt.Sprintf("%s calls rand.Seed to pin its inputs, but go.mod says %s without `godebug randseednop=0`: since Go 1.24 the call does nothing and the global generator is seeded from the host, so two runs of this workload use different inputs (floydwarshall: kernel_time 89.169 / 89.341 / 89.376 us over three runs)", core.DeclName(fd), why)})
				}
				return true
			})
		}
	}
	st.Sample("%d files mention Seed(; go.mod: %s; seed effective: %v", parsed, why, effective)
}

// R05.7: the application continues only when the simulation goroutine is quiescent.
//
// The engine runs on its own goroutine (Driver.runEngine holds Driver.engineMutex for
// the whole of Engine.Run). The application is released from DrainCommandQueue from
// inside Driver.Tick, as soon as the queue is empty - while the engine still has the
// events behind that tick to process. The next API call schedules the driver's tick
// "one cycle after now", and now is wherever the engine goroutine got to: 0, 1 or 2
// cycles. A quiescence wait is an acquisition of Driver.engineMutex (directly or in a
// driver function called on the way).
func checkQuiescence(c *core.Ctx, pdrv *PkgInfo) {
	st := c.Rule("R05.7", "the application thread resumes only when the simulation goroutine is quiescent: (a) every return of a driver function that woke the simulation goroutine (a send on Driver.enqueueSignal) is reached through an acquisition of Driver.engineMutex, the mutex runEngine holds for the whole of Engine.Run (directly or inside a driver function called on that path); (b) samples/runner.Runner.Run reads the engine (report, CurrentTime) only after such a wait. Otherwise the time of the next command, the reported total time and every counter sampled at report time depend on how far the engine goroutine got on the host", 2)
	waits := map[*ssa.Function]bool{}
	isDirectWait := func(in ssa.Instruction) bool {
		cc := core.CallOf(in)
		if cc == nil || cc.IsInvoke() {
			return false
		}
		cal := cc.StaticCallee()
		if cal == nil || cal.Name() != "Lock" || len(cc.Args) == 0 {
			return false
		}
		f := core.LoadedField(cc.Args[0])
		if f == nil {
			if fa, ok := cc.Args[0].(*ssa.FieldAddr); ok {
				return fieldNameOf(fa) == "engineMutex"
			}
			return false
		}
		return core.ShortFieldID(f) == "Driver.engineMutex"
	}
	// driver functions that wait (fixpoint over static calls)
	for changed := true; changed; {
		changed = false
		for _, fn := range pdrv.Funcs {
			if waits[fn] || fn.Name() == "runEngine" {
				continue
			}
			for _, b := range fn.Blocks {
				for _, in := range b.Instrs {
					if isDirectWait(in) {
						waits[fn] = true
					} else if cc := core.CallOf(in); cc != nil && cc.StaticCallee() != nil && waits[cc.StaticCallee()] {
						waits[fn] = true
					}
				}
			}
			if waits[fn] {
				changed = true
			}
		}
	}
	isWait := func(n *core.Node) bool {
		if isDirectWait(n.Instr) {
			return true
		}
		if cc := core.CallOf(n.Instr); cc != nil && cc.StaticCallee() != nil && waits[cc.StaticCallee()] {
			return true
		}
		return false
	}
	// (a)
	pdrv.Instrs(func(fn *ssa.Function, in ssa.Instruction) {
		snd, ok := in.(*ssa.Send)
		if !ok {
			return
		}
		f := core.LoadedField(snd.Chan)
		if f == nil || core.ShortFieldID(f) != "Driver.enqueueSignal" {
			return
		}
		st.Instances++
		c.MarkAnalysed(fn)
		g := core.BuildGraph(fn, 0, nil)
		bad := false
		for _, sn := range g.NodesWhere(func(n *core.Node) bool { return n.Instr == in }) {
			g.Walk(core.After(sn, nil), core.WalkOpts{Stop: isWait}, func(s core.State) {
				if _, isR := s.N.Instr.(*ssa.Return); isR {
					bad = true
				}
			})
		}
		st.Ob(!bad)
		if bad {
			c.ReportAt("R05.7", fn, in.Pos(), "resume-before-quiescent", core.FuncName(fn)+" wakes the simulation goroutine and returns to the application as soon as the queue is empty, without waiting for that goroutine to finish the events behind the releasing tick: six runs of 1500 MemCopyH2D calls gave three different end times (the next command starts 0, 1 or 2 cycles after the previous one completed), and a drain of an idle queue races with the engine it just started")
		}
	})
	// (b)
	const runnerPkg = "amd/samples/runner"
	if run := c.SSAFunc(runnerPkg, "Runner.Run"); run != nil {
		st.Instances++
		c.MarkAnalysed(run)
		g := core.BuildGraph(run, 0, nil)
		isRunnerWait := func(n *core.Node) bool {
			cc := core.CallOf(n.Instr)
			return cc != nil && cc.StaticCallee() != nil && waits[cc.StaticCallee()]
		}
		bad := false
		for _, rn := range g.NodesWhere(func(n *core.Node) bool {
			cc := core.CallOf(n.Instr)
			if cc == nil || cc.StaticCallee() == nil {
				return false
			}
			nm := cc.StaticCallee().Name()
			return nm == "report" || nm == "CurrentTime"
		}) {
			if !g.Guarded(rn, func(n *core.Node, i int) bool { return false }) {
				// reachable: is there a path from entry that avoids every wait?
				reach, _ := g.Reach([]core.State{{N: g.Entry}}, core.WalkOpts{Stop: isRunnerWait})
				if reach[rn] {
					bad = true
				}
			}
		}
		st.Ob(!bad)
		if bad {
			c.ReportAt("R05.7", run, run.Pos(), "report-before-quiescent", "Runner.Run reports (and lets its caller read Engine().CurrentTime()) right after the benchmarks returned, while the engine goroutine may still be processing the events behind the last command: with the engine stalled after the last command CurrentTime() at return is 2.199 us instead of 2.200 us and 8 of 90 metric rows of fir differ")
		}
	} else if c.Pkg(runnerPkg) != nil {
		c.Report(core.Finding{Rule: "R05.7", Kind: "anchor", Pkg: runnerPkg, Func: "Runner.Run", Detail: "anchor", Msg: "Runner.Run not found"})
	}
}
