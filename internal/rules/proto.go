package rules

import (
	"fmt"
	"go/types"
	"os"
	"regexp"
	"sort"
	"strings"

	"golang.org/x/tools/go/ssa"

	"verif/internal/core"
)

// SEND-DISCIPLINE engine (DESIGN section 3).
//
// Scope of one analysis: a root function plus the static callees of the same
// package that (transitively) contain a Send or a commit action, inlined to
// depth 3. Roots are all functions with a direct Send or a direct commit
// action.
//
//   send.unchecked  the result of sim.Port.Send is discarded and the call is
//                   not guarded by CanSend() on the same port
//   send.commit-on-failure
//                   a commit action is reachable (within the same loop
//                   iteration) on a path on which the Send returned non-nil
//   send.consume-before-send
//                   an input-consuming action (RetrieveIncoming, buffer Pop)
//                   precedes, in the same iteration, a Send that can fail: the
//                   input is gone and the output may be lost

type Effect struct {
	Label   string
	Consume bool // the action consumes the handler's input
	// ConsumesPeeked: counts as consuming the peeked input for the
	// success-consumes rule (e.g. a pop of the queue the input came from).
	ConsumesPeeked bool
	Match          func(n *core.Node) bool
}

type ProtoCfg struct {
	RuleBase string // e.g. "R15.1"
	Pkg      string
	Effects  []Effect
	// Exempt: (function, effect label) pairs that are deliberately not commit
	// actions in that function, each with a reason.
	Exempt map[string]string
	// SkipRoots: functions that only sequence independent handlers.
	SkipRoots  map[string]string
	FloorSends int
	// ExtraPeek: other ways a handler looks at its input without consuming it
	// (e.g. sim.Buffer.Peek); returns the name of the input.
	ExtraPeek func(n *core.Node) (string, bool)
	// OnlyFuncs restricts reporting to Sends / effects inside functions whose
	// name satisfies the predicate (a package may host several components).
	OnlyFuncs func(name string) bool
	// AllEffectsAfterSend: every listed effect (not only input-consuming ones)
	// must not precede, in the same iteration, a Send that can fail: bookkeeping
	// done before a failed Send is repeated on the retry.
	AllEffectsAfterSend bool
	// NoProgressRule disables progress-after-consume for this component.
	NoProgressRule bool
}

type sendSite struct {
	root *ssa.Function
	node *core.Node
}

func portOfCall(in ssa.Instruction) string {
	cc := core.CallOf(in)
	if cc == nil || !cc.IsInvoke() {
		return "?"
	}
	if f := core.LoadedField(cc.Value); f != nil {
		return f.Name()
	}
	// method call result e.g. cu.DispatchingPort()
	if c, ok := cc.Value.(*ssa.Call); ok {
		if f := core.CalleeFunc(c); f != nil {
			return f.Name() + "()"
		}
	}
	return cc.Value.Name()
}

func isSend(n *core.Node) bool     { return core.IsPortMethod(n.Instr, "Send") }
func isRetrieve(n *core.Node) bool { return core.IsPortMethod(n.Instr, "RetrieveIncoming") }
func isPeek(n *core.Node) bool     { return core.IsPortMethod(n.Instr, "PeekIncoming") }

var RetrieveEffect = Effect{Label: "RetrieveIncoming", Consume: true, Match: isRetrieve}

// CallEffect matches calls to the functions with the given FuncIDs.
func CallEffect(label string, consume bool, ids ...string) Effect {
	return Effect{Label: label, Consume: consume, Match: func(n *core.Node) bool { return core.IsCall(n.Instr, ids...) }}
}

// FieldWriteEffect matches stores / map updates / deletes on the named fields
// ("Struct.field").
func FieldWriteEffect(label string, fields ...string) Effect {
	set := map[string]bool{}
	for _, f := range fields {
		set[f] = true
	}
	return Effect{Label: label, Match: func(n *core.Node) bool {
		f := writtenField(n.Instr)
		return f != nil && set[core.ShortFieldID(f)]
	}}
}

// writtenField returns the struct field written by the instruction: a Store
// to its address, a MapUpdate / delete on the loaded map.
func writtenField(in ssa.Instruction) *types.Var {
	switch in := in.(type) {
	case *ssa.Store:
		return core.FieldOfAddr(in.Addr)
	case *ssa.MapUpdate:
		return core.LoadedField(in.Map)
	case *ssa.Call:
		if core.IsBuiltin(in, "delete") && len(in.Call.Args) > 0 {
			return core.LoadedField(in.Call.Args[0])
		}
	}
	return nil
}

type protoResult struct {
	Sends     int
	Roots     int
	Unchecked int
}

func (cfg *ProtoCfg) effectOf(n *core.Node) (Effect, bool) {
	for _, e := range cfg.Effects {
		if e.Match(n) {
			return e, true
		}
	}
	return Effect{}, false
}

// RunProto runs the SEND-DISCIPLINE rules over one package.
func RunProto(c *core.Ctx, cfg *ProtoCfg) protoResult {
	var res protoResult
	funcs := c.SrcFuncs(cfg.Pkg)
	pkg := c.SSAPkg(cfg.Pkg)
	stUn := c.Rule(cfg.RuleBase+".unchecked", "the error result of every sim.Port.Send is tested (or the call is dominated by CanSend()==true on the same port)", 0)
	stFail := c.Rule(cfg.RuleBase+".commit-on-failure", "no commit action (consume input, table/queue update, counter) is reachable in the same iteration on a path where Send returned an error", 0)
	stCons := c.Rule(cfg.RuleBase+".success-consumes", "when a handler peeked an input and its Send succeeded, every path to the handler's return consumes that input (else it is handled twice)", 0)
	stProg := c.Rule(cfg.RuleBase+".progress-after-consume", "a boolean step function that consumed a message returns true on every path from there (else the ticking component can sleep with input pending)", 0)
	stPre := c.Rule(cfg.RuleBase+".consume-before-send", "no input-consuming action precedes, in the same iteration, a Send that can fail", 0)

	direct := map[*ssa.Function]bool{} // has direct send or effect
	has := map[*ssa.Function]bool{}
	callees := map[*ssa.Function][]*ssa.Function{}
	for _, fn := range funcs {
		for _, b := range fn.Blocks {
			for _, in := range b.Instrs {
				n := &core.Node{Instr: in, Block: b, Frame: &core.Frame{Fn: fn}}
				if isSend(n) || isPeek(n) {
					direct[fn] = true
				} else if cfg.ExtraPeek != nil {
					if _, ok := cfg.ExtraPeek(n); ok {
						direct[fn] = true
					}
				}
				if _, ok := cfg.effectOf(n); ok {
					direct[fn] = true
				}
				if call, ok := in.(*ssa.Call); ok {
					if cal := call.Call.StaticCallee(); cal != nil && cal.Pkg == pkg {
						callees[fn] = append(callees[fn], cal)
					}
				}
			}
		}
	}
	for fn := range direct {
		has[fn] = true
	}
	for changed := true; changed; {
		changed = false
		for _, fn := range funcs {
			if has[fn] {
				continue
			}
			for _, cal := range callees[fn] {
				if has[cal] {
					has[fn] = true
					changed = true
					break
				}
			}
		}
	}
	inline := func(callee *ssa.Function) bool { return callee.Pkg == pkg && has[callee] }

	seenSend := map[ssa.Instruction]bool{}
	for _, fn := range funcs {
		if !direct[fn] {
			continue
		}
		name := core.FuncName(fn)
		if _, skip := cfg.SkipRoots[name]; skip {
			continue
		}
		if cfg.OnlyFuncs != nil && !cfg.OnlyFuncs(name) {
			continue
		}
		c.MarkAnalysed(fn)
		res.Roots++
		g := core.BuildGraph(fn, 3, inline)
		sends := g.NodesWhere(isSend)
		effects := g.NodesWhere(func(n *core.Node) bool { _, ok := cfg.effectOf(n); return ok })
		for _, s := range sends {
			if !seenSend[s.Instr] {
				seenSend[s.Instr] = true
				res.Sends++
				stUn.Instances++
			}
			port := portOfCall(s.Instr)
			sv := s.Instr.(ssa.Value)
			canSendGuard := g.Guarded(s, func(n *core.Node, i int) bool {
				// cut the true edge of `if port.CanSend()` / false edge of `if !port.CanSend()`
				ifi, ok := n.Instr.(*ssa.If)
				if !ok {
					return false
				}
				cond, neg := stripNot(ifi.Cond)
				call, ok := cond.(*ssa.Call)
				if !ok || !core.IsPortMethod(call, "CanSend") || portOfCall(call) != port {
					return false
				}
				if neg {
					return i == 1
				}
				return i == 0
			})
			// unchecked: result has no referrers
			if s.Frame.Parent == nil || true {
				refs := sv.Referrers()
				used := refs != nil && len(*refs) > 0
				if s.Frame.Parent == nil {
					stUn.Ob(used || canSendGuard)
					if !used && !canSendGuard {
						res.Unchecked++
						c.ReportAt(cfg.RuleBase+".unchecked", s.Fn(), s.Instr.Pos(), "Send:"+port,
							"result of Send on "+port+" is discarded: on a full port the message is silently lost")
					} else {
						stUn.Sample("%s: Send on %s result tested (CanSend-guard=%v)", core.FuncName(s.Fn()), port, canSendGuard)
					}
				}
			}
			if canSendGuard {
				continue
			}
			if refs := sv.Referrers(); refs == nil || len(*refs) == 0 {
				continue // reported once as send.unchecked
			}
			// failure walk
			failReach, ok := g.Reach(core.After(s, core.FactFor(s, sv, 1)), core.WalkOpts{ForwardOnly: true})
			if !ok {
				c.Undecided(cfg.RuleBase+".commit-on-failure", fn, s.Instr.Pos(), "Send:"+port, "state cap hit")
				continue
			}
			for _, e := range effects {
				eff, _ := cfg.effectOf(e)
				if _, ex := cfg.Exempt[core.FuncName(e.Fn())+":"+eff.Label]; ex {
					continue
				}
				stFail.Instances++
				bad := failReach[e]
				stFail.Ob(!bad)
				if bad {
					// report only if the send value was actually discarded or mis-tested; both are violations
					c.ReportAt(cfg.RuleBase+".commit-on-failure", e.Fn(), e.Instr.Pos(),
						fmt.Sprintf("%s after failed Send:%s in %s", eff.Label, port, core.FuncName(s.Fn())),
						fmt.Sprintf("commit action %s is reachable although Send on %s (%s) failed [scope %s]", eff.Label, port, c.Position(s.Instr.Pos()), core.FuncName(fn)))
				} else {
					stFail.Sample("%s: %s not reachable after failed Send:%s", core.FuncName(fn), eff.Label, port)
				}
			}
		}
		// success-consumes: a handler that peeked its input at port P and sent
		// successfully must consume that input before returning, otherwise the
		// same input is handled again (duplicate output)
		for _, k := range g.NodesWhere(func(n *core.Node) bool {
			if isPeek(n) {
				return true
			}
			if cfg.ExtraPeek != nil {
				_, ok := cfg.ExtraPeek(n)
				return ok
			}
			return false
		}) {
			inPort := ""
			if isPeek(k) {
				inPort = portOfCall(k.Instr)
			} else {
				inPort, _ = cfg.ExtraPeek(k)
			}
			afterPeek, _ := g.Reach(core.After(k, nil), core.WalkOpts{ForwardOnly: true})
			var retrievesOnIn []*core.Node
			for _, r := range g.NodesWhere(isRetrieve) {
				if portOfCall(r.Instr) == inPort && afterPeek[r] {
					retrievesOnIn = append(retrievesOnIn, r)
				}
			}
			for _, s := range sends {
				if !afterPeek[s] {
					continue
				}
				// already consumed before the Send: that shape is judged by consume-before-send
				pre := false
				for _, r := range retrievesOnIn {
					ar, _ := g.Reach(core.After(r, nil), core.WalkOpts{ForwardOnly: true})
					if ar[s] {
						pre = true
					}
				}
				if pre {
					continue
				}
				if _, ex := cfg.Exempt[core.FuncName(s.Fn())+":success-consumes"]; ex {
					continue
				}
				stCons.Instances++
				sv := s.Instr.(ssa.Value)
				leak := false
				g.Walk(core.After(s, core.FactFor(s, sv, -1)), core.WalkOpts{ForwardOnly: true,
					Stop: func(n *core.Node) bool {
						if isRetrieve(n) && portOfCall(n.Instr) == inPort {
							return true
						}
						if e, ok := cfg.effectOf(n); ok && e.ConsumesPeeked {
							return true
						}
						return false
					}}, func(st core.State) {
					if _, ok := st.N.Instr.(*ssa.Return); ok && st.N.Frame.Parent == nil {
						leak = true
					}
				})
				stCons.Ob(!leak)
				if leak {
					c.ReportAt(cfg.RuleBase+".success-consumes", s.Fn(), s.Instr.Pos(),
						fmt.Sprintf("Send:%s without consuming %s", portOfCall(s.Instr), inPort),
						fmt.Sprintf("after a successful Send on %s a path returns without consuming the input peeked at %s: the same input is handled again and the output duplicated [scope %s]", portOfCall(s.Instr), inPort, core.FuncName(fn)))
				} else {
					stCons.Sample("%s: success of Send:%s always consumes input of %s", core.FuncName(fn), portOfCall(s.Instr), inPort)
				}
			}
		}
		// progress-after-consume: a step function that consumed its input must report progress,
		// otherwise the ticking component may go to sleep with further input already queued
		// (ports only wake a component when their buffer goes from empty to non-empty)
		if res := fn.Signature.Results(); res.Len() == 1 && types.Identical(res.At(0).Type(), types.Typ[types.Bool]) && !cfg.NoProgressRule {
			for _, e := range effects {
				eff, _ := cfg.effectOf(e)
				if !eff.Consume || eff.Label != "RetrieveIncoming" {
					continue
				}
				if _, ex := cfg.Exempt[core.FuncName(fn)+":progress"]; ex {
					continue
				}
				stProg.Instances++
				bad := false
				var start core.Facts
				if rv, isV := e.Instr.(ssa.Value); isV {
					start = core.FactFor(e, rv, 1) // a message was actually retrieved (non-nil)
				}
				g.Walk(core.After(e, start), core.WalkOpts{ForwardOnly: true}, func(x core.State) {
					r, ok := x.N.Instr.(*ssa.Return)
					if !ok || x.N.Frame.Parent != nil || len(r.Results) != 1 {
						return
					}
					if v, isC := core.ConstBool(r.Results[0]); isC {
						if !v {
							bad = true
						}
						return
					}
					if call, isCall := r.Results[0].(*ssa.Call); isCall {
						if cal := call.Call.StaticCallee(); cal != nil && alwaysReturnsTrue(cal) {
							return
						}
					}
					if core.EvalFact(x.N, r.Results[0], x.F) <= 0 {
						bad = true
					}
				})
				stProg.Ob(!bad)
				if bad {
					c.ReportAt(cfg.RuleBase+".progress-after-consume", fn, e.Instr.Pos(), "no-progress-after:"+portOfCall(e.Instr),
						fmt.Sprintf("%s can return false (no progress) on a path on which it consumed a message from %s: the component may stop ticking while further messages wait in the port, which is never drained again", core.FuncName(fn), portOfCall(e.Instr)))
				} else {
					stProg.Sample("%s: reports progress on every path after consuming from %s", core.FuncName(fn), portOfCall(e.Instr))
				}
			}
		}
		// consume-before-send
		for _, e := range effects {
			eff, _ := cfg.effectOf(e)
			if !eff.Consume && !cfg.AllEffectsAfterSend {
				continue
			}
			if _, ex := cfg.Exempt[core.FuncName(e.Fn())+":"+eff.Label+":pre"]; ex {
				continue
			}
			after, _ := g.Reach(core.After(e, nil), core.WalkOpts{ForwardOnly: true})
			for _, s := range sends {
				if refs := s.Instr.(ssa.Value).Referrers(); refs == nil || len(*refs) == 0 {
					continue // a discarded result is reported once as send.unchecked
				}
				stPre.Instances++
				bad := after[s]
				if bad {
					// a CanSend-guarded send cannot fail
					port := portOfCall(s.Instr)
					_ = port
				}
				stPre.Ob(!bad)
				if bad {
					c.ReportAt(cfg.RuleBase+".consume-before-send", e.Fn(), e.Instr.Pos(),
						fmt.Sprintf("%s before Send:%s in %s", eff.Label, portOfCall(s.Instr), core.FuncName(s.Fn())),
						fmt.Sprintf("%s consumes the input before Send on %s (%s), which can fail: the response is lost on back-pressure [scope %s]", eff.Label, portOfCall(s.Instr), c.Position(s.Instr.Pos()), core.FuncName(fn)))
				} else {
					stPre.Sample("%s: %s does not precede Send:%s", core.FuncName(fn), eff.Label, portOfCall(s.Instr))
				}
			}
		}
	}
	if res.Sends < cfg.FloorSends {
		c.Report(core.Finding{Rule: cfg.RuleBase + ".unchecked", Kind: "floor", Pkg: cfg.Pkg, Func: "-", Detail: "floor",
			Msg: fmt.Sprintf("%d Send sites found in %s, hand-confirmed floor is %d", res.Sends, cfg.Pkg, cfg.FloorSends)})
	}
	return res
}

func stripNot(v ssa.Value) (ssa.Value, bool) {
	neg := false
	for {
		u, ok := v.(*ssa.UnOp)
		if !ok || u.Op.String() != "!" {
			return v, neg
		}
		neg = !neg
		v = u.X
	}
}

// DebugProto prints every Send site with its classification (used while
// developing configs).
func DebugProto(c *core.Ctx, pkgs []string) {
	for _, p := range pkgs {
		cfg := &ProtoCfg{RuleBase: "DBG", Pkg: p, Effects: []Effect{RetrieveEffect}}
		before := len(c.Findings)
		r := RunProto(c, cfg)
		fmt.Printf("== %s: %d sends, %d roots\n", p, r.Sends, r.Roots)
		fs := c.Findings[before:]
		sort.Slice(fs, func(i, j int) bool { return fs[i].Pos < fs[j].Pos })
		for _, f := range fs {
			fmt.Printf("   %s %s %s [%s] %s\n", strings.TrimPrefix(f.Rule, "DBG."), f.Pos, f.Func, f.Detail, f.Msg)
		}
	}
}

// DebugProv prints builder chains, Send arguments and field stores with their
// provenance (development aid).
func DebugProv(c *core.Ctx, pkgs []string) {
	prov := core.NewProv(c)
	for _, rel := range pkgs {
		p := NewPkgInfo(c, rel)
		for _, fn := range p.Funcs {
			for _, bc := range core.BuilderChains(fn) {
				fmt.Printf("%s: %s\n", core.FuncName(fn), bc.Builder)
				for _, s := range bc.Order {
					if len(bc.Setters[s]) > 0 {
						fmt.Printf("     .%s(%s)\n", s, prov.Of(bc.Setters[s][0]))
					} else {
						fmt.Printf("     .%s()\n", s)
					}
				}
			}
			for _, b := range fn.Blocks {
				for _, in := range b.Instrs {
					if core.IsPortMethod(in, "Send") {
						fmt.Printf("%s: %s.Send(%s)\n", core.FuncName(fn), portOfCall(in), prov.Of(core.CallOf(in).Args[0]))
					}
					if mu, ok := in.(*ssa.MapUpdate); ok {
						fmt.Printf("%s: %s[%s] = %s\n", core.FuncName(fn), prov.Of(mu.Map), prov.Of(mu.Key), prov.Of(mu.Value))
					}
					if cf := core.CalleeFunc(in); cf != nil && os.Getenv("DBG_CALLS") != "" {
						var as []string
						for _, a := range core.CallOf(in).Args {
							as = append(as, prov.Of(a))
						}
						fmt.Printf("%s: call %s(%s)\n", core.FuncName(fn), core.FuncID(cf), strings.Join(as, ", "))
					}
					if iff, ok := in.(*ssa.If); ok && os.Getenv("DBG_CALLS") != "" {
						fmt.Printf("%s: if %s\n", core.FuncName(fn), prov.Of(iff.Cond))
					}
					if st, ok := in.(*ssa.Store); ok {
						if f := core.FieldOfAddr(st.Addr); f != nil {
							fmt.Printf("%s: store %s := %s   [base %s]\n", core.FuncName(fn), core.ShortFieldID(f), prov.Of(st.Val), prov.Of(st.Addr.(*ssa.FieldAddr).X))
						}
					}
				}
			}
		}
	}
}

// isInOrderFilter: pv describes a slice that starts empty and is only ever
// extended, in iteration order, by the current element of listExpr.
func isInOrderFilter(pv, listExpr string) bool {
	elem := regexp.QuoteMeta(listExpr) + `\[[^\[\]]*(\[[^\[\]]*\])?[^\[\]]*\]`
	s := regexp.MustCompile(`append\(@,\[&?`+elem+`\]\)`).ReplaceAllString(pv, "A")
	s = strings.ReplaceAll(s, "make(slice)", "E")
	s = strings.ReplaceAll(s, "iter(", "(")
	if !strings.Contains(s, "A") || !strings.Contains(s, "E") {
		return false
	}
	return core.ProvMatch(regexp.MustCompile(`^[(){}|@AE]*$`), s)
}

// CheckRetryLists decides the retry-list idiom: a Send whose message is an
// element of a slice field L must, on failure, keep exactly that element in
// the list that replaces L, and on success must not keep it.
func CheckRetryLists(c *core.Ctx, p *PkgInfo, rule string, floor int) {
	st := c.Rule(rule, "retry lists: a message taken from a pending list is, on a failed Send, appended to the list that replaces the pending list (same element), on a successful Send it is not; the replacement list is an in-order filter of the pending list", floor)
	prov := core.NewProv(c)
	for _, fn := range p.Funcs {
		var g *core.Graph
		for _, b := range fn.Blocks {
			for _, in := range b.Instrs {
				if !core.IsPortMethod(in, "Send") {
					continue
				}
				msg := prov.Of(core.CallOf(in).Args[0])
				m := regexp.MustCompile(`^(recv\.\w+)\[.*\]$`).FindStringSubmatch(msg)
				if m == nil {
					continue
				}
				list := m[1]
				if g == nil {
					g = core.BuildGraph(fn, 0, nil)
				}
				c.MarkAnalysed(fn)
				st.Instances++
				var s *core.Node
				for _, n := range g.Nodes {
					if n.Instr == in {
						s = n
					}
				}
				isKeep := func(n *core.Node) bool {
					call, ok := n.Instr.(*ssa.Call)
					if !ok || !core.IsBuiltin(call, "append") || len(call.Call.Args) < 2 {
						return false
					}
					return prov.Of(call.Call.Args[1]) == "["+msg+"]"
				}
				sv := in.(ssa.Value)
				lost := false
				g.Walk(core.After(s, core.FactFor(s, sv, 1)), core.WalkOpts{ForwardOnly: true, Stop: isKeep}, func(x core.State) {
					if isKeep(x.N) {
						return
					}
					if _, ok := x.N.Instr.(*ssa.Return); ok {
						lost = true
					}
					for _, sc := range x.N.Succs {
						if g.IsBack(x.N, sc) {
							lost = true
						}
					}
					if f := writtenField(x.N.Instr); f != nil && "recv."+f.Name() == list {
						lost = true
					}
				})
				st.Ob(!lost)
				port := portOfCall(in)
				if lost {
					c.ReportAt(rule, fn, in.Pos(), "Send:"+port+":lost-on-failure", "when Send on "+port+" fails the message "+msg+" is not kept in the retry list: it is lost under back-pressure")
				}
				dup := false
				g.Walk(core.After(s, core.FactFor(s, sv, -1)), core.WalkOpts{ForwardOnly: true}, func(x core.State) {
					if isKeep(x.N) {
						dup = true
					}
				})
				st.Ob(!dup)
				if dup {
					c.ReportAt(rule, fn, in.Pos(), "Send:"+port+":kept-on-success", "after a successful Send on "+port+" the message "+msg+" is still kept in the retry list: it is sent twice")
				}
				// the replacement
				found := false
				for _, b2 := range fn.Blocks {
					for _, in2 := range b2.Instrs {
						if f := writtenField(in2); f != nil && "recv."+f.Name() == list {
							if s2, ok := in2.(*ssa.Store); ok {
								found = true
								pv := prov.Of(s2.Val)
								ok2 := isInOrderFilter(pv, list)
								st.Ob(ok2)
								st.Sample("%s: Send(%s) on %s; %s := %s", core.FuncName(fn), msg, port, list, short(pv))
								if !ok2 {
									c.ReportAt(rule, fn, in2.Pos(), list+":replacement", "the pending list is replaced by "+short(pv)+", not by the in-order list of messages whose Send failed")
								}
							}
						}
					}
				}
				st.Ob(found)
				if !found {
					c.ReportAt(rule, fn, in.Pos(), list+":never-replaced", "messages of "+list+" are sent but the list is never replaced: every message is sent again on the next tick")
				}
			}
		}
	}
}

// alwaysReturnsTrue: every return of fn yields the constant true.
func alwaysReturnsTrue(fn *ssa.Function) bool {
	if len(fn.Blocks) == 0 {
		return false
	}
	n := 0
	for _, b := range fn.Blocks {
		for _, in := range b.Instrs {
			r, ok := in.(*ssa.Return)
			if !ok {
				continue
			}
			// a return that directly follows a no-return call (log.Panicf) is dead
			dead := false
			for _, i2 := range b.Instrs {
				if core.IsNoReturnCall(i2) {
					dead = true
				}
			}
			if dead {
				continue
			}
			n++
			if len(r.Results) != 1 {
				return false
			}
			if v, isC := core.ConstBool(r.Results[0]); !isC || !v {
				return false
			}
		}
	}
	return n > 0
}
