package rules

import (
	"go/token"
	"strings"

	"golang.org/x/tools/go/ssa"

	"verif/internal/core"
)

// loops.go: slips in loop headers and exits (twenty-seventh seeding batch).

// checkScanNotLeftByBreak: a loop that walks the named list is left at its end or by a return,
// never by a jump from its body to what follows the loop.
func checkScanNotLeftByBreak(c *core.Ctx, rule, text string, rel, fname, listSub string) {
	st := c.Rule(rule, text, 1)
	fn := c.MustFunc(rule, rel, fname)
	if fn == nil {
		return
	}
	c.MarkAnalysed(fn)
	prov := core.NewLocalProv(c)
	found := false
	for _, hdr := range fn.Blocks {
		if (hdr.Comment != "rangeindex.loop" && hdr.Comment != "for.loop") || len(hdr.Succs) != 2 {
			continue
		}
		// the ranged value: the len() the header compares with
		ranged := ""
		for _, in := range hdr.Instrs {
			if bo, ok := in.(*ssa.BinOp); ok {
				if call, ok := bo.Y.(*ssa.Call); ok && core.IsBuiltin(call, "len") {
					ranged = prov.Of(call.Call.Args[0])
				}
			}
		}
		for _, p := range hdr.Preds {
			for _, in := range p.Instrs {
				if call, ok := in.(*ssa.Call); ok && core.IsBuiltin(call, "len") && ranged == "" {
					ranged = prov.Of(call.Call.Args[0])
				}
			}
		}
		if !strings.Contains(ranged, listSub) {
			continue
		}
		found = true
		st.Instances++
		body, done := hdr.Succs[0], hdr.Succs[1]
		inLoop := map[*ssa.BasicBlock]bool{}
		var fill func(b *ssa.BasicBlock)
		fill = func(b *ssa.BasicBlock) {
			if inLoop[b] || b == hdr || b == done {
				return
			}
			inLoop[b] = true
			for _, s := range b.Succs {
				fill(s)
			}
		}
		fill(body)
		bad := false
		for _, p := range done.Preds {
			if p != hdr && inLoop[p] {
				bad = true
			}
		}
		st.Ob(!bad)
		if bad {
			c.ReportAt(rule, fn, hdr.Instrs[0].Pos(), "scan-left-by-break", fname+" leaves its walk over "+short(ranged)+" from inside the body: the elements behind that point are not looked at")
		}
	}
	if !found {
		st.Instances++
		st.Ob(false)
		c.Undecided(rule, fn, fn.Pos(), "scan:shape", fname+" no longer ranges over "+listSub)
	}
}

// R07.20: releasing a wavefront clears all 64 lanes.
func checkReleaseClearsAllLanes(c *core.Ctx) {
	st := c.Rule("R07.20", "SchedulerImpl.resetRegisterValue clears the vector registers of all 64 lanes the wavefront owns: it does not take its lane bound from wf.WorkItems. A partial wavefront has fewer work-items than lanes; initRegisters writes v0..v2 for all 64 lanes and instructions that ignore EXEC write more, so lanes left uncleared are read by the next wavefront dispatched to that SIMD and offset", 1)
	fn := c.MustFunc("R07.20", cuPkg, "SchedulerImpl.resetRegisterValue")
	if fn == nil {
		return
	}
	c.MarkAnalysed(fn)
	st.Instances++
	bad := false
	for _, b := range fn.Blocks {
		for _, in := range b.Instrs {
			if fa, ok := in.(*ssa.FieldAddr); ok && fieldNameOf(fa) == "WorkItems" {
				bad = true
				c.ReportAt("R07.20", fn, in.Pos(), "lanes-bounded-by-work-items", "resetRegisterValue bounds its lane loop by the wavefront's work-items: the lanes of a partial wavefront beyond them keep their contents")
			}
		}
	}
	st.Ob(!bad)
}

// R20.24: the scanner helper skips every empty line.
func checkScannerSkipsInALoop(c *core.Ctx) {
	st := c.Rule("R20.24", "moveScannerToNextLine calls Scan inside a loop: it skips every empty line up to the next record, not just one. With a single extra step a run of two empty lines leaves the scanner on an empty line; the warp loop takes it for the end of the block, and the block's warps and instructions vanish from the parsed trace", 1)
	fn := c.MustFunc("R20.24", nvTracePkg, "moveScannerToNextLine")
	if fn == nil {
		return
	}
	c.MarkAnalysed(fn)
	st.Instances++
	good := false
	for _, b := range fn.Blocks {
		for _, in := range b.Instrs {
			if f := core.CalleeFunc(in); f != nil && f.Name() == "Scan" && inCycle(b) {
				good = true
			}
		}
	}
	st.Ob(good)
	if !good {
		c.ReportAt("R20.24", fn, fn.Pos(), "scan-not-in-loop", "moveScannerToNextLine has no Scan call inside a loop: it can return on an empty line")
	}
}

// R09.21: a resource amount is converted to allocation units with the granularity of its own kind.
func checkUnitsUseOwnGranularity(c *core.Ctx) {
	st := c.Rule("R09.21", "every call of CUResourceImpl.unitsOccupy pairs the amount with the granularity of the same resource: WFSgprCount with sregGranularity, WIVgprCount with vregGranularity, the LDS bytes with ldsGranularity - on the reserve side and on the free side alike. Freed with another kind's granularity, a work-group gives back a different number of units than it took: the masks drift, and later work-groups are refused or placed on registers still in use", 6)
	pairs := [][2]string{{"WFSgprCount", "sregGranularity"}, {"WIVgprCount", "vregGranularity"}, {"ldsBytesRequired", "ldsGranularity"}}
	prov := core.NewLocalProv(c)
	for _, fn := range c.SrcFuncs(resPkg) {
		for _, b := range fn.Blocks {
			for _, in := range b.Instrs {
				call, ok := in.(*ssa.Call)
				if !ok {
					continue
				}
				f := call.Call.StaticCallee()
				if f == nil || f.Name() != "unitsOccupy" || len(call.Call.Args) != 3 {
					continue
				}
				c.MarkAnalysed(fn)
				st.Instances++
				amount, gran := prov.Of(call.Call.Args[1]), prov.Of(call.Call.Args[2])
				kind := ""
				for _, p := range pairs {
					if strings.Contains(amount, p[0]) {
						kind = p[1]
					}
				}
				if kind == "" && strings.Contains(gran, "ldsGranularity") {
					// the LDS amount has several spellings (helper, packet field, code object); it is
					// enough that it is not one of the two register counts
					st.Ob(true)
					continue
				}
				if kind == "" {
					st.Ob(false)
					c.Undecided("R09.21", fn, in.Pos(), "units:amount", "amount of unitsOccupy not recognised: "+short(amount))
					continue
				}
				ok2 := strings.Contains(gran, kind)
				st.Ob(ok2)
				if !ok2 {
					c.ReportAt("R09.21", fn, in.Pos(), "granularity-of-another-resource", "unitsOccupy converts "+short(amount)+" with "+short(gran)+", not with "+kind)
				}
			}
		}
	}
}

// checkWGCountersStepByOne: the dispatcher's work-group counters are compared with NumWG, which
// counts work-groups; each is reset to zero or moved by exactly one.
func checkWGCountersStepByOne(c *core.Ctx, rule string) {
	st := c.Rule(rule, "DispatcherImpl.numDispatchedWGs and numCompletedWGs count work-groups: every store is the constant zero or the field's own value plus one. They are compared with each other and with NumWG; advanced by another unit (wavefronts, dispatch locations), the kernel is reported complete while work-groups are still running, and what the application sees then depends on the host's pace", 4)
	for _, fn := range c.SrcFuncs(dispPkg) {
		for _, b := range fn.Blocks {
			for _, in := range b.Instrs {
				for _, fld := range []string{"DispatcherImpl.numDispatchedWGs", "DispatcherImpl.numCompletedWGs"} {
					s, ok := storeToField(in, fld)
					if !ok {
						continue
					}
					c.MarkAnalysed(fn)
					st.Instances++
					good := false
					if k, isC := core.ConstInt(s.Val); isC && k == 0 {
						good = true
					}
					if bo, isB := s.Val.(*ssa.BinOp); isB && bo.Op == token.ADD {
						x, y := bo.X, bo.Y
						if _, isC := core.ConstInt(x); isC {
							x, y = y, x
						}
						if k, isC := core.ConstInt(y); isC && k == 1 {
							if ld, isL := x.(*ssa.UnOp); isL && ld.Op == token.MUL {
								if f := core.FieldOfAddr(ld.X); f != nil && core.ShortFieldID(f) == fld {
									good = true
								}
							}
						}
					}
					st.Ob(good)
					if !good {
						c.ReportAt(rule, fn, in.Pos(), "counter-not-stepped-by-one:"+fld, fld+" is stored a value that is neither zero nor itself plus one")
					}
				}
			}
		}
	}
}

// checkUniversalScan: a predicate of the form "no element fails the test" walks the whole list
// (its loop bound is the list's own length) and leaves with false from the failing arm.
func checkUniversalScan(c *core.Ctx, rule, text, rel, fname, listSub, testSub string) {
	st := c.Rule(rule, text, 2)
	fn := c.MustFunc(rule, rel, fname)
	if fn == nil {
		return
	}
	c.MarkAnalysed(fn)
	prov := core.NewLocalProv(c)
	// (1) a loop bounded by len(list) itself
	st.Instances++
	whole := false
	for _, hdr := range fn.Blocks {
		if !inCycle(hdr) || len(hdr.Succs) != 2 {
			continue
		}
		iff, ok := hdr.Instrs[len(hdr.Instrs)-1].(*ssa.If)
		if !ok {
			continue
		}
		bo, ok := iff.Cond.(*ssa.BinOp)
		if !ok || bo.Op != token.LSS {
			continue
		}
		if call, ok := bo.Y.(*ssa.Call); ok && core.IsBuiltin(call, "len") && strings.Contains(prov.Of(call.Call.Args[0]), listSub) {
			whole = true
		}
	}
	st.Ob(whole)
	if !whole {
		c.ReportAt(rule, fn, fn.Pos(), "scan-not-over-whole-list", fname+" has no loop bounded by the length of "+listSub+" itself: some elements are never tested")
	}
	// (2) the failing arm leaves with false
	for _, b := range fn.Blocks {
		iff, ok := b.Instrs[len(b.Instrs)-1].(*ssa.If)
		if !ok || !strings.Contains(prov.Of(iff.Cond), testSub) {
			continue
		}
		st.Instances++
		good := false
		for _, s := range b.Succs {
			if leavesWithFalse(b, s) {
				good = true
			}
		}
		st.Ob(good)
		if !good {
			c.ReportAt(rule, fn, iff.Cond.Pos(), "failing-element-does-not-decide", fname+": neither arm of the test on "+testSub+" leaves the function with false - a failing element can be forgotten by the time the walk ends")
		}
	}
}

// leavesWithFalse: from the edge pred->b, following unconditional jumps only, the function
// returns the constant false.
func leavesWithFalse(pred, b *ssa.BasicBlock) bool {
	for steps := 0; steps < 8; steps++ {
		last := b.Instrs[len(b.Instrs)-1]
		switch t := last.(type) {
		case *ssa.Return:
			if len(t.Results) != 1 {
				return false
			}
			v := t.Results[0]
			if phi, ok := v.(*ssa.Phi); ok && phi.Block() == b {
				for i, p := range b.Preds {
					if p == pred {
						v = phi.Edges[i]
					}
				}
			}
			k, ok := v.(*ssa.Const)
			return ok && k.Value != nil && k.Value.String() == "false"
		case *ssa.Jump:
			pred, b = b, b.Succs[0]
		default:
			return false
		}
	}
	return false
}

func blockReaches(from, to *ssa.BasicBlock) bool {
	seen := map[*ssa.BasicBlock]bool{}
	work := append([]*ssa.BasicBlock{}, from.Succs...)
	for len(work) > 0 {
		b := work[len(work)-1]
		work = work[:len(work)-1]
		if b == to {
			return true
		}
		if seen[b] {
			continue
		}
		seen[b] = true
		work = append(work, b.Succs...)
	}
	return false
}

// R09.22: a loop that converts the temporary marks of the per-SIMD masks covers every SIMD.
func checkMaskConversionCoversAllSIMDs(c *core.Ctx) {
	st := c.Rule("R09.22", "every loop of the CU resource table that converts the status of vregMasks[i] (commit of a reservation, release of a temporary one) is bounded by the length of the table's own per-SIMD slice, not by a count derived from the work-group. Bounded by the number of wavefronts, a work-group with fewer wavefronts than SIMDs leaves to-reserve marks on the SIMDs behind: the next commit turns them into reserved registers nobody frees", 2)
	prov := core.NewLocalProv(c)
	for _, fn := range c.SrcFuncs(resPkg) {
		for _, b := range fn.Blocks {
			for _, in := range b.Instrs {
				call, ok := in.(*ssa.Call)
				if !ok {
					continue
				}
				var recv ssa.Value
				name := ""
				if call.Call.IsInvoke() {
					name, recv = call.Call.Method.Name(), call.Call.Value
				} else if f := call.Call.StaticCallee(); f != nil && len(call.Call.Args) > 0 {
					name, recv = f.Name(), call.Call.Args[0]
				}
				if name != "convertStatus" || !strings.Contains(prov.Of(recv), "vregMasks") || !inCycle(b) {
					continue
				}
				c.MarkAnalysed(fn)
				st.Instances++
				good, any := true, false
				for _, hdr := range fn.Blocks {
					if len(hdr.Succs) != 2 || !inCycle(hdr) || !(hdr == b || (blockReaches(hdr, b) && blockReaches(b, hdr))) {
						continue
					}
					iff, ok := hdr.Instrs[len(hdr.Instrs)-1].(*ssa.If)
					if !ok {
						continue
					}
					bo, ok := iff.Cond.(*ssa.BinOp)
					if !ok || bo.Op != token.LSS {
						continue
					}
					any = true
					lc, isLen := bo.Y.(*ssa.Call)
					if !isLen || !core.IsBuiltin(lc, "len") {
						good = false
						continue
					}
					p := prov.Of(lc.Call.Args[0])
					if !strings.Contains(p, "recv.") {
						good = false
					}
				}
				st.Ob(good && any)
				if !(good && any) {
					c.ReportAt("R09.22", fn, in.Pos(), "simd-loop-bound", fn.Name()+" converts vregMasks[i] in a loop that is not bounded by the length of one of the table's own slices")
				}
			}
		}
	}
}

// R02.25: the loops of the emulator's FLAT handlers have constant bounds.
func checkFlatHandlerLoopsConstant(c *core.Ctx) {
	st := c.Rule("R02.25", "in the emulator's FLAT load/store handlers (runFlat* of amd/emu and amd/emu/cdna3) every counted loop is bounded by a constant: the iteration space - 64 lanes, the dwords of the access - is fixed by the instruction, and a lane takes part or not through its EXEC bit alone. The timing coalescer walks all 64 lanes and tests each bit; a handler that bounds its lane loop by something computed from EXEC (the first clear bit, a population count) skips active lanes behind a gap in the mask, and memory differs between the two modes", 10)
	for _, rel := range []string{emuPkg, cdna3Pkg} {
		for _, fn := range c.SrcFuncs(rel) {
			if !strings.HasPrefix(fn.Name(), "runFlat") {
				continue
			}
			for _, hdr := range fn.Blocks {
				if len(hdr.Succs) != 2 || !inCycle(hdr) {
					continue
				}
				iff, ok := hdr.Instrs[len(hdr.Instrs)-1].(*ssa.If)
				if !ok {
					continue
				}
				bo, ok := iff.Cond.(*ssa.BinOp)
				if !ok || bo.Op != token.LSS {
					continue
				}
				if _, isPhi := bo.X.(*ssa.Phi); !isPhi {
					continue
				}
				c.MarkAnalysed(fn)
				st.Instances++
				_, isConst := bo.Y.(*ssa.Const)
				st.Ob(isConst)
				if !isConst {
					c.ReportAt("R02.25", fn, bo.Pos(), "flat-loop-bound-not-constant", core.FuncName(fn)+" bounds a loop by a computed value: lanes (or dwords) behind the bound are not executed")
				}
			}
		}
	}
}
