package rules

import (
	"strings"

	"golang.org/x/tools/go/ssa"

	"verif/internal/core"
)

// loops.go: slips in loop headers and exits (twenty-seventh seeding batch).

// checkScanNotLeftByBreak: a loop that walks the named list is left at its end or by a return,
// never by a jump from its body to what follows the loop.
func checkScanNotLeftByBreak(c *core.Ctx, rule, text string, rel, fname, listSub string) {
	st := c.Rule(rule, text, 1)
	fn := c.MustFunc(rule, rel, fname)
	if fn == nil {
		return
	}
	c.MarkAnalysed(fn)
	prov := core.NewLocalProv(c)
	found := false
	for _, hdr := range fn.Blocks {
		if (hdr.Comment != "rangeindex.loop" && hdr.Comment != "for.loop") || len(hdr.Succs) != 2 {
			continue
		}
		// the ranged value: the len() the header compares with
		ranged := ""
		for _, in := range hdr.Instrs {
			if bo, ok := in.(*ssa.BinOp); ok {
				if call, ok := bo.Y.(*ssa.Call); ok && core.IsBuiltin(call, "len") {
					ranged = prov.Of(call.Call.Args[0])
				}
			}
		}
		for _, p := range hdr.Preds {
			for _, in := range p.Instrs {
				if call, ok := in.(*ssa.Call); ok && core.IsBuiltin(call, "len") && ranged == "" {
					ranged = prov.Of(call.Call.Args[0])
				}
			}
		}
		if !strings.Contains(ranged, listSub) {
			continue
		}
		found = true
		st.Instances++
		body, done := hdr.Succs[0], hdr.Succs[1]
		inLoop := map[*ssa.BasicBlock]bool{}
		var fill func(b *ssa.BasicBlock)
		fill = func(b *ssa.BasicBlock) {
			if inLoop[b] || b == hdr || b == done {
				return
			}
			inLoop[b] = true
			for _, s := range b.Succs {
				fill(s)
			}
		}
		fill(body)
		bad := false
		for _, p := range done.Preds {
			if p != hdr && inLoop[p] {
				bad = true
			}
		}
		st.Ob(!bad)
		if bad {
			c.ReportAt(rule, fn, hdr.Instrs[0].Pos(), "scan-left-by-break", fname+" leaves its walk over "+short(ranged)+" from inside the body: the elements behind that point are not looked at")
		}
	}
	if !found {
		st.Instances++
		st.Ob(false)
		c.Undecided(rule, fn, fn.Pos(), "scan:shape", fname+" no longer ranges over "+listSub)
	}
}

// R07.20: releasing a wavefront clears all 64 lanes.
func checkReleaseClearsAllLanes(c *core.Ctx) {
	st := c.Rule("R07.20", "SchedulerImpl.resetRegisterValue clears the vector registers of all 64 lanes the wavefront owns: it does not take its lane bound from wf.WorkItems. A partial wavefront has fewer work-items than lanes; initRegisters writes v0..v2 for all 64 lanes and instructions that ignore EXEC write more, so lanes left uncleared are read by the next wavefront dispatched to that SIMD and offset", 1)
	fn := c.MustFunc("R07.20", cuPkg, "SchedulerImpl.resetRegisterValue")
	if fn == nil {
		return
	}
	c.MarkAnalysed(fn)
	st.Instances++
	bad := false
	for _, b := range fn.Blocks {
		for _, in := range b.Instrs {
			if fa, ok := in.(*ssa.FieldAddr); ok && fieldNameOf(fa) == "WorkItems" {
				bad = true
				c.ReportAt("R07.20", fn, in.Pos(), "lanes-bounded-by-work-items", "resetRegisterValue bounds its lane loop by the wavefront's work-items: the lanes of a partial wavefront beyond them keep their contents")
			}
		}
	}
	st.Ob(!bad)
}

// R20.24: the scanner helper skips every empty line.
func checkScannerSkipsInALoop(c *core.Ctx) {
	st := c.Rule("R20.24", "moveScannerToNextLine calls Scan inside a loop: it skips every empty line up to the next record, not just one. With a single extra step a run of two empty lines leaves the scanner on an empty line; the warp loop takes it for the end of the block, and the block's warps and instructions vanish from the parsed trace", 1)
	fn := c.MustFunc("R20.24", nvTracePkg, "moveScannerToNextLine")
	if fn == nil {
		return
	}
	c.MarkAnalysed(fn)
	st.Instances++
	good := false
	for _, b := range fn.Blocks {
		for _, in := range b.Instrs {
			if f := core.CalleeFunc(in); f != nil && f.Name() == "Scan" && inCycle(b) {
				good = true
			}
		}
	}
	st.Ob(good)
	if !good {
		c.ReportAt("R20.24", fn, fn.Pos(), "scan-not-in-loop", "moveScannerToNextLine has no Scan call inside a loop: it can return on an empty line")
	}
}

// R09.21: a resource amount is converted to allocation units with the granularity of its own kind.
func checkUnitsUseOwnGranularity(c *core.Ctx) {
	st := c.Rule("R09.21", "every call of CUResourceImpl.unitsOccupy pairs the amount with the granularity of the same resource: WFSgprCount with sregGranularity, WIVgprCount with vregGranularity, the LDS bytes with ldsGranularity - on the reserve side and on the free side alike. Freed with another kind's granularity, a work-group gives back a different number of units than it took: the masks drift, and later work-groups are refused or placed on registers still in use", 6)
	pairs := [][2]string{{"WFSgprCount", "sregGranularity"}, {"WIVgprCount", "vregGranularity"}, {"ldsBytesRequired", "ldsGranularity"}}
	prov := core.NewLocalProv(c)
	for _, fn := range c.SrcFuncs(resPkg) {
		for _, b := range fn.Blocks {
			for _, in := range b.Instrs {
				call, ok := in.(*ssa.Call)
				if !ok {
					continue
				}
				f := call.Call.StaticCallee()
				if f == nil || f.Name() != "unitsOccupy" || len(call.Call.Args) != 3 {
					continue
				}
				c.MarkAnalysed(fn)
				st.Instances++
				amount, gran := prov.Of(call.Call.Args[1]), prov.Of(call.Call.Args[2])
				kind := ""
				for _, p := range pairs {
					if strings.Contains(amount, p[0]) {
						kind = p[1]
					}
				}
				if kind == "" {
					st.Ob(false)
					c.Undecided("R09.21", fn, in.Pos(), "units:amount", "amount of unitsOccupy not recognised: "+short(amount))
					continue
				}
				ok2 := strings.Contains(gran, kind)
				st.Ob(ok2)
				if !ok2 {
					c.ReportAt("R09.21", fn, in.Pos(), "granularity-of-another-resource", "unitsOccupy converts "+short(amount)+" with "+short(gran)+", not with "+kind)
				}
			}
		}
	}
}
