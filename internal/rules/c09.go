package rules

import (
	"fmt"
	"go/token"
	"go/types"
	"regexp"
	"sort"
	"strings"

	"golang.org/x/tools/go/ssa"

	"verif/internal/core"
)

const dispPkg = "amd/timing/cp/internal/dispatching"
const resPkg = "amd/timing/cp/internal/resource"

func init() { register("C09", runC09) }

// invokes: interface call of method `name` declared in package path suffix pkgSuffix.
func invokes(in ssa.Instruction, pkgSuffix, name string) bool {
	cc := core.CallOf(in)
	if cc == nil || !cc.IsInvoke() {
		return false
	}
	return cc.Method.Name() == name && cc.Method.Pkg() != nil && strings.HasSuffix(cc.Method.Pkg().Path(), pkgSuffix)
}

func runC09(c *core.Ctx) core.Meta {
	c.Load(dispPkg, resPkg, cpPkg, cuPkg, emuPkg, kernelsPkg, "amd/samples/runner/timingconfig/mi300a", "amd/samples/runner/timingconfig/r9nano")
	c.BuildSSA()
	prov := core.NewProv(c)
	pd := NewPkgInfo(c, dispPkg)
	pr := NewPkgInfo(c, resPkg)
	pc := NewPkgInfo(c, cpPkg)
	checkNoCompactionWhileRanging(c, "R09.12", 6, pd, pr, pc)
	checkCreatedOncePerBuild(c, "R09.14", pc, "NewCUResourcePool", "With a pool per dispatcher every CU looks empty to each of them: two kernels in flight on one GPU are given the same SIMD slots, the same VGPR / SGPR ranges and the same LDS offsets on the same CU, and resident work-groups exceed the unit.")
	checkPerKernelFieldsStoredAlways(c, "R09.15")
	{
		st13 := c.Rule("R09.13", "the partition algorithm positions compute unit i's grid builder with Skip(i * share), where share comes from the filtered work-group count: GridBuilder.Skip therefore advances by accepted work-groups (it calls NextWG, which applies the filter), not by grid positions. An arithmetic Skip makes the partitions of a filtered launch (every member of a unified multi-GPU device but the first) overlap: some work-groups are mapped to several compute units and as many never run, with the dispatched count still right", 1)
		checkSkipCountsAccepted(c, st13, "R09.13")
	}

	// ---------------- R09.1 placement algorithms agree ----------------
	checkPlacementSiblings(c, pd, prov, "R09.1")

	// ---------------- R09.2 / R09.3 / R09.4 dispatcher ----------------
	RunProto(c, &ProtoCfg{
		AllEffectsAfterSend: true,
		RuleBase:            "R09.2", Pkg: dispPkg, FloorSends: 2,
		Effects: []Effect{
			RetrieveEffect,
			FieldWriteEffect("currWG.valid-write", "dispatchLocation.valid"),
			FieldWriteEffect("numDispatchedWGs-write", "DispatcherImpl.numDispatchedWGs"),
			FieldWriteEffect("inflightWGs-write", "DispatcherImpl.inflightWGs"),
			FieldWriteEffect("originalReqs-write", "DispatcherImpl.originalReqs"),
			FieldWriteEffect("dispatching-write", "DispatcherImpl.dispatching"),
		},
		Exempt: map[string]string{},
	})
	// ---------------- R09.11 each completion message is judged on its own ----------------
	st11 := c.Rule("R09.11", "a dispatcher decides per message whether a completion message is its own (how many of the message's IDs are in its inflightWGs): in every loop of the dispatching package that takes messages off a port (a loop whose body calls PeekIncoming), no integer other than the loop counter is carried from one iteration to the next. A counter that is declared once before the loop keeps the previous message's matches: after one message of its own the dispatcher takes the next message too, although it belongs to another dispatcher's kernel, frees a location that is not its own and consumes the owner's message", 1)
	for _, fn := range pd.Funcs {
		for _, b := range fn.Blocks {
			// a loop header: a block with a phi and a back edge
			var backPreds []*ssa.BasicBlock
			for _, p := range b.Preds {
				if b.Dominates(p) {
					backPreds = append(backPreds, p)
				}
			}
			if len(backPreds) == 0 {
				continue
			}
			// the natural loop
			loop := map[*ssa.BasicBlock]bool{b: true}
			stack := append([]*ssa.BasicBlock{}, backPreds...)
			for len(stack) > 0 {
				x := stack[len(stack)-1]
				stack = stack[:len(stack)-1]
				if loop[x] {
					continue
				}
				loop[x] = true
				stack = append(stack, x.Preds...)
			}
			peeks := false
			for blk := range loop {
				for _, in := range blk.Instrs {
					if cc := core.CallOf(in); cc != nil && cc.IsInvoke() && cc.Method.Name() == "PeekIncoming" {
						peeks = true
					}
				}
			}
			if !peeks {
				continue
			}
			st11.Instances++
			c.MarkAnalysed(fn)
			var carried *ssa.Phi
			for _, in := range b.Instrs {
				phi, ok := in.(*ssa.Phi)
				if !ok {
					break
				}
				bt, isB := phi.Type().Underlying().(*types.Basic)
				if !isB || bt.Info()&types.IsInteger == 0 {
					continue
				}
				if l := analyseLoop(phi); l != nil && l.why == "" {
					continue // the loop's own counter
				}
				isCounter := false
				for _, e := range phi.Edges {
					if add, ok := e.(*ssa.BinOp); ok && add.Op == token.ADD && add.X == ssa.Value(phi) {
						if k, isC := core.ConstInt(add.Y); isC && k == 1 {
							// i++ of a `for i := 0; i < N; i++` whose bound is not 64
							if phi.Referrers() != nil {
								for _, r := range *phi.Referrers() {
									if cmp, ok := r.(*ssa.BinOp); ok && cmp.Op == token.LSS && cmp.Block() == b {
										isCounter = true
									}
								}
							}
						}
					}
				}
				if isCounter {
					continue
				}
				carried = phi
			}
			st11.Ob(carried == nil)
			st11.Sample("%s: the loop over incoming messages carries no integer besides its counter: %v", core.FuncName(fn), carried == nil)
			if carried != nil {
				name := carried.Comment
				if name == "" {
					name = carried.Name()
				}
				c.ReportAt("R09.11", fn, carried.Pos(), "per-message-state-carried:"+core.FuncName(fn)+":"+name, core.FuncName(fn)+" carries "+name+" from one message of its loop to the next: what the previous message established (how many of its work-groups were this dispatcher's) is applied to the next message, which may belong to another dispatcher's kernel")
			}
		}
	}

	RunProto(c, &ProtoCfg{
		AllEffectsAfterSend: true,
		NoProgressRule:      true,
		RuleBase:            "R09.10", Pkg: emuPkg, FloorSends: 1,
		Effects: []Effect{
			RetrieveEffect,
			// forgetting the collected IDs (a store that does not extend the old list); adding an ID
			// is idempotent - the handler looks the ID up first - and is repeated harmlessly on a retry
			{Label: "finishedMapWGReqs-reset", Match: func(n *core.Node) bool {
				sto, ok := n.Instr.(*ssa.Store)
				if !ok {
					return false
				}
				f := core.FieldOfAddr(sto.Addr)
				if f == nil || core.ShortFieldID(f) != "ComputeUnit.finishedMapWGReqs" {
					return false
				}
				if call, isCall := sto.Val.(*ssa.Call); isCall && core.IsBuiltin(call, "append") && len(call.Call.Args) > 0 && core.LoadedField(call.Call.Args[0]) == f {
					return false
				}
				return true
			}},
		},
		OnlyFuncs: func(name string) bool { return strings.HasPrefix(name, "ComputeUnit.") },
	})
	st2 := c.Rule("R09.2.pair", "a successful map request clears currWG.valid, counts the work-group and records it in inflightWGs under the request's ID, all three on every success path; the request names the reserved CU port, the work-group and every wavefront location", 1)
	for _, fn := range pd.Direct(func(in ssa.Instruction) bool { return SendOn(in, "dispatchingPort") }) {
		g := core.BuildGraph(fn, 0, nil)
		for _, s := range g.NodesWhere(func(n *core.Node) bool { return SendOn(n.Instr, "dispatchingPort") }) {
			st2.Instances++
			c.MarkAnalysed(fn)
			sv := s.Instr.(ssa.Value)
			msg := prov.Of(core.CallOf(s.Instr).Args[0])
			okMsg := strings.Contains(msg, ".WithDst(&recv.currWG.cu)") && strings.Contains(msg, ".WithWG(&recv.currWG.wg)") &&
				core.ProvMatch(regexp.MustCompile(`\.AddWf\(&recv\.currWG\.locations\[`), msg)
			st2.Ob(okMsg)
			st2.Sample("%s: dispatchingPort.Send(%s)", core.FuncName(fn), short(msg))
			if !okMsg {
				c.ReportAt("R09.2.pair", fn, s.Instr.Pos(), "MapWGReq:fields", "the map request is not addressed to currWG.cu with currWG.wg and every currWG.locations entry: "+short(msg))
			}
			type need struct {
				what  string
				match func(n *core.Node) bool
			}
			needs := []need{
				{"currWG.valid=false", func(n *core.Node) bool {
					st, ok := storeToField(n.Instr, "dispatchLocation.valid")
					if !ok {
						return false
					}
					b, isC := core.ConstBool(st.Val)
					return isC && !b && strings.HasPrefix(prov.Of(st.Addr), "&&recv.currWG")
				}},
				{"numDispatchedWGs++", func(n *core.Node) bool {
					st, ok := storeToField(n.Instr, "DispatcherImpl.numDispatchedWGs")
					return ok && prov.Of(st.Val) == "(recv.numDispatchedWGs+1)"
				}},
				{"inflightWGs[req.ID]=currWG", func(n *core.Node) bool {
					mu, ok := n.Instr.(*ssa.MapUpdate)
					if !ok {
						return false
					}
					f := core.LoadedField(mu.Map)
					return f != nil && f.Name() == "inflightWGs" && strings.HasSuffix(prov.Of(mu.Key), ".Build().ID") && prov.Of(mu.Value) == "recv.currWG"
				}},
			}
			for _, nd := range needs {
				missing := false
				g.Walk(core.After(s, core.FactFor(s, sv, -1)), core.WalkOpts{ForwardOnly: true, Stop: nd.match}, func(x core.State) {
					if _, ok := x.N.Instr.(*ssa.Return); ok {
						missing = true
					}
				})
				st2.Ob(!missing)
				if missing {
					c.ReportAt("R09.2.pair", fn, s.Instr.Pos(), "success-without:"+nd.what, "after a successful map request a path returns without "+nd.what+": the work-group is mapped again or its completion cannot be matched")
				}
			}
		}
	}

	st3 := c.Rule("R09.3", "completion accounting: for each ID of a completion message the location freed is the one recorded under that ID, the entry is deleted and the completed counter incremented once in the same block, and the message is consumed afterwards; these happen only in the completion handler", 1)
	for _, fn := range pd.Funcs {
		g := core.BuildGraph(fn, 0, nil)
		for _, n := range g.Nodes {
			if !core.IsBuiltin(n.Instr, "delete") {
				continue
			}
			args := core.CallOf(n.Instr).Args
			if f := core.LoadedField(args[0]); f == nil || f.Name() != "inflightWGs" {
				continue
			}
			st3.Instances++
			c.MarkAnalysed(fn)
			key := prov.Of(args[1])
			okKey := core.ProvMatch(regexp.MustCompile(`^recv\.dispatchingPort\.PeekIncoming\(\)\.RspTo\[`), key)
			st3.Ob(okKey)
			if !okKey {
				c.ReportAt("R09.3", fn, n.Instr.Pos(), "delete:key", "the in-flight entry deleted is keyed by "+short(key)+", not by an ID of the completion message")
			}
			freed, counted := false, 0
			for _, i2 := range n.Block.Instrs {
				if invokes(i2, "/dispatching", "FreeResources") {
					ap := prov.Of(core.CallOf(i2).Args[0])
					if ap == "recv.inflightWGs["+key+"]" {
						freed = true
					}
				}
				if s, ok := storeToField(i2, "DispatcherImpl.numCompletedWGs"); ok && prov.Of(s.Val) == "(recv.numCompletedWGs+1)" {
					counted++
				}
			}
			st3.Ob(freed)
			if !freed {
				c.ReportAt("R09.3", fn, n.Instr.Pos(), "delete:free", "the entry is deleted without freeing the resources recorded under the same ID")
			}
			st3.Ob(counted == 1)
			if counted != 1 {
				c.ReportAt("R09.3", fn, n.Instr.Pos(), "delete:count", fmt.Sprintf("%d increments of numCompletedWGs next to the deletion; exactly one per completed work-group expected", counted))
			}
			// consumed afterwards
			leak := false
			g.Walk(core.After(n, nil), core.WalkOpts{Stop: func(x *core.Node) bool { return isRetrieve(x) }}, func(x core.State) {
				if _, ok := x.N.Instr.(*ssa.Return); ok {
					leak = true
				}
				if isPeek(x.N) {
					leak = true
				}
			})
			st3.Ob(!leak)
			st3.Sample("%s: delete(inflightWGs,%s) with FreeResources=%v, ++=%d, message consumed=%v", core.FuncName(fn), short(key), freed, counted, !leak)
			if leak {
				c.ReportAt("R09.3", fn, n.Instr.Pos(), "delete:not-consumed", "after accounting a completion the message may stay at the port head (return or next peek reached without RetrieveIncoming): it is accounted twice")
			}
		}
	}
	c.Rule("R09.3.who", "numCompletedWGs, inflightWGs and numDispatchedWGs are written only by their owners", 4)
	owners := map[string][]string{
		"DispatcherImpl.numCompletedWGs":  {"DispatcherImpl.StartDispatching", "DispatcherImpl.processMessagesFromCU"},
		"DispatcherImpl.numDispatchedWGs": {"DispatcherImpl.StartDispatching", "DispatcherImpl.dispatchNextWG"},
		"DispatcherImpl.inflightWGs":      {"DispatcherImpl.dispatchNextWG", "DispatcherImpl.processMessagesFromCU", "Builder.Build"},
		"DispatcherImpl.dispatching":      {"DispatcherImpl.StartDispatching", "DispatcherImpl.completeKernel"},
	}
	for _, f := range sortedKeys(owners) {
		f := f
		pd.WhoMay("R09.3.who", "write of "+f, func(in ssa.Instruction) bool {
			w := writtenField(in)
			return w != nil && core.ShortFieldID(w) == f
		}, owners[f]...)
	}

	// ---------------- R09.9 a request is taken off its port only where it is going to be served ----------------
	st9 := c.Rule("R09.9", "in the command processor's middlewares a message is retrieved from a port (RetrieveIncoming) only on paths that go on to serve it: no `return false` (nothing done, try again next cycle) is reachable after the retrieval within the same call. A launch request that is dequeued before the test for a free dispatcher is lost when all dispatchers are busy: none of its work-groups is ever mapped and no response is ever sent", 6)
	checkRetrievedThenGivenUp(c, st9, "R09.9", pc, "the message is gone, so the retry of the next cycle finds another one (a kernel launch that arrives while every dispatcher is busy is dropped)")

	// ---------------- R09.8 a placed work-group is remembered until it was sent ----------------
	st8 := c.Rule("R09.8", "the placement algorithm's Next() reserves resources and counts the work-group as handed out; in the dispatcher every path from a call of Next() to a return either stores the returned location in the dispatcher's pending slot (currWG) or passes the success edge of the Send of its map request: a location kept only in a local is forgotten when the Send is refused, the work-group is never mapped, its reservation is never freed and the kernel is reported complete without it", 1)
	for _, fn := range pd.Funcs {
		var g *core.Graph
		for _, b := range fn.Blocks {
			for _, in := range b.Instrs {
				cc := core.CallOf(in)
				if cc == nil || !cc.IsInvoke() || cc.Method.Name() != "Next" || namedTypeName(cc.Value.Type()) != "dispatching.algorithm" {
					continue
				}
				nextVal, isVal := in.(ssa.Value)
				if !isVal {
					continue
				}
				if g == nil {
					g = core.BuildGraph(fn, 0, nil)
				}
				n := g.NodeOf(in)
				if n == nil {
					continue
				}
				st8.Instances++
				c.MarkAnalysed(fn)
				remembered := func(m *core.Node) bool {
					s, ok := storeToField(m.Instr, "DispatcherImpl.currWG")
					if !ok {
						return false
					}
					return dependsOn(s.Val, func(v ssa.Value) bool {
						if v == nextVal {
							return true
						}
						// a struct kept in a local variable: `loc = alg.Next(); d.currWG = loc`
						if ld, ok := v.(*ssa.UnOp); ok && ld.Op == token.MUL {
							if al, ok := ld.X.(*ssa.Alloc); ok && al.Referrers() != nil {
								for _, r := range *al.Referrers() {
									if st, ok := r.(*ssa.Store); ok && st.Addr == ssa.Value(al) && st.Val == nextVal {
										return true
									}
								}
							}
						}
						return false
					}, map[ssa.Value]bool{})
				}
				sent := NilCut(func(v ssa.Value) bool {
					vi, ok := v.(ssa.Instruction)
					return ok && SendOn(vi, "dispatchingPort")
				}, true)
				var leak *core.Node
				g.Walk(core.After(n, nil), core.WalkOpts{ForwardOnly: true, Stop: remembered, CutEdge: func(m *core.Node, i int) bool { return sent(m, i) }}, func(x core.State) {
					if _, isRet := x.N.Instr.(*ssa.Return); isRet && leak == nil {
						leak = x.N
					}
				})
				st8.Ob(leak == nil)
				st8.Sample("%s: the location returned by Next() is stored in currWG or sent on every path: %v", core.FuncName(fn), leak == nil)
				if leak != nil {
					c.ReportAt("R09.8", fn, in.Pos(), "next-not-remembered", core.FuncName(fn)+" can return after alg.Next() without having stored the returned location in currWG and without a successful Send of its map request: when the port refuses the request the work-group is lost (never mapped, resources never freed) and kernelCompleted() becomes true without it")
				}
			}
		}
	}

	st4 := checkLaunchResponse(c, pd, prov, "R09.4")
	// the CP only starts a kernel on a dispatcher that is not dispatching
	for _, fn := range pc.Funcs {
		for _, b := range fn.Blocks {
			for _, in := range b.Instrs {
				if !invokes(in, "/dispatching", "StartDispatching") {
					continue
				}
				st4.Instances++
				c.MarkAnalysed(fn)
				rp := prov.Of(core.CallOf(in).Value)
				m := regexp.MustCompile(`^recv\.(\w+)\(\)$`).FindStringSubmatch(rp)
				ok := false
				if m != nil {
					if finder := c.SSAFunc(cpPkg, "cpMiddleware."+m[1]); finder != nil {
						gf := core.BuildGraph(finder, 0, nil)
						ok = true
						for _, r := range gf.NodesWhere(func(n *core.Node) bool { _, isR := n.Instr.(*ssa.Return); return isR }) {
							ret := r.Instr.(*ssa.Return)
							if core.IsNilConst(ret.Results[0]) {
								continue
							}
							if !gf.Guarded(r, boolCut(func(_ *core.Node, v ssa.Value) bool {
								i2, isI := v.(ssa.Instruction)
								return isI && invokes(i2, "/dispatching", "IsDispatching")
							}, false)) {
								ok = false
							}
						}
					}
				}
				st4.Ob(ok)
				st4.Sample("%s: StartDispatching on %s (selected only when !IsDispatching(): %v)", core.FuncName(fn), rp, ok)
				if !ok {
					c.ReportAt("R09.4", fn, in.Pos(), "StartDispatching:idle", "a kernel is started on a dispatcher ("+rp+") that was not selected by a !IsDispatching() test: an in-flight kernel's state is overwritten")
				}
				// and the nil case is excluded
				g := core.BuildGraph(fn, 0, nil)
				for _, n := range g.NodesWhere(func(n *core.Node) bool { return n.Instr == in }) {
					okNil := g.Guarded(n, NilCut(func(v ssa.Value) bool { return prov.Of(v) == rp }, false))
					st4.Ob(okNil)
					if !okNil {
						c.ReportAt("R09.4", fn, in.Pos(), "StartDispatching:nil", "StartDispatching is called without testing that a free dispatcher was found")
					}
				}
			}
		}
	}

	// ---------------- R09.5 CU resources ----------------
	st5 := c.Rule("R09.5", "reserve-then-commit symmetry of CUResourceImpl: every exit of ReserveResourceForWG passes exactly one of reserveResources / clearTempReservation; reserveResources only after all three limitation checks succeeded; the masks converted, cleared and freed are the same set; wavefront-slot counts move once per location both ways; each offset is computed and inverted with the same granularity", 8)
	if rf := c.MustFunc("R09.5", resPkg, "CUResourceImpl.ReserveResourceForWG"); rf != nil {
		c.MarkAnalysed(rf)
		g := core.BuildGraph(rf, 0, nil)
		isRes := func(n *core.Node) bool { return callsFunc(n.Instr, pr.Pkg, "CUResourceImpl.reserveResources") }
		isClr := func(n *core.Node) bool { return callsFunc(n.Instr, pr.Pkg, "CUResourceImpl.clearTempReservation") }
		st5.Instances++
		leak := false
		g.Walk([]core.State{{N: g.Entry}}, core.WalkOpts{Stop: func(n *core.Node) bool { return isRes(n) || isClr(n) }}, func(s core.State) {
			if _, ok := s.N.Instr.(*ssa.Return); ok {
				leak = true
			}
		})
		st5.Ob(!leak)
		if leak {
			c.ReportAt("R09.5", rf, rf.Pos(), "exit-without-commit-or-clear", "ReserveResourceForWG can return without committing or clearing the tentative reservation: tentatively marked registers/LDS stay unavailable forever")
		}
		for _, lim := range []string{"withinSGPRLimitation", "withinLDSLimitation", "matchWfWithSIMDs"} {
			lf := c.SSAFunc(resPkg, "CUResourceImpl."+lim)
			st5.Instances++
			if lf == nil {
				st5.Ob(false)
				c.Report(core.Finding{Rule: "R09.5", Kind: "anchor", Pkg: resPkg, Func: "CUResourceImpl." + lim, Detail: "anchor", Msg: "limitation check not found"})
				continue
			}
			for _, rn := range g.NodesWhere(isRes) {
				ok := g.Guarded(rn, CallFnCut(true, map[*ssa.Function]bool{lf: true}))
				st5.Ob(ok)
				st5.Sample("reserveResources guarded by %s()==true: %v", lim, ok)
				if !ok {
					c.ReportAt("R09.5", rf, rn.Instr.Pos(), "commit-without:"+lim, "resources are committed on a path on which "+lim+" did not succeed: resident work-groups can exceed the unit's capacity")
				}
			}
		}
		// success return only after reserveResources
		for _, r := range g.NodesWhere(func(n *core.Node) bool { _, ok := n.Instr.(*ssa.Return); return ok }) {
			ret := r.Instr.(*ssa.Return)
			if b, isC := core.ConstBool(ret.Results[1]); isC && b {
				st5.Instances++
				viaRes := true
				g.Walk([]core.State{{N: g.Entry}}, core.WalkOpts{Stop: isRes}, func(s core.State) {
					if s.N == r {
						viaRes = false
					}
				})
				st5.Ob(viaRes)
				if !viaRes {
					c.ReportAt("R09.5", rf, ret.Pos(), "ok-without-commit", "ReserveResourceForWG reports success on a path that did not commit the reservation")
				}
			}
		}
	}
	// the calls of a mask method made by a function of CUResourceImpl, directly or in the helpers
	// of the package it calls (two levels); a mask that a helper receives as a parameter is the
	// mask the caller passes
	type maskCall struct {
		cc   *ssa.CallCommon
		in   ssa.Instruction
		fn   *ssa.Function
		mask string
	}
	var maskCallsIn func(fn *ssa.Function, method string, subst map[*ssa.Parameter]string, d int) []maskCall
	maskCallsIn = func(fn *ssa.Function, method string, subst map[*ssa.Parameter]string, d int) []maskCall {
		var out []maskCall
		resolve := func(v ssa.Value) string {
			if p, ok := core.StripConv(v).(*ssa.Parameter); ok {
				if s, ok := subst[p]; ok {
					return s
				}
			}
			return prov.Of(v)
		}
		for _, b := range fn.Blocks {
			for _, in := range b.Instrs {
				cc := core.CallOf(in)
				if cc == nil {
					continue
				}
				if cc.IsInvoke() {
					if cc.Method.Name() == method {
						out = append(out, maskCall{cc, in, fn, resolve(cc.Value)})
					}
					continue
				}
				cal := cc.StaticCallee()
				if cal == nil || cal.Pkg != fn.Pkg || len(cal.Blocks) == 0 || d >= 2 || cal == fn {
					continue
				}
				sub := map[*ssa.Parameter]string{}
				for i, p := range cal.Params {
					if i < len(cc.Args) {
						sub[p] = resolve(cc.Args[i])
					}
				}
				out = append(out, maskCallsIn(cal, method, sub, d+1)...)
			}
		}
		return out
	}
	maskSet := func(fnName string, method string, argFilter func(args []string) bool) map[string]bool {
		out := map[string]bool{}
		fn := c.SSAFunc(resPkg, "CUResourceImpl."+fnName)
		if fn == nil {
			c.Report(core.Finding{Rule: "R09.5", Kind: "anchor", Pkg: resPkg, Func: "CUResourceImpl." + fnName, Detail: "anchor", Msg: "function not found"})
			return out
		}
		for _, mc := range maskCallsIn(fn, method, nil, 0) {
			var args []string
			for _, a := range mc.cc.Args {
				args = append(args, prov.Of(a))
			}
			if argFilter != nil && !argFilter(args) {
				continue
			}
			m := regexp.MustCompile(`\[.*\]`).ReplaceAllString(mc.mask, "[*]")
			out[m] = true
		}
		return out
	}
	keys := func(m map[string]bool) string {
		var ks []string
		for k := range m {
			ks = append(ks, k)
		}
		sort.Strings(ks)
		return strings.Join(ks, ",")
	}
	commit := maskSet("reserveResources", "convertStatus", nil)
	clear := maskSet("clearTempReservation", "convertStatus", nil)
	free := maskSet("FreeResourcesForWG", "setStatus", nil)
	tentative := map[string]bool{}
	for _, f := range []string{"withinSGPRLimitation", "withinLDSLimitation", "matchWfWithSIMDs"} {
		for k := range maskSet(f, "setStatus", nil) {
			tentative[k] = true
		}
	}
	st5.Instances++
	okSets := keys(commit) == keys(clear) && keys(commit) == keys(free) && keys(commit) == keys(tentative) && len(commit) == 3
	st5.Ob(okSets)
	st5.Sample("masks tentative={%s} committed={%s} cleared={%s} freed={%s}", keys(tentative), keys(commit), keys(clear), keys(free))
	if !okSets {
		c.Report(core.Finding{Rule: "R09.5", Pkg: resPkg, Func: "CUResourceImpl", Detail: "mask-sets", Msg: fmt.Sprintf("the sets of masks differ: tentative={%s} committed={%s} cleared={%s} freed={%s}", keys(tentative), keys(commit), keys(clear), keys(free))})
	}
	// status constants used: tentative marks use ToReserve, commit converts ToReserve->Reserved, clear ToReserve->Free, free sets Free
	constVal := func(name string) string {
		o := pr.Pkg.Pkg.Scope().Lookup(name)
		if cst, ok := o.(*types.Const); ok {
			return cst.Val().ExactString()
		}
		return "?" + name
	}
	cFree, cToRes, cRes := constVal("allocStatusFree"), constVal("allocStatusToReserve"), constVal("allocStatusReserved")
	checkArgs := func(fnName, method string, want []string, what string) {
		fn := c.SSAFunc(resPkg, "CUResourceImpl."+fnName)
		if fn == nil {
			return
		}
		for _, mc := range maskCallsIn(fn, method, nil, 0) {
			cc := mc.cc
			st5.Instances++
			n := len(cc.Args)
			ok := true
			for i, w := range want {
				if prov.Of(cc.Args[n-len(want)+i]) != w {
					ok = false
				}
			}
			st5.Ob(ok)
			if !ok {
				c.ReportAt("R09.5", mc.fn, mc.in.Pos(), fnName+":"+method+":status", what)
			}
		}
	}
	checkArgs("reserveResources", "convertStatus", []string{cToRes, cRes}, "commit must convert tentative marks to reserved")
	checkArgs("clearTempReservation", "convertStatus", []string{cToRes, cFree}, "clearing must convert tentative marks back to free")
	checkArgs("FreeResourcesForWG", "setStatus", []string{cFree}, "freeing must mark the region free")
	for _, f := range []string{"withinSGPRLimitation", "withinLDSLimitation", "matchWfWithSIMDs"} {
		checkArgs(f, "setStatus", []string{cToRes}, "a limitation check must only mark regions tentatively (to-reserve); marking them reserved or free bypasses the commit/clear step")
		checkArgs(f, "nextRegion", []string{cFree}, "a limitation check must search free regions only")
	}
	// wavefront slots
	for _, sp := range []struct{ fn, want string }{{"reserveResources", "-1)"}, {"FreeResourcesForWG", "+1)"}} {
		fn := c.SSAFunc(resPkg, "CUResourceImpl."+sp.fn)
		if fn == nil {
			continue
		}
		st5.Instances++
		cnt := 0
		for _, b := range fn.Blocks {
			for _, in := range b.Instrs {
				if s, ok := in.(*ssa.Store); ok {
					a := prov.Of(s.Addr)
					if core.ProvMatch(regexp.MustCompile(`^&recv\.wfPoolFreeCount\[.*\.SIMDID\]$`), a) && strings.HasSuffix(prov.Of(s.Val), sp.want) {
						cnt++
					}
				}
			}
		}
		st5.Ob(cnt == 1)
		if cnt != 1 {
			c.ReportAt("R09.5", fn, fn.Pos(), sp.fn+":wfPoolFreeCount", fmt.Sprintf("%d updates of wfPoolFreeCount[location.SIMDID] by %s; exactly one per location expected", cnt, sp.want))
		}
	}
	// offsets: computed with G on the reserve side, inverted with the same G on the free side
	gran := map[string]string{}
	pr.Instrs(func(fn *ssa.Function, in ssa.Instruction) {
		for _, f := range []string{"sregGranularity", "vregGranularity", "ldsGranularity"} {
			if s, ok := storeToField(in, "CUResourceImpl."+f); ok {
				if v, isC := core.ConstInt(s.Val); isC {
					gran[f] = fmt.Sprint(v)
				}
			}
		}
	})
	norm := func(s string) string {
		for f, v := range gran {
			s = strings.ReplaceAll(s, "recv."+f, v)
		}
		return s
	}
	offsets := map[string]string{}
	pr.Instrs(func(fn *ssa.Function, in ssa.Instruction) {
		for _, f := range []string{"SGPROffset", "VGPROffset", "LDSOffset"} {
			if s, ok := storeToField(in, "WfLocation."+f); ok {
				pv := norm(prov.Of(s.Val))
				// shape: ((X*a)*b) or (X*a): product of constants
				prod := int64(1)
				// constant factors on either side of a product
				for _, m := range regexp.MustCompile(`\*(\d+)\)|\((\d+)\*`).FindAllStringSubmatch(pv, -1) {
					var k int64
					fmt.Sscan(m[1]+m[2], &k)
					prod *= k
				}
				offsets[f] = fmt.Sprint(prod)
			}
		}
	})
	if ff := c.SSAFunc(resPkg, "CUResourceImpl.FreeResourcesForWG"); ff != nil {
		for _, b := range ff.Blocks {
			for _, in := range b.Instrs {
				cc := core.CallOf(in)
				if cc == nil || !cc.IsInvoke() || cc.Method.Name() != "setStatus" {
					continue
				}
				a := norm(prov.Of(cc.Args[0]))
				m := regexp.MustCompile(`\.(SGPROffset|VGPROffset|LDSOffset)((/\d+\))+)$`).FindStringSubmatch(a)
				st5.Instances++
				if m == nil {
					st5.Ob(false)
					c.ReportAt("R09.5", ff, in.Pos(), "free:offset-shape", "the freed region start is not location.<X>Offset divided by constants: "+short(a))
					continue
				}
				div := int64(1)
				for _, d := range regexp.MustCompile(`/(\d+)\)`).FindAllStringSubmatch(m[2], -1) {
					var k int64
					fmt.Sscan(d[1], &k)
					div *= k
				}
				ok := fmt.Sprint(div) == offsets[m[1]]
				st5.Ob(ok)
				st5.Sample("%s = unit*%s on reserve, /%d on free", m[1], offsets[m[1]], div)
				if !ok {
					c.ReportAt("R09.5", ff, in.Pos(), "free:"+m[1], fmt.Sprintf("%s is computed as unit*%s when reserving but divided by %d when freeing: a different region is freed than was reserved", m[1], offsets[m[1]], div))
				}
				// the unit count freed equals the unit count reserved: unitsOccupy of the same code-object field and granularity
				u := norm(prov.Of(cc.Args[1]))
				field := map[string]string{"SGPROffset": "WFSgprCount", "VGPROffset": "WIVgprCount", "LDSOffset": "GroupSegmentByteSize"}[m[1]]
				g2 := map[string]string{"SGPROffset": gran["sregGranularity"], "VGPROffset": gran["vregGranularity"], "LDSOffset": gran["ldsGranularity"]}[m[1]]
				okU := core.ProvMatch(regexp.MustCompile(`^recv\.unitsOccupy\(.*\.CodeObject\.`+field+`,`+g2+`\)$`), u)
				if m[1] == "LDSOffset" {
					okU = ldsDemandOK(c, prov, u, g2)
				}
				st5.Ob(okU)
				if !okU {
					c.ReportAt("R09.5", ff, in.Pos(), "free:"+m[1]+":units", "the number of units freed ("+short(u)+") is not the demand that was reserved ("+demandText(m[1], field)+")")
				}
			}
		}
	}
	// the reserve side asks for the same unit counts
	for f, spec := range map[string][2]string{"withinSGPRLimitation": {"WFSgprCount", "sregGranularity"}, "withinLDSLimitation": {"GroupSegmentByteSize", "ldsGranularity"}, "matchWfWithSIMDs": {"WIVgprCount", "vregGranularity"}} {
		fn := c.SSAFunc(resPkg, "CUResourceImpl."+f)
		if fn == nil {
			continue
		}
		for _, b := range fn.Blocks {
			for _, in := range b.Instrs {
				cc := core.CallOf(in)
				if cc == nil || !cc.IsInvoke() || (cc.Method.Name() != "setStatus" && cc.Method.Name() != "nextRegion") {
					continue
				}
				st5.Instances++
				idx := 0
				if cc.Method.Name() == "setStatus" {
					idx = 1
				}
				u := prov.Of(cc.Args[idx])
				ok := core.ProvMatch(regexp.MustCompile(`^recv\.unitsOccupy\(.*\.CodeObject\.`+spec[0]+`,recv\.`+spec[1]+`\)$`), u)
				if f == "withinLDSLimitation" {
					ok = ldsDemandOK(c, prov, u, "recv."+spec[1])
				}
				st5.Ob(ok)
				if !ok {
					c.ReportAt("R09.5", fn, in.Pos(), f+":units", "the demand checked/marked ("+short(u)+") is not "+demandText(map[string]string{"withinLDSLimitation": "LDSOffset"}[f], spec[0])+" in units of "+spec[1])
				}
			}
		}
	}
	// FreeResourcesForWG forgets the work-group; reserve records it
	for _, sp := range []struct{ fn, what string }{{"FreeResourcesForWG", "delete"}, {"reserveResources", "insert"}} {
		fn := c.SSAFunc(resPkg, "CUResourceImpl."+sp.fn)
		if fn == nil {
			continue
		}
		st5.Instances++
		ok := false
		for _, b := range fn.Blocks {
			for _, in := range b.Instrs {
				if f := writtenField(in); f != nil && f.Name() == "reservedWGs" {
					ok = true
				}
			}
		}
		st5.Ob(ok)
		if !ok {
			c.ReportAt("R09.5", fn, fn.Pos(), sp.fn+":reservedWGs", "the reservation table is not updated ("+sp.what+"): a work-group could be freed twice or never")
		}
	}

	// ---------------- R09.7 announced capacities (c09cfg.go) ----------------
	checkAnnouncedCapacities(c)

	checkIntegerWidths(c, "R09.16", "Resource demands are not narrowed, nor widened after they could wrap.", 5, []widthScope{{rel: resPkg}, {rel: dispPkg}}, []string{"narrow", "widen-wrapped", "unsigned-diff"}, widthAllowC09)
	checkParallelIndexAgreement(c, "R09.17", 1, NewPkgInfo(c, resPkg))
	checkBusyPredicateIsTheField(c)
	checkGridBuilderPerDispatcher(c)
	checkLDSMaskUnits(c)
	checkUnitsUseOwnGranularity(c)
	checkMaskConversionCoversAllSIMDs(c)
	return core.Meta{Level: "other",
		Explanation: "Structural clauses of work-group dispatch decided on SSA of the dispatcher, the three placement algorithms (as siblings of one interface), the CU resource bookkeeping and the CP's dispatcher selection: valid location only after a successful reservation on the named CU, counter/slot updates on the success path, SEND-DISCIPLINE and PAIR on the map request, completion accounting per ID, launch response only under kernelCompleted() (whose three conjuncts are checked), idle-dispatcher selection, reserve/commit/clear/free symmetry of masks, status constants, slot counts and offset granularities.",
		NotDecided:  "that masks never overlap for every demand sequence (value level); resourceMask internals; LDS demand taken from the right descriptor field; CU-side completion (decided under C14)",
		Assumptions: commonAssumptions}
}

func demandText(kind, field string) string {
	if kind == "LDSOffset" {
		return "the LDS size of the dispatch packet (Packet.GroupSegmentSize, static plus dynamic local memory — the size the compute unit allocates), at least the code object's static size"
	}
	return "unitsOccupy(CodeObject." + field + ", granularity)"
}

// ldsDemandOK: u is unitsOccupy(D, gran) where D is the packet's LDS size, or a
// helper of the resource package that returns the larger of the packet's LDS
// size and the code object's static size.
func ldsDemandOK(c *core.Ctx, prov *core.Prov, u, gran string) bool {
	m := regexp.MustCompile(`^recv\.unitsOccupy\((.*),` + regexp.QuoteMeta(gran) + `\)$`).FindStringSubmatch(u)
	if m == nil {
		return false
	}
	d := m[1]
	if core.ProvMatch(regexp.MustCompile(`^[^(){}|]*\.Packet\.GroupSegmentSize$`), d) {
		return true
	}
	h := regexp.MustCompile(`^resource\.(\w+)\([^(){}|]*\)$`).FindStringSubmatch(d)
	if h == nil {
		return false
	}
	fn := c.SSAFunc(resPkg, h[1])
	if fn == nil {
		return false
	}
	c.MarkAnalysed(fn)
	lp := core.NewLocalProv(c)
	isPkt := func(v ssa.Value) bool { return strings.HasSuffix(lp.Of(core.StripConv(v)), ".Packet.GroupSegmentSize") }
	isCO := func(v ssa.Value) bool {
		return strings.HasSuffix(lp.Of(core.StripConv(v)), ".CodeObject.GroupSegmentByteSize")
	}
	okRet, sawCmp := false, false
	for _, b := range fn.Blocks {
		for _, in := range b.Instrs {
			if r, ok := in.(*ssa.Return); ok && len(r.Results) == 1 {
				pv := lp.Of(core.StripConv(r.Results[0]))
				if strings.Contains(pv, ".Packet.GroupSegmentSize") && !core.ProvMatch(regexp.MustCompile(`[-+*/]`), strings.ReplaceAll(pv, ".Packet.GroupSegmentSize", "")) || strings.HasPrefix(pv, "max(") {
					okRet = true
				}
				if strings.HasPrefix(pv, "max(") {
					sawCmp = true
				}
			}
			bo, ok := in.(*ssa.BinOp)
			if !ok {
				continue
			}
			var pktGreaterOnTrue bool
			switch {
			case (bo.Op == token.GTR || bo.Op == token.GEQ) && isPkt(bo.X) && isCO(bo.Y), (bo.Op == token.LSS || bo.Op == token.LEQ) && isCO(bo.X) && isPkt(bo.Y):
				pktGreaterOnTrue = true
			case (bo.Op == token.LSS || bo.Op == token.LEQ) && isPkt(bo.X) && isCO(bo.Y), (bo.Op == token.GTR || bo.Op == token.GEQ) && isCO(bo.X) && isPkt(bo.Y):
				pktGreaterOnTrue = false
			default:
				continue
			}
			for _, ref := range *bo.Referrers() {
				iff, ok := ref.(*ssa.If)
				if !ok {
					continue
				}
				tb := iff.Block().Succs[0]
				// the value chosen on the true side
				for _, b2 := range fn.Blocks {
					for _, i2 := range b2.Instrs {
						phi, ok := i2.(*ssa.Phi)
						if !ok {
							continue
						}
						for k, e := range phi.Edges {
							pred := b2.Preds[k]
							if pred == tb || tb.Dominates(pred) {
								if isPkt(e) == pktGreaterOnTrue && (isPkt(e) || isCO(e)) {
									sawCmp = true
								} else if isPkt(e) || isCO(e) {
									return false // picks the smaller of the two sizes
								}
							}
						}
					}
				}
			}
		}
	}
	return okRet && sawCmp
}

// slotIsSourceOf decides whether the address that is cleared names the slot
// the work-group value was read from.
func slotIsSourceOf(prov *core.Prov, addr ssa.Value, wg ssa.Value) (bool, string) {
	wgP := prov.Of(wg)
	switch a := addr.(type) {
	case *ssa.FieldAddr:
		// a.currWG = nil with wg == a.currWG
		stT, ok := a.X.Type().Underlying().(*types.Pointer)
		if !ok {
			return false, "slot address not understood"
		}
		sT, ok := stT.Elem().Underlying().(*types.Struct)
		if !ok {
			return false, "slot address not understood"
		}
		want := prov.Of(a.X) + "." + sT.Field(a.Field).Name()
		if want == wgP {
			return true, ""
		}
		return false, "slot " + want + ", work-group " + short(wgP)
	case *ssa.IndexAddr:
		idxP := prov.Of(a.Index)
		if idxP != wgP+"#1" {
			return false, "index " + short(idxP) + " is not the index returned with the work-group, " + short(wgP) + "#1"
		}
		// the callee's returns pair each work-group with its own index
		ex, ok := core.StripConv(wg).(*ssa.Extract)
		if !ok {
			return false, "work-group is not a result of the call that returns the index"
		}
		call, ok := ex.Tuple.(*ssa.Call)
		if !ok || call.Call.StaticCallee() == nil {
			return false, "source call not resolved"
		}
		cal := call.Call.StaticCallee()
		var pairs func(cal *ssa.Function, d int) (bool, string)
		pairs = func(cal *ssa.Function, d int) (bool, string) {
			for _, b := range cal.Blocks {
				for _, in := range b.Instrs {
					ret, ok := in.(*ssa.Return)
					if !ok || len(ret.Results) != 2 {
						continue
					}
					if core.IsNilConst(ret.Results[0]) {
						continue
					}
					// both results handed through from one call of a helper: the helper is judged
					e0, ok0 := ret.Results[0].(*ssa.Extract)
					e1, ok1 := ret.Results[1].(*ssa.Extract)
					if ok0 && ok1 && e0.Tuple == e1.Tuple && e0.Index == 0 && e1.Index == 1 && d < 3 {
						if sub, ok := e0.Tuple.(*ssa.Call); ok && sub.Call.StaticCallee() != nil && sub.Call.StaticCallee().Pkg == cal.Pkg {
							if ok, why := pairs(sub.Call.StaticCallee(), d+1); !ok {
								return false, why
							}
							continue
						}
					}
					ld, ok := ret.Results[0].(*ssa.UnOp)
					if !ok {
						return false, cal.Name() + " returns a work-group that is not read from a slot"
					}
					ia, ok := ld.X.(*ssa.IndexAddr)
					if !ok {
						return false, cal.Name() + " returns a work-group that is not read from a slot"
					}
					if core.StripConv(ia.Index) != core.StripConv(ret.Results[1]) {
						return false, cal.Name() + " returns slots[" + ia.Index.Name() + "] together with index " + ret.Results[1].Name()
					}
				}
			}
			return true, ""
		}
		if ok, why := pairs(cal, 0); !ok {
			return false, why
		}
		return true, ""
	}
	return false, "slot address not understood"
}

// checkPlacementSiblings: the placement algorithms as siblings of one interface (R09.1;
// shared with C08 as R08.5: a work-group handed out twice or never is a partition failure
// at dispatch level).
func checkPlacementSiblings(c *core.Ctx, pd *PkgInfo, prov *core.Prov, rule string) {
	st1 := c.Rule(rule, "every type implementing dispatching.algorithm returns a valid location only where ReserveResourceForWG succeeded on the CU whose port and ID are returned, for the work-group that was reserved; on that path the dispatched counter is incremented exactly once and the pending work-group slot is cleared; FreeResources frees location.wg on GetCU(location.cuID); HasNext compares the same counter with the number of work-groups", 3)
	algIface := pd.Pkg.Pkg.Scope().Lookup("algorithm")
	var algTypes []*types.Named
	if algIface == nil {
		c.Report(core.Finding{Rule: rule, Kind: "anchor", Pkg: dispPkg, Func: "-", Detail: "algorithm", Msg: "interface dispatching.algorithm not found"})
	} else {
		iface := algIface.Type().Underlying().(*types.Interface)
		for _, n := range pd.Pkg.Pkg.Scope().Names() {
			tn, ok := pd.Pkg.Pkg.Scope().Lookup(n).(*types.TypeName)
			if !ok {
				continue
			}
			named, ok := tn.Type().(*types.Named)
			if !ok || types.IsInterface(named) || strings.HasPrefix(tn.Name(), "Mock") {
				continue // generated gomock types are test doubles, not placement algorithms
			}
			if types.Implements(types.NewPointer(named), iface) {
				algTypes = append(algTypes, named)
			}
		}
	}
	for _, at := range algTypes {
		tn := at.Obj().Name()
		st1.Instances++
		next := c.MustFunc(rule, dispPkg, tn+".Next")
		if next == nil {
			continue
		}
		c.MarkAnalysed(next)
		g := core.BuildGraph(next, 2, func(cal *ssa.Function) bool { return cal.Pkg == pd.Pkg })
		reserves := g.NodesWhere(func(n *core.Node) bool {
			return n.Frame.Parent == nil && invokes(n.Instr, "/resource", "ReserveResourceForWG")
		})
		if len(reserves) != 1 {
			st1.Ob(false)
			c.ReportAt(rule, next, next.Pos(), tn+":reserve-count", fmt.Sprintf("%d calls of ReserveResourceForWG in Next; the sibling algorithms have exactly one", len(reserves)))
			continue
		}
		rv := reserves[0]
		cuProv := prov.Of(core.CallOf(rv.Instr).Value)
		wgProv := prov.Of(core.CallOf(rv.Instr).Args[0])
		okCut := boolCut(func(_ *core.Node, v ssa.Value) bool {
			e, ok := v.(*ssa.Extract)
			return ok && e.Index == 1 && e.Tuple == rv.Instr.(ssa.Value)
		}, true)
		// dispatched counter field of this algorithm: field incremented in Next
		counter := ""
		for _, n := range g.Nodes {
			if n.Frame.Parent != nil {
				continue
			}
			if s, ok := n.Instr.(*ssa.Store); ok {
				if f := core.FieldOfAddr(s.Addr); f != nil && core.ShortFieldID(f) == tn+"."+f.Name() && prov.Of(s.Val) == "(recv."+f.Name()+"+1)" {
					counter = f.Name()
				}
			}
		}
		if counter == "" {
			st1.Ob(false)
			c.ReportAt(rule, next, next.Pos(), tn+":no-dispatched-counter", "Next never increments a dispatched-work-group counter of the algorithm")
		}
		for _, r := range g.NodesWhere(func(n *core.Node) bool { _, ok := n.Instr.(*ssa.Return); return ok && n.Frame.Parent == nil }) {
			ret := r.Instr.(*ssa.Return)
			pv := prov.Of(ret.Results[0])
			if !strings.Contains(pv, "valid:true") {
				st1.Ob(true)
				continue
			}
			okG := g.Guarded(r, okCut)
			st1.Ob(okG)
			if !okG {
				c.ReportAt(rule, next, ret.Pos(), tn+":valid-without-reservation", "a location with valid=true is returned on a path on which ReserveResourceForWG did not succeed: the work-group is mapped without resources")
			}
			m := regexp.MustCompile(`cu:(.*)\.DispatchingPort\(\),cuID:(.*),valid:true,wg:(.*)\}$`).FindStringSubmatch(pv)
			okF := m != nil && m[1] == cuProv && cuProv == "recv.cuPool.GetCU("+m[2]+")" && m[3] == wgProv
			st1.Ob(okF)
			st1.Sample("%s.Next: valid location {cu:%s, wg:%s} after Reserve on %s", tn, short(cuProv), short(wgProv), short(cuProv))
			if !okF {
				c.ReportAt(rule, next, ret.Pos(), tn+":location-fields", fmt.Sprintf("the returned location does not name the CU (%s) and work-group (%s) of the successful reservation: %s", short(cuProv), short(wgProv), short(pv)))
			}
			// exactly one increment of the counter between reservation success and this return
			if counter != "" {
				cnt := 0
				// count increments on some path: walk from the reservation; all increment nodes that reach r
				for _, n := range g.Nodes {
					if n.Frame.Parent != nil {
						continue
					}
					if s, ok := storeToField(n.Instr, tn+"."+counter); ok && prov.Of(s.Val) == "(recv."+counter+"+1)" {
						fromRes, _ := g.Reach(core.After(rv, nil), core.WalkOpts{ForwardOnly: true})
						toRet, _ := g.Reach(core.After(n, nil), core.WalkOpts{ForwardOnly: true})
						if fromRes[n] && toRet[r] {
							cnt++
							// must-pass: every path from ok-edge to r passes n
							pass := true
							g.Walk(core.After(rv, nil), core.WalkOpts{ForwardOnly: true, Stop: func(x *core.Node) bool { return x == n }}, func(s core.State) {
								if s.N == r {
									pass = false
								}
							})
							st1.Ob(pass)
							if !pass {
								c.ReportAt(rule, next, ret.Pos(), tn+":counter-skipped", "a valid location can be returned without counting the work-group as dispatched (HasNext then offers it again)")
							}
						}
					}
				}
				st1.Ob(cnt == 1)
				if cnt != 1 {
					c.ReportAt(rule, next, ret.Pos(), tn+":counter-count", fmt.Sprintf("%d increments of %s on the success path; exactly one expected", cnt, counter))
				}
			}
			// pending slot cleared: the slot set to nil is the slot the dispatched
			// work-group was taken from. Either the slot is the field whose value is
			// the reserved work-group, or it is element [k] of a slice where k was
			// returned, together with the work-group, by one call whose returns all
			// have the form (slots[k], k) or (nil, _).
			cleared := false
			for _, n := range g.Nodes {
				s, ok := n.Instr.(*ssa.Store)
				if !ok || !core.IsNilConst(s.Val) || !strings.Contains(prov.Of(s.Addr), "currWG") {
					continue
				}
				toRet, _ := g.Reach(core.After(n, nil), core.WalkOpts{ForwardOnly: true})
				if !toRet[r] {
					continue
				}
				cleared = true
				okSlot, why := slotIsSourceOf(prov, s.Addr, core.CallOf(rv.Instr).Args[0])
				st1.Ob(okSlot)
				if !okSlot {
					c.ReportAt(rule, n.Fn(), s.Pos(), tn+":slot-not-source", "the pending slot cleared on the success path is not the slot the dispatched work-group was taken from ("+why+"): the work-group stays pending and is dispatched again while another one is dropped")
				}
			}
			st1.Ob(cleared)
			if !cleared {
				c.ReportAt(rule, next, ret.Pos(), tn+":slot-not-cleared", "the pending work-group slot is not cleared on the success path: the same work-group is dispatched again")
			}
			// per-source counters (partitions[k].dispatchedWG) use the same k
			for _, n := range g.Nodes {
				s, ok := n.Instr.(*ssa.Store)
				if !ok || n.Frame.Parent != nil {
					continue
				}
				fa, ok := s.Addr.(*ssa.FieldAddr)
				if !ok {
					continue
				}
				ld, ok := fa.X.(*ssa.UnOp)
				if !ok {
					continue
				}
				ia, ok := ld.X.(*ssa.IndexAddr)
				if !ok {
					continue
				}
				if bo, isB := s.Val.(*ssa.BinOp); !isB || bo.Op != token.ADD {
					continue
				}
				st1.Instances++
				wgP := prov.Of(core.CallOf(rv.Instr).Args[0])
				okIdx := prov.Of(ia.Index) == wgP+"#1"
				st1.Ob(okIdx)
				if !okIdx {
					c.ReportAt(rule, next, s.Pos(), tn+":source-counter-index", fmt.Sprintf("a per-source dispatched counter is incremented at index %s, which is not the source index returned with the dispatched work-group (%s#1)", short(prov.Of(ia.Index)), short(wgP)))
				}
			}
		}
		// FreeResources
		if fr := c.MustFunc(rule, dispPkg, tn+".FreeResources"); fr != nil {
			found := false
			for _, b := range fr.Blocks {
				for _, in := range b.Instrs {
					if invokes(in, "/resource", "FreeResourcesForWG") {
						found = true
						cc := core.CallOf(in)
						rp, ap := prov.Of(cc.Value), prov.Of(cc.Args[0])
						ok := core.ProvMatch(regexp.MustCompile(`^recv\.cuPool\.GetCU\(.*\.cuID\)$`), rp) && strings.HasSuffix(ap, ".wg")
						st1.Ob(ok)
						st1.Sample("%s.FreeResources: %s.FreeResourcesForWG(%s)", tn, rp, ap)
						if !ok {
							c.ReportAt(rule, fr, in.Pos(), tn+":free-args", "FreeResources does not free location.wg on GetCU(location.cuID): "+rp+".FreeResourcesForWG("+ap+")")
						}
					}
				}
			}
			st1.Ob(found)
			if !found {
				c.ReportAt(rule, fr, fr.Pos(), tn+":free-missing", "FreeResources never calls FreeResourcesForWG: resources of finished work-groups are never returned")
			}
		}
		// HasNext
		if hn := c.MustFunc(rule, dispPkg, tn+".HasNext"); hn != nil && counter != "" {
			// `counter < n`, written directly, mirrored, negated, or through a predicate helper
			// of the algorithm (`!a.allDispatched()` with allDispatched = counter >= n)
			ok := false
			for _, b := range hn.Blocks {
				for _, in := range b.Instrs {
					r, isRet := in.(*ssa.Return)
					if !isRet || len(r.Results) != 1 {
						continue
					}
					v, neg := stripNot(r.Results[0])
					for d := 0; d < 3; d++ {
						body, isP := predicateBody(v)
						if !isP {
							break
						}
						v2, n2 := stripNot(body)
						v = v2
						if n2 {
							neg = !neg
						}
					}
					bo, isB := v.(*ssa.BinOp)
					if !isB {
						continue
					}
					op := bo.Op
					switch {
					case prov.Of(bo.X) == "recv."+counter:
					case prov.Of(bo.Y) == "recv."+counter:
						op = mirrorCmp(op)
					default:
						continue
					}
					if neg {
						op = map[token.Token]token.Token{token.GEQ: token.LSS, token.LSS: token.GEQ, token.GTR: token.LEQ, token.LEQ: token.GTR, token.EQL: token.NEQ, token.NEQ: token.EQL}[op]
					}
					if op == token.LSS {
						ok = true
					}
				}
			}
			st1.Ob(ok)
			if !ok {
				c.ReportAt(rule, hn, hn.Pos(), tn+":hasnext", "HasNext is not `"+counter+" < number of work-groups` on the counter that Next increments")
			}
		}
	}
	if len(algTypes) < 3 {
		c.Report(core.Finding{Rule: rule, Kind: "floor", Pkg: dispPkg, Func: "-", Detail: "algorithm-count", Msg: fmt.Sprintf("%d implementations of dispatching.algorithm found, 3 confirmed by hand", len(algTypes))})
	}

}

// checkLaunchResponse (R09.4, shared with C08 as R08.9): the launch response - the announcement
// that all NumWG work-groups of the grid ran - is built only under kernelCompleted(), and
// kernelCompleted returns true only after finding no pending work-group (a location the
// algorithm already handed out and counted, kept in currWG because the port refused it), no
// further work-group and completed >= dispatched.
func checkLaunchResponse(c *core.Ctx, pd *PkgInfo, prov *core.Prov, rule string) *core.RuleStat {
	st4 := c.Rule(rule, "the launch response is constructed only where kernelCompleted() held; kernelCompleted returns true only after testing no pending work-group, no further work-group and completed >= dispatched; the response answers the dispatching request; a dispatcher starts a kernel only when it is not dispatching", 4)
	var kc *ssa.Function
	for _, fn := range pd.Funcs {
		// structural: bool function reading currWG.valid and comparing the two counters
		if fn.Signature.Results().Len() != 1 || fn.Signature.Params().Len() != 0 {
			continue
		}
		hasCmp := false
		for _, b := range fn.Blocks {
			for _, in := range b.Instrs {
				if bo, ok := in.(*ssa.BinOp); ok {
					x, y := prov.Of(bo.X), prov.Of(bo.Y)
					if (x == "recv.numCompletedWGs" && y == "recv.numDispatchedWGs") || (y == "recv.numCompletedWGs" && x == "recv.numDispatchedWGs") {
						hasCmp = true
					}
				}
			}
		}
		if !hasCmp {
			// the comparison may sit in a one-expression predicate helper
			for _, b := range fn.Blocks {
				for _, in := range b.Instrs {
					if v, ok := in.(ssa.Value); ok {
						if body, ok := predicateBody(v); ok {
							if bo, ok := body.(*ssa.BinOp); ok {
								x, y := prov.Of(bo.X), prov.Of(bo.Y)
								if (x == "recv.numCompletedWGs" && y == "recv.numDispatchedWGs") || (y == "recv.numCompletedWGs" && x == "recv.numDispatchedWGs") {
									hasCmp = true
								}
							}
						}
					}
				}
			}
		}
		// the predicate is the candidate with the largest body (a helper that holds only the comparison is part of it)
		if hasCmp && (kc == nil || len(fn.Blocks) > len(kc.Blocks)) {
			kc = fn
		}
	}
	if kc == nil {
		c.Report(core.Finding{Rule: rule, Kind: "anchor", Pkg: dispPkg, Func: "-", Detail: "kernel-completed-predicate", Msg: "no predicate comparing numCompletedWGs with numDispatchedWGs found"})
	} else {
		g := core.BuildGraph(kc, 0, nil)
		cuts := map[string]EdgeCut{
			"no pending work-group (currWG.valid == false)": BoolFieldCut("dispatchLocation.valid", false),
			"no further work-group (alg.HasNext() == false)": boolCut(func(_ *core.Node, v ssa.Value) bool {
				in, ok := v.(ssa.Instruction)
				return ok && invokes(in, "/dispatching", "HasNext")
			}, false),
			"completed >= dispatched": CmpCut(func(_ *core.Node, op token.Token, x, y ssa.Value) int {
				px, py := prov.Of(x), prov.Of(y)
				if px == "recv.numCompletedWGs" && py == "recv.numDispatchedWGs" {
					switch op {
					case token.LSS:
						return -1
					case token.GEQ:
						return 1
					case token.EQL:
						return 1
					case token.NEQ:
						return -1
					}
				}
				if py == "recv.numCompletedWGs" && px == "recv.numDispatchedWGs" {
					switch op {
					case token.GTR:
						return -1
					case token.LEQ:
						return 1
					}
				}
				return 0
			}),
		}
		for _, r := range g.NodesWhere(func(n *core.Node) bool { _, ok := n.Instr.(*ssa.Return); return ok }) {
			ret := r.Instr.(*ssa.Return)
			if b, isC := core.ConstBool(ret.Results[0]); isC && !b {
				continue
			}
			for _, what := range sortedKeys(cuts) {
				st4.Instances++
				ok := g.Guarded(r, cuts[what])
				if !ok && what == "completed >= dispatched" {
					// `return completed >= dispatched` establishes the conjunct by returning it
					if bo, isB := ret.Results[0].(*ssa.BinOp); isB {
						px, py := prov.Of(bo.X), prov.Of(bo.Y)
						if (px == "recv.numCompletedWGs" && py == "recv.numDispatchedWGs" && (bo.Op == token.GEQ || bo.Op == token.EQL)) ||
							(py == "recv.numCompletedWGs" && px == "recv.numDispatchedWGs" && bo.Op == token.LEQ) {
							ok = true
						}
					}
				}
				st4.Ob(ok)
				st4.Sample("kernelCompleted: return true guarded by %s: %v", what, ok)
				if !ok {
					c.ReportAt(rule, kc, ret.Pos(), "kernelCompleted:"+strings.Fields(what)[0]+strings.Fields(what)[1], "the kernel is declared completed on a path that did not establish: "+what)
				}
			}
		}
		isRspNew := func(in ssa.Instruction) bool {
			return core.IsCall(in, core.ModPath+"/amd/protocol.NewLaunchKernelRsp")
		}
		n, ung := pd.GuardedUp(isRspNew, CallFnCut(true, map[*ssa.Function]bool{kc: true}))
		st4.Instances += n
		if n != 1 {
			c.Report(core.Finding{Rule: rule, Pkg: dispPkg, Func: "-", Detail: "LaunchKernelRsp:sites", Msg: fmt.Sprintf("%d construction sites of LaunchKernelRsp in the dispatcher; exactly one expected", n)})
		}
		for i := 0; i < n-len(ung); i++ {
			st4.Ob(true)
		}
		for _, u := range ung {
			st4.Ob(false)
			c.ReportAt(rule, u.Target.Fn(), u.Target.Instr.Pos(), "LaunchKernelRsp:guard", "the launch response is built on a path that did not find kernelCompleted() true")
		}
		pd.Instrs(func(fn *ssa.Function, in ssa.Instruction) {
			if isRspNew(in) {
				st4.Instances++
				pv := prov.Of(in.(ssa.Value))
				ok := pv == "protocol.NewLaunchKernelRsp(recv.dispatching.Dst,recv.dispatching.Src,recv.dispatching.ID)"
				st4.Ob(ok)
				if !ok {
					c.ReportAt(rule, fn, in.Pos(), "LaunchKernelRsp:fields", "the launch response does not answer the dispatching request (Dst, Src, ID of d.dispatching): "+pv)
				}
			}
		})
	}
	return st4
}
