package rules

import (
	"fmt"
	"go/constant"
	"go/token"
	"go/types"
	"regexp"
	"sort"
	"strconv"
	"strings"

	"golang.org/x/tools/go/ssa"

	"verif/internal/core"
)

// checkModifierFlags (R04.26): the NEG and ABS fields of the VOP3 encodings are
// kept twice in a decoded instruction: as the raw three-bit field (Inst.Neg /
// Inst.Abs, which the ALUs read) and as one flag per source (Src0Neg ... Src2Abs,
// which the printer reads). A decoder function that stores the raw field from
// the instruction word derives the flags before it returns successfully, and
// the printer arm of every format whose decoder stores the field reads them.
func checkModifierFlags(c *core.Ctx) {
	st := c.Rule("R04.26", "a decoder function that stores Inst.Neg (Inst.Abs) from the instruction word also sets the per-source flags Src0Neg..Src2Neg (Src0Abs..Src2Abs) on every path to a successful return (directly or through a helper that stores all three), and the printer arm of each format whose decoder stores the field (FormatType dispatch of InstPrinter.Print resolved per format) reads the flags of both leading sources: otherwise the two representations of one modifier disagree and the disassembly of an instruction with a negated source prints the plain register", 3)
	pi := NewPkgInfo(c, instsPkg)
	if pi.Pkg == nil {
		return
	}
	flagSets := map[string][]string{"Neg": {"Src0Neg", "Src1Neg", "Src2Neg"}, "Abs": {"Src0Abs", "Src1Abs", "Src2Abs"}}
	storesAll := func(fn *ssa.Function, fields []string) bool {
		got := map[string]bool{}
		for _, b := range fn.Blocks {
			for _, in := range b.Instrs {
				if s, ok := in.(*ssa.Store); ok {
					if f := core.FieldOfAddr(s.Addr); f != nil {
						got[f.Name()] = true
					}
				}
			}
		}
		for _, f := range fields {
			if !got[f] {
				return false
			}
		}
		return true
	}
	// which decoder functions store the raw field
	rawStore := map[string]map[*ssa.Function]bool{"Neg": {}, "Abs": {}}
	for _, fn := range pi.Funcs {
		var g *core.Graph
		for _, b := range fn.Blocks {
			for _, in := range b.Instrs {
				s, ok := in.(*ssa.Store)
				if !ok {
					continue
				}
				f := core.FieldOfAddr(s.Addr)
				if f == nil || core.ShortFieldID(f) != "Inst."+f.Name() {
					continue
				}
				fields, isMod := flagSets[f.Name()]
				if !isMod {
					continue
				}
				if _, isConst := s.Val.(*ssa.Const); isConst {
					continue
				}
				rawStore[f.Name()][fn] = true
				if g == nil {
					g = core.BuildGraph(fn, 0, nil)
				}
				n := g.NodeOf(in)
				if n == nil {
					continue
				}
				st.Instances++
				c.MarkAnalysed(fn)
				seenFlag := map[string]bool{}
				_ = seenFlag
				derives := func(m *core.Node) bool {
					if cc := core.CallOf(m.Instr); cc != nil {
						if cal := cc.StaticCallee(); cal != nil && cal.Pkg == pi.Pkg && storesAll(cal, fields) {
							return true
						}
					}
					return false
				}
				// direct stores: all three in the function count as a derivation point at the last of them
				direct := storesAll(fn, fields)
				leak := false
				if !direct {
					g.Walk(core.After(n, nil), core.WalkOpts{ForwardOnly: true, Stop: derives}, func(x core.State) {
						if r, isRet := x.N.Instr.(*ssa.Return); isRet && len(r.Results) > 0 && core.IsNilConst(r.Results[len(r.Results)-1]) {
							leak = true
						}
					})
				}
				st.Ob(!leak)
				st.Sample("%s: Inst.%s stored from the word, per-source flags derived before success: %v", core.FuncName(fn), f.Name(), !leak)
				if leak {
					c.ReportAt("R04.26", fn, in.Pos(), "modifier-flags-not-derived:"+f.Name(), core.FuncName(fn)+" stores Inst."+f.Name()+" from the instruction word and returns without setting "+fields[0]+" / "+fields[1]+" / "+fields[2]+": the ALUs (which read the raw field) apply the modifier while the decoded instruction says the sources are plain, and the disassembly drops the sign")
				}
			}
		}
	}
	// format -> decoder function and format -> printer closure, through the two FormatType dispatches
	isFmt := isLoadOfField("FormatType")
	closure := func(blocks []*ssa.BasicBlock) map[*ssa.Function]bool {
		set := map[*ssa.Function]bool{}
		var add func(fn *ssa.Function)
		add = func(fn *ssa.Function) {
			if fn == nil || fn.Pkg != pi.Pkg || set[fn] {
				return
			}
			set[fn] = true
			for _, b := range fn.Blocks {
				for _, in := range b.Instrs {
					if cc := core.CallOf(in); cc != nil {
						add(cc.StaticCallee())
					}
				}
			}
		}
		for _, b := range blocks {
			for _, in := range b.Instrs {
				if cc := core.CallOf(in); cc != nil {
					add(cc.StaticCallee())
				}
			}
		}
		return set
	}
	dec := c.SSAFunc(instsPkg, "Disassembler.Decode")
	prt := c.SSAFunc(instsPkg, "InstPrinter.Print")
	if dec == nil || prt == nil {
		c.Report(core.Finding{Rule: "R04.26", Kind: "anchor", Pkg: instsPkg, Func: "-", Detail: "Decode/Print", Msg: "Disassembler.Decode or InstPrinter.Print not found"})
		return
	}
	var names []string
	consts := map[string]int64{}
	scope := pi.Pkg.Pkg.Scope()
	for _, n := range scope.Names() {
		k, ok := scope.Lookup(n).(*types.Const)
		if !ok || namedTypeName(k.Type()) != "insts.FormatType" {
			continue
		}
		if v, exact := constant.Int64Val(k.Val()); exact {
			consts[n] = v
			names = append(names, n)
		}
	}
	sort.Strings(names)
	all := func(blocks []*ssa.BasicBlock) map[*ssa.Function]bool { return closure(blocks) }
	// functions common to every format arm are not specific to a format
	for _, name := range names {
		k := consts[name]
		decSet := all(opReach(dec, isFmt, k))
		prtSet := all(opReach(prt, isFmt, k))
		for field, fields := range flagSets {
			stores := false
			for fn := range decSet {
				if rawStore[field][fn] {
					stores = true
				}
			}
			if !stores {
				continue
			}
			st.Instances++
			reads := map[string]bool{}
			for fn := range prtSet {
				for _, b := range fn.Blocks {
					for _, in := range b.Instrs {
						if u, ok := in.(*ssa.UnOp); ok {
							if fa, ok := u.X.(*ssa.FieldAddr); ok {
								reads[fieldNameOf(fa)] = true
							}
						}
					}
				}
			}
			ok := reads[fields[0]] && reads[fields[1]]
			// the ABS field does not exist in VOP3b (SDST takes its bits): only formats whose decoder stores it are asked
			st.Ob(ok)
			st.Sample("format %s: decoder stores Inst.%s; printer arm reads %s and %s: %v", name, field, fields[0], fields[1], ok)
			if !ok {
				c.Report(core.Finding{Rule: "R04.26", Pkg: instsPkg, Func: "InstPrinter.Print", Detail: "modifier-not-printed:" + name + ":" + field,
					Pos: c.Position(prt.Pos()), Msg: "the decoder of format " + name + " stores Inst." + field + " but the printer arm of that format never reads " + fields[0] + " / " + fields[1] + ": an instruction with a negated (absolute) source is printed like the plain one, so the disassembly is not the instruction that was encoded"})
			}
		}
	}
}

// checkOperandsFresh (R04.27): every operand of a decoded instruction is storage of
// that instruction. The format decoders adjust operands after they were built
// (`inst.Src0.RegCount = 2` for 64-bit sources), so an operand object handed out
// twice - a shared prototype for an inline constant, a cached table entry - makes
// the decoding of one instruction change another one, and the same bytes decode
// differently depending on what was decoded before.
func checkOperandsFresh(c *core.Ctx) {
	st := c.Rule("R04.27", "every function of the decoder that returns a *Operand (getOperand, the New*Operand constructors and what they call) returns storage allocated in that call on every path (allocation, composite literal, result of another such function; never a pointer loaded from a package-level table, a field or a map): the format decoders write into the operands they receive (RegCount of 64-bit sources), so a shared operand object lets one decoded instruction change another and makes decoding depend on history", 5)
	pi := NewPkgInfo(c, instsPkg)
	if pi.Pkg == nil {
		return
	}
	fc := newFreshCtx(c)
	for _, fn := range pi.Funcs {
		if fn.Signature.Recv() != nil && fn.Name() != "getOperand" {
			// methods of Operand / Reg are not constructors
		}
		res := fn.Signature.Results()
		for i := 0; i < res.Len(); i++ {
			if namedTypeName(res.At(i).Type()) != "insts.Operand" {
				continue
			}
			if _, isPtr := res.At(i).Type().(*types.Pointer); !isPtr {
				continue
			}
			// only the decode side: getOperand and the constructors
			if fn.Name() != "getOperand" && !strings.HasPrefix(fn.Name(), "New") && !strings.HasPrefix(fn.Name(), "new") {
				continue
			}
			st.Instances++
			c.MarkAnalysed(fn)
			r := fc.result(fn, i)
			st.Ob(r.ok)
			if !r.ok {
				c.ReportAt("R04.27", fn, fn.Pos(), "operand-shared:"+fn.Name(), core.FuncName(fn)+" can return an operand that is not allocated by the call ("+r.why+"): the decoders set RegCount on the operands of 64-bit instructions, so decoding `v_rcp_f64 v[0:1], 1.0` changes the operand of every instruction that uses the same constant, before and after")
			}
		}
	}
}

// checkWidthColumn (R04.28): where a format decoder widens an operand to a register
// pair because of the table's width column, it consults the column of that very
// operand.
func checkWidthColumn(c *core.Ctx) {
	st := c.Rule("R04.28", "a store `inst.<Operand>.RegCount = 2` in a format decoder that is taken under a test of a width column of the decode table (SRC0Width / SRC1Width / SRC2Width / DSTWidth / SDSTWidth == 64) is taken under the column of that operand: Src0 under SRC0Width, Src1 under SRC1Width, Src2 under SRC2Width, Dst under DSTWidth, SDst under SDSTWidth. v_cmp_class_f64 has a 64-bit SRC0 and a 32-bit SRC1; widening both under the SRC0 column decodes the class mask as a register pair", 12)
	pi := NewPkgInfo(c, instsPkg)
	if pi.Pkg == nil {
		return
	}
	col := map[string]string{"Src0": "SRC0Width", "Src1": "SRC1Width", "Src2": "SRC2Width", "Dst": "DSTWidth", "SDst": "SDSTWidth"}
	widthCut := func(accept func(field string) bool) EdgeCut {
		return CmpCut(func(_ *core.Node, op token.Token, x, y ssa.Value) int {
			k, isC := core.ConstInt(y)
			if !isC || k != 64 {
				return 0
			}
			f := core.LoadedField(core.StripConv(x))
			if f == nil || !accept(f.Name()) {
				return 0
			}
			switch op {
			case token.EQL:
				return 1
			case token.NEQ:
				return -1
			}
			return 0
		})
	}
	for _, fn := range pi.Funcs {
		var g *core.Graph
		for _, b := range fn.Blocks {
			for _, in := range b.Instrs {
				s, ok := in.(*ssa.Store)
				if !ok {
					continue
				}
				fa, ok := s.Addr.(*ssa.FieldAddr)
				if !ok || fieldNameOf(fa) != "RegCount" {
					continue
				}
				if k, isC := core.ConstInt(s.Val); !isC || k != 2 {
					continue
				}
				opLoad, ok := fa.X.(*ssa.UnOp)
				if !ok {
					continue
				}
				of := core.LoadedField(opLoad)
				if of == nil || col[of.Name()] == "" || core.ShortFieldID(of) != "Inst."+of.Name() {
					continue
				}
				if g == nil {
					g = core.BuildGraph(fn, 0, nil)
				}
				n := g.NodeOf(in)
				if n == nil {
					continue
				}
				own := col[of.Name()]
				underOwn := g.Guarded(n, widthCut(func(f string) bool { return f == own }))
				underAny := g.Guarded(n, widthCut(func(f string) bool {
					for _, w := range col {
						if f == w {
							return true
						}
					}
					return false
				}))
				if !underAny {
					continue // widened for another reason (opcode, mnemonic): not this rule
				}
				st.Instances++
				c.MarkAnalysed(fn)
				st.Ob(underOwn)
				if !underOwn {
					c.ReportAt("R04.28", fn, in.Pos(), "width-column:"+of.Name(), core.FuncName(fn)+" widens "+of.Name()+" to a register pair under the width column of another operand, not under "+own+": an instruction whose operands have different widths (v_cmp_class_f64: 64-bit SRC0, 32-bit SRC1) decodes this operand with the wrong register count")
				}
			}
		}
	}
}

// checkOpcodeOperandsPrinted (R04.31): what the decoder fills for one opcode only, the printer
// prints for that opcode. The format decoders give a few opcodes an extra operand (the literal K
// of v_madmk / v_madak / v_fmamk / v_fmaak in Src2); the per-format printer has its own switch on
// the opcode. Both switches are resolved per opcode value: an operand field that the decoder
// stores under opcode k (and not for an opcode without an arm) has to be read by the printer arm
// the same k selects, otherwise two encodings that differ in that operand print alike.
func checkOpcodeOperandsPrinted(c *core.Ctx) {
	st := c.Rule("R04.31", "an operand that a format decoder fills only for particular opcodes (stores to an *Operand field of Inst under an arm of its opcode switch: the literal K of v_madmk / v_madak / v_fmamk / v_fmaak) is printed for exactly those opcodes: the format's printer function, resolved for the same opcode value, reads that field. Decoder and printer are paired through the FormatType dispatch of Decode and Print; opcode switches are decided per value, other branches explored both ways", 4)
	pi := NewPkgInfo(c, instsPkg)
	if pi.Pkg == nil {
		return
	}
	dec := c.SSAFunc(instsPkg, "Disassembler.Decode")
	prt := c.SSAFunc(instsPkg, "InstPrinter.Print")
	if dec == nil || prt == nil {
		c.Report(core.Finding{Rule: "R04.31", Kind: "anchor", Pkg: instsPkg, Func: "-", Detail: "Decode/Print", Msg: "Disassembler.Decode or InstPrinter.Print not found"})
		return
	}
	isFmt := isLoadOfField("FormatType")
	isOpc := isLoadOfField("Opcode")
	callees := func(blocks []*ssa.BasicBlock) []*ssa.Function {
		var out []*ssa.Function
		seen := map[*ssa.Function]bool{}
		for _, b := range blocks {
			for _, in := range b.Instrs {
				if cc := core.CallOf(in); cc != nil {
					if f := cc.StaticCallee(); f != nil && f.Pkg == pi.Pkg && !seen[f] && len(f.Blocks) > 0 {
						seen[f] = true
						out = append(out, f)
					}
				}
			}
		}
		return out
	}
	hasOpcodeSwitch := func(fn *ssa.Function) []int64 {
		set := map[int64]bool{}
		for _, b := range fn.Blocks {
			for _, in := range b.Instrs {
				bo, ok := in.(*ssa.BinOp)
				if !ok || bo.Op != token.EQL {
					continue
				}
				for _, pr := range [][2]ssa.Value{{bo.X, bo.Y}, {bo.Y, bo.X}} {
					x := pr[0]
					if cv, ok := x.(*ssa.Convert); ok {
						x = cv.X
					}
					if !isOpc(x) {
						continue
					}
					if k, ok := core.ConstInt(pr[1]); ok {
						set[k] = true
					}
				}
			}
		}
		var out []int64
		for k := range set {
			out = append(out, k)
		}
		sort.Slice(out, func(i, j int) bool { return out[i] < out[j] })
		return out
	}
	isOperandField := func(fa *ssa.FieldAddr) bool {
		if !strings.HasSuffix(namedTypeName(fa.X.Type()), "insts.Inst") && namedTypeName(fa.X.Type()) != "insts.Inst" {
			return false
		}
		f := fieldOfStruct(fa.X.Type(), fa.Field)
		return f != nil && namedTypeName(f.Type()) == "insts.Operand"
	}
	storesIn := func(blocks []*ssa.BasicBlock) map[string]bool {
		out := map[string]bool{}
		for _, b := range blocks {
			for _, in := range b.Instrs {
				if sto, ok := in.(*ssa.Store); ok {
					if fa, ok := sto.Addr.(*ssa.FieldAddr); ok && isOperandField(fa) {
						out[fieldNameOf(fa)] = true
					}
				}
			}
		}
		return out
	}
	var readsIn func(blocks []*ssa.BasicBlock, depth int, out map[string]bool, seen map[*ssa.Function]bool)
	readsIn = func(blocks []*ssa.BasicBlock, depth int, out map[string]bool, seen map[*ssa.Function]bool) {
		for _, b := range blocks {
			for _, in := range b.Instrs {
				if u, ok := in.(*ssa.UnOp); ok && u.Op == token.MUL {
					if fa, ok := u.X.(*ssa.FieldAddr); ok && isOperandField(fa) {
						out[fieldNameOf(fa)] = true
					}
				}
				if cc := core.CallOf(in); cc != nil && depth < 2 {
					if f := cc.StaticCallee(); f != nil && f.Pkg == pi.Pkg && !seen[f] && len(f.Blocks) > 0 {
						seen[f] = true
						readsIn(f.Blocks, depth+1, out, seen)
					}
				}
			}
		}
	}
	scope := pi.Pkg.Pkg.Scope()
	var names []string
	consts := map[string]int64{}
	for _, n := range scope.Names() {
		k, ok := scope.Lookup(n).(*types.Const)
		if !ok || namedTypeName(k.Type()) != "insts.FormatType" {
			continue
		}
		if v, exact := constant.Int64Val(k.Val()); exact {
			consts[n] = v
			names = append(names, n)
		}
	}
	sort.Strings(names)
	const noArm = int64(0x7ffffff1)
	for _, name := range names {
		k := consts[name]
		var decFn, prtFn *ssa.Function
		for _, f := range callees(opReach(dec, isFmt, k)) {
			if strings.HasPrefix(f.Name(), "decode") && len(hasOpcodeSwitch(f)) > 0 {
				decFn = f
			}
		}
		for _, f := range callees(opReach(prt, isFmt, k)) {
			if strings.HasSuffix(f.Name(), "String") {
				prtFn = f
			}
		}
		if decFn == nil || prtFn == nil {
			continue
		}
		base := storesIn(opReach(decFn, isOpc, noArm))
		for _, op := range hasOpcodeSwitch(decFn) {
			extra := storesIn(opReach(decFn, isOpc, op))
			var fields []string
			for f := range extra {
				if !base[f] {
					fields = append(fields, f)
				}
			}
			sort.Strings(fields)
			if len(fields) == 0 {
				continue
			}
			reads := map[string]bool{}
			readsIn(opReach(prtFn, isOpc, op), 0, reads, map[*ssa.Function]bool{prtFn: true})
			for _, f := range fields {
				st.Instances++
				c.MarkAnalysed(decFn)
				c.MarkAnalysed(prtFn)
				ok := reads[f]
				st.Ob(ok)
				st.Sample("format %s opcode %d: %s stores Inst.%s; %s reads it for that opcode: %v", name, op, decFn.Name(), f, prtFn.Name(), ok)
				if !ok {
					c.ReportAt("R04.31", prtFn, prtFn.Pos(), fmt.Sprintf("operand-not-printed:%s:%d:%s", name, op, f), fmt.Sprintf("%s fills Inst.%s for opcode %d of format %s only, and %s never reads that field for opcode %d: the operand is missing from the disassembly (v_madmk_f32 v3, v7, 0x40490fdb, v5 prints as v_madmk_f32 v3, v7, v5), so instructions that differ only in it print alike", decFn.Name(), f, op, name, prtFn.Name(), op))
				}
			}
		}
	}
}

// checkDSDestinationPrinted (R04.34): a DS instruction that returns a value (DSTWidth > 0 in its
// decode-table row: reads, returning atomics, swizzle / permute) has a destination VGPR, which the
// decoder fills from the instruction word; the printer names it only for the opcodes of its own
// list. Both are resolved per row: the printer function of the DS format, followed for the row's
// opcode, has to read Inst.Dst.
func checkDSDestinationPrinted(c *core.Ctx, t *InstTables) {
	st := c.Rule("R04.34", "a DS instruction with a destination (DSTWidth > 0 in its decode-table row) is printed with it: the DS printer function, followed for the row's opcode with its opcode tests decided (opReach), reads Inst.Dst. Otherwise ds_add_rtn_u32 v0, v1, v2 prints as ds_add_rtn_u32 v1, v2 and instructions that differ in the destination print alike", 10)
	prt := c.SSAFunc(instsPkg, "InstPrinter.dsString")
	if prt == nil {
		c.Report(core.Finding{Rule: "R04.34", Kind: "anchor", Pkg: instsPkg, Func: "InstPrinter.dsString", Detail: "anchor", Msg: "dsString not found"})
		return
	}
	isOpc := isLoadOfField("Opcode")
	seen := map[int64]bool{}
	for _, r := range t.Rows {
		if r.Format != "DS" || r.Widths[0] <= 0 || seen[r.Opcode] {
			continue
		}
		seen[r.Opcode] = true
		st.Instances++
		c.MarkAnalysed(prt)
		reads := false
		for _, b := range opReach(prt, isOpc, r.Opcode) {
			for _, in := range b.Instrs {
				if u, ok := in.(*ssa.UnOp); ok && u.Op == token.MUL {
					if fa, ok := u.X.(*ssa.FieldAddr); ok && fieldNameOf(fa) == "Dst" && strings.HasSuffix(namedTypeName(fa.X.Type()), "insts.Inst") {
						reads = true
					}
				}
			}
		}
		st.Ob(reads)
		if !reads {
			c.Report(core.Finding{Rule: "R04.34", Pkg: instsPkg, Func: "InstPrinter.dsString", Detail: fmt.Sprintf("ds-destination-not-printed:%s", strings.TrimSpace(r.Name)), Pos: c.Position(r.Pos),
				Msg: fmt.Sprintf("%s (DS opcode %d) has a destination (DSTWidth %d) that the decoder fills, but dsString does not print Inst.Dst for that opcode: the disassembly lacks the destination register", strings.TrimSpace(r.Name), r.Opcode, r.Widths[0])})
		}
	}
}

// checkEveryRowPrints (R04.35): every instruction of the decode tables has a disassembly. The
// per-format printer functions build their text in arms selected by the opcode; a row whose
// opcode falls through all arms comes back as the empty string. For every row the printer of its
// format is followed with the opcode tests decided (opReach); the value it returns must not be
// the empty string on any edge that remains reachable.
func checkEveryRowPrints(c *core.Ctx, t *InstTables) {
	st := c.Rule("R04.35", "every row of the decode tables prints as text: the printer function of the row's format (paired through the FormatType dispatch of InstPrinter.Print), followed for the row's opcode with its opcode tests decided, returns a string that is not the empty constant on any edge that stays reachable. A row that falls through every arm of its printer is disassembled to nothing: the FLAT atomics print as an empty line", 300)
	pi := NewPkgInfo(c, instsPkg)
	prt := c.SSAFunc(instsPkg, "InstPrinter.Print")
	if pi.Pkg == nil || prt == nil {
		c.Report(core.Finding{Rule: "R04.35", Kind: "anchor", Pkg: instsPkg, Func: "InstPrinter.Print", Detail: "anchor", Msg: "InstPrinter.Print not found"})
		return
	}
	isFmt := isLoadOfField("FormatType")
	isOpc := isLoadOfField("Opcode")
	scope := pi.Pkg.Pkg.Scope()
	printerOf := map[string]*ssa.Function{}
	for _, n := range scope.Names() {
		k, ok := scope.Lookup(n).(*types.Const)
		if !ok || namedTypeName(k.Type()) != "insts.FormatType" {
			continue
		}
		v, exact := constant.Int64Val(k.Val())
		if !exact {
			continue
		}
		for _, b := range opReach(prt, isFmt, v) {
			for _, in := range b.Instrs {
				if cc := core.CallOf(in); cc != nil {
					if f := cc.StaticCallee(); f != nil && f.Pkg == pi.Pkg && strings.HasSuffix(f.Name(), "String") && len(f.Blocks) > 0 {
						printerOf[n] = f
					}
				}
			}
		}
	}
	type key struct {
		f  string
		op int64
	}
	seen := map[key]bool{}
	for _, r := range t.Rows {
		p := printerOf[r.Format]
		if p == nil || seen[key{r.Format, r.Opcode}] {
			continue
		}
		seen[key{r.Format, r.Opcode}] = true
		reach := map[*ssa.BasicBlock]bool{}
		blocks, taken := opReachEdges(p, isOpc, r.Opcode)
		for _, b := range blocks {
			reach[b] = true
		}
		st.Instances++
		c.MarkAnalysed(p)
		empty := false
		isEmpty := func(v ssa.Value) bool {
			k, ok := v.(*ssa.Const)
			return ok && k.Value != nil && k.Value.Kind() == constant.String && constant.StringVal(k.Value) == ""
		}
		for b := range reach {
			ret, ok := b.Instrs[len(b.Instrs)-1].(*ssa.Return)
			if !ok || len(ret.Results) != 1 {
				continue
			}
			seenV := map[ssa.Value]bool{}
			var walk func(v ssa.Value, d int)
			walk = func(v ssa.Value, d int) {
				if seenV[v] || d > 6 {
					return
				}
				seenV[v] = true
				if isEmpty(v) {
					empty = true
					return
				}
				if phi, ok := v.(*ssa.Phi); ok {
					for i, e := range phi.Edges {
						if taken[[2]*ssa.BasicBlock{phi.Block().Preds[i], phi.Block()}] {
							walk(e, d+1)
						}
					}
				}
			}
			walk(ret.Results[0], 0)
		}
		st.Ob(!empty)
		if empty {
			c.Report(core.Finding{Rule: "R04.35", Pkg: instsPkg, Func: core.FuncName(p), Detail: fmt.Sprintf("row-prints-empty:%s:%d", r.Format, r.Opcode), Pos: c.Position(r.Pos),
				Msg: fmt.Sprintf("%s (%s opcode %d) falls through every arm of %s: it is disassembled to the empty string", strings.TrimSpace(r.Name), r.Format, r.Opcode, p.Name())})
		}
	}
}

// checkVOPCDestinationText (R04.36): a VOPC compare in its 32-bit encoding writes VCC, its
// v_cmpx form EXEC; the disassembly names that destination. The VOPC printer is followed per row
// of the table with the tests of the opcode (constants folded) and of the mnemonic decided; of the
// two names it can print, the one that remains must be the one the row's mnemonic implies.
func checkVOPCDestinationText(c *core.Ctx, t *InstTables) {
	st := c.Rule("R04.36", "the disassembly of a VOPC compare names the register it writes: exec for the v_cmpx_* rows of the decode tables, vcc for every other row. The VOPC printer function is followed per row with its tests of the opcode (integer expressions over the opcode folded) and of the mnemonic decided; every merge of the string constants \"vcc\" / \"exec\" it prints must, on the edges that remain, carry exactly the name the row's mnemonic implies. A rule on opcode bits that holds for most compare groups still prints v_cmp_class_f32 with exec", 150)
	pi := NewPkgInfo(c, instsPkg)
	prt := c.SSAFunc(instsPkg, "InstPrinter.Print")
	if pi.Pkg == nil || prt == nil {
		return
	}
	var vopcK int64 = -1
	if k, ok := pi.Pkg.Pkg.Scope().Lookup("VOPC").(*types.Const); ok {
		vopcK, _ = constant.Int64Val(k.Val())
	}
	var p *ssa.Function
	for _, b := range opReach(prt, isLoadOfField("FormatType"), vopcK) {
		for _, in := range b.Instrs {
			if cc := core.CallOf(in); cc != nil {
				if f := cc.StaticCallee(); f != nil && f.Pkg == pi.Pkg && strings.HasSuffix(f.Name(), "String") && len(f.Blocks) > 0 {
					p = f
				}
			}
		}
	}
	if p == nil {
		c.Report(core.Finding{Rule: "R04.36", Kind: "anchor", Pkg: instsPkg, Func: "InstPrinter.Print", Detail: "vopc-printer", Msg: "the printer function of the VOPC format was not found"})
		return
	}
	regName := func(v ssa.Value) string {
		k, ok := v.(*ssa.Const)
		if !ok || k.Value == nil || k.Value.Kind() != constant.String {
			return ""
		}
		s := constant.StringVal(k.Value)
		if s == "vcc" || s == "exec" {
			return s
		}
		return ""
	}
	seen := map[int64]bool{}
	for _, r := range t.Rows {
		if r.Format != "VOPC" || seen[r.Opcode] {
			continue
		}
		seen[r.Opcode] = true
		name := strings.TrimSpace(r.Name)
		want := "vcc"
		if strings.Contains(name, "cmpx") {
			want = "exec"
		}
		blocks, taken := rowReachEdges(p, r.Opcode, name)
		got := map[string]bool{}
		merges := 0
		for _, b := range blocks {
			for _, in := range b.Instrs {
				phi, ok := in.(*ssa.Phi)
				if !ok {
					break
				}
				isReg := false
				for _, e := range phi.Edges {
					if regName(e) != "" {
						isReg = true
					}
				}
				if !isReg {
					continue
				}
				merges++
				for i, e := range phi.Edges {
					if taken[[2]*ssa.BasicBlock{b.Preds[i], b}] {
						if n := regName(e); n != "" {
							got[n] = true
						} else {
							got["?"] = true
						}
					}
				}
			}
		}
		st.Instances++
		c.MarkAnalysed(p)
		ok := merges > 0 && len(got) == 1 && got[want]
		st.Ob(ok)
		if !ok {
			c.Report(core.Finding{Rule: "R04.36", Pkg: instsPkg, Func: core.FuncName(p), Detail: fmt.Sprintf("vopc-destination:%s", name), Pos: c.Position(r.Pos),
				Msg: fmt.Sprintf("%s (VOPC opcode %d) is printed with destination %v; the instruction writes %s", name, r.Opcode, sortedKeys(got), want)})
		}
	}
}

// checkVOP2ImplicitVCC (R04.38): the VOP2 instructions that use VCC implicitly name it in their
// disassembly, because that is how the assembler tells v_addc_u32 v0, vcc, v1, v2, vcc from a
// three-operand form: v_cndmask_b32 reads it (one trailing vcc), the carry-out adds and subs of
// GCN3 (opcodes 25..27) write it (one vcc behind the destination), the carry-in forms (28..30)
// do both. The expectation per opcode is the ISA's; the printer is followed per row.
var vop2VCCCount = map[int64]int{0: 1, 25: 1, 26: 1, 27: 1, 28: 2, 29: 2, 30: 2}

func checkVOP2ImplicitVCC(c *core.Ctx, t *InstTables) {
	st := c.Rule("R04.38", "the disassembly of a VOP2 instruction names VCC as often as the instruction uses it implicitly: once for v_cndmask_b32 (the selector) and for the carry-out v_add / v_sub / v_subrev_u32 of opcodes 25..27, twice for the carry-in forms v_addc / v_subb / v_subbrev_u32 (28..30), never for the other rows (a transcribed table). The VOP2 printer function is followed per row of the decode tables with its opcode tests decided; the string concatenations with a constant naming vcc that it executes are counted", 40)
	pi := NewPkgInfo(c, instsPkg)
	prt := c.SSAFunc(instsPkg, "InstPrinter.Print")
	if pi.Pkg == nil || prt == nil {
		return
	}
	var vop2K int64 = -1
	if k, ok := pi.Pkg.Pkg.Scope().Lookup("VOP2").(*types.Const); ok {
		vop2K, _ = constant.Int64Val(k.Val())
	}
	var p *ssa.Function
	for _, b := range opReach(prt, isLoadOfField("FormatType"), vop2K) {
		for _, in := range b.Instrs {
			if cc := core.CallOf(in); cc != nil {
				if f := cc.StaticCallee(); f != nil && f.Pkg == pi.Pkg && strings.HasSuffix(f.Name(), "String") && len(f.Blocks) > 0 {
					p = f
				}
			}
		}
	}
	if p == nil {
		c.Report(core.Finding{Rule: "R04.38", Kind: "anchor", Pkg: instsPkg, Func: "InstPrinter.Print", Detail: "vop2-printer", Msg: "the printer function of the VOP2 format was not found"})
		return
	}
	namesVCC := func(v ssa.Value) bool {
		k, ok := v.(*ssa.Const)
		return ok && k.Value != nil && k.Value.Kind() == constant.String && strings.Contains(constant.StringVal(k.Value), "vcc")
	}
	seen := map[int64]bool{}
	for _, r := range t.Rows {
		if r.Format != "VOP2" || seen[r.Opcode] {
			continue
		}
		seen[r.Opcode] = true
		name := strings.TrimSpace(r.Name)
		blocks, _ := rowReachEdges(p, r.Opcode, name)
		got := 0
		for _, b := range blocks {
			for _, in := range b.Instrs {
				if bo, ok := in.(*ssa.BinOp); ok && bo.Op == token.ADD && (namesVCC(bo.X) || namesVCC(bo.Y)) {
					got++
				}
			}
		}
		want := vop2VCCCount[r.Opcode]
		st.Instances++
		c.MarkAnalysed(p)
		st.Ob(got == want)
		if want > 0 {
			st.Sample("%s (VOP2 opcode %d): vcc named %d time(s), the instruction uses it %d time(s)", name, r.Opcode, got, want)
		}
		if got != want {
			c.Report(core.Finding{Rule: "R04.38", Pkg: instsPkg, Func: core.FuncName(p), Detail: fmt.Sprintf("vop2-implicit-vcc:%s", name), Pos: c.Position(r.Pos),
				Msg: fmt.Sprintf("%s (VOP2 opcode %d) is printed with vcc named %d time(s); the instruction uses VCC implicitly %d time(s) (carry-out behind the destination, carry-in / selector behind the sources): the text reads as a different operand list and does not assemble back to this encoding", name, r.Opcode, got, want)})
		}
	}
}

// checkDSOffsetForms (R04.39): decoder and printer agree, row by row, on which DS instructions
// have two 8-bit offsets (the read2 / write2 / ...st64 forms) and which have one 16-bit offset.
// The decoder folds OFFSET1 into Offset0 for the one-offset rows; a printer that still shows
// offset0 / offset1 for such a row prints `ds_read_b64 v[1:2], v0 offset0:520 offset1:2` for
// `offset:520`.
var dsTwoAddress = regexp.MustCompile(`^ds_(write2|read2|wrxchg2)(st64)?_`)

func checkDSOffsetForms(c *core.Ctx, t *InstTables) {
	st := c.Rule("R04.39", "for every DS row of the decode tables the DS decoder and the DS printer treat the offset field alike: where the decoder (followed for the row's opcode, the package helpers it calls included) folds OFFSET1 into Offset0 - one 16-bit offset - the printer (followed for the same opcode) prints the `offset:` form and not `offset0:` / `offset1:`, and where the decoder keeps the two 8-bit offsets apart the printer prints the two-offset form", 100)
	pi := NewPkgInfo(c, instsPkg)
	dec := formatFunc(c, pi, "Disassembler.Decode", "DS", "decode")
	prt := formatFunc(c, pi, "InstPrinter.Print", "DS", "String")
	if dec == nil || prt == nil {
		c.Report(core.Finding{Rule: "R04.39", Kind: "anchor", Pkg: instsPkg, Func: "-", Detail: "ds-decoder-printer", Msg: "the decoder or printer function of the DS format was not found"})
		return
	}
	prov := core.NewLocalProv(c)
	hasConst := func(blocks []*ssa.BasicBlock, sub string) bool {
		for _, b := range blocks {
			for _, in := range b.Instrs {
				for _, op := range in.Operands(nil) {
					if k, ok := (*op).(*ssa.Const); ok && k.Value != nil && k.Value.Kind() == constant.String && strings.Contains(constant.StringVal(k.Value), sub) {
						return true
					}
				}
			}
		}
		return false
	}
	seen := map[int64]bool{}
	for _, r := range t.Rows {
		if r.Format != "DS" || seen[r.Opcode] {
			continue
		}
		seen[r.Opcode] = true
		name := strings.TrimSpace(r.Name)
		// decoder side
		folded := false
		fns := []*ssa.Function{dec}
		for _, b := range dec.Blocks {
			for _, in := range b.Instrs {
				if cc := core.CallOf(in); cc != nil {
					if cal := cc.StaticCallee(); cal != nil && cal.Pkg == dec.Pkg && len(cal.Blocks) > 0 {
						fns = append(fns, cal)
					}
				}
			}
		}
		for _, fn := range fns {
			blocks, _ := rowReachEdges(fn, r.Opcode, name)
			for _, b := range blocks {
				for _, in := range b.Instrs {
					if s, ok := in.(*ssa.Store); ok {
						if f := core.FieldOfAddr(s.Addr); f != nil && f.Name() == "Offset0" && strings.Contains(prov.Of(s.Val), "Offset1") {
							folded = true
						}
					}
				}
			}
		}
		pblocks, _ := rowReachEdges(prt, r.Opcode, name)
		two := hasConst(pblocks, "offset0:") || hasConst(pblocks, "offset1:")
		one := hasConst(pblocks, "offset:")
		st.Instances++
		c.MarkAnalysed(prt)
		ok := (folded && one && !two) || (!folded && two && !one)
		// and the split itself follows the mnemonic: the two-address forms have two offsets
		wantTwo := dsTwoAddress.MatchString(name)
		st.Instances++
		st.Ob(folded != wantTwo)
		if folded == wantTwo {
			c.Report(core.Finding{Rule: "R04.39", Pkg: instsPkg, Func: core.FuncName(dec), Detail: fmt.Sprintf("ds-offset-split:%s", name), Pos: c.Position(r.Pos),
				Msg: fmt.Sprintf("%s (DS opcode %d) is decoded with %s; the mnemonic says %s", name, r.Opcode, map[bool]string{true: "one 16-bit offset", false: "two 8-bit offsets"}[folded], map[bool]string{true: "two 8-bit offsets (a two-address form)", false: "one 16-bit offset"}[wantTwo])})
		}
		st.Ob(ok)
		if !ok {
			form := map[bool]string{true: "one 16-bit offset (OFFSET1 folded into Offset0)", false: "two 8-bit offsets"}[folded]
			shown := "neither form"
			switch {
			case one && two:
				shown = "both forms"
			case two:
				shown = "offset0: / offset1:"
			case one:
				shown = "offset:"
			}
			c.Report(core.Finding{Rule: "R04.39", Pkg: instsPkg, Func: core.FuncName(prt), Detail: fmt.Sprintf("ds-offset-form:%s", name), Pos: c.Position(r.Pos),
				Msg: fmt.Sprintf("%s (DS opcode %d) is decoded with %s, and %s prints %s for it: an offset of 520 is shown as offset0:520 offset1:2, which is not what the encoding says and does not assemble back to it", name, r.Opcode, form, prt.Name(), shown)})
		}
	}
}

// formatFunc: the function of the package that a FormatType dispatcher (Decode / Print) calls for
// one format; prefix / suffix narrow the callee by name shape (decode..., ...String).
func formatFunc(c *core.Ctx, pi *PkgInfo, dispatcher, format, affix string) *ssa.Function {
	d := c.SSAFunc(pi.Rel, dispatcher)
	if d == nil || pi.Pkg == nil {
		return nil
	}
	k, ok := pi.Pkg.Pkg.Scope().Lookup(format).(*types.Const)
	if !ok {
		return nil
	}
	kv, _ := constant.Int64Val(k.Val())
	var out *ssa.Function
	for _, b := range opReach(d, isLoadOfField("FormatType"), kv) {
		for _, in := range b.Instrs {
			if cc := core.CallOf(in); cc != nil {
				if f := cc.StaticCallee(); f != nil && f.Pkg == pi.Pkg && len(f.Blocks) > 0 && (strings.HasPrefix(f.Name(), affix) || strings.HasSuffix(f.Name(), affix)) {
					out = f
				}
			}
		}
	}
	return out
}

// checkPrinterReadsWholeOperand (R04.40): where a printer function shows an operand by reading
// its raw integer value instead of calling Operand.String(), (1) the operand is an integer on
// every path that gets there - either the format's decoder never stores a register there, or the
// read is guarded by a test of the operand's type - and (2) the value is not cut below the width
// of the field the decoder extracted it from. The SMEM printer showed `uint16(Offset.IntValue)`:
// 0x0 for every register offset, and the low 16 of a 20 / 21-bit immediate.
func checkPrinterReadsWholeOperand(c *core.Ctx) {
	st := c.Rule("R04.40", "a printer function that shows an operand through its raw IntValue does so only for operands that are integers there (the decoder of the same format stores no register operand - getOperand, New[SV]RegOperand - into that field, or the read is dominated by a test of the operand's OperandType), and converts the value to no type narrower than the bit range the decoder extracted for it (the widest extractBits range stored into the field). Decoder and printer are paired through the FormatType dispatch of Decode and Print", 2)
	pi := NewPkgInfo(c, instsPkg)
	prov := core.NewLocalProv(c)
	exRange := regexp.MustCompile(`extractBits\(.*?,(\d+),(\d+)\)`)
	for _, format := range []string{"SOP2", "SOPK", "SOP1", "SOPC", "SOPP", "SMEM", "VOP1", "VOP2", "VOPC", "VOP3a", "VOP3b", "FLAT", "DS"} {
		dec := formatFunc(c, pi, "Disassembler.Decode", format, "decode")
		prt := formatFunc(c, pi, "InstPrinter.Print", format, "String")
		if dec == nil || prt == nil {
			continue
		}
		// what the decoder stores into each operand field of Inst
		mayBeReg := map[string]bool{}
		width := map[string]int{}
		for _, b := range dec.Blocks {
			for _, in := range b.Instrs {
				s, ok := in.(*ssa.Store)
				if !ok {
					continue
				}
				fld := instFieldOfStore(s)
				if fld == "" {
					continue
				}
				pv := prov.Of(s.Val)
				if strings.Contains(pv, "getOperand(") || strings.Contains(pv, "NewSRegOperand(") || strings.Contains(pv, "NewVRegOperand(") {
					mayBeReg[fld] = true
				}
				for _, m := range exRange.FindAllStringSubmatch(pv, -1) {
					lo, _ := strconv.Atoi(m[1])
					hi, _ := strconv.Atoi(m[2])
					if w := hi - lo + 1; w > width[fld] {
						width[fld] = w
					}
				}
			}
		}
		var loads []*ssa.UnOp
		for _, b := range prt.Blocks {
			for _, in := range b.Instrs {
				if u, ok := in.(*ssa.UnOp); ok {
					loads = append(loads, u)
				}
			}
		}
		for _, ld := range loads {
			ok := true
			if !ok || ld.Op != token.MUL {
				continue
			}
			f := core.LoadedField(ld)
			if f == nil || f.Name() != "IntValue" {
				continue
			}
			// the operand: Inst.<fld>
			fa, ok := ld.X.(*ssa.FieldAddr)
			if !ok {
				continue
			}
			opLd, ok := fa.X.(*ssa.UnOp)
			if !ok {
				continue
			}
			of := core.LoadedField(opLd)
			if of == nil {
				continue
			}
			fld := of.Name()
			st.Instances++
			c.MarkAnalysed(prt)
			okReg := true
			if mayBeReg[fld] {
				okReg = false
				for d := ld.Block().Idom(); d != nil; d = d.Idom() {
					iff, isIf := d.Instrs[len(d.Instrs)-1].(*ssa.If)
					if !isIf {
						continue
					}
					cond, _ := stripNot(iff.Cond)
					if bo, isB := cond.(*ssa.BinOp); isB {
						for _, v := range []ssa.Value{bo.X, bo.Y} {
							if tf := core.LoadedField(core.StripConv(v)); tf != nil && tf.Name() == "OperandType" {
								okReg = true
							}
						}
					}
				}
			}
			st.Ob(okReg)
			if !okReg {
				c.ReportAt("R04.40", prt, ld.Pos(), fmt.Sprintf("raw-value-of-register-operand:%s:%s", format, fld), fmt.Sprintf("%s shows Inst.%s through its IntValue, but decode%s can store a register operand there: a register is printed as the number 0 (s_load_dword s0, s[2:3], s4 prints as ..., 0x0)", prt.Name(), fld, format))
			}
			okW := true
			var at ssa.Instruction
			if ld.Referrers() != nil && width[fld] > 0 {
				for _, r := range *ld.Referrers() {
					if cv, ok := r.(*ssa.Convert); ok {
						if w, _, ok := typeWidth(cv.Type()); ok && w < width[fld] {
							okW, at = false, cv
						}
					}
				}
			}
			st.Ob(okW)
			if !okW {
				c.ReportAt("R04.40", prt, at.Pos(), fmt.Sprintf("operand-value-truncated:%s:%s", format, fld), fmt.Sprintf("%s converts Inst.%s.IntValue to %s, but decode%s extracts %d bits for it: the disassembly shows only the low bits of a larger value", prt.Name(), fld, at.(ssa.Value).Type().String(), format, width[fld]))
			}
		}
	}
}

// checkDisassembleAdvances (R04.41): the section disassembler is total over section contents:
// each step that advances through the section by re-slicing (`buf = buf[k:]`) is taken only
// where at least k bytes are left - after a comparison of len(buf) with k (or with a larger
// constant), or by the size of an instruction Decode just accepted (Decode refuses an instruction
// that is longer than the buffer). The loop test `len(buf) > 0` alone does not cover a step of 4:
// a section whose size is not a multiple of four ends in a slice-bounds panic.
func checkDisassembleAdvances(c *core.Ctx) {
	st := c.Rule("R04.41", "Disassembler.Disassemble advances through a section only by what is left of it: every open-ended re-slice buf[k:] of the section bytes is dominated by a comparison that establishes len(buf) >= k (for a constant k: len(buf) compared with a constant >= k; for a variable k: len(buf) compared with that same value), or k is the ByteSize of the instruction Decode returned without error (Decode refuses instructions longer than the buffer). Three advancing steps: the kernel header, an undecodable word, a decoded instruction", 3)
	fn := c.MustFunc("R04.41", instsPkg, "Disassembler.Disassemble")
	if fn == nil {
		return
	}
	c.MarkAnalysed(fn)
	prov := core.NewLocalProv(c)
	g := core.BuildGraph(fn, 0, nil)
	for _, n := range g.Nodes {
		sl, ok := n.Instr.(*ssa.Slice)
		if !ok || sl.High != nil || sl.Low == nil {
			continue
		}
		if _, isSlice := sl.X.Type().Underlying().(*types.Slice); !isSlice {
			continue
		}
		st.Instances++
		lowP := prov.Of(core.StripConv(sl.Low))
		kLow, lowConst := core.ConstInt(sl.Low)
		okG := false
		why := ""
		if strings.HasSuffix(lowP, ".ByteSize") && strings.Contains(lowP, "Decode(") {
			okG, why = true, "the size of the instruction Decode accepted"
		} else {
			okG = g.Guarded(n, CmpCut(func(_ *core.Node, op token.Token, x, y ssa.Value) int {
				// len(buf) OP bound
				call, isCall := core.StripConv(x).(*ssa.Call)
				if !isCall || !core.IsBuiltin(call, "len") {
					return 0
				}
				if _, isSl := call.Call.Args[0].Type().Underlying().(*types.Slice); !isSl {
					return 0
				}
				enough := false
				if k, isC := core.ConstInt(y); isC {
					enough = lowConst && ((op == token.GEQ || op == token.LSS) && k >= kLow || (op == token.GTR || op == token.LEQ) && k >= kLow-1)
				} else if prov.Of(core.StripConv(y)) == lowP {
					enough = op == token.GEQ || op == token.LSS
				}
				if !enough {
					return 0
				}
				switch op {
				case token.GEQ, token.GTR:
					return 1
				case token.LSS, token.LEQ:
					return -1
				}
				return 0
			}))
			why = "a comparison of len(buf) with the step"
		}
		st.Ob(okG)
		st.Sample("Disassemble: buf[%s:] taken after %s: %v", short(lowP), why, okG)
		if !okG {
			c.ReportAt("R04.41", fn, sl.Pos(), "advance-beyond-section:"+short(lowP), "Disassemble re-slices the section bytes by "+short(lowP)+" on a path that only knows len(buf) > 0: when fewer bytes are left (a section whose size is not a multiple of four, a truncated trailing kernel header) the disassembler panics with slice bounds out of range instead of reporting the undecodable tail")
		}
	}
}
