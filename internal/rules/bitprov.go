package rules

import (
	"fmt"
	"go/constant"
	"go/token"
	"go/types"
	"strings"

	"golang.org/x/tools/go/ssa"
)

// Bit-provenance evaluation (BITPROV).
//
// A helper that places, extracts, masks, shifts or sign-extends fields is
// determined by where each bit of its result comes from. The helper's SSA is
// evaluated on abstract 64-bit vectors whose bits are one of: constant 0/1,
// bit i of a named input (optionally negated), or unknown. Inputs that select
// behaviour (enumeration parameters) are bound to concrete constants, so the
// helper's switches are resolved; a branch on a single symbolic bit is
// followed both ways and the results are joined bit by bit (a bit that is 1 on
// the taken side and 0 on the other *is* the condition bit). Nothing is
// executed and no solver is involved: the domain is finite and every
// operation is a table on bits.

type pbit struct {
	k   byte // '0', '1', 's' (symbol), '?'
	src string
	i   int
	neg bool
}

func (b pbit) String() string {
	switch b.k {
	case '0':
		return "0"
	case '1':
		return "1"
	case 's':
		n := ""
		if b.neg {
			n = "!"
		}
		return fmt.Sprintf("%s%s[%d]", n, b.src, b.i)
	}
	return "?"
}

func (b pbit) not() pbit {
	switch b.k {
	case '0':
		return pbit{k: '1'}
	case '1':
		return pbit{k: '0'}
	case 's':
		b.neg = !b.neg
		return b
	}
	return b
}

func bitAnd(a, b pbit) pbit {
	switch {
	case a.k == '0' || b.k == '0':
		return pbit{k: '0'}
	case a.k == '1':
		return b
	case b.k == '1':
		return a
	case a == b:
		return a
	case a.k == 's' && b.k == 's' && a.src == b.src && a.i == b.i && a.neg != b.neg:
		return pbit{k: '0'}
	}
	return pbit{k: '?'}
}

func bitOr(a, b pbit) pbit { return bitAnd(a.not(), b.not()).not() }

func bitXor(a, b pbit) pbit {
	switch {
	case a.k == '0':
		return b
	case b.k == '0':
		return a
	case a.k == '1':
		return b.not()
	case b.k == '1':
		return a.not()
	case a == b:
		return pbit{k: '0'}
	}
	return pbit{k: '?'}
}

// bitIte: cond ? a : b
func bitIte(c, a, b pbit) pbit {
	switch {
	case a == b:
		return a
	case c.k == '1':
		return a
	case c.k == '0':
		return b
	case a.k == '1' && b.k == '0':
		return c
	case a.k == '0' && b.k == '1':
		return c.not()
	case a == c && b.k == '0', a.k == '1' && b == c:
		return c
	}
	return pbit{k: '?'}
}

type pkind int

const (
	pUnknown pkind = iota
	pVec           // bit vector (also constants)
	pBool          // single bit in bits[0]
	pTuple
)

type pval struct {
	kind  pkind
	bits  [64]pbit
	w     int // width in bits (vectors)
	tuple []pval
}

func pConst(v uint64, w int) pval {
	r := pval{kind: pVec, w: w}
	for i := 0; i < 64; i++ {
		if i < w && v&(1<<uint(i)) != 0 {
			r.bits[i] = pbit{k: '1'}
		} else {
			r.bits[i] = pbit{k: '0'}
		}
	}
	return r
}

func pSym(name string, w int) pval {
	r := pval{kind: pVec, w: w}
	for i := 0; i < 64; i++ {
		if i < w {
			r.bits[i] = pbit{k: 's', src: name, i: i}
		} else {
			r.bits[i] = pbit{k: '0'}
		}
	}
	return r
}

func pBoolOf(b pbit) pval {
	r := pval{kind: pBool, w: 1}
	r.bits[0] = b
	return r
}

func (v pval) constVal() (uint64, bool) {
	if v.kind != pVec && v.kind != pBool {
		return 0, false
	}
	var out uint64
	for i := 0; i < 64; i++ {
		switch v.bits[i].k {
		case '1':
			out |= 1 << uint(i)
		case '0', 0:
		default:
			return 0, false
		}
	}
	return out, true
}

func (v pval) render(w int) string {
	if v.kind == pUnknown {
		return "?"
	}
	var out []string
	for i := w - 1; i >= 0; {
		b := v.bits[i]
		j := i
		if b.k == 's' && !b.neg {
			// descending run of consecutive bits of one source
			for j-1 >= 0 && v.bits[j-1].k == 's' && !v.bits[j-1].neg && v.bits[j-1].src == b.src && v.bits[j-1].i == v.bits[j].i-1 {
				j--
			}
			if j < i {
				out = append(out, fmt.Sprintf("%s[%d:%d]", b.src, b.i, v.bits[j].i))
				i = j - 1
				continue
			}
		}
		for j-1 >= 0 && v.bits[j-1] == b {
			j--
		}
		if j < i {
			out = append(out, fmt.Sprintf("%s x%d", b.String(), i-j+1))
		} else {
			out = append(out, b.String())
		}
		i = j - 1
	}
	return strings.Join(out, " ")
}

func typeWidth(t types.Type) (w int, signed, ok bool) {
	b, isB := t.Underlying().(*types.Basic)
	if !isB {
		return 0, false, false
	}
	switch b.Kind() {
	case types.Bool, types.UntypedBool:
		return 1, false, true
	case types.Int8:
		return 8, true, true
	case types.Uint8:
		return 8, false, true
	case types.Int16:
		return 16, true, true
	case types.Uint16:
		return 16, false, true
	case types.Int32:
		return 32, true, true
	case types.Uint32:
		return 32, false, true
	case types.Int64, types.Int, types.UntypedInt:
		return 64, true, true
	case types.Uint64, types.Uint, types.Uintptr:
		return 64, false, true
	}
	return 0, false, false
}

func (v pval) trunc(w int) pval {
	r := v
	r.w = w
	for i := w; i < 64; i++ {
		r.bits[i] = pbit{k: '0'}
	}
	return r
}

type bpEval struct {
	steps int
	depth int
	why   string
	// hooks used when a handler (not a pure helper) is interpreted: loads of struct fields,
	// calls through the state interface; root / visited / stopped confine the walk to the
	// first iteration of the handler's lane loop
	root        *ssa.Function
	visited     map[*ssa.BasicBlock]bool
	load        func(ld *ssa.UnOp, fr *bpFrame) (pval, bool)
	invoke      func(call *ssa.Call, fr *bpFrame) (pval, bool)
	laneHeaders map[*ssa.BasicBlock]bool // headers of the loops whose index is used as a lane
	stopped     bool
	captured    pval            // what the hook captured when it stopped the walk
	joinAt      *ssa.BasicBlock // a side of an if-converted branch stops here
}

func (e *bpEval) fail(format string, a ...interface{}) pval {
	if e.why == "" {
		e.why = fmt.Sprintf(format, a...)
	}
	return pval{}
}

type bpFrame struct {
	fn   *ssa.Function
	vals map[ssa.Value]pval
}

func (e *bpEval) get(v ssa.Value, fr *bpFrame) pval {
	if c, ok := v.(*ssa.Const); ok {
		w, _, okT := typeWidth(c.Type())
		if !okT || c.Value == nil {
			return e.fail("constant of type %s", c.Type())
		}
		switch c.Value.Kind() {
		case constant.Bool:
			if constant.BoolVal(c.Value) {
				return pBoolOf(pbit{k: '1'})
			}
			return pBoolOf(pbit{k: '0'})
		case constant.Int:
			if u, exact := constant.Uint64Val(c.Value); exact {
				return pConst(u, 64).trunc(w)
			}
			if s, exact := constant.Int64Val(c.Value); exact {
				return pConst(uint64(s), 64).trunc(w)
			}
		}
		return e.fail("constant %s", c.Value)
	}
	if r, ok := fr.vals[v]; ok {
		return r
	}
	return e.fail("value %s (%T) not modelled", v.Name(), v)
}

func (e *bpEval) binop(op token.Token, a, b pval, t types.Type) pval {
	w, _, okT := typeWidth(t)
	if !okT {
		return e.fail("result type %s", t)
	}
	if a.kind == pUnknown || b.kind == pUnknown {
		return pval{}
	}
	switch op {
	case token.AND, token.OR, token.XOR, token.AND_NOT:
		r := pval{kind: a.kind, w: w}
		for i := 0; i < 64; i++ {
			x, y := a.bits[i], b.bits[i]
			if x.k == 0 {
				x = pbit{k: '0'}
			}
			if y.k == 0 {
				y = pbit{k: '0'}
			}
			switch op {
			case token.AND:
				r.bits[i] = bitAnd(x, y)
			case token.OR:
				r.bits[i] = bitOr(x, y)
			case token.XOR:
				r.bits[i] = bitXor(x, y)
			case token.AND_NOT:
				r.bits[i] = bitAnd(x, y.not())
			}
		}
		return r.trunc(w)
	case token.SHL, token.SHR:
		n, ok := b.constVal()
		if !ok {
			return e.fail("shift by a symbolic amount")
		}
		r := pval{kind: pVec, w: w}
		_, signed, _ := typeWidth(t)
		for i := 0; i < 64; i++ {
			r.bits[i] = pbit{k: '0'}
		}
		for i := 0; i < w; i++ {
			var j int
			if op == token.SHL {
				j = i - int(n)
			} else {
				j = i + int(n)
			}
			switch {
			case j >= 0 && j < w:
				r.bits[i] = a.bits[j]
			case op == token.SHR && signed && j >= w:
				r.bits[i] = a.bits[w-1]
			}
		}
		return r
	case token.EQL, token.NEQ:
		if a.kind == pBool && b.kind == pBool {
			x := bitXor(a.bits[0], b.bits[0])
			if op == token.EQL {
				x = x.not()
			}
			return pBoolOf(x)
		}
		// all bits where the two differ structurally
		var diff []pbit
		for i := 0; i < 64; i++ {
			x, y := a.bits[i], b.bits[i]
			if x.k == 0 {
				x = pbit{k: '0'}
			}
			if y.k == 0 {
				y = pbit{k: '0'}
			}
			d := bitXor(x, y)
			if d.k == '0' {
				continue
			}
			diff = append(diff, d)
		}
		var ne pbit
		switch {
		case len(diff) == 0:
			ne = pbit{k: '0'}
		case len(diff) == 1:
			ne = diff[0]
		default:
			one := false
			for _, d := range diff {
				if d.k == '1' {
					one = true
				}
			}
			if !one {
				return e.fail("comparison of two vectors that differ in several symbolic bits")
			}
			ne = pbit{k: '1'}
		}
		if op == token.EQL {
			ne = ne.not()
		}
		return pBoolOf(ne)
	case token.ADD, token.SUB, token.MUL, token.LSS, token.GTR, token.LEQ, token.GEQ, token.QUO, token.REM:
		x, ok1 := a.constVal()
		y, ok2 := b.constVal()
		if !ok1 || !ok2 {
			return e.fail("arithmetic %s on symbolic bits", op)
		}
		_, signed, _ := typeWidth(t)
		switch op {
		case token.ADD:
			return pConst(x+y, 64).trunc(w)
		case token.SUB:
			return pConst(x-y, 64).trunc(w)
		case token.MUL:
			return pConst(x*y, 64).trunc(w)
		case token.QUO:
			if y == 0 {
				return e.fail("division by zero")
			}
			return pConst(x/y, 64).trunc(w)
		case token.REM:
			if y == 0 {
				return e.fail("division by zero")
			}
			return pConst(x%y, 64).trunc(w)
		}
		var h bool
		if signed {
			sx, sy := int64(x), int64(y)
			h = map[token.Token]bool{token.LSS: sx < sy, token.GTR: sx > sy, token.LEQ: sx <= sy, token.GEQ: sx >= sy}[op]
		} else {
			h = map[token.Token]bool{token.LSS: x < y, token.GTR: x > y, token.LEQ: x <= y, token.GEQ: x >= y}[op]
		}
		if h {
			return pBoolOf(pbit{k: '1'})
		}
		return pBoolOf(pbit{k: '0'})
	}
	return e.fail("operator %s", op)
}

func joinIte(c pbit, a, b pval) pval {
	if a.kind == pUnknown || b.kind == pUnknown || a.kind != b.kind {
		return pval{}
	}
	if a.kind == pTuple {
		if len(a.tuple) != len(b.tuple) {
			return pval{}
		}
		r := pval{kind: pTuple}
		for i := range a.tuple {
			r.tuple = append(r.tuple, joinIte(c, a.tuple[i], b.tuple[i]))
		}
		return r
	}
	r := pval{kind: a.kind, w: a.w}
	for i := 0; i < 64; i++ {
		x, y := a.bits[i], b.bits[i]
		if x.k == 0 {
			x = pbit{k: '0'}
		}
		if y.k == 0 {
			y = pbit{k: '0'}
		}
		r.bits[i] = bitIte(c, x, y)
	}
	return r
}

// Call evaluates fn on abstract arguments (receiver, if any, is passed as an
// unknown value) and returns its result (a tuple for several results).
func (e *bpEval) Call(fn *ssa.Function, args []pval) pval {
	if len(fn.Blocks) == 0 {
		return e.fail("%s has no body", fn.Name())
	}
	if e.depth > 4 {
		return e.fail("call depth")
	}
	fr := &bpFrame{fn: fn, vals: map[ssa.Value]pval{}}
	for i, p := range fn.Params {
		if i < len(args) {
			fr.vals[p] = args[i]
		}
	}
	e.depth++
	r := e.exec(fn.Blocks[0], nil, fr)
	e.depth--
	return r
}

func (e *bpEval) exec(b, pred *ssa.BasicBlock, fr *bpFrame) pval {
	for {
		e.steps++
		if e.steps > 20000 {
			return e.fail("step limit")
		}
		if e.joinAt != nil && b == e.joinAt {
			return pval{kind: pTuple}
		}
		if e.root != nil && fr.fn == e.root && e.laneHeaders[b] {
			if e.visited[b] {
				return pval{kind: pTuple} // the second iteration of the lane loop would start
			}
			e.visited[b] = true
		}
		// phis simultaneously
		if pred != nil {
			upd := map[ssa.Value]pval{}
			for _, in := range b.Instrs {
				phi, ok := in.(*ssa.Phi)
				if !ok {
					break
				}
				for i, p := range b.Preds {
					if p == pred {
						upd[phi] = e.get(phi.Edges[i], fr)
					}
				}
			}
			for k, v := range upd {
				fr.vals[k] = v
			}
		}
		for _, in := range b.Instrs {
			switch t := in.(type) {
			case *ssa.Phi, *ssa.DebugRef:
			case *ssa.BinOp:
				op, x, y := t.Op, e.get(t.X, fr), e.get(t.Y, fr)
				// unsigned x > 0 (0 < x) is x != 0, which is decided on symbolic bits
				if _, signed, ok := typeWidth(t.X.Type()); ok && !signed {
					if v, isC := y.constVal(); isC && v == 0 && op == token.GTR {
						op = token.NEQ
					}
					if v, isC := x.constVal(); isC && v == 0 && op == token.LSS {
						op = token.NEQ
					}
				}
				fr.vals[t] = e.binop(op, x, y, t.Type())
			case *ssa.UnOp:
				x := e.get(t.X, fr)
				switch t.Op {
				case token.NOT:
					if x.kind == pBool {
						fr.vals[t] = pBoolOf(x.bits[0].not())
					}
				case token.XOR:
					w, _, ok := typeWidth(t.Type())
					if ok && x.kind == pVec {
						r := pval{kind: pVec, w: w}
						for i := 0; i < 64; i++ {
							if i < w {
								r.bits[i] = x.bits[i].not()
							} else {
								r.bits[i] = pbit{k: '0'}
							}
						}
						fr.vals[t] = r
					}
				case token.SUB:
					if v, ok := x.constVal(); ok {
						w, _, _ := typeWidth(t.Type())
						fr.vals[t] = pConst(-v, 64).trunc(w)
					}
				case token.MUL:
					if e.load != nil {
						if v, ok := e.load(t, fr); ok {
							fr.vals[t] = v
						}
					}
				}
			case *ssa.Convert:
				x := e.get(t.X, fr)
				wTo, _, ok1 := typeWidth(t.Type())
				wFrom, sFrom, ok2 := typeWidth(t.X.Type())
				if !ok1 || !ok2 || x.kind != pVec {
					break
				}
				r := x
				r.w = wTo
				if wTo > wFrom && sFrom {
					for i := wFrom; i < wTo; i++ {
						r.bits[i] = x.bits[wFrom-1]
					}
				}
				fr.vals[t] = r.trunc(wTo)
			case *ssa.ChangeType:
				fr.vals[t] = e.get(t.X, fr)
			case *ssa.Extract:
				x := e.get(t.Tuple, fr)
				if x.kind == pTuple && t.Index < len(x.tuple) {
					fr.vals[t] = x.tuple[t.Index]
				}
			case *ssa.Call:
				if t.Call.IsInvoke() && e.invoke != nil {
					if v, handled := e.invoke(t, fr); handled {
						if v.kind != pUnknown {
							fr.vals[t] = v
						}
						if e.stopped {
							return e.captured
						}
						break
					}
				}
				cal := t.Call.StaticCallee()
				if cal == nil {
					break
				}
				var args []pval
				for _, a := range t.Call.Args {
					if _, isC := a.(*ssa.Const); !isC {
						if _, known := fr.vals[a]; !known {
							args = append(args, pval{})
							continue
						}
					}
					sub := &bpEval{}
					v := sub.get(a, fr)
					args = append(args, v)
				}
				if cal.Pkg != nil && cal.Pkg.Pkg.Path() == "math/bits" && strings.HasPrefix(cal.Name(), "Reverse") && !strings.HasPrefix(cal.Name(), "ReverseBytes") && len(args) == 1 && args[0].kind == pVec {
					if w, _, ok := typeWidth(t.Type()); ok {
						r := pval{kind: pVec, w: w}
						for i := 0; i < 64; i++ {
							if i < w {
								r.bits[i] = args[0].bits[w-1-i]
								if r.bits[i].k == 0 {
									r.bits[i] = pbit{k: '0'}
								}
							} else {
								r.bits[i] = pbit{k: '0'}
							}
						}
						fr.vals[t] = r
					}
					break
				}
				if cal.Pkg != nil && cal.Pkg.Pkg.Path() == "math/bits" {
					if v, ok := args[0].constVal(); ok {
						switch cal.Name() {
						case "TrailingZeros32", "TrailingZeros64", "TrailingZeros":
							n := 0
							for n < 64 && v&(1<<uint(n)) == 0 {
								n++
							}
							if strings.HasSuffix(cal.Name(), "32") && n > 32 {
								n = 32
							}
							fr.vals[t] = pConst(uint64(n), 64)
						case "OnesCount32", "OnesCount64", "OnesCount":
							n := 0
							for i := 0; i < 64; i++ {
								if v&(1<<uint(i)) != 0 {
									n++
								}
							}
							fr.vals[t] = pConst(uint64(n), 64)
						case "Len32", "Len64", "Len":
							n := 0
							for i := 0; i < 64; i++ {
								if v&(1<<uint(i)) != 0 {
									n = i + 1
								}
							}
							fr.vals[t] = pConst(uint64(n), 64)
						}
					}
					break
				}
				switch strings.ToLower(cal.Name()) {
				case "asint8", "asint16", "asint32", "asint64", "int8tobits", "int16tobits", "int32tobits", "int64tobits",
					"float32frombits", "float64frombits", "float32bits", "float64bits", "asfloat32", "asfloat64", "float32tobits", "float64tobits":
					// a reinterpretation of the same bits (floats are carried as their bit patterns)
					if len(args) == 1 && args[0].kind == pVec {
						if w, _, ok := typeWidth(t.Type()); ok {
							fr.vals[t] = args[0].trunc(w)
						} else if bt, ok := t.Type().Underlying().(*types.Basic); ok {
							switch bt.Kind() {
							case types.Float32:
								fr.vals[t] = args[0].trunc(32)
							case types.Float64:
								fr.vals[t] = args[0].trunc(64)
							}
						}
					}
					break
				}
				if _, done := fr.vals[t]; done {
					break
				}
				if len(cal.Blocks) > 0 {
					fr.vals[t] = e.Call(cal, args)
					if e.stopped {
						return e.captured
					}
				}
			case *ssa.Return:
				if len(t.Results) == 1 {
					return e.get(t.Results[0], fr)
				}
				r := pval{kind: pTuple}
				for _, x := range t.Results {
					sub := &bpEval{}
					r.tuple = append(r.tuple, sub.get(x, fr))
				}
				return r
			case *ssa.If:
				c := e.get(t.Cond, fr)
				if c.kind != pBool {
					return e.fail("branch on a value that is not a single bit in %s", fr.fn.Name())
				}
				switch c.bits[0].k {
				case '1':
					pred, b = b, b.Succs[0]
				case '0':
					pred, b = b, b.Succs[1]
				case 's':
					// a triangle or diamond that only computes values is converted into selects at
					// its join: the walk does not fork (a loop over the bits of a word would fork
					// once per bit)
					if join, tBlk, fBlk := ifShape(b); join != nil && pureBlock(tBlk) && pureBlock(fBlk) {
						f1 := &bpFrame{fn: fr.fn, vals: map[ssa.Value]pval{}}
						f2 := &bpFrame{fn: fr.fn, vals: map[ssa.Value]pval{}}
						for k, v := range fr.vals {
							f1.vals[k] = v
							f2.vals[k] = v
						}
						old := e.joinAt
						e.joinAt = join
						if tBlk != nil {
							e.exec(tBlk, b, f1)
						}
						if fBlk != nil {
							e.exec(fBlk, b, f2)
						}
						e.joinAt = old
						tPred, fPred := b, b
						if tBlk != nil {
							tPred = tBlk
						}
						if fBlk != nil {
							fPred = fBlk
						}
						for _, in := range join.Instrs {
							phi, ok := in.(*ssa.Phi)
							if !ok {
								break
							}
							var vt, vf pval
							for i, p := range join.Preds {
								if p == tPred {
									vt = e.get(phi.Edges[i], f1)
								}
								if p == fPred {
									vf = e.get(phi.Edges[i], f2)
								}
							}
							fr.vals[phi] = joinIte(c.bits[0], vt, vf)
						}
						pred, b = nil, join
						goto next
					}
					f1 := &bpFrame{fn: fr.fn, vals: map[ssa.Value]pval{}}
					f2 := &bpFrame{fn: fr.fn, vals: map[ssa.Value]pval{}}
					for k, v := range fr.vals {
						f1.vals[k] = v
						f2.vals[k] = v
					}
					// each side has its own history (loop detection) and may stop on its own
					saved := e.visited
					cp := func() map[*ssa.BasicBlock]bool {
						if saved == nil {
							return nil
						}
						m := make(map[*ssa.BasicBlock]bool, len(saved))
						for k, v := range saved {
							m[k] = v
						}
						return m
					}
					e.visited = cp()
					r1 := e.exec(b.Succs[0], b, f1)
					s1 := e.stopped
					e.stopped = false
					e.visited = cp()
					r2 := e.exec(b.Succs[1], b, f2)
					s2 := e.stopped
					e.visited = saved
					if s1 != s2 {
						e.stopped = false
						return e.fail("only one side of a data-dependent branch reaches the destination write")
					}
					e.stopped = s1
					j := joinIte(c.bits[0], r1, r2)
					if e.stopped {
						e.captured = j
					}
					return j
				default:
					return e.fail("branch on an unknown bit in %s", fr.fn.Name())
				}
				goto next
			case *ssa.Jump:
				pred, b = b, b.Succs[0]
				goto next
			case *ssa.Panic:
				return e.fail("panic reached in %s", fr.fn.Name())
			default:
				// stores, allocs, field reads ... : not part of a pure helper;
				// their values stay unknown and fail when used
			}
		}
		return e.fail("block without terminator")
	next:
	}
}

// ifShape recognises `if c { T }` and `if c { T } else { F }` whose sides fall through to one
// join block: it returns the join and the side blocks (nil for an empty side).
func ifShape(b *ssa.BasicBlock) (join, tBlk, fBlk *ssa.BasicBlock) {
	if len(b.Succs) != 2 {
		return nil, nil, nil
	}
	t, f := b.Succs[0], b.Succs[1]
	single := func(x *ssa.BasicBlock) bool { return len(x.Preds) == 1 && len(x.Succs) == 1 }
	switch {
	case single(t) && t.Succs[0] == f && t != f:
		return f, t, nil
	case single(f) && f.Succs[0] == t && t != f:
		return t, nil, f
	case single(t) && single(f) && t.Succs[0] == f.Succs[0] && t != f:
		return t.Succs[0], t, f
	}
	return nil, nil, nil
}

// pureBlock: the block only computes values (no calls through the state, no stores).
func pureBlock(b *ssa.BasicBlock) bool {
	if b == nil {
		return true
	}
	for _, in := range b.Instrs {
		switch x := in.(type) {
		case *ssa.BinOp, *ssa.UnOp, *ssa.Convert, *ssa.ChangeType, *ssa.Phi, *ssa.Jump, *ssa.DebugRef, *ssa.Extract:
		case *ssa.Call:
			if x.Call.IsInvoke() {
				return false
			}
		default:
			return false
		}
	}
	return true
}
