package rules

import (
	"fmt"
	"go/ast"
	"go/token"
	"path/filepath"
	"regexp"
	"strings"

	"golang.org/x/tools/go/ssa"

	"verif/internal/core"
)

// conditions.go: rules about guards that are almost right (twenty-third
// seeding batch). Most condition slips fall to the guard rules that already
// exist (a target must be reached only through a given edge); these are the
// shapes that had no rule.

// R07.17: a case clause that serves both halves of a 64-bit special register
// tells them apart in its body.
func checkHalfRegisterCases(c *core.Ctx) {
	st := c.Rule("R07.17", "in the register read / write switches of both modes (cu.CURegFileAccessor, emu.Wavefront) a case clause that lists the low and the high half of one special register (VCCLO with VCCHI, EXECLO with EXECHI) names the high half again in its body: the two halves differ in the 32-bit access (value >> 32, or the upper four bytes), and a merged clause that treats both as the low half makes a 32-bit read of vcc_hi return vcc_lo", 2)
	files := map[string]string{cuPkg: "regfileaccessor.go", emuPkg: "wavefront.go"}
	for _, rel := range []string{cuPkg, emuPkg} {
		p := c.Pkg(rel)
		if p == nil {
			continue
		}
		for _, f := range p.Syntax {
			fname := c.Fset.Position(f.Pos()).Filename
			if filepath.Base(fname) != files[rel] {
				continue
			}
			rp, _ := filepath.Rel(core.RepoDir, fname)
			for _, d := range f.Decls {
				fd, ok := d.(*ast.FuncDecl)
				if !ok || fd.Body == nil {
					continue
				}
				ast.Inspect(fd.Body, func(n ast.Node) bool {
					cc, ok := n.(*ast.CaseClause)
					if !ok {
						return true
					}
					names := map[string]bool{}
					for _, e := range cc.List {
						if sel, ok := e.(*ast.SelectorExpr); ok {
							names[sel.Sel.Name] = true
						} else if id, ok := e.(*ast.Ident); ok {
							names[id.Name] = true
						}
					}
					for _, base := range []string{"VCC", "EXEC"} {
						if !names[base+"LO"] && !names[base+"HI"] {
							continue
						}
						st.Instances++
						if !(names[base+"LO"] && names[base+"HI"]) {
							st.Ob(true)
							continue
						}
						again := false
						for _, s := range cc.Body {
							ast.Inspect(s, func(m ast.Node) bool {
								switch x := m.(type) {
								case *ast.SelectorExpr:
									if x.Sel.Name == base+"HI" {
										again = true
									}
								case *ast.Ident:
									if x.Name == base+"HI" {
										again = true
									}
								}
								return true
							})
						}
						st.Ob(again)
						if !again {
							c.Report(core.Finding{Rule: "R07.17", Pkg: rel, Func: core.DeclName(fd), Detail: "halves-merged-without-distinction:" + base, Pos: fmt.Sprintf("%s:%d", rp, c.Fset.Position(cc.Pos()).Line),
								Msg: core.DeclName(fd) + " serves " + base + "LO and " + base + "HI in one case clause whose body does not tell them apart: a 32-bit access of the high half is served as the low half"})
						}
					}
					return true
				})
			}
		}
	}
}

// R09.18: whether a dispatcher is busy is whether it holds a request.
func checkBusyPredicateIsTheField(c *core.Ctx) {
	st := c.Rule("R09.18", "DispatcherImpl.IsDispatching is a function of d.dispatching alone (nil or not): the command processor gives a kernel to a dispatcher that reports itself free, and StartDispatching overwrites d.dispatching. A dispatcher that reports itself free while it still holds a request - its kernel's last work-group is counted but the completion overhead has not run out, or the response is waiting for a free port - loses that request: the kernel's LaunchKernelRsp is never sent", 1)
	fn := c.MustFunc("R09.18", dispPkg, "DispatcherImpl.IsDispatching")
	if fn == nil {
		return
	}
	st.Instances++
	c.MarkAnalysed(fn)
	bad := ""
	var pos token.Pos
	for _, b := range fn.Blocks {
		for _, in := range b.Instrs {
			switch x := in.(type) {
			case *ssa.Call:
				bad, pos = "a call ("+core.InstrString(x)+")", x.Pos()
			case *ssa.UnOp:
				if x.Op == token.MUL {
					if f := core.FieldOfAddr(x.X); f != nil && f.Name() != "dispatching" {
						bad, pos = "the field "+f.Name(), x.Pos()
					}
				}
			}
		}
	}
	st.Ob(bad == "")
	if bad != "" {
		c.ReportAt("R09.18", fn, pos, "busy-predicate-depends-on-more", "IsDispatching also depends on "+bad+": a dispatcher that still holds an unanswered request can report itself free")
	}
}

// checkClampAgreement: `if x > L { x = L }` - the bound that is tested is the bound that is assigned.
func checkClampAgreement(c *core.Ctx, rule, why string, floor int, pis ...*PkgInfo) {
	st := c.Rule(rule, "a clamp compares with the bound it assigns: for every `if x > b { x = c }` (the value of x after the if is c on the taken arm and x otherwise), b and c are the same value. "+why, floor)
	for _, pi := range pis {
		for _, fn := range pi.Funcs {
			for _, b := range fn.Blocks {
				for _, in := range b.Instrs {
					phi, ok := in.(*ssa.Phi)
					if !ok || len(phi.Edges) != 2 {
						continue
					}
					for k := 0; k < 2; k++ {
						// edge 1-k comes straight from the block that ends in the comparison and carries x;
						// edge k comes from the (empty) taken arm and carries c
						head := b.Preds[1-k]
						arm := b.Preds[k]
						iff, ok := head.Instrs[len(head.Instrs)-1].(*ssa.If)
						if !ok || len(arm.Preds) != 1 || arm.Preds[0] != head || len(arm.Instrs) != 1 {
							continue
						}
						cmp, ok := iff.Cond.(*ssa.BinOp)
						if !ok {
							continue
						}
						x := phi.Edges[1-k]
						var bound ssa.Value
						taken := head.Succs[0] == arm
						switch {
						case (cmp.Op == token.GTR || cmp.Op == token.GEQ) && cmp.X == x && taken:
							bound = cmp.Y
						case (cmp.Op == token.LSS || cmp.Op == token.LEQ) && cmp.Y == x && taken:
							bound = cmp.X
						case (cmp.Op == token.LSS || cmp.Op == token.LEQ) && cmp.X == x && taken: // lower clamp
							bound = cmp.Y
						case (cmp.Op == token.GTR || cmp.Op == token.GEQ) && cmp.Y == x && taken:
							bound = cmp.X
						default:
							continue
						}
						cval := phi.Edges[k]
						if isConstVal(cval) && isConstVal(bound) {
							continue
						}
						st.Instances++
						c.MarkAnalysed(fn)
						good := core.StripConv(cval) == core.StripConv(bound)
						st.Ob(good)
						if !good {
							c.ReportAt(rule, fn, cmp.Pos(), "clamp-tests-another-bound", core.FuncName(fn)+" clamps a value to one bound under a comparison with another. "+why)
						}
					}
				}
			}
		}
	}
}

var flatWidthRe = regexp.MustCompile(`_(dword|dwordx2|dwordx3|dwordx4|ubyte|sbyte|ushort|sshort|byte|short)$`)

// R02.22: the coalescer moves as many dwords as the mnemonic says.
func checkFlatRegCountMatchesMnemonic(c *core.Ctx, t *InstTables) {
	st := c.Rule("R02.22", "the timing coalescer moves the number of dwords the instruction's name gives: for every FLAT load / store row of the decode table, defaultCoalescer.instRegCount - its opcode switch decided for that row's opcode - returns 1 for _dword (and the sub-dword forms), 2 for _dwordx2, 3 for _dwordx3, 4 for _dwordx4. The emulator's handlers are written per opcode; a store that writes one dword more in timing mode than in emulation leaves different bytes in device memory behind the element", 8)
	fn := c.MustFunc("R02.22", cuPkg, "defaultCoalescer.instRegCount")
	if fn == nil {
		return
	}
	c.MarkAnalysed(fn)
	for _, r := range t.Rows {
		if r.Format != "FLAT" {
			continue
		}
		m := flatWidthRe.FindStringSubmatch(r.Name)
		if m == nil || !(strings.Contains(r.Name, "_load_") || strings.Contains(r.Name, "_store_")) {
			continue
		}
		want := int64(1)
		switch m[1] {
		case "dwordx2":
			want = 2
		case "dwordx3":
			want = 3
		case "dwordx4":
			want = 4
		}
		blocks := opReach(fn, isLoadOfField("Opcode"), r.Opcode)
		var got []int64
		undec := false
		for _, b := range blocks {
			ret, ok := b.Instrs[len(b.Instrs)-1].(*ssa.Return)
			if !ok || len(ret.Results) != 1 {
				continue
			}
			if k, isK := core.ConstInt(ret.Results[0]); isK {
				got = append(got, k)
			} else {
				undec = true
			}
		}
		if len(got) == 0 && !undec {
			continue // the opcode is not served (panics): R02.3's subject
		}
		st.Instances++
		good := !undec && len(got) == 1 && got[0] == want
		st.Ob(good)
		if !good {
			c.ReportAt("R02.22", fn, fn.Pos(), "flat-width:"+r.Name, fmt.Sprintf("instRegCount gives %v dwords for %s (FLAT opcode %d); the name says %d", got, r.Name, r.Opcode, want))
		}
	}
}

// R12.30: an empty copy is recognised by the size of its host value.
func checkEmptyCopyMeasuresHostValue(c *core.Ctx, rule string) {
	st := c.Rule(rule, "a copy command is marked running only where the size of its host value was found non-zero - Src of a host-to-device copy, Dst of a device-to-host copy: the other end is a device pointer whose size is never 0. An empty copy that is marked running creates no request, so nothing completes it: it stays at the head of its queue and every command behind it, and every DrainCommandQueue, waits forever", 2)
	prov := core.NewLocalProv(c)
	for _, fname := range []string{"defaultMemoryCopyMiddleware.processMemCopyH2DCommand", "defaultMemoryCopyMiddleware.processMemCopyD2HCommand"} {
		fn := c.MustFunc(rule, driverPkg, fname)
		if fn == nil {
			continue
		}
		c.MarkAnalysed(fn)
		host := "Src"
		if strings.Contains(fname, "D2H") {
			host = "Dst"
		}
		g := core.BuildGraph(fn, 0, nil)
		for _, n := range g.Nodes {
			s, ok := storeToField(n.Instr, "CommandQueue.IsRunning")
			if !ok {
				continue
			}
			if b, isC := core.ConstBool(s.Val); !isC || !b {
				continue
			}
			st.Instances++
			good := g.Guarded(n, hostSizeCut(prov, host))
			st.Ob(good)
			if !good {
				c.ReportAt(rule, fn, n.Instr.Pos(), "running-without-host-size-test:"+host, fname+" marks the command running on a path that did not find the size of cmd."+host+" (the host value) non-zero")
			}
		}
	}
}
