package rules

import (
	"fmt"
	"go/token"
	"go/types"
	"sort"
	"strings"

	"golang.org/x/tools/go/ssa"

	"verif/internal/core"
)

// Compaction while ranging.
//
// `append(x[:i], ...)` (the in-place filter `kept := x[:0]`, the removal idiom
// `append(x[:i], x[i+1:]...)`) writes into the backing array of x. A `for range` loop over a
// slice evaluates the slice once and then walks that backing array by index: if the body, or
// anything it calls, compacts the same list and the loop goes on, the entry behind the removed
// one is skipped and the last one is visited twice. The rule summarises every function of the
// package by the lists it compacts (a slice parameter, the slice behind a pointer parameter, a
// slice field of a parameter), maps the summaries through call sites, and requires that inside a
// range loop over a slice field no instruction from which the loop can continue compacts that
// very field. A compaction that is followed by leaving the loop (the usual find-and-remove) is
// not flagged.

type sliceDesc struct {
	kind  string // "param", "ptrparam", "field"
	idx   int    // parameter index (receiver is 0)
	field string
}

func (d sliceDesc) String() string {
	if d.kind == "field" {
		return fmt.Sprintf("field %s of parameter %d", d.field, d.idx)
	}
	return fmt.Sprintf("%s %d", d.kind, d.idx)
}

func paramIndex(fn *ssa.Function, p *ssa.Parameter) int {
	for i, q := range fn.Params {
		if q == p {
			return i
		}
	}
	return -1
}

// addrDesc: the list a slice-typed address denotes.
func addrDesc(fn *ssa.Function, a ssa.Value) (sliceDesc, bool) {
	switch x := a.(type) {
	case *ssa.Parameter:
		if i := paramIndex(fn, x); i >= 0 {
			return sliceDesc{"ptrparam", i, ""}, true
		}
	case *ssa.FieldAddr:
		if p, ok := x.X.(*ssa.Parameter); ok {
			if i := paramIndex(fn, p); i >= 0 {
				if pt, ok := p.Type().Underlying().(*types.Pointer); ok {
					if st, ok := pt.Elem().Underlying().(*types.Struct); ok {
						return sliceDesc{"field", i, st.Field(x.Field).Name()}, true
					}
				}
			}
		}
	}
	return sliceDesc{}, false
}

// sliceOrigins: the lists whose backing array the slice value v may share; viaSub reports for
// each whether a sub-slice expression lies on the way (append then writes inside the list).
func sliceOrigins(fn *ssa.Function, v ssa.Value) map[sliceDesc]bool {
	out := map[sliceDesc]bool{}
	seen := map[ssa.Value]bool{}
	var walk func(v ssa.Value, sub bool, d int)
	walk = func(v ssa.Value, sub bool, d int) {
		if d > 12 || seen[v] {
			return
		}
		seen[v] = true
		switch x := v.(type) {
		case *ssa.Slice:
			if _, isSlice := x.X.Type().Underlying().(*types.Slice); isSlice {
				walk(x.X, true, d+1)
			}
		case *ssa.Phi:
			for _, e := range x.Edges {
				walk(e, sub, d+1)
			}
		case *ssa.Call:
			if core.IsBuiltin(x, "append") {
				walk(x.Call.Args[0], sub, d+1)
			}
		case *ssa.ChangeType:
			walk(x.X, sub, d+1)
		case *ssa.Parameter:
			if i := paramIndex(fn, x); i >= 0 {
				if _, isSlice := x.Type().Underlying().(*types.Slice); isSlice {
					out[sliceDesc{"param", i, ""}] = out[sliceDesc{"param", i, ""}] || sub
				}
			}
		case *ssa.UnOp:
			if x.Op == token.MUL {
				if dsc, ok := addrDesc(fn, x.X); ok {
					out[dsc] = out[dsc] || sub
				}
			}
		}
	}
	walk(v, false, 0)
	return out
}

type compactSummaries struct {
	memo map[*ssa.Function]map[sliceDesc]string // list -> where it is compacted
	busy map[*ssa.Function]bool
}

// mapThroughCall: what a callee's list is at the call site.
func mapThroughCall(fn *ssa.Function, cc *ssa.CallCommon, d sliceDesc) []sliceDesc {
	if d.idx >= len(cc.Args) {
		return nil
	}
	a := cc.Args[d.idx]
	var out []sliceDesc
	switch d.kind {
	case "param":
		for o := range sliceOrigins(fn, a) {
			out = append(out, o)
		}
	case "ptrparam":
		if dsc, ok := addrDesc(fn, a); ok {
			out = append(out, dsc)
		}
	case "field":
		if p, ok := a.(*ssa.Parameter); ok {
			if i := paramIndex(fn, p); i >= 0 {
				out = append(out, sliceDesc{"field", i, d.field})
			}
		}
	}
	return out
}

// instrCompacts: the lists the instruction compacts, itself or through what it calls.
func (cs *compactSummaries) instrCompacts(fn *ssa.Function, in ssa.Instruction, depth int) map[sliceDesc]string {
	out := map[sliceDesc]string{}
	call, ok := in.(*ssa.Call)
	if !ok {
		return out
	}
	if core.IsBuiltin(call, "append") {
		for o, sub := range sliceOrigins(fn, call.Call.Args[0]) {
			if sub {
				out[o] = core.FuncName(fn)
			}
		}
		return out
	}
	cal := call.Call.StaticCallee()
	if cal == nil || cal.Pkg != fn.Pkg || len(cal.Blocks) == 0 || depth > 6 {
		return out
	}
	for d, where := range cs.of(cal, depth+1) {
		for _, m := range mapThroughCall(fn, &call.Call, d) {
			out[m] = where
		}
	}
	return out
}

func (cs *compactSummaries) of(fn *ssa.Function, depth int) map[sliceDesc]string {
	if s, ok := cs.memo[fn]; ok {
		return s
	}
	if cs.busy[fn] {
		return nil
	}
	cs.busy[fn] = true
	out := map[sliceDesc]string{}
	for _, b := range fn.Blocks {
		for _, in := range b.Instrs {
			for d, w := range cs.instrCompacts(fn, in, depth) {
				out[d] = w
			}
		}
	}
	delete(cs.busy, fn)
	cs.memo[fn] = out
	return out
}

func checkNoCompactionWhileRanging(c *core.Ctx, rule string, floor int, pis ...*PkgInfo) {
	st := c.Rule(rule, "a list is not compacted while it is being walked: inside a `for range` loop over a slice field, no instruction from which the loop can go on to its next element compacts that very field in place (append onto a sub-slice of it: the filter `kept := x[:0]`, the removal `append(x[:i], x[i+1:]...)`), neither directly nor through the functions it calls (every function of the package is summarised by the slice parameters, slices behind pointer parameters and slice fields it compacts; summaries are mapped through the arguments of each call). The range loop keeps walking the old backing array by index: the entry behind a removed one is skipped - a wavefront that never proceeds - and the last one is visited twice", floor)
	cs := &compactSummaries{memo: map[*ssa.Function]map[sliceDesc]string{}, busy: map[*ssa.Function]bool{}}
	for _, pi := range pis {
		for _, fn := range pi.Funcs {
			for _, hdr := range fn.Blocks {
				if hdr.Comment != "rangeindex.loop" || len(hdr.Succs) != 2 {
					continue
				}
				iff, ok := hdr.Instrs[len(hdr.Instrs)-1].(*ssa.If)
				if !ok {
					continue
				}
				bo, ok := iff.Cond.(*ssa.BinOp)
				if !ok || bo.Op != token.LSS {
					continue
				}
				ln, ok := bo.Y.(*ssa.Call)
				if !ok || !core.IsBuiltin(ln, "len") {
					continue
				}
				ranged := map[sliceDesc]bool{}
				for o := range sliceOrigins(fn, ln.Call.Args[0]) {
					if o.kind == "field" || o.kind == "ptrparam" {
						ranged[o] = true
					}
				}
				if len(ranged) == 0 {
					continue
				}
				st.Instances++
				c.MarkAnalysed(fn)
				// blocks of the body from which the header is reached again
				inBody := map[*ssa.BasicBlock]bool{}
				var fwd func(b *ssa.BasicBlock)
				fwd = func(b *ssa.BasicBlock) {
					if b == hdr || inBody[b] {
						return
					}
					inBody[b] = true
					for _, s := range b.Succs {
						fwd(s)
					}
				}
				fwd(hdr.Succs[0])
				continues := map[*ssa.BasicBlock]bool{}
				var back func(b *ssa.BasicBlock)
				back = func(b *ssa.BasicBlock) {
					if continues[b] || !inBody[b] {
						return
					}
					continues[b] = true
					for _, p := range b.Preds {
						back(p)
					}
				}
				for _, p := range hdr.Preds {
					back(p)
				}
				var names []string
				for o := range ranged {
					names = append(names, o.String())
				}
				sort.Strings(names)
				ok = true
				for b := range continues {
					for _, in := range b.Instrs {
						// the filter written in the loop itself (`kept := x[:0]` ahead of the loop,
						// `kept = append(kept, e)` for the elements that stay) writes only behind the
						// position the range reads next: the one in-place compaction that is safe
						if call, isCall := in.(*ssa.Call); isCall && core.IsBuiltin(call, "append") && zeroRooted(call.Call.Args[0]) {
							continue
						}
						for d, where := range cs.instrCompacts(fn, in, 0) {
							if ranged[d] {
								ok = false
								c.ReportAt(rule, fn, in.Pos(), "compacted-while-ranged:"+d.field, fmt.Sprintf("%s ranges over %s and, inside the loop with further iterations to come, compacts the same list in place (in %s): the range keeps walking the old backing array, so the entry behind the removed one is skipped and never handled again, and the last entry is handled twice", core.FuncName(fn), strings.Join(names, ", "), where))
							}
						}
					}
				}
				st.Ob(ok)
				st.Sample("%s: range over %s; no in-place compaction of it with iterations to come: %v", core.FuncName(fn), strings.Join(names, ", "), ok)
			}
		}
	}
}

// zeroRooted: every sub-slice expression the slice value goes back to is x[:0].
func zeroRooted(v ssa.Value) bool {
	seen := map[ssa.Value]bool{}
	found, ok := false, true
	var walk func(v ssa.Value, d int)
	walk = func(v ssa.Value, d int) {
		if d > 12 || seen[v] {
			return
		}
		seen[v] = true
		switch x := v.(type) {
		case *ssa.Slice:
			found = true
			k, isC := core.ConstInt(x.High)
			if x.High == nil || !isC || k != 0 || x.Low != nil {
				ok = false
			}
		case *ssa.Phi:
			for _, e := range x.Edges {
				walk(e, d+1)
			}
		case *ssa.Call:
			if core.IsBuiltin(x, "append") {
				walk(x.Call.Args[0], d+1)
			}
		case *ssa.ChangeType:
			walk(x.X, d+1)
		}
	}
	walk(v, 0)
	return found && ok
}
