package rules

import (
	"fmt"
	"go/token"
	"go/types"
	"regexp"
	"strings"

	"golang.org/x/tools/go/ssa"

	"verif/internal/core"
)

// checkModifierHelpers (R03.38): the helpers that apply the VOP3 input modifiers to a
// floating-point source are interpreted over a four-valued sign domain for each
// of the four combinations of the source's ABS and NEG bits. The value keeps its
// magnitude; its sign is the input's (S), the complement (NS), cleared (Z) or
// set (O). The ISA applies ABS first and NEG second: (abs, neg) = (0,0) S,
// (1,0) Z, (0,1) NS, (1,1) O.
type signVal struct {
	kind byte // 'v' value with sign, 'm' the sign mask, 'z' zero, 'a' all-ones mask, '?' anything else
	sign byte // 'S', 'N', 'Z', 'O' for kind 'v'
}

func flipSign(s byte) byte {
	switch s {
	case 'S':
		return 'N'
	case 'N':
		return 'S'
	case 'Z':
		return 'O'
	}
	return 'Z'
}

type signInterp struct {
	abs, neg bool
	depth    int
	why      string
}

// run interprets fn with the given argument values and returns the abstract result.
func (si *signInterp) run(fn *ssa.Function, args []signVal) (signVal, bool) {
	if si.depth > 3 || len(fn.Blocks) == 0 {
		si.why = "helper chain too deep or without a body"
		return signVal{}, false
	}
	si.depth++
	defer func() { si.depth-- }()
	env := map[ssa.Value]signVal{}
	for i, p := range fn.Params {
		if i < len(args) {
			env[p] = args[i]
		}
	}
	var val func(v ssa.Value) signVal
	val = func(v ssa.Value) signVal {
		if x, ok := env[v]; ok {
			return x
		}
		if k, isC := v.(*ssa.Const); isC {
			if k.Value == nil {
				return signVal{kind: '?'}
			}
			if u, ok := core.ConstUint(k); ok {
				switch u {
				case 0:
					return signVal{kind: 'z'}
				case 1 << 31, 1 << 63:
					return signVal{kind: 'm'}
				case 0xFFFFFFFF, 0xFFFFFFFFFFFFFFFF:
					return signVal{kind: 'a'}
				case 0x7FFFFFFF, 0x7FFFFFFFFFFFFFFF:
					return signVal{kind: 'n'} // everything but the sign
				}
			}
			return signVal{kind: '?'}
		}
		return signVal{kind: '?'}
	}
	flags := func(v ssa.Value) (abs, neg, ok bool) {
		var walk func(v ssa.Value) bool
		walk = func(v ssa.Value) bool {
			switch x := core.StripConv(v).(type) {
			case *ssa.UnOp:
				if f := core.LoadedField(x); f != nil {
					switch f.Name() {
					case "Abs":
						abs = true
						return true
					case "Neg":
						neg = true
						return true
					}
				}
			case *ssa.BinOp:
				if x.Op == token.OR {
					return walk(x.X) && walk(x.Y)
				}
			}
			return false
		}
		ok = walk(v)
		return
	}
	decide := func(cond ssa.Value) (bool, bool) {
		negate := false
		for {
			if u, ok := cond.(*ssa.UnOp); ok && u.Op == token.NOT {
				cond, negate = u.X, !negate
				continue
			}
			break
		}
		bo, ok := cond.(*ssa.BinOp)
		if !ok || (bo.Op != token.NEQ && bo.Op != token.EQL) {
			return false, false
		}
		if z, isC := core.ConstInt(bo.Y); !isC || z != 0 {
			return false, false
		}
		and, ok := core.StripConv(bo.X).(*ssa.BinOp)
		if !ok || and.Op != token.AND {
			return false, false
		}
		a, n, okF := flags(and.X)
		if !okF {
			a, n, okF = flags(and.Y)
		}
		if !okF {
			return false, false
		}
		truth := (a && si.abs) || (n && si.neg)
		if bo.Op == token.EQL {
			truth = !truth
		}
		if negate {
			truth = !truth
		}
		return truth, true
	}
	b := fn.Blocks[0]
	var prev *ssa.BasicBlock
	for steps := 0; steps < 200; steps++ {
		for _, in := range b.Instrs {
			switch x := in.(type) {
			case *ssa.Phi:
				for i, p := range b.Preds {
					if p == prev {
						env[x] = val(x.Edges[i])
					}
				}
			case *ssa.Convert:
				env[x] = val(x.X)
			case *ssa.ChangeType:
				env[x] = val(x.X)
			case *ssa.UnOp:
				switch x.Op {
				case token.SUB:
					v := val(x.X)
					if v.kind == 'v' {
						v.sign = flipSign(v.sign)
					}
					env[x] = v
				case token.XOR:
					if val(x.X).kind == 'm' {
						env[x] = signVal{kind: 'n'}
					} else {
						env[x] = signVal{kind: '?'}
					}
				default:
					env[x] = signVal{kind: '?'}
				}
			case *ssa.BinOp:
				l, r := val(x.X), val(x.Y)
				if l.kind != 'v' && r.kind == 'v' && (x.Op == token.XOR || x.Op == token.AND || x.Op == token.OR) {
					l, r = r, l
				}
				res := signVal{kind: '?'}
				if l.kind == 'v' {
					switch x.Op {
					case token.XOR:
						if r.kind == 'm' {
							res = signVal{kind: 'v', sign: flipSign(l.sign)}
						} else if r.kind == 'z' {
							res = l
						}
					case token.AND_NOT:
						if r.kind == 'm' {
							res = signVal{kind: 'v', sign: 'Z'}
						} else if r.kind == 'z' {
							res = l
						}
					case token.AND:
						if r.kind == 'a' {
							res = l
						} else if r.kind == 'n' {
							res = signVal{kind: 'v', sign: 'Z'}
						}
					case token.OR:
						if r.kind == 'm' {
							res = signVal{kind: 'v', sign: 'O'}
						} else if r.kind == 'z' {
							res = l
						}
					}
				} else if x.Op == token.SHL {
					// 1 << 31 / 1 << 63 written as a shift of constants is folded by the compiler; a
					// variable shift (1 << srcIdx) is the selection bit
					res = signVal{kind: '?'}
				}
				env[x] = res
			case *ssa.Call:
				cal := x.Call.StaticCallee()
				res := signVal{kind: '?'}
				if cal != nil && cal.Pkg != nil && cal.Pkg.Pkg.Path() == "math" {
					switch cal.Name() {
					case "Float32frombits", "Float64frombits", "Float32bits", "Float64bits":
						res = val(x.Call.Args[0])
					case "Abs":
						if v := val(x.Call.Args[0]); v.kind == 'v' {
							res = signVal{kind: 'v', sign: 'Z'}
						}
					case "Copysign":
						res = signVal{kind: '?'}
					}
				} else if cal != nil && cal.Pkg == fn.Pkg && len(cal.Blocks) > 0 {
					var as []signVal
					for _, a := range x.Call.Args {
						as = append(as, val(a))
					}
					r, ok := si.run(cal, as)
					if !ok {
						return signVal{}, false
					}
					res = r
				}
				env[x] = res
			case *ssa.If:
				t, ok := decide(x.Cond)
				if !ok {
					si.why = "a branch of " + core.FuncName(fn) + " does not test the source's ABS / NEG bit"
					return signVal{}, false
				}
				prev = b
				if t {
					b = b.Succs[0]
				} else {
					b = b.Succs[1]
				}
			case *ssa.Jump:
				prev = b
				b = b.Succs[0]
			case *ssa.Return:
				if len(x.Results) != 1 {
					si.why = "not a single result"
					return signVal{}, false
				}
				return val(x.Results[0]), true
			case *ssa.Panic:
				si.why = "panics"
				return signVal{}, false
			default:
				if v, ok := in.(ssa.Value); ok {
					env[v] = signVal{kind: '?'}
				}
			}
		}
	}
	si.why = "no return reached"
	return signVal{}, false
}

func checkModifierHelpers(c *core.Ctx, alus []aluDesc) {
	st := c.Rule("R03.38", "the helpers that apply the VOP3 input modifiers to a floating-point source (applyF32Modifier / applyF64Modifier of both ALUs, with the helpers they call) are interpreted over a sign domain for the four combinations of the source's ABS and NEG bits: the magnitude is kept and the sign is the input's, cleared, complemented or set exactly as ABS-then-NEG prescribes (-|x| is negative)", 8)
	want := map[[2]bool]byte{{false, false}: 'S', {true, false}: 'Z', {false, true}: 'N', {true, true}: 'O'}
	names := map[byte]string{'S': "the input's sign", 'N': "the complemented sign", 'Z': "sign cleared", 'O': "sign set"}
	for _, a := range alus {
		for _, fn := range c.SrcFuncs(a.pkg) {
			if fn.Signature.Recv() != nil || !strings.HasPrefix(fn.Name(), "applyF") || !strings.HasSuffix(fn.Name(), "Modifier") || len(fn.Params) != 3 {
				continue
			}
			c.MarkAnalysed(fn)
			for _, combo := range [][2]bool{{false, false}, {true, false}, {false, true}, {true, true}} {
				st.Instances++
				si := &signInterp{abs: combo[0], neg: combo[1]}
				res, ok := si.run(fn, []signVal{{kind: 'v', sign: 'S'}, {kind: '?'}, {kind: '?'}})
				switch {
				case !ok || res.kind != 'v':
					st.Ob(false)
					why := si.why
					if why == "" {
						why = "the result is not the source value with a decided sign"
					}
					c.Undecided("R03.38", fn, fn.Pos(), fmtCombo(combo), core.FuncName(fn)+" could not be interpreted over the sign domain: "+why)
				case res.sign != want[combo]:
					st.Ob(false)
					c.ReportAt("R03.38", fn, fn.Pos(), "modifier-sign:"+fmtCombo(combo), core.FuncName(fn)+" returns the source with "+names[res.sign]+" when "+fmtCombo(combo)+"; the ISA applies ABS first and NEG second, which gives "+names[want[combo]]+" (with both bits set the operand is -|x|)")
				default:
					st.Ob(true)
				}
			}
			st.Sample("%s.%s: sign decided for the four ABS/NEG combinations", a.pkg, fn.Name())
		}
	}
}

func fmtCombo(c [2]bool) string {
	b := func(x bool) string {
		if x {
			return "1"
		}
		return "0"
	}
	return "abs=" + b(c[0]) + ",neg=" + b(c[1])
}

// checkSCCWidth (R03.39): SCC of a 32-bit scalar shift is decided on the 32-bit result.
func checkSCCWidth(c *core.Ctx, handlers []handlerRef) {
	st := c.Rule("R03.39", "in the handlers of 32-bit scalar instructions (s_*_b32 / _u32 / _i32) a zero test that decides SCC is made on the 32-bit result: the tested value is not a left shift carried out in 64 bits (the bits shifted out of the 32-bit register would count: SDST is written truncated and reads 0 while SCC says non-zero)", 2)
	name32 := regexp.MustCompile(`^s_.*_(b32|u32|i32)$`)
	seen := map[string]bool{}
	for _, h := range handlers {
		is32 := false
		for _, n := range h.insts {
			if name32.MatchString(baseMnemonic(n)) {
				is32 = true
			}
		}
		key := h.alu.pkg + "." + h.name
		if !is32 || seen[key] {
			continue
		}
		seen[key] = true
		fn := c.SSAFunc(h.alu.pkg, h.alu.typ+"."+h.name)
		if fn == nil {
			continue
		}
		setsSCC := func(b *ssa.BasicBlock) bool {
			for _, in := range b.Instrs {
				if name, _ := stateMethod(in); name == "SetSCC" {
					return true
				}
			}
			return false
		}
		var wideShift func(v ssa.Value, depth int) *ssa.BinOp
		wideShift = func(v ssa.Value, depth int) *ssa.BinOp {
			if depth > 4 {
				return nil
			}
			switch x := v.(type) {
			case *ssa.BinOp:
				if x.Op == token.SHL {
					if bits, ok := uTypeBits(x.Type()); ok && bits == 64 {
						return x
					}
				}
			case *ssa.Phi:
				for _, e := range x.Edges {
					if s := wideShift(e, depth+1); s != nil {
						return s
					}
				}
			case *ssa.Convert:
				if bits, ok := uTypeBits(x.Type()); ok && bits == 64 {
					if ib, ok2 := uTypeBits(x.X.Type()); ok2 && ib == 64 {
						return wideShift(x.X, depth+1)
					}
				}
			}
			return nil
		}
		for _, b := range fn.Blocks {
			iff, ok := b.Instrs[len(b.Instrs)-1].(*ssa.If)
			if !ok {
				continue
			}
			bo, ok := iff.Cond.(*ssa.BinOp)
			if !ok || (bo.Op != token.NEQ && bo.Op != token.EQL) {
				continue
			}
			if z, isC := core.ConstInt(bo.Y); !isC || z != 0 {
				continue
			}
			if len(b.Succs) != 2 || !(setsSCC(b.Succs[0]) || setsSCC(b.Succs[1])) {
				continue
			}
			st.Instances++
			c.MarkAnalysed(fn)
			sh := wideShift(bo.X, 0)
			st.Ob(sh == nil)
			if sh != nil {
				c.ReportAt("R03.39", fn, bo.Pos(), "scc-from-64-bit-shift", core.FuncName(fn)+" decides SCC on a left shift carried out in 64 bits: for 0x80000000 << 1 the destination register receives 0 (the write keeps 32 bits) while SCC is set to 1; the ISA sets SCC from the 32-bit result")
			}
		}
	}
}

// sliceLenOf: the length of a byte slice when it is fixed by construction (a storage read
// of a constant size, an array sliced whole, a fixed-size conversion helper); -1 otherwise.
func sliceLenOf(v ssa.Value, depth int) int64 {
	if depth > 4 {
		return -1
	}
	switch x := v.(type) {
	case *ssa.Call:
		if x.Call.IsInvoke() && x.Call.Method.Name() == "Read" && len(x.Call.Args) >= 1 {
			if k, ok := core.ConstInt(x.Call.Args[len(x.Call.Args)-1]); ok {
				return k
			}
		}
		if cal := x.Call.StaticCallee(); cal != nil {
			switch cal.Name() {
			case "Uint32ToBytes":
				return 4
			case "Uint64ToBytes":
				return 8
			case "Uint16ToBytes":
				return 2
			case "Uint8ToBytes":
				return 1
			}
		}
	case *ssa.MakeSlice:
		if k, ok := core.ConstInt(x.Len); ok {
			return k
		}
	case *ssa.Slice:
		if x.Low == nil && x.High == nil {
			if pt, ok := x.X.Type().Underlying().(*types.Pointer); ok {
				if at, ok := pt.Elem().Underlying().(*types.Array); ok {
					return at.Len()
				}
			}
			return sliceLenOf(x.X, depth+1)
		}
		if x.High != nil {
			hi, ok1 := core.ConstInt(x.High)
			lo := int64(0)
			ok2 := true
			if x.Low != nil {
				lo, ok2 = core.ConstInt(x.Low)
			}
			if ok1 && ok2 {
				return hi - lo
			}
		}
	case *ssa.Phi:
		n := int64(-2)
		for _, e := range x.Edges {
			k := sliceLenOf(e, depth+1)
			if n == -2 {
				n = k
			} else if n != k {
				return -1
			}
		}
		if n >= 0 {
			return n
		}
	}
	return -1
}

// checkLoadWidths (R03.41): a load writes every dword of its destination.
func checkLoadWidths(c *core.Ctx, handlers []handlerRef) {
	st := c.Rule("R03.41", "a FLAT or DS load hands the destination as many bytes as the destination has registers (WriteOperandBytes(inst.Dst, lane, bytes) with 4 bytes per register of the mnemonic: sub-dword loads are zero- or sign-extended into a whole VGPR, dwordxN loads deliver 4N bytes): the register write copies just the bytes it is given, so a 2-byte slice for flat_load_ushort leaves bits 31..16 of the VGPR as they were", 16)
	seen := map[string]bool{}
	for _, h := range handlers {
		want := int64(-1)
		var iname string
		for _, n := range h.insts {
			bn := baseMnemonic(n)
			switch {
			case strings.HasPrefix(bn, "flat_load_"):
				if _, dst, ok := flatExpected(bn); ok {
					want, iname = dst*4, bn
				}
			case strings.HasPrefix(bn, "ds_read"):
				if regs, ok := dsExpected(bn); ok && regs[2] > 0 {
					want, iname = regs[2]*4, bn
				}
			}
		}
		key := h.alu.pkg + "." + h.name
		if want < 0 || seen[key] {
			continue
		}
		seen[key] = true
		fn := c.SSAFunc(h.alu.pkg, h.alu.typ+"."+h.name)
		if fn == nil {
			continue
		}
		for _, b := range fn.Blocks {
			for _, in := range b.Instrs {
				name, cc := stateMethod(in)
				if name != "WriteOperandBytes" || operandFieldName(cc.Args[0]) != "Dst" {
					continue
				}
				n := sliceLenOf(cc.Args[2], 0)
				if n < 0 {
					continue
				}
				st.Instances++
				c.MarkAnalysed(fn)
				st.Ob(n == want)
				if n != want {
					c.ReportAt("R03.41", fn, in.Pos(), "load-bytes:"+iname, fmt.Sprintf("%s (%s) writes %d byte(s) to its destination, which has %d: the register write copies only the bytes it is given, so the rest of the destination keeps its previous contents instead of the extension / the loaded dwords", core.FuncName(fn), iname, n, want))
				}
			}
		}
	}
}

// checkWideMultiply (R03.42): a product that is wider than its factors is formed in the wide type.
func checkWideMultiply(c *core.Ctx, handlers []handlerRef) {
	st := c.Rule("R03.42", "instructions whose result keeps more bits of a product than one factor has (v_mad_u64_u32 / v_mad_i64_i32: the full 64-bit product; v_mul_hi_*: its upper half) multiply in a 64-bit type: every multiplication of operand values in their handlers has a 64-bit result type. A product formed in 32 bits is truncated before it is widened, so every product of 2^32 or more is wrong", 4)
	wide := regexp.MustCompile(`^(v_mad_[ui]64_[ui]32|[sv]_mul_hi_[ui]32(_[ui]24)?|v_mul_hi_[ui]32_[ui]24)$`)
	seen := map[string]bool{}
	for _, h := range handlers {
		var iname string
		for _, n := range h.insts {
			if wide.MatchString(baseMnemonic(n)) {
				iname = baseMnemonic(n)
			}
		}
		key := h.alu.pkg + "." + h.name
		if iname == "" || seen[key] {
			continue
		}
		seen[key] = true
		fn := c.SSAFunc(h.alu.pkg, h.alu.typ+"."+h.name)
		if fn == nil {
			continue
		}
		fromOperand := func(v ssa.Value) bool {
			return dependsOn(v, func(x ssa.Value) bool {
				if in2, ok := x.(ssa.Instruction); ok {
					n, _ := stateMethod(in2)
					return n == "ReadOperand"
				}
				return false
			}, map[ssa.Value]bool{})
		}
		for _, b := range fn.Blocks {
			for _, in := range b.Instrs {
				bo, ok := in.(*ssa.BinOp)
				if !ok || bo.Op != token.MUL || !fromOperand(bo.X) || !fromOperand(bo.Y) {
					continue
				}
				st.Instances++
				c.MarkAnalysed(fn)
				okW := c.Sizeof(bo.Type()) >= 8
				st.Ob(okW)
				if !okW {
					c.ReportAt("R03.42", fn, bo.Pos(), "product-in-32-bits:"+iname, fmt.Sprintf("%s (%s) multiplies two operand values in %s: the product is truncated to 32 bits before it is widened / shifted, so 0x10000 * 0x10000 contributes 0 instead of 2^32", core.FuncName(fn), iname, bo.Type()))
				}
			}
		}
	}
}
