package rules

import (
	"fmt"
	"go/token"
	"go/types"
	"regexp"
	"sort"
	"strings"

	"golang.org/x/tools/go/ssa"

	"verif/internal/core"
)

// R04.17: a decoder that builds an operand for a slot whose table width can be
// 64 bits gives that operand its register count.
//
// The decode table says, per instruction, how wide the destination and each source
// are (DSTWidth, SRC0Width, ...). An Operand carries the width as RegCount: the
// register stores read RegCount registers, and an inline floating-point constant is
// a double when RegCount is 2. A format decoder that fills Inst.Src0 for
// instructions whose SRC0Width is 64 but never sets the operand's RegCount makes
// every such instruction read one register (v_cmp_lt_u64 compares the low dwords).
func checkDecoderWidths(c *core.Ctx, prov *core.Prov, t *InstTables) {
	st := c.Rule("R04.17", "for every format whose decode function fills Inst.Dst / Src0 / Src1 / Src2 / SDst and whose decode-table rows give that slot a width above 32 bits for at least one instruction, the decode function (or an insts helper it calls with the operand) sets that operand's RegCount (a store to Operand.RegCount whose operand is the one stored in, or loaded from, that Inst field, or an operand constructor called with a register count that is not the constant 0 or 1)", 12)
	slots := []string{"Dst", "Src0", "Src1", "Src2", "SDst"}
	wide := map[string][5][]string{}
	for _, r := range t.Rows {
		w := wide[r.Format]
		for i := 0; i < 5; i++ {
			if r.Widths[i] > 32 {
				w[i] = append(w[i], r.Name)
			}
		}
		wide[r.Format] = w
	}
	byName := map[string]*ssa.Function{}
	for _, fn := range c.SrcFuncs(instsPkg) {
		if fn.Signature.Recv() != nil && strings.HasPrefix(fn.Name(), "decode") {
			byName[strings.ToLower(strings.TrimPrefix(fn.Name(), "decode"))] = fn
		}
	}
	var formats []string
	for f := range wide {
		formats = append(formats, f)
	}
	sort.Strings(formats)
	for _, f := range formats {
		fn := byName[strings.ToLower(f)]
		if fn == nil {
			continue
		}
		stored := map[string]bool{}    // Inst fields filled here
		counted := map[string]bool{}   // Inst fields whose operand gets a RegCount
		ctorCount := map[string]bool{} // filled from a constructor with a variable / >1 count
		var visit func(g *ssa.Function, argSlot map[*ssa.Parameter]string, depth int)
		slotOf := func(v ssa.Value, argSlot map[*ssa.Parameter]string) string {
			if p, ok := v.(*ssa.Parameter); ok && argSlot != nil {
				return argSlot[p]
			}
			if u, ok := v.(*ssa.UnOp); ok {
				if fa, ok := u.X.(*ssa.FieldAddr); ok {
					if pt, ok := fa.X.Type().Underlying().(*types.Pointer); ok {
						if nt, ok := pt.Elem().(*types.Named); ok && nt.Obj().Name() == "Inst" {
							n := fieldNameOf(fa)
							for _, sl := range slots {
								if n == sl {
									return sl
								}
							}
						}
					}
				}
			}
			return ""
		}
		visit = func(g *ssa.Function, argSlot map[*ssa.Parameter]string, depth int) {
			// values stored into Inst.<slot> in this function
			valSlot := map[ssa.Value]string{}
			for _, b := range g.Blocks {
				for _, in := range b.Instrs {
					if s, ok := in.(*ssa.Store); ok {
						if fld := instFieldOfStore(s); fld != "" {
							for _, sl := range slots {
								if fld == sl {
									stored[sl] = true
									valSlot[s.Val] = sl
									// tuple extract: the call behind it
									if ex, ok := s.Val.(*ssa.Extract); ok {
										valSlot[ex.Tuple] = sl
									}
								}
							}
						}
					}
				}
			}
			for _, b := range g.Blocks {
				for _, in := range b.Instrs {
					switch x := in.(type) {
					case *ssa.Store:
						fa, ok := x.Addr.(*ssa.FieldAddr)
						if !ok || fieldNameOf(fa) != "RegCount" {
							continue
						}
						sl := valSlot[fa.X]
						if sl == "" {
							sl = slotOf(fa.X, argSlot)
						}
						if sl != "" {
							counted[sl] = true
						}
					case *ssa.Call:
						cal := x.Call.StaticCallee()
						if cal == nil || cal.Pkg == nil || len(cal.Blocks) == 0 {
							continue
						}
						// a constructor New*RegOperand(..., count): count not the constant 0/1
						if sl := valSlot[ssa.Value(x)]; sl != "" && strings.HasPrefix(cal.Name(), "New") && strings.HasSuffix(cal.Name(), "RegOperand") && len(x.Call.Args) == 3 {
							if k, ok := x.Call.Args[2].(*ssa.Const); !ok || (k.Int64() != 0 && k.Int64() != 1) {
								ctorCount[sl] = true
							}
						}
						if depth >= 2 || !strings.HasSuffix(cal.Pkg.Pkg.Path(), instsPkg) {
							continue
						}
						as := map[*ssa.Parameter]string{}
						for i, a := range x.Call.Args {
							if i >= len(cal.Params) {
								break
							}
							sl := valSlot[a]
							if sl == "" {
								sl = slotOf(a, argSlot)
							}
							if sl != "" {
								as[cal.Params[i]] = sl
							}
						}
						if len(as) > 0 {
							visit(cal, as, depth+1)
						}
					}
				}
			}
		}
		visit(fn, nil, 0)
		c.MarkAnalysed(fn)
		for i, sl := range slots {
			names := wide[f][i]
			if len(names) == 0 || !stored[sl] {
				continue
			}
			st.Instances++
			ok := counted[sl] || ctorCount[sl]
			st.Ob(ok)
			if !ok {
				sort.Strings(names)
				ex := names
				if len(ex) > 4 {
					ex = ex[:4]
				}
				c.ReportAt("R04.17", fn, fn.Pos(), "operand-width-dropped:"+f+":"+sl, fmt.Sprintf("%s fills Inst.%s but never sets its RegCount, although the decode table gives that slot 64 bits for %d %s instructions (%s ...): they read one register, and a 64-bit inline constant is taken as single precision", fn.Name(), sl, len(names), f, strings.Join(ex, ", ")))
			}
		}
	}
}

// ---- R04.18: the table widths agree with the mnemonic ------------------------------

var mnemonicTypeBits = map[string]int64{
	"b32": 32, "u32": 32, "i32": 32, "f32": 32, "b64": 64, "u64": 64, "i64": 64, "f64": 64,
	"f16": 32, "u16": 32, "i16": 32, "b16": 32, "u24": 32, "i24": 32, "u8": 32, "i8": 32, "b8": 32,
}

// expectedWidths derives, from an instruction mnemonic, which operand slots are 64 bits
// wide (the GCN3 / CDNA3 manuals name the operand type in the mnemonic). The result is
// indexed DST, SRC0, SRC1, SRC2; -1 means "the instruction has no such operand", 0 means "no opinion" (slot absent, or the mnemonic
// does not determine it). Only shapes read off the manuals are decided:
//
//	<op>_<T>                 every data operand has type T, except
//	  shifts                   the count is 32 bits (SRC1; SRC0 for the *rev forms)
//	  ldexp, trig_preop        SRC1 (exponent / segment select) is 32 bits
//	  bfe                      SRC1 (offset, width) is 32 bits
//	  bfm                      both sources are 32 bits
//	  bitset0/1                SRC0 (bit number) is 32 bits
//	  getpc / setpc,rfe        no source / no destination
//	  lshl_add                 SRC1 (shift) is 32 bits
//	compares (v_cmp*, s_cmp*) sources have type T; class / bitcmp: SRC1 is a 32-bit mask
//	                         or bit number; the VOP3 form writes a 64-bit lane mask
//	<op>_<D>_<S>             DST has type D and SRC0 type S (cvt, bcnt, ff, flbit,
//	                         frexp_exp); mad_u64_u32 / mad_i64_i32: 32-bit factors,
//	                         64-bit addend and result
//
// packed (pk) operations and everything else are left undecided.
func expectedWidths(name, format string) (w [4]int64, decided bool) {
	n := strings.TrimSpace(name)
	for _, suf := range []string{"_e32", "_e64", "_sdwa", "_dpp"} {
		n = strings.TrimSuffix(n, suf)
	}
	toks := strings.Split(n, "_")
	if len(toks) < 3 || toks[1] == "pk" {
		return w, false
	}
	var types []int
	for i, t := range toks {
		if _, ok := mnemonicTypeBits[t]; ok {
			types = append(types, i)
		}
	}
	if len(types) == 0 || types[len(types)-1] != len(toks)-1 {
		return w, false
	}
	last := mnemonicTypeBits[toks[len(toks)-1]]
	op := strings.Join(toks[1:types[0]], "_")
	has := func(s string) bool {
		for _, t := range toks[1:types[0]] {
			if t == s {
				return true
			}
		}
		return false
	}
	switch {
	case format == "VOP3b" && len(types) == 1 && last == 32 && (op == "add" || op == "sub" || op == "subrev" || op == "add_co" || op == "sub_co" || op == "subrev_co"):
		// carry-out only: two sources, no third operand
		return [4]int64{32, 32, 32, -1}, true
	case format == "VOP3b" && len(types) == 1 && last == 32 && (op == "addc" || op == "subb" || op == "subbrev" || op == "addc_co" || op == "subb_co" || op == "subbrev_co"):
		// the carry-in is a 64-bit lane mask in SRC2
		return [4]int64{32, 32, 32, 64}, true
	case toks[1] == "cmp" || toks[1] == "cmpx" || toks[1] == "bitcmp0" || toks[1] == "bitcmp1":
		if len(types) != 1 {
			return w, false
		}
		w[1], w[2] = last, last
		if has("class") || strings.HasPrefix(toks[1], "bitcmp") {
			w[2] = 32
		}
		if format == "VOP3a" {
			w[0] = 64
		}
		return w, true
	case len(types) == 2 && types[0] == len(toks)-2:
		d := mnemonicTypeBits[toks[types[0]]]
		switch op {
		case "mad":
			if d != 64 {
				return w, false
			}
			w = [4]int64{64, 32, 32, 64}
		case "cvt", "bcnt0", "bcnt1", "ff0", "ff1", "flbit", "frexp_exp", "sext":
			w[0], w[1] = d, last
		default:
			return w, false
		}
		return w, true
	case len(types) == 1:
		w = [4]int64{last, last, last, last}
		switch op {
		case "lshl", "lshr", "ashr", "ldexp", "trig_preop", "bfe", "lshl_add":
			w[2] = 32
		case "lshlrev", "lshrrev", "ashrrev", "bitset0", "bitset1":
			w[1] = 32
		case "bfm":
			w[1], w[2] = 32, 32
		case "getpc":
			w[1] = 0
		case "setpc", "rfe":
			w[0] = 0
		case "swappc", "mov", "cmov", "not", "wqm", "brev", "quadmask", "movrels", "movreld",
			"and_saveexec", "or_saveexec", "xor_saveexec", "andn2_saveexec", "orn2_saveexec", "nand_saveexec", "nor_saveexec", "xnor_saveexec",
			"trunc", "ceil", "rndne", "floor", "rcp", "rsq", "sqrt", "frexp_mant", "fract",
			"fma", "div_fixup", "div_fmas", "div_scale", "add", "mul", "min", "max",
			"and", "or", "xor", "andn2", "orn2", "nand", "nor", "xnor", "cselect":
		default:
			return w, false
		}
		if op != "lshl_add" && op != "fma" && op != "div_fixup" && op != "div_fmas" && op != "div_scale" {
			w[3] = 0
		}
		switch op {
		case "add", "mul", "min", "max", "and", "or", "xor", "andn2", "orn2", "nand", "nor", "xnor", "cselect",
			"lshl", "lshr", "ashr", "lshlrev", "lshrrev", "ashrrev", "ldexp", "trig_preop", "bfe", "bfm",
			"lshl_add", "fma", "div_fixup", "div_fmas", "div_scale":
		default: // one source
			w[2] = 0
		}
		return w, true
	}
	return w, false
}

// slotsOfFormat: which of DST, SRC0, SRC1, SRC2 an instruction of the format has.
var slotsOfFormat = map[string][4]bool{
	"SOP1": {true, true, false, false}, "SOPC": {false, true, true, false}, "SOP2": {true, true, true, false},
	"VOP1": {true, true, false, false}, "VOPC": {false, true, true, false}, "VOP2": {true, true, true, false},
	"VOP3a": {true, true, true, true}, "VOP3b": {true, true, true, true},
}

func checkTableWidths(c *core.Ctx, t *InstTables) {
	st := c.Rule("R04.18", "for every format whose decode function takes an operand's register count from the decode table (it reads InstType.DSTWidth / SRC0Width / SRC1Width / SRC2Width), every row of that format agrees with its own mnemonic: a slot the mnemonic makes 64 bits wide (v_trunc_f64, v_cvt_i32_f64 source, s_bcnt1_i32_b64 source, v_mad_u64_u32 addend and result, s_cmp_eq_u64 ...) has table width 64, and a destination or source the mnemonic makes 32 bits wide (the shift amount of v_lshlrev_b64, the segment select of v_trig_preop_f64, the bit index of s_bitset0_b64) does not have width 64 (the mnemonic grammar and its exceptions are transcribed from the GCN3 / CDNA3 manuals; mnemonics outside the grammar are left undecided and counted)", 60)
	// which (format, slot) the decoder takes from the table
	fieldNames := [4]string{"DSTWidth", "SRC0Width", "SRC1Width", "SRC2Width"}
	consults := map[string][4]bool{}
	for _, fn := range c.SrcFuncs(instsPkg) {
		if fn.Signature.Recv() == nil || !strings.HasPrefix(fn.Name(), "decode") {
			continue
		}
		var format string
		for f := range slotsOfFormat {
			if strings.EqualFold(f, strings.TrimPrefix(fn.Name(), "decode")) {
				format = f
			}
		}
		if format == "" {
			continue
		}
		var got [4]bool
		for _, b := range fn.Blocks {
			for _, in := range b.Instrs {
				fa, ok := in.(*ssa.FieldAddr)
				if !ok {
					continue
				}
				n := fieldNameOf(fa)
				for i, fnm := range fieldNames {
					if n == fnm {
						got[i] = true
					}
				}
			}
		}
		consults[format] = got
		c.MarkAnalysed(fn)
	}
	undecided := 0
	for _, r := range t.Rows {
		got, ok := consults[r.Format]
		if !ok {
			continue
		}
		want, decided := expectedWidths(r.Name, r.Format)
		if !decided {
			undecided++
			continue
		}
		present := slotsOfFormat[r.Format]
		for i := 0; i < 4; i++ {
			if !got[i] || !present[i] || want[i] == 0 {
				continue
			}
			st.Instances++
			have := r.Widths[i]
			bad := (want[i] == 64 && have != 64) || (want[i] == 32 && have == 64)
			if want[i] == -1 {
				// the decoders build Src2 whenever its table width is not zero
				st.Ob(have == 0)
				if have != 0 {
					c.Report(core.Finding{Rule: "R04.18", Pkg: instsPkg, Func: "DecodeTable", Detail: fmt.Sprintf("row-operand-phantom:%s:%s:%s", r.Format, strings.TrimSpace(r.Name), fieldNames[i]), Pos: c.Position(r.Pos),
						Msg: fmt.Sprintf("%s row %s (opcode %d) has %s %d, but the instruction has no such operand: decode%s builds one from bits that are not a field of this instruction, and the disassembly shows a third source", r.Format, strings.TrimSpace(r.Name), r.Opcode, fieldNames[i], have, r.Format)})
				}
				continue
			}
			st.Ob(!bad)
			if bad {
				c.Report(core.Finding{Rule: "R04.18", Pkg: instsPkg, Func: "DecodeTable", Detail: fmt.Sprintf("row-width:%s:%s:%s", r.Format, strings.TrimSpace(r.Name), fieldNames[i]), Pos: c.Position(r.Pos),
					Msg: fmt.Sprintf("%s row %s (opcode %d) has %s %d, but the mnemonic makes that operand %d bits wide: decode%s %s", r.Format, strings.TrimSpace(r.Name), r.Opcode, fieldNames[i], have, want[i], r.Format, widthEffect(i, have, want[i]))})
			}
		}
	}
	st.Sample("%d rows of width-consulting formats have a mnemonic outside the transcribed grammar (undecided, not checked)", undecided)
}

func widthEffect(slot int, have, want int64) string {
	switch {
	case slot == 3 && have == 0:
		return "does not decode the operand at all: Inst.Src2 stays nil and the handler that reads the carry-in / third source dereferences it"
	case want == 64:
		return "gives the operand one register instead of two"
	}
	return "gives the operand two registers instead of one: a register there is decoded and printed as a pair, and the disassembly no longer assembles back to this encoding"
}

// R04.19: which VOP3 instructions use the VOP3b layout (an SDST field instead of ABS /
// OP_SEL). GCN3 manual 12.x "VOP3b: this encoding allows specifying a unique scalar
// destination, and is used only for: V_ADD_CO_U32, V_SUB_CO_U32, V_SUBREV_CO_U32,
// V_ADDC_CO_U32, V_SUBB_CO_U32, V_SUBBREV_CO_U32, V_DIV_SCALE_F32, V_DIV_SCALE_F64,
// V_MAD_U64_U32, V_MAD_I64_I32" (the GCN3 names lack _CO).
var vop3bMnemonic = regexp.MustCompile(`^v_(add|sub|subrev|addc|subb|subbrev)(_co)?_u32$|^v_div_scale_f(32|64)$|^v_mad_(u64_u32|i64_i32)$`)

func checkVOP3bMembership(c *core.Ctx, t *InstTables) {
	st := c.Rule("R04.19", "the instructions decoded with the VOP3b layout (scalar destination in bits 14..8) are exactly those the ISA names: every decode-table row in the VOP3 opcode space (256 and above) whose mnemonic is v_add/sub/subrev/addc/subb/subbrev[_co]_u32, v_div_scale_f32/f64, v_mad_u64_u32 or v_mad_i64_i32 is a VOP3b row, and no other mnemonic is; a carry-writing instruction tabled VOP3a has its SDST field read as ABS modifiers and never writes its carry", 8)
	for _, r := range t.Rows {
		if (r.Format != "VOP3a" && r.Format != "VOP3b") || r.Opcode < 256 {
			continue
		}
		name := strings.TrimSpace(r.Name)
		is := vop3bMnemonic.MatchString(baseMnemonic(name))
		if !is && r.Format != "VOP3b" {
			continue
		}
		st.Instances++
		ok := is == (r.Format == "VOP3b")
		st.Ob(ok)
		if ok {
			continue
		}
		if is {
			c.Report(core.Finding{Rule: "R04.19", Pkg: instsPkg, Func: "DecodeTable", Detail: "vop3b-tabled-vop3a:" + name, Pos: c.Position(r.Pos),
				Msg: fmt.Sprintf("%s (opcode %d) has a scalar destination (VOP3b layout) but is tabled %s: bits 14..8 are decoded as ABS / OP_SEL, Inst.SDst stays nil and the carry-out is never written (`D1E80400 041A0702` prints as v_mad_u64_u32 v0, v2, v3, |v6|)", name, r.Opcode, r.Format)})
		} else {
			c.Report(core.Finding{Rule: "R04.19", Pkg: instsPkg, Func: "DecodeTable", Detail: "vop3a-tabled-vop3b:" + name, Pos: c.Position(r.Pos),
				Msg: fmt.Sprintf("%s (opcode %d) has no scalar destination but is tabled VOP3b: its ABS / OP_SEL bits are decoded as an SDST register", name, r.Opcode)})
		}
	}
}

// R04.22: the register file of the destination follows the instruction.
var scalarDstMnemonic = regexp.MustCompile(`^v_(cmp|cmpx)_|^v_readlane_b32$|^v_readfirstlane_b32$`)

func checkDstRegisterFile(c *core.Ctx, t *InstTables) {
	st := c.Rule("R04.22", "the destination of a vector instruction is decoded into the register file the instruction writes: for every VOP1 and VOP3a row, the path decodeVOP1 / decodeVOP3a takes for that opcode (decided per opcode on the SSA form) stores into Inst.Dst an operand built by getOperand (a scalar operand code: SGPR, VCC, EXEC) when the mnemonic is a compare (v_cmp*, v_cmpx*), v_readlane_b32 or v_readfirstlane_b32, and a vector register (NewVRegOperand) otherwise", 300)
	for _, format := range []string{"VOP1", "VOP3a"} {
		fn := c.SSAFunc(instsPkg, "Disassembler.decode"+format)
		if fn == nil {
			continue
		}
		c.MarkAnalysed(fn)
		isOp := isLoadOfField("Opcode")
		for _, r := range t.Rows {
			if r.Format != format {
				continue
			}
			name := strings.TrimSpace(r.Name)
			blocks := opReach(fn, isOp, r.Opcode)
			kind := ""
			for _, b := range blocks {
				for _, in := range b.Instrs {
					s, ok := in.(*ssa.Store)
					if !ok || instFieldOfStore(s) != "Dst" {
						continue
					}
					v := s.Val
					if ex, ok := v.(*ssa.Extract); ok {
						v = ex.Tuple
					}
					if call, ok := v.(*ssa.Call); ok && call.Call.StaticCallee() != nil {
						k2 := ""
						switch call.Call.StaticCallee().Name() {
						case "getOperand":
							// getOperand(field + 256) names a vector register as well
							k2 = "scalar"
							if len(call.Call.Args) == 1 {
								arg := call.Call.Args[0]
								for {
									if cv, ok := arg.(*ssa.Convert); ok {
										arg = cv.X
										continue
									}
									break
								}
								if bo, ok := arg.(*ssa.BinOp); ok && bo.Op == token.ADD {
									if kk, ok := core.ConstInt(bo.Y); ok && kk == 256 {
										k2 = "vector"
									}
								}
							}
						case "NewVRegOperand":
							k2 = "vector"
						}
						if k2 != "" && kind != "" && kind != k2 {
							kind = "mixed"
						} else if k2 != "" {
							kind = k2
						}
					}
				}
			}
			if kind == "" {
				continue // no store to Inst.Dst is reachable for this opcode
			}
			st.Instances++
			want := "vector"
			if scalarDstMnemonic.MatchString(baseMnemonic(name)) {
				want = "scalar"
			}
			st.Ob(kind == want)
			if kind != want {
				c.Report(core.Finding{Rule: "R04.22", Pkg: instsPkg, Func: "Disassembler.decode" + format, Detail: "dst-register-file:" + format + ":" + name, Pos: c.Position(r.Pos),
					Msg: fmt.Sprintf("%s (%s opcode %d) writes a %s destination, but decode%s builds a %s operand from the VDST field: `v_readlane_b32 s5, v1, s2` decodes with destination v5", name, format, r.Opcode, want, format, kind)})
			}
		}
	}
}

// R04.25: the packed (VOP3P) instructions have no ABS field.
func checkVOP3PModifiers(c *core.Ctx, t *InstTables) {
	st := c.Rule("R04.25", "bits 10..8 of a packed (VOP3P, v_pk_*) instruction are NEG_HI, not ABS, and bits 60..59 are OP_SEL_HI, not OMOD: for every v_pk_* row decoded by decodeVOP3a, the blocks the decoder executes for that opcode (opReach) neither store Inst.Abs / Inst.Omod from those bits nor derive the per-source Abs flags from them", 3)
	fn := c.SSAFunc(instsPkg, "Disassembler.decodeVOP3a")
	if fn == nil {
		return
	}
	isOp := isLoadOfField("Opcode")
	for _, r := range t.Rows {
		name := strings.TrimSpace(r.Name)
		if r.Format != "VOP3a" || !strings.HasPrefix(name, "v_pk_") {
			continue
		}
		st.Instances++
		c.MarkAnalysed(fn)
		var bad []string
		for _, b := range opReach(fn, isOp, r.Opcode) {
			for _, in := range b.Instrs {
				if s, ok := in.(*ssa.Store); ok {
					if f := instFieldOfStore(s); f == "Abs" || f == "Omod" {
						bad = append(bad, "Inst."+f)
					}
				}
				if call, ok := in.(*ssa.Call); ok && call.Call.StaticCallee() != nil && call.Call.StaticCallee().Name() == "parseAbs" {
					bad = append(bad, "parseAbs")
				}
			}
		}
		bad = uniqueStrings(bad)
		st.Ob(len(bad) == 0)
		if len(bad) > 0 {
			c.Report(core.Finding{Rule: "R04.25", Pkg: instsPkg, Func: "Disassembler.decodeVOP3a", Detail: "vop3p-modifiers:" + name, Pos: c.Position(r.Pos),
				Msg: fmt.Sprintf("%s (VOP3P opcode %d) is decoded with %s: its NEG_HI bits become absolute-value modifiers of the sources and its OP_SEL_HI bits an output modifier", name, r.Opcode, strings.Join(bad, ", "))})
		}
	}
}

// checkTableIndependentOfConfiguration (R04.37): the decode table is built by NewDisassembler,
// and every builder of the repository configures the disassembler (IsCDNA3) after it was
// constructed. A table row that depends on a configurable field therefore sees the field's zero
// value on every decoder: the rows under `if d.IsCDNA3` exist on none. In the functions reached
// from NewDisassembler no exported field of the Disassembler - a field other packages set on the
// finished object - is read.
func checkTableIndependentOfConfiguration(c *core.Ctx) {
	st := c.Rule("R04.37", "the decode table does not depend on how the disassembler is configured later: in NewDisassembler and the functions of the package it reaches, no exported field of the Disassembler (IsCDNA3: set by the platform builders on the object NewDisassembler returned) is read. Such a read always sees the zero value, so rows registered under it are registered on no decoder - a CDNA3 decoder then reports its own packed instructions as undecodable", 2)
	root := c.MustFunc("R04.37", instsPkg, "NewDisassembler")
	if root == nil {
		return
	}
	seen := map[*ssa.Function]bool{}
	var visit func(fn *ssa.Function, d int)
	visit = func(fn *ssa.Function, d int) {
		if seen[fn] || d > 4 {
			return
		}
		seen[fn] = true
		st.Instances++
		c.MarkAnalysed(fn)
		ok := true
		for _, b := range fn.Blocks {
			for _, in := range b.Instrs {
				if ld, isLd := in.(*ssa.UnOp); isLd && ld.Op == token.MUL {
					if f := core.LoadedField(ld); f != nil && f.Exported() && core.ShortFieldID(f) == "Disassembler."+f.Name() {
						ok = false
						c.ReportAt("R04.37", fn, ld.Pos(), "table-depends-on-configuration:"+f.Name(), core.FuncName(fn)+", which runs inside NewDisassembler, reads Disassembler."+f.Name()+": every builder sets that field after NewDisassembler returned, so the read sees the zero value on every decoder and whatever the table registers under it is never registered")
					}
				}
				if cc := core.CallOf(in); cc != nil {
					if cal := cc.StaticCallee(); cal != nil && cal.Pkg == fn.Pkg && len(cal.Blocks) > 0 {
						visit(cal, d+1)
					}
				}
			}
		}
		st.Ob(ok)
	}
	visit(root, 0)
}
