package rules

import (
	"fmt"
	"go/ast"
	"go/token"
	"go/types"
	"sort"
	"strings"

	"golang.org/x/tools/go/packages"
	"golang.org/x/tools/go/ssa"

	"verif/internal/core"
)

func init() { register("C05", runC05) }

var simPatterns = []string{
	"./amd/driver/...", "./amd/emu/...", "./amd/insts/...", "./amd/kernels/...", "./amd/protocol/...",
	"./amd/sampling/...", "./amd/timing/...", "./amd/samples/runner/...", "./amd/bitops/...", "./nvidia/...",
}

// exception tables: one symbol each, with a reason
var mapRangeExceptions = map[string]string{
	"amd/driver/internal|memoryAllocatorImpl.deviceIDByPAddr|a.devices":       "returns the id of the device whose address range contains pAddr; device ranges are disjoint by construction (RegisterDevice assigns consecutive ranges), so at most one key satisfies the test and the result does not depend on iteration order",
	"amd/insts|Disassembler.initializeDecodeTable|d.decodeTables[VOP1].insts": "copies VOP1 rows into the VOP3a table; the destination is a map keyed by opcode, only the InstType.ID counter depends on the order and InstType.ID has no reader (checked by R05.1.id)",
}

var hostValueExceptions = map[string]string{
	"amd/sampling|SampledEngine.Reset|time.Now":                           "wall-clock start of the sampled run, stored in FullSimWallTimeStart for reporting only",
	"amd/driver|Driver.logSimulationStart|xid.New":                        "random id naming the tracing task of this run; it flows only into tracing calls",
	"amd/timing/cu|ComputeUnit.sendScalarShadowBufferAccesses|xid.New":    "fresh request ID for a re-issued scalar access after a pipeline restart; request IDs are compared for equality only (response matching), as with akita's own xid-based parallel ID generator",
	"amd/timing/cu|ComputeUnit.sendInstFetchShadowBufferAccesses|xid.New": "fresh request ID for a re-issued instruction fetch after a pipeline restart; compared for equality only",
}

func isIntegerType(t types.Type) bool {
	b, ok := t.Underlying().(*types.Basic)
	return ok && b.Info()&types.IsInteger != 0
}

// classifyMapRange returns "" if the loop body is order-insensitive, else a reason.
func classifyMapRange(p *packages.Package, fd *ast.FuncDecl, rs *ast.RangeStmt) (kind string, why string) {
	info := p.TypesInfo
	// (a) append keys/values to a slice that is sorted afterwards
	if len(rs.Body.List) == 1 {
		if as, ok := rs.Body.List[0].(*ast.AssignStmt); ok && len(as.Lhs) == 1 && len(as.Rhs) == 1 {
			if call, ok := as.Rhs[0].(*ast.CallExpr); ok && exprString(call.Fun) == "append" && len(call.Args) >= 1 {
				target := types.ExprString(as.Lhs[0])
				if types.ExprString(call.Args[0]) == target {
					sorted := false
					after := false
					ast.Inspect(fd.Body, func(n ast.Node) bool {
						if n == ast.Node(rs) {
							after = true
						}
						if c2, ok := n.(*ast.CallExpr); ok && after && c2.Pos() > rs.End() {
							fnName := exprString(c2.Fun)
							if strings.HasPrefix(fnName, "sort.") || strings.HasPrefix(fnName, "slices.Sort") {
								for _, a := range c2.Args {
									if types.ExprString(a) == target {
										sorted = true
									}
								}
							}
						}
						return true
					})
					if sorted {
						return "collect-then-sort", ""
					}
					return "", "elements are appended to " + target + " in map order and the slice is not sorted afterwards"
				}
			}
		}
	}
	// (b)/(c): every statement is a map store / delete / integer accumulation, possibly under ifs
	var bad string
	var check func(stmts []ast.Stmt)
	check = func(stmts []ast.Stmt) {
		for _, s := range stmts {
			switch s := s.(type) {
			case *ast.AssignStmt:
				for _, l := range s.Lhs {
					switch lx := l.(type) {
					case *ast.IndexExpr:
						if _, isMap := info.TypeOf(lx.X).Underlying().(*types.Map); !isMap {
							bad = "stores into " + types.ExprString(lx.X) + " (not a map) in map order"
						}
					case *ast.Ident:
						if s.Tok == token.DEFINE {
							continue // loop-local
						}
						if lx.Name == "_" {
							continue
						}
						t := info.TypeOf(lx)
						switch s.Tok {
						case token.ADD_ASSIGN, token.OR_ASSIGN, token.AND_ASSIGN, token.SUB_ASSIGN, token.XOR_ASSIGN:
							if !isIntegerType(t) {
								bad = "accumulates a non-integer value (" + lx.Name + ") in map order"
							}
						default:
							// local declared inside the loop?
							if obj := info.ObjectOf(lx); obj != nil && obj.Pos() > rs.Body.Pos() && obj.Pos() < rs.Body.End() {
								continue
							}
							bad = "assigns " + lx.Name + " in map order (last writer depends on iteration order)"
						}
					default:
						bad = "assigns " + types.ExprString(l) + " in map order"
					}
				}
			case *ast.IncDecStmt:
				if !isIntegerType(info.TypeOf(s.X)) {
					bad = "increments a non-integer"
				}
			case *ast.ExprStmt:
				if call, ok := s.X.(*ast.CallExpr); ok && exprString(call.Fun) == "delete" {
					continue
				}
				bad = "calls " + types.ExprString(s.X) + " once per entry in map order"
			case *ast.IfStmt:
				check(s.Body.List)
				if s.Else != nil {
					if b, ok := s.Else.(*ast.BlockStmt); ok {
						check(b.List)
					} else {
						check([]ast.Stmt{s.Else})
					}
				}
			case *ast.DeclStmt, *ast.EmptyStmt:
			case *ast.BranchStmt:
				if s.Tok != token.CONTINUE {
					bad = "leaves the loop early (" + s.Tok.String() + "): which entry is seen first depends on iteration order"
				}
			case *ast.ReturnStmt:
				bad = "returns from inside the loop: which entry is seen first depends on iteration order"
			case *ast.ForStmt:
				check(s.Body.List)
			case *ast.RangeStmt:
				check(s.Body.List)
			default:
				bad = fmt.Sprintf("contains %T in map order", s)
			}
			if bad != "" {
				return
			}
		}
	}
	check(rs.Body.List)
	if bad == "" {
		return "order-insensitive-body", ""
	}
	return "", bad
}

func runC05(c *core.Ctx) core.Meta {
	c.Load(simPatterns...)
	// only code that runs inside a simulation (also when the thorough tier loaded the whole module)
	var pkgs []*packages.Package
	for _, p := range c.RepoPkgs() {
		rel := core.RelPkg(p.PkgPath)
		for _, pat := range simPatterns {
			pre := strings.TrimSuffix(strings.TrimPrefix(pat, "./"), "/...")
			if rel == pre || strings.HasPrefix(rel, pre+"/") {
				pkgs = append(pkgs, p)
				break
			}
		}
	}

	// ---------------- R05.1 map iteration order ----------------
	st1 := c.Rule("R05.1", "every range over a map in simulation code has an order-insensitive body (collect-then-sort, stores into maps/sets, integer accumulation) or a one-line exception stating why the result does not depend on the order; anything else (append to a slice that outlives the loop, Send/Schedule, allocation, early exit) makes results depend on Go's randomised map order", 6)
	usedExc := map[string]bool{}
	for _, p := range pkgs {
		rel := core.RelPkg(p.PkgPath)
		if strings.HasSuffix(rel, "_test") {
			continue
		}
		core.FuncDecls(p, func(fd *ast.FuncDecl) {
			ast.Inspect(fd.Body, func(n ast.Node) bool {
				rs, ok := n.(*ast.RangeStmt)
				if !ok {
					return true
				}
				t := p.TypesInfo.TypeOf(rs.X)
				if t == nil {
					return true
				}
				if _, isMap := t.Underlying().(*types.Map); !isMap {
					return true
				}
				st1.Instances++
				key := rel + "|" + core.DeclName(fd) + "|" + types.ExprString(rs.X)
				kind, why := classifyMapRange(p, fd, rs)
				if why == "" {
					st1.Ob(true)
					st1.Sample("%s %s: range %s — %s", rel, core.DeclName(fd), types.ExprString(rs.X), kind)
					return true
				}
				if reason, ok := mapRangeExceptions[key]; ok {
					usedExc[key] = true
					st1.Ob(true)
					st1.Sample("%s %s: range %s — exception: %s", rel, core.DeclName(fd), types.ExprString(rs.X), short(reason))
					return true
				}
				st1.Ob(false)
				c.Report(core.Finding{Rule: "R05.1", Pkg: rel, Func: core.DeclName(fd), Detail: "map-range:" + types.ExprString(rs.X), Pos: c.Position(rs.Pos()),
					Msg: "iteration over map " + types.ExprString(rs.X) + " " + why + ": the outcome differs between runs of the same simulation"})
				return true
			})
		})
	}
	for k := range mapRangeExceptions {
		if !usedExc[k] {
			c.Notes = append(c.Notes, "map-range exception not exercised (construct gone or now order-insensitive): "+k)
		}
	}
	// secondary rule for the decode-table exception: InstType.ID has no reader
	stID := c.Rule("R05.1.id", "InstType.ID (assigned in map order by the VOP1->VOP3a copy loop) is never read", 1)
	stID.Instances++
	idReads := 0
	for _, p := range pkgs {
		for id, obj := range p.TypesInfo.Uses {
			v, ok := obj.(*types.Var)
			if !ok || !v.IsField() || v.Name() != "ID" || v.Pkg() == nil || !strings.HasSuffix(v.Pkg().Path(), "/amd/insts") {
				continue
			}
			// is it the ID field of InstType?
			if !strings.Contains(core.FieldID(v), ".InstType.ID") {
				continue
			}
			// find whether this use is a write (lhs of assignment)
			isWrite := false
			for _, f := range p.Syntax {
				if f.Pos() <= id.Pos() && id.Pos() <= f.End() {
					ast.Inspect(f, func(n ast.Node) bool {
						if as, ok := n.(*ast.AssignStmt); ok {
							for _, l := range as.Lhs {
								if sel, ok := l.(*ast.SelectorExpr); ok && sel.Sel == id {
									isWrite = true
								}
							}
						}
						return true
					})
				}
			}
			if !isWrite {
				idReads++
				c.Report(core.Finding{Rule: "R05.1.id", Pkg: core.RelPkg(p.PkgPath), Func: "-", Detail: "InstType.ID:read", Pos: c.Position(id.Pos()), Msg: "InstType.ID is read here, but its value depends on map iteration order in initializeDecodeTable"})
			}
		}
	}
	stID.Ob(idReads == 0)

	checkSeedEffective(c)
	// R05.8: what the program reads back must not depend on host thread scheduling (c12.go, R12.8)
	c.BuildSSA()
	checkHostWritesAfterRelease(c, NewPkgInfo(c, driverPkg), core.NewProv(c), "R05.8")
	// R05.11: what the reporter reads after the last command is complete when the application resumes (c12.go, R12.14)
	checkTraceAfterRelease(c, NewPkgInfo(c, driverPkg), "R05.11")
	checkNoCountdownBeforeImmediateRetire(c, "R05.13", NewPkgInfo(c, driverPkg))
	// R05.9: one ALU per compute unit (fresh.go)
	checkPerUnitInstances(c, "R05.9")

	// ---------------- R05.12 no state of a simulation lives in package-level variables ----------------
	st12 := c.Rule("R05.12", "a simulation keeps its state in the objects of its platform: no function of the simulation packages (init functions excepted) assigns to a package-level variable of the module, except the listed ones whose value no simulated time or result depends on. A flag or counter hoisted to package level survives from one simulation to the next in the same process (and is shared by all GPUs): the second run of a workload starts `warm` and reports other times than the first", 3)
	globalWriteOK := map[string]string{
		"amd/insts.FormatTable":              "built once by initFormatTable, which only the package's init calls; the same constant table in every run",
		"amd/sampling.SampledEngineInstance": "wavefront sampling, used only with -wf-sampling: created by InitSampledEngine when the flag is parsed and reset at every kernel launch",
		"nvidia/tracereader.kernelScanner":   "the reader's cursor into the file being parsed: assigned anew at the start of every ReadTrace before it is used",
	}
	usedGlobalOK := map[string]bool{}
	for _, p := range pkgs {
		rel := core.RelPkg(p.PkgPath)
		if strings.HasPrefix(rel, "amd/samples/runner") && !strings.Contains(rel, "timingconfig") && !strings.Contains(rel, "emusystem") {
			continue
		}
		core.FuncDecls(p, func(fd *ast.FuncDecl) {
			if fd.Name.Name == "init" && fd.Recv == nil {
				return
			}
			rootVar := func(e ast.Expr) *types.Var {
				for {
					switch x := e.(type) {
					case *ast.ParenExpr:
						e = x.X
						continue
					case *ast.SelectorExpr:
						// pkg.Var or value.field
						if id, ok := x.X.(*ast.Ident); ok {
							if _, isPkg := p.TypesInfo.Uses[id].(*types.PkgName); isPkg {
								v, _ := p.TypesInfo.Uses[x.Sel].(*types.Var)
								return v
							}
						}
						e = x.X
						continue
					case *ast.IndexExpr:
						e = x.X
						continue
					case *ast.StarExpr:
						return nil // through a pointer: the pointee is an object, not the variable
					case *ast.Ident:
						v, _ := p.TypesInfo.Uses[x].(*types.Var)
						return v
					}
					return nil
				}
			}
			report := func(lhs ast.Expr, pos token.Pos) {
				v := rootVar(lhs)
				if v == nil || v.Pkg() == nil || v.Parent() != v.Pkg().Scope() || !strings.HasPrefix(v.Pkg().Path(), core.ModPath) {
					return
				}
				// a field or element reached through a package-level pointer is the pointee's state
				if _, isPtr := v.Type().Underlying().(*types.Pointer); isPtr {
					if _, direct := lhs.(*ast.Ident); !direct {
						if se, isSel := lhs.(*ast.SelectorExpr); !isSel || func() bool { _, isPkg := p.TypesInfo.Uses[identOf(se.X)].(*types.PkgName); return !isPkg }() {
							return
						}
					}
				}
				id := core.RelPkg(v.Pkg().Path()) + "." + v.Name()
				st12.Instances++
				why, listed := globalWriteOK[id]
				st12.Ob(listed)
				if listed {
					usedGlobalOK[id] = true
					st12.Sample("%s assigns %s: listed (%s)", rel+"."+core.DeclName(fd), id, why)
					return
				}
				c.Report(core.Finding{Rule: "R05.12", Pkg: rel, Func: core.DeclName(fd), Detail: "global-written:" + id, Pos: c.Position(pos),
					Msg: core.DeclName(fd) + " assigns the package-level variable " + id + " while a simulation runs: the value survives into the next simulation of the same process and is shared by every component of its type (all command processors, all GPUs), so the second run of a workload does not start from the state the first one started from"})
			}
			ast.Inspect(fd.Body, func(n ast.Node) bool {
				switch x := n.(type) {
				case *ast.AssignStmt:
					if x.Tok == token.DEFINE {
						return true
					}
					for _, l := range x.Lhs {
						report(l, x.Pos())
					}
				case *ast.IncDecStmt:
					report(x.X, x.Pos())
				}
				return true
			})
		})
	}

	// ---------------- R05.10 generated identifiers are only tested for identity ----------------
	st10 := c.Rule("R05.10", "identifiers drawn from the process-wide generator (message IDs, RspTo, task IDs, wavefront / work-group UIDs: decimal strings of a counter that is never reset between simulations of one process) take part only in identity tests: no ordering comparison (<, <=, >, >=, strings.Compare) in simulation code has such an identifier as an operand. The order of two identifiers as strings changes when the counter passes a power of ten (\"100\" < \"99\"), so a tie-break or sort on them makes the second run of a workload in one process differ from the first", 6)
	idTests := 0
	isGeneratedID := func(p *packages.Package, e ast.Expr) bool {
		found := false
		ast.Inspect(e, func(n ast.Node) bool {
			switch x := n.(type) {
			case *ast.SelectorExpr:
				switch x.Sel.Name {
				case "ID", "UID", "RspTo", "TaskID", "RespondTo":
					if tv, ok := p.TypesInfo.Types[x]; ok {
						if b, ok := tv.Type.Underlying().(*types.Basic); ok && b.Kind() == types.String {
							found = true
						}
					}
				}
			case *ast.CallExpr:
				if sel, ok := x.Fun.(*ast.SelectorExpr); ok && (sel.Sel.Name == "Generate" || sel.Sel.Name == "GetRspTo") {
					found = true
				}
			}
			return !found
		})
		return found
	}
	for _, p := range pkgs {
		rel := core.RelPkg(p.PkgPath)
		if strings.HasPrefix(rel, "amd/samples/runner") && !strings.Contains(rel, "timingconfig") && !strings.Contains(rel, "emusystem") {
			continue
		}
		core.FuncDecls(p, func(fd *ast.FuncDecl) {
			ast.Inspect(fd.Body, func(n ast.Node) bool {
				var operands []ast.Expr
				var at token.Pos
				what := ""
				switch x := n.(type) {
				case *ast.BinaryExpr:
					switch x.Op {
					case token.LSS, token.LEQ, token.GTR, token.GEQ:
					case token.EQL, token.NEQ:
						// positive example of the matcher: identity tests of generated identifiers
						if tv, ok := p.TypesInfo.Types[x.X]; ok {
							if b, ok := tv.Type.Underlying().(*types.Basic); ok && b.Info()&types.IsString != 0 && (isGeneratedID(p, x.X) || isGeneratedID(p, x.Y)) {
								st10.Instances++
								st10.Ob(true)
								idTests++
							}
						}
						return true
					default:
						return true
					}
					tv, ok := p.TypesInfo.Types[x.X]
					if !ok {
						return true
					}
					if b, ok := tv.Type.Underlying().(*types.Basic); !ok || b.Info()&types.IsString == 0 {
						return true
					}
					operands, at, what = []ast.Expr{x.X, x.Y}, x.OpPos, x.Op.String()
				case *ast.CallExpr:
					sel, ok := x.Fun.(*ast.SelectorExpr)
					if !ok || sel.Sel.Name != "Compare" || len(x.Args) != 2 {
						return true
					}
					if id, ok := sel.X.(*ast.Ident); !ok || id.Name != "strings" {
						return true
					}
					operands, at, what = x.Args, x.Pos(), "strings.Compare"
				default:
					return true
				}
				st10.Instances++
				bad := false
				for _, o := range operands {
					if isGeneratedID(p, o) {
						bad = true
					}
				}
				st10.Ob(!bad)
				st10.Sample("%s: ordering comparison of strings (%s) has no generated identifier as operand: %v", rel+"."+core.DeclName(fd), what, !bad)
				if bad {
					c.Report(core.Finding{Rule: "R05.10", Pkg: rel, Func: core.DeclName(fd), Detail: "id-ordered:" + core.DeclName(fd), Pos: c.Position(at),
						Msg: core.DeclName(fd) + " orders identifiers from the process-wide generator with " + what + ": they are decimal strings of a counter that keeps running between simulations of one process, and as strings \"100\" sorts before \"99\", so the decision differs between the first and the second run of the same workload (and from the order the units were created in)"})
				}
				return true
			})
		})
	}

	st10.Sample("identity tests (==, !=) of generated identifiers recognised by the matcher: %d", idTests)

	// ---------------- R05.2 host-dependent values ----------------
	st2 := c.Rule("R05.2", "calls that return host-dependent values (wall clock, global math/rand, crypto/rand, process/goroutine/CPU counts, xid, %p formatting) in simulation code are exactly the listed exceptions, whose results flow only into sinks that simulation code never reads", 2)
	hostFuncs := map[string]bool{
		"time.Now": true, "time.Since": true, "time.Until": true,
		"os.Getpid": true, "os.Getppid": true, "os.Hostname": true,
		"runtime.NumGoroutine": true, "runtime.NumCPU": true, "runtime.GOMAXPROCS": true,
		"github.com/rs/xid.New": true,
	}
	usedHost := map[string]bool{}
	for _, p := range pkgs {
		rel := core.RelPkg(p.PkgPath)
		// reporting / monitoring / mains are not simulation state
		if strings.HasPrefix(rel, "amd/samples/runner") && !strings.Contains(rel, "timingconfig") && !strings.Contains(rel, "emusystem") {
			continue
		}
		core.FuncDecls(p, func(fd *ast.FuncDecl) {
			ast.Inspect(fd.Body, func(n ast.Node) bool {
				call, ok := n.(*ast.CallExpr)
				if !ok {
					return true
				}
				var fobj *types.Func
				switch f := call.Fun.(type) {
				case *ast.SelectorExpr:
					fobj, _ = p.TypesInfo.Uses[f.Sel].(*types.Func)
				case *ast.Ident:
					fobj, _ = p.TypesInfo.Uses[f].(*types.Func)
				}
				if fobj == nil || fobj.Pkg() == nil {
					return true
				}
				id := fobj.Pkg().Path() + "." + fobj.Name()
				short := fobj.Pkg().Name() + "." + fobj.Name()
				isHost := hostFuncs[id]
				sig, _ := fobj.Type().(*types.Signature)
				if (fobj.Pkg().Path() == "math/rand" || fobj.Pkg().Path() == "math/rand/v2") && sig != nil && sig.Recv() == nil && fobj.Name() != "New" && fobj.Name() != "NewSource" {
					isHost = true // global generator (seeded from the host unless seeded explicitly)
				}
				if fobj.Pkg().Path() == "crypto/rand" {
					isHost = true
				}
				if !isHost {
					// %p formatting
					if fobj.Pkg().Path() == "fmt" && len(call.Args) > 0 {
						for _, a := range call.Args {
							if s, ok := constString(p, a); ok && strings.Contains(s, "%p") {
								isHost = true
								short = "fmt(%p)"
							}
						}
					}
				}
				if !isHost {
					return true
				}
				st2.Instances++
				key := rel + "|" + core.DeclName(fd) + "|" + short
				if _, ok := hostValueExceptions[key]; ok {
					usedHost[key] = true
					st2.Ob(true)
					st2.Sample("%s %s: %s — exception", rel, core.DeclName(fd), short)
					return true
				}
				st2.Ob(false)
				c.Report(core.Finding{Rule: "R05.2", Pkg: rel, Func: core.DeclName(fd), Detail: "host-value:" + short, Pos: c.Position(call.Pos()),
					Msg: short + " returns a host-dependent value inside simulation code: simulated state or time that depends on it differs between runs"})
				return true
			})
		})
	}
	// sinks of the two exceptions are never read
	sinkReaders := func(fieldPkgSuffix, owner, field string, allowIn func(rel, fn string) bool) {
		st2.Instances++
		reads := 0
		for _, p := range pkgs {
			rel := core.RelPkg(p.PkgPath)
			core.FuncDecls(p, func(fd *ast.FuncDecl) {
				ast.Inspect(fd.Body, func(n ast.Node) bool {
					sel, ok := n.(*ast.SelectorExpr)
					if !ok || sel.Sel.Name != field {
						return true
					}
					v, ok := p.TypesInfo.Uses[sel.Sel].(*types.Var)
					if !ok || !v.IsField() || !strings.HasSuffix(core.FieldID(v), fieldPkgSuffix+"."+owner+"."+field) {
						return true
					}
					// writes are fine
					isWrite := false
					ast.Inspect(fd.Body, func(m ast.Node) bool {
						if as, ok := m.(*ast.AssignStmt); ok {
							for _, l := range as.Lhs {
								if l == ast.Expr(sel) {
									isWrite = true
								}
							}
						}
						return true
					})
					if isWrite || allowIn(rel, core.DeclName(fd)) {
						return true
					}
					reads++
					c.Report(core.Finding{Rule: "R05.2", Pkg: rel, Func: core.DeclName(fd), Detail: "sink-read:" + owner + "." + field, Pos: c.Position(sel.Pos()), Msg: owner + "." + field + " holds a host-dependent value and is read here: it may influence simulated behaviour"})
					return true
				})
			})
		}
		st2.Ob(reads == 0)
	}
	sinkReaders("/amd/sampling", "SampledEngine", "FullSimWallTimeStart", func(rel, fn string) bool { return false })
	sinkReaders("/amd/driver", "Driver", "simulationID", func(rel, fn string) bool {
		return rel == "amd/driver" && (strings.HasPrefix(fn, "Driver.log") || fn == "Driver.logSimulationTerminate")
	})

	// ---------------- R05.3 concurrency on the event path ----------------
	st3 := c.Rule("R05.3", "go statements and multi-way selects in simulation code are exactly the frozen inventory (the driver's runAsync / runEngine and the listener's Notify)", 3)
	inv := map[string]bool{
		"amd/driver|Driver.Run|go":                            true,
		"amd/driver|Driver.runAsync|go":                       true,
		"amd/driver|Driver.runAsync|select":                   true,
		"amd/driver|CommandQueueStatusListener.Notify|select": true,
	}
	for _, p := range pkgs {
		rel := core.RelPkg(p.PkgPath)
		if strings.HasPrefix(rel, "amd/samples/runner") && !strings.Contains(rel, "timingconfig") && !strings.Contains(rel, "emusystem") {
			continue // the runner's monitoring / reporting goroutines do not touch simulation state; judged separately below
		}
		core.FuncDecls(p, func(fd *ast.FuncDecl) {
			ast.Inspect(fd.Body, func(n ast.Node) bool {
				var kind string
				switch s := n.(type) {
				case *ast.GoStmt:
					kind = "go"
				case *ast.SelectStmt:
					if len(s.Body.List) >= 2 {
						kind = "select"
					}
				}
				if kind == "" {
					return true
				}
				st3.Instances++
				key := rel + "|" + core.DeclName(fd) + "|" + kind
				ok := inv[key]
				st3.Ob(ok)
				st3.Sample("%s", key)
				if !ok {
					c.Report(core.Finding{Rule: "R05.3", Pkg: rel, Func: core.DeclName(fd), Detail: kind, Pos: c.Position(n.Pos()), Msg: "a " + kind + " statement in simulation code outside the reviewed inventory: host scheduling can now influence the order of simulation effects"})
				}
				return true
			})
		})
	}

	// ---------------- R05.4 unstable sorts ----------------
	st4 := c.Rule("R05.4", "every sort.Slice / sort.Sort in simulation code either compares on a key that is unique among the sorted elements or has an exception naming the rule that makes ties harmless", 1)
	sortExc := map[string]string{
		"amd/insts|Disassembler.initFormatList": "ties (equal masks) are harmless: R04.1 proves that formats with equal masks have disjoint patterns except VOP3a/VOP3b, which matchFormat never distinguishes by order",
	}
	for _, p := range pkgs {
		rel := core.RelPkg(p.PkgPath)
		if strings.HasPrefix(rel, "amd/samples/runner") && !strings.Contains(rel, "timingconfig") && !strings.Contains(rel, "emusystem") {
			continue
		}
		core.FuncDecls(p, func(fd *ast.FuncDecl) {
			ast.Inspect(fd.Body, func(n ast.Node) bool {
				call, ok := n.(*ast.CallExpr)
				if !ok {
					return true
				}
				name := exprString(call.Fun)
				if name != "sort.Slice" && name != "sort.Sort" {
					return true
				}
				st4.Instances++
				key := rel + "|" + core.DeclName(fd)
				_, ok2 := sortExc[key]
				st4.Ob(ok2)
				st4.Sample("%s: %s", key, name)
				if !ok2 {
					c.Report(core.Finding{Rule: "R05.4", Pkg: rel, Func: core.DeclName(fd), Detail: name, Pos: c.Position(call.Pos()), Msg: name + " is not stable: elements that compare equal end up in an order that differs between runs; use a unique key, sort.SliceStable, or record why ties are harmless"})
				}
				return true
			})
		})
	}

	// ---------------- R05.5 the simulation thread starts only at a blocking wait ----------------
	st5 := c.Rule("R05.5", "whoever wakes the simulation goroutine (a send on Driver.enqueueSignal) returns to the application only on a path that found the command queue empty: the engine never runs while the single application thread is still enqueueing, so the cycle at which a command starts does not depend on host scheduling", 1)
	c.BuildSSA()
	pdrv := NewPkgInfo(c, driverPkg)
	empty := queueEmptyCut()
	pdrv.Instrs(func(fn *ssa.Function, in ssa.Instruction) {
		snd, ok := in.(*ssa.Send)
		if !ok {
			return
		}
		f := core.LoadedField(snd.Chan)
		if f == nil || core.ShortFieldID(f) != "Driver.enqueueSignal" {
			return
		}
		st5.Instances++
		c.MarkAnalysed(fn)
		g := core.BuildGraph(fn, 0, nil)
		okAll := true
		for _, sn := range g.NodesWhere(func(n *core.Node) bool { return n.Instr == in }) {
			g.Walk(core.After(sn, nil), core.WalkOpts{CutEdge: func(n *core.Node, i int) bool { return empty(n, i) }}, func(s core.State) {
				if _, isR := s.N.Instr.(*ssa.Return); isR {
					okAll = false
				}
			})
		}
		st5.Ob(okAll)
		st5.Sample("%s wakes the simulation goroutine; returns only with the queue empty: %v", core.FuncName(fn), okAll)
		if !okAll {
			c.ReportAt("R05.5", fn, in.Pos(), "enqueueSignal:send", core.FuncName(fn)+" wakes the simulation goroutine and can return to the application without having seen the queue empty: the engine then runs concurrently with the application thread, and whether the next command is already queued when the previous one completes (hence the cycle it starts in, every simulated time and counter) depends on host scheduling")
		}
	})

	checkQuiescence(c, pdrv)

	_ = sort.Strings
	checkIntegerWidths(c, "R05.14", "Device-range tests in the allocator do not rest on an unsigned difference that wraps.", 5, []widthScope{{rel: drvIntPkg}}, []string{"unsigned-diff", "unsigned-bound-minus-one"}, widthAllowC05)
	checkParallelEngineFlag(c)
	checkEngineLeavesOnlyWithoutRerun(c)
	checkNoCompactionWhileRanging(c, "R05.17", 5, NewPkgInfo(c, cuPkg))
	checkProgressOnlyAfterWork(c, "R05.18", 3, NewPkgInfo(c, pmcPkg))
	return core.Meta{Level: "other",
		Explanation: "Structural sources of host-dependent order and values in the code that runs inside a simulation (driver, emulator, decoder, kernels, protocol, sampling, all timing components, timing configuration, NVIDIA model): every range over a map is classified as order-insensitive or justified by a one-line exception (re-validated where possible), host-dependent value sources are enumerated against an exception table whose sinks are checked to have no reader, goroutines/selects and unstable sorts are inventoried, and the simulation goroutine is woken only by a call that blocks until the queue is empty.",
		NotDecided:  "equality of whole runs across host schedules; akita's engines (outside /repo); the parallel engine; floating-point summation order inside kernels",
		Assumptions: commonAssumptions}
}

func identOf(e ast.Expr) *ast.Ident {
	id, _ := e.(*ast.Ident)
	return id
}
