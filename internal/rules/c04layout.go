package rules

import (
	"fmt"
	"go/constant"
	"go/token"
	"go/types"
	"sort"
	"strings"

	"golang.org/x/tools/go/ssa"

	"verif/internal/core"
)

// R04.14: the decoder reads every instruction field at the bit position the
// ISA manuals give it.
//
// External oracle (like C13's layout tables): the microcode formats of the
// GCN3 and Vega / CDNA3 ISA manuals are transcribed below as
// (decode function, field of insts.Inst that receives the value) ->
// (dword, low bit, high bit). Every call of the bit-extraction helpers in a
// decode function is resolved to the Inst fields its result can reach (through
// conversions, arithmetic, getOperand / New*Operand, or a branch on the value
// whose taken arm stores into the field) and must agree with a row of the
// table for that field. An extraction that reaches a field without a row makes
// the check fail as undecided: the table must be extended by hand.

type layoutRow struct {
	word   string // "w0", "w1" (second dword), "simm16"
	lo, hi int64
	note   string
}

// Transcribed from "Graphics Core Next Architecture, Generation 3" (ch. 13,
// microcode formats) and the "Vega" / "CDNA3" instruction set manuals. Bit
// numbers of 64-bit formats are given per dword (w1 = bits 63..32).
var instLayout = map[string]map[string][]layoutRow{
	// SOP2: SSRC0[7:0] SSRC1[15:8] SDST[22:16] OP[29:23]
	"decodeSOP2": {"Src0": {{"w0", 0, 7, ""}}, "Src1": {{"w0", 8, 15, ""}}, "Dst": {{"w0", 16, 22, ""}}},
	// SOPK: SIMM16[15:0] SDST[22:16] OP[27:23]
	"decodeSOPK": {"SImm16": {{"w0", 0, 15, ""}}, "Dst": {{"w0", 16, 22, ""}}},
	// SOP1: SSRC0[7:0] OP[15:8] SDST[22:16]
	"decodeSOP1": {"Src0": {{"w0", 0, 7, ""}}, "Dst": {{"w0", 16, 22, ""}}},
	// SOPC: SSRC0[7:0] SSRC1[15:8] OP[22:16]
	"decodeSOPC": {"Src0": {{"w0", 0, 7, ""}}, "Src1": {{"w0", 8, 15, ""}}},
	// SOPP: SIMM16[15:0] OP[22:16]; s_waitcnt: VM_CNT simm16[3:0], EXP_CNT [6:4], LGKM_CNT [11:8]
	"decodeSOPP": {"SImm16": {{"w0", 0, 15, ""}}, "VMCNT": {{"simm16", 0, 3, ""}, {"simm16", 14, 15, " (Vega / CDNA3: vmcnt[5:4])"}}, "LKGMCNT": {{"simm16", 8, 11, " (Vega / CDNA3 manuals)"}, {"simm16", 8, 12, " (wording of the GCN3 manual; bit 12 is never set by an assembler)"}}},
	// VOP1: SRC0[8:0] OP[16:9] VDST[24:17]
	"decodeVOP1": {"Src0": {{"w0", 0, 8, ""}}, "Dst": {{"w0", 17, 24, ""}}},
	// VOP2: SRC0[8:0] VSRC1[16:9] VDST[24:17] OP[30:25]
	// SDWA dword: SRC0[7:0] DST_SEL[10:8] DST_UNUSED[12:11] CLAMP[13] SRC0_SEL[18:16] SRC0_SEXT[19] SRC0_NEG[20]
	// SRC0_ABS[21] S0[23] (gfx9) SRC1_SEL[26:24] SRC1_SEXT[27] SRC1_NEG[28] SRC1_ABS[29] S1[31] (gfx9)
	"decodeVOP2": {
		"Src0":      {{"w0", 0, 8, ""}, {"w1", 0, 7, " (SDWA SRC0)"}, {"w1", 23, 23, " (SDWA S0: SRC0 is an SGPR)"}},
		"Src1":      {{"w0", 9, 16, ""}, {"w1", 31, 31, " (SDWA S1: SRC1 is an SGPR)"}},
		"Dst":       {{"w0", 17, 24, ""}},
		"DstSel":    {{"w1", 8, 10, ""}},
		"DstUnused": {{"w1", 11, 12, ""}},
		"Src0Sel":   {{"w1", 16, 18, ""}},
		"Src1Sel":   {{"w1", 24, 26, ""}},
	},
	// VOPC: SRC0[8:0] VSRC1[16:9] OP[24:17]
	"decodeVOPC": {"Src0": {{"w0", 0, 8, ""}}, "Src1": {{"w0", 9, 16, ""}}},
	// VOP3a: VDST[7:0] ABS[10:8] (OP_SEL[14:11] gfx9) CLAMP[15] OP[25:16] SRC0[40:32] SRC1[49:41] SRC2[58:50] OMOD[60:59] NEG[63:61]
	// VOP3P: VDST[7:0] NEG_HI[10:8] OP_SEL[13:11] OP_SEL_HI(2)[14] CLAMP[15] ... OP_SEL_HI[60:59] NEG[63:61]
	"decodeVOP3a": {
		"Dst": {{"w0", 0, 7, ""}}, "Abs": {{"w0", 8, 10, ""}}, "Clamp": {{"w0", 15, 15, ""}},
		"Src0": {{"w1", 0, 8, ""}}, "Src1": {{"w1", 9, 17, ""}}, "Src2": {{"w1", 18, 26, ""}},
		"Omod": {{"w1", 27, 28, ""}}, "Neg": {{"w1", 29, 31, ""}},
		"OpSel":   {{"w0", 11, 13, " (VOP3P, three sources)"}, {"w0", 11, 12, " (VOP3P, two sources)"}},
		"OpSelHi": {{"w1", 27, 28, " (VOP3P OP_SEL_HI[1:0])"}, {"w0", 14, 14, " (VOP3P OP_SEL_HI[2])"}},
	},
	// VOP3b: VDST[7:0] SDST[14:8] CLAMP[15] OP[25:16] SRC0[40:32] SRC1[49:41] SRC2[58:50] OMOD[60:59] NEG[63:61]
	"decodeVOP3b": {
		"Dst": {{"w0", 0, 7, ""}}, "SDst": {{"w0", 8, 14, ""}}, "Clamp": {{"w0", 15, 15, ""}},
		"Src0": {{"w1", 0, 8, ""}}, "Src1": {{"w1", 9, 17, ""}}, "Src2": {{"w1", 18, 26, ""}},
		"Omod": {{"w1", 27, 28, ""}}, "Neg": {{"w1", 29, 31, ""}},
	},
	// SMEM: SBASE[5:0] SDATA[12:6] GLC[16] IMM[17] OP[25:18] OFFSET[51:32] (20 bits; 21 signed bits on gfx9, not distinguished here)
	"decodeSMEM": {
		"Base": {{"w0", 0, 5, ""}}, "Data": {{"w0", 6, 12, ""}}, "GlobalLevelCoherent": {{"w0", 16, 16, ""}}, "Imm": {{"w0", 17, 17, ""}},
		"Offset": {{"w1", 0, 19, ""}, {"w1", 0, 7, " (IMM=0: the SGPR that holds the offset)"}, {"w1", 20, 20, " (Vega / CDNA3: sign bit of the 21-bit offset)"}, {"w1", 0, 20, " (Vega / CDNA3: the signed 21-bit offset)"}},
	},
	// FLAT: (OFFSET[12:0] gfx9) GLC[16] SLC[17] OP[24:18] ADDR[39:32] DATA[47:40] (SADDR[54:48] gfx9) TFE[55] (gcn3) VDST[63:56]
	"decodeFLAT": {
		"Offset0": {{"w0", 0, 12, ""}}, "GlobalLevelCoherent": {{"w0", 16, 16, ""}}, "SystemLevelCoherent": {{"w0", 17, 17, ""}},
		"Addr": {{"w1", 0, 7, ""}, {"w1", 16, 22, " (SADDR decides the width of ADDR)"}}, "Data": {{"w1", 8, 15, ""}}, "SAddr": {{"w1", 16, 22, ""}},
		"TextureFailEnable": {{"w1", 23, 23, ""}}, "Dst": {{"w1", 24, 31, ""}},
	},
	// DS: OFFSET0[7:0] OFFSET1[15:8] GDS[16] OP[24:17] ADDR[39:32] DATA0[47:40] DATA1[55:48] VDST[63:56]
	"decodeDS": {
		"Offset0": {{"w0", 0, 7, ""}}, "Offset1": {{"w0", 8, 15, ""}}, "GDS": {{"w0", 16, 16, ""}},
		"Addr": {{"w1", 0, 7, ""}}, "Data": {{"w1", 8, 15, ""}}, "Data1": {{"w1", 16, 23, ""}}, "Dst": {{"w1", 24, 31, ""}},
	},
}

type fieldExtraction struct {
	fn     *ssa.Function
	call   ssa.Value
	word   string
	lo, hi int64
	sinks  map[string]bool
}

func instFieldOfStore(s *ssa.Store) string {
	fa, ok := s.Addr.(*ssa.FieldAddr)
	if !ok {
		return ""
	}
	pt, ok := fa.X.Type().Underlying().(*types.Pointer)
	if !ok {
		return ""
	}
	nt, ok := pt.Elem().(*types.Named)
	if !ok || nt.Obj().Name() != "Inst" {
		return ""
	}
	return nt.Underlying().(*types.Struct).Field(fa.Field).Name()
}

// followSinks follows an extracted value to the Inst fields it can reach.
func followSinks(fn *ssa.Function, start ssa.Value, fe *fieldExtraction) {
	seen := map[ssa.Value]bool{}
	var follow func(v ssa.Value, d int)
	follow = func(v ssa.Value, d int) {
		if v == nil || seen[v] || d > 10 || v.Referrers() == nil {
			return
		}
		seen[v] = true
		for _, r := range *v.Referrers() {
			switch t := r.(type) {
			case *ssa.Store:
				if t.Val == v {
					if f := instFieldOfStore(t); f != "" {
						fe.sinks[f] = true
					}
				}
			case *ssa.Convert:
				follow(t, d+1)
			case *ssa.ChangeType:
				follow(t, d+1)
			case *ssa.MakeInterface:
				follow(t, d+1)
			case *ssa.Phi:
				follow(t, d+1)
			case *ssa.Extract:
				// the error result of an operand constructor carries no field bits
				if types.TypeString(t.Type(), nil) != "error" {
					follow(t, d+1)
				}
			case *ssa.BinOp:
				switch t.Op {
				case token.EQL, token.NEQ, token.LSS, token.GTR, token.LEQ, token.GEQ:
					// a branch on the value: stores of the taken arms
					for _, u := range *t.Referrers() {
						iff, ok := u.(*ssa.If)
						if !ok {
							continue
						}
						for _, sc := range iff.Block().Succs {
							if len(sc.Preds) != 1 {
								continue // join block, not an arm
							}
							for _, x := range sc.Instrs {
								if st, ok := x.(*ssa.Store); ok {
									if f := instFieldOfStore(st); f != "" {
										fe.sinks[f] = true
									}
								}
							}
						}
					}
				default:
					follow(t, d+1)
				}
			case *ssa.Call:
				if cc := t.Call.StaticCallee(); cc != nil && cc.Pkg == fn.Pkg && cc.Name() != "extractBits" && cc.Name() != "extractBit" {
					follow(t, d+1)
				}
			}
		}
	}
	follow(start, 0)
}

func collectFieldExtractions(c *core.Ctx, prov *core.Prov) []fieldExtraction {
	var out []fieldExtraction
	for _, fn := range c.SrcFuncs(instsPkg) {
		if !strings.HasPrefix(fn.Name(), "decode") || fn.Signature.Recv() == nil {
			continue
		}
		for _, b := range fn.Blocks {
			for _, in := range b.Instrs {
				if cv, isCv := in.(*ssa.Convert); isCv {
					// uintN(word) / intN(word): the low N bits of the instruction word
					if w, isCall := cv.X.(*ssa.Call); isCall {
						wn := ""
						if cf := core.CalleeFunc(w); cf != nil {
							wn = cf.Name()
						}
						sz, _, isInt := intSize(c, cv.Type())
						if (wn == "Uint32" || wn == "BytesToUint32") && isInt && sz < 4 {
							fe := fieldExtraction{fn: fn, call: cv, sinks: map[string]bool{}, lo: 0, hi: sz*8 - 1, word: "w0"}
							if wp := prov.Of(w); strings.Contains(wp, "[4:8]") || strings.Contains(wp, "[4:]") {
								fe.word = "w1"
							}
							followSinks(fn, cv, &fe)
							out = append(out, fe)
						}
					}
					continue
				}
				call, ok := in.(*ssa.Call)
				if !ok {
					continue
				}
				cal := call.Call.StaticCallee()
				if cal == nil || (cal.Name() != "extractBits" && cal.Name() != "extractBit") || cal.Pkg != fn.Pkg {
					continue
				}
				fe := fieldExtraction{fn: fn, call: call, sinks: map[string]bool{}}
				kc := func(v ssa.Value) (int64, bool) {
					k, ok := v.(*ssa.Const)
					if !ok || k.Value == nil || k.Value.Kind() != constant.Int {
						return 0, false
					}
					return constant.Int64Val(k.Value)
				}
				lo, ok1 := kc(call.Call.Args[1])
				hi := lo
				ok2 := true
				if cal.Name() == "extractBits" {
					hi, ok2 = kc(call.Call.Args[2])
				}
				if !ok1 || !ok2 {
					fe.lo, fe.hi = -1, -1
				} else {
					fe.lo, fe.hi = lo, hi
				}
				wp := prov.Of(call.Call.Args[0])
				switch {
				case strings.Contains(wp, "SImm16"):
					fe.word = "simm16"
				case strings.Contains(wp, "[4:8]"), strings.Contains(wp, "[4:]"):
					fe.word = "w1"
				case strings.Contains(wp, "Uint32(param:buf") || strings.Contains(wp, "BytesToUint32(param:buf"):
					fe.word = "w0"
				default:
					fe.word = "?" + wp
				}
				followSinks(fn, call, &fe)
				out = append(out, fe)
			}
		}
	}
	sort.Slice(out, func(i, j int) bool { return out[i].call.Pos() < out[j].call.Pos() })
	return out
}

// Format identification of the same manuals: encoding bits, their mask, the
// size of the base encoding in bytes, and the position of the OP field.
type formatOracle struct {
	enc  []uint32 // accepted encodings (VINTRP moved between generations)
	mask uint32
	size int64
	opLo int64
	opHi int64
}

var formatLayout = map[string]formatOracle{
	"SOP2":   {[]uint32{0x80000000}, 0xC0000000, 4, 23, 29},
	"SOPK":   {[]uint32{0xB0000000}, 0xF0000000, 4, 23, 27},
	"SOP1":   {[]uint32{0xBE800000}, 0xFF800000, 4, 8, 15},
	"SOPC":   {[]uint32{0xBF000000}, 0xFF800000, 4, 16, 22},
	"SOPP":   {[]uint32{0xBF800000}, 0xFF800000, 4, 16, 22},
	"SMEM":   {[]uint32{0xC0000000}, 0xFC000000, 8, 18, 25},
	"VOP2":   {[]uint32{0x00000000}, 0x80000000, 4, 25, 30},
	"VOP1":   {[]uint32{0x7E000000}, 0xFE000000, 4, 9, 16},
	"VOPC":   {[]uint32{0x7C000000}, 0xFE000000, 4, 17, 24},
	"VOP3a":  {[]uint32{0xD0000000}, 0xFC000000, 8, 16, 25},
	"VOP3b":  {[]uint32{0xD0000000}, 0xFC000000, 8, 16, 25},
	"VINTRP": {[]uint32{0xC8000000, 0xD4000000}, 0xFC000000, 4, 16, 17},
	"DS":     {[]uint32{0xD8000000}, 0xFC000000, 8, 17, 24},
	"FLAT":   {[]uint32{0xDC000000}, 0xFC000000, 8, 18, 24},
	"MUBUF":  {[]uint32{0xE0000000}, 0xFC000000, 8, 18, 24},
	"MTBUF":  {[]uint32{0xE8000000}, 0xFC000000, 8, 15, 18},
	"MIMG":   {[]uint32{0xF0000000}, 0xFC000000, 8, 18, 24},
	"EXP":    {[]uint32{0xC4000000}, 0xFC000000, 8, 0, 0},
}

func checkFormatLayout(c *core.Ctx, t *InstTables, st *core.RuleStat) {
	for _, name := range sortedKeys(t.Formats) {
		f := t.Formats[name]
		o, ok := formatLayout[name]
		st.Instances++
		if !ok {
			st.Ob(false)
			c.Report(core.Finding{Rule: "R04.14", Kind: "undecided", Pkg: instsPkg, Func: "FormatTable", Detail: "format-without-row:" + name, Pos: c.Position(f.Pos), Msg: "format " + name + " has no row in the transcribed format table"})
			continue
		}
		encOK := false
		for _, e := range o.enc {
			if e == f.Encoding {
				encOK = true
			}
		}
		good := encOK && o.mask == f.Mask && o.size == f.ByteSize && o.opLo == f.OpLow && o.opHi == f.OpHi
		st.Ob(good)
		if !good {
			c.Report(core.Finding{Rule: "R04.14", Pkg: instsPkg, Func: "FormatTable", Detail: "format-row:" + name, Pos: c.Position(f.Pos),
				Msg: fmt.Sprintf("format %s is identified by encoding %#08x mask %#08x, %d bytes, OP[%d:%d]; the ISA manuals give encoding %#08x mask %#08x, %d bytes, OP[%d:%d]", name, f.Encoding, f.Mask, f.ByteSize, f.OpHi, f.OpLow, o.enc[0], o.mask, o.size, o.opHi, o.opLo)})
		}
	}
}

func checkInstLayout(c *core.Ctx, prov *core.Prov, t *InstTables) {
	st := c.Rule("R04.14", "every field extraction of the decoder agrees with the microcode formats of the ISA manuals, transcribed as a table (decode function, receiving field of insts.Inst) -> (dword, low bit, high bit): the result of each extractBits / extractBit call is followed to the Inst fields it can reach (conversions, arithmetic, getOperand / New*Operand, branches whose taken arm stores the field) and its bit range must be one of the rows of that field; a reached field without a row fails as undecided; the format table (encoding, mask, size, OP field) is compared with the same manuals", 80)
	checkFormatLayout(c, t, st)
	for _, fe := range collectFieldExtractions(c, prov) {
		c.MarkAnalysed(fe.fn)
		fname := fe.fn.Name()
		if len(fe.sinks) == 0 {
			st.Sample("%s: %s[%d:%d] reaches no field of Inst (only tested / rejected)", fname, fe.word, fe.hi, fe.lo)
			continue
		}
		for _, sink := range sortedKeys(fe.sinks) {
			st.Instances++
			rows := instLayout[fname][sink]
			if len(rows) == 0 {
				st.Ob(false)
				c.Report(core.Finding{Rule: "R04.14", Kind: "undecided", Pkg: instsPkg, Func: "Disassembler." + fname, Detail: "field-without-row:" + sink, Pos: c.Position(fe.call.Pos()),
					Msg: fmt.Sprintf("%s reads %s[%d:%d] into Inst.%s, for which the transcribed layout has no row: extend the table from the ISA manual", fname, fe.word, fe.hi, fe.lo, sink)})
				continue
			}
			ok := false
			var want []string
			for _, r := range rows {
				if r.word == fe.word && r.lo == fe.lo && r.hi == fe.hi {
					ok = true
				}
				want = append(want, fmt.Sprintf("%s[%d:%d]%s", r.word, r.hi, r.lo, r.note))
			}
			st.Ob(ok)
			if !ok {
				c.ReportAt("R04.14", fe.fn, fe.call.Pos(), fmt.Sprintf("field-position:%s:%s[%d:%d]", sink, fe.word, fe.hi, fe.lo), fmt.Sprintf("%s reads Inst.%s from %s[%d:%d]; the ISA manuals place it at %s", fname, sink, fe.word, fe.hi, fe.lo, strings.Join(want, " or ")))
			}
		}
	}
}

// DebugLayout prints the extractions and their sinks (used when transcribing the table).
func DebugLayout(c *core.Ctx) {
	c.Load(instsPkg)
	c.BuildSSA()
	prov := core.NewLocalProv(c)
	for _, fe := range collectFieldExtractions(c, prov) {
		fmt.Printf("%-12s %s %s[%d:%d] -> %v\n", fe.fn.Name(), c.Position(fe.call.Pos()), fe.word, fe.hi, fe.lo, sortedKeys(fe.sinks))
	}
}

// DebugEncodingSiblings prints VOP3 rows whose name differs from the VOP2 / VOP1 / VOPC row they re-encode.
func DebugEncodingSiblings(c *core.Ctx) {
	c.Load(instsPkg)
	t := LoadInstTables(c)
	ms, n := encodingSiblingMismatches(t)
	for _, m := range ms {
		fmt.Println(m)
	}
	fmt.Println(n, "pairs")
}

func baseMnemonic(n string) string {
	n = strings.TrimSuffix(n, "_e32")
	n = strings.TrimSuffix(n, "_e64")
	return n
}

// encodingSiblingMismatches: in GCN3 / Vega the VOP3 encoding of a VOP2
// instruction has opcode 256 + op, of a VOP1 instruction 320 + op, of a VOPC
// instruction op itself.
func checkEncodingSiblings(c *core.Ctx, t *InstTables) {
	st := c.Rule("R04.15", "the two encodings of one vector instruction agree: a VOP3 row whose opcode is 256 + a VOP2 opcode, 320 + a VOP1 opcode or equal to a VOPC opcode carries the same mnemonic (modulo the _e32 / _e64 suffix) as that row, so that a word and its VOP3 re-encoding decode to the same instruction", 200)
	mism, pairs := encodingSiblingMismatches(t)
	st.Instances += pairs
	for i := 0; i < pairs-len(mism); i++ {
		st.Ob(true)
	}
	for _, m := range mism {
		st.Ob(false)
		c.Report(core.Finding{Rule: "R04.15", Pkg: instsPkg, Func: "initializeDecodeTable", Detail: "encoding-siblings:" + m, Msg: "the decode table gives the two encodings of one instruction different mnemonics: " + m})
	}
	st.Sample("%d (VOP2|VOP1|VOPC row, VOP3 row) pairs compared", pairs)
}

func encodingSiblingMismatches(t *InstTables) ([]string, int) {
	pairs := 0
	byKey := map[string]*InstRow{}
	for _, r := range t.Rows {
		if r.FromLoop {
			continue
		}
		byKey[fmt.Sprintf("%s/%d", r.Format, r.Opcode)] = r
	}
	var out []string
	for _, r := range t.Rows {
		if r.FromLoop {
			continue
		}
		var off int64
		switch r.Format {
		case "VOP2":
			off = 256
		case "VOP1":
			off = 320
		case "VOPC":
			off = 0
		default:
			continue
		}
		for _, f3 := range []string{"VOP3a", "VOP3b"} {
			if s, ok := byKey[fmt.Sprintf("%s/%d", f3, r.Opcode+off)]; ok {
				pairs++
				if baseMnemonic(s.Name) != baseMnemonic(r.Name) {
					out = append(out, fmt.Sprintf("%s %d %s  <->  %s %d %s", r.Format, r.Opcode, r.Name, f3, s.Opcode, s.Name))
				}
			}
		}
	}
	sort.Strings(out)
	return out, pairs
}

func DebugEncodingSiblingsCount(c *core.Ctx) {
	c.Load(instsPkg)
	t := LoadInstTables(c)
	n := map[string]int{}
	for _, r := range t.Rows {
		k := r.Format
		if r.FromLoop {
			k += "(loop)"
		}
		n[k]++
	}
	fmt.Println(n)
}

// R04.16: the bit-extraction helpers mean what the layout tables assume.
//
// R04.14 compares the (lo, hi) arguments of extractBits with the manuals; that
// is only meaningful if extractBits(w, lo, hi) returns exactly w[hi:lo] in the
// low bits and zero above. The helpers are evaluated with BITPROV for every
// constant (lo, hi) pair that occurs at a call site (and SignExt for every
// constant sign position).
func checkExtractHelpers(c *core.Ctx) {
	st := c.Rule("R04.16", "extractBits / extractBit of the decoder and bitops.ExtractBitsFromU32 / ExtractBitsFromU64 / SignExt, evaluated on symbolic bit vectors (BITPROV) for every constant argument combination that occurs at a call site in the decoder and the two ALUs: extract(w, lo, hi) has w[lo+i] at bit i for i <= hi-lo and zero above; SignExt(x, s) keeps bits 0..s and copies bit s into every higher bit", 40)
	type key struct {
		fn     *ssa.Function
		a1, a2 int64
	}
	seen := map[key]bool{}
	kc := func(v ssa.Value) (int64, bool) {
		k, ok := v.(*ssa.Const)
		if !ok || k.Value == nil || k.Value.Kind() != constant.Int {
			return 0, false
		}
		return constant.Int64Val(k.Value)
	}
	for _, rel := range []string{instsPkg, emuPkg, cdna3Pkg} {
		for _, fn := range c.SrcFuncs(rel) {
			for _, b := range fn.Blocks {
				for _, in := range b.Instrs {
					call, ok := in.(*ssa.Call)
					if !ok {
						continue
					}
					cal := call.Call.StaticCallee()
					if cal == nil || len(cal.Blocks) == 0 {
						continue
					}
					name := cal.Name()
					args := call.Call.Args
					switch name {
					case "extractBits", "ExtractBitsFromU32", "ExtractBitsFromU64":
						if len(args) != 3 {
							continue
						}
						lo, ok1 := kc(args[1])
						hi, ok2 := kc(args[2])
						if !ok1 || !ok2 || seen[key{cal, lo, hi}] {
							continue
						}
						seen[key{cal, lo, hi}] = true
						w := 32
						if name == "ExtractBitsFromU64" {
							w = 64
						}
						wl, _, _ := typeWidth(cal.Params[1].Type())
						wh, _, _ := typeWidth(cal.Params[2].Type())
						st.Instances++
						ev := &bpEval{}
						got := ev.Call(cal, []pval{pSym("w", w), pConst(uint64(lo), wl), pConst(uint64(hi), wh)})
						ok := got.kind == pVec
						if ok {
							for i := 0; i < 64; i++ {
								want := pbit{k: '0'}
								if int64(i) <= hi-lo && int(lo)+i < w {
									want = pbit{k: 's', src: "w", i: int(lo) + i}
								}
								g := got.bits[i]
								if g.k == 0 {
									g = pbit{k: '0'}
								}
								if g != want {
									ok = false
								}
							}
						}
						st.Ob(ok)
						if !ok {
							msg := fmt.Sprintf("%s(w, %d, %d) yields %s; expected w[%d:%d] in the low bits and zero above", name, lo, hi, got.render(w), hi, lo)
							if got.kind != pVec {
								msg = fmt.Sprintf("%s(w, %d, %d) could not be evaluated: %s", name, lo, hi, ev.why)
							}
							c.ReportAt("R04.16", cal, cal.Pos(), fmt.Sprintf("extract:%s:%d:%d", name, lo, hi), msg)
						}
					case "extractBit":
						if len(args) != 2 {
							continue
						}
						pos, ok1 := kc(args[1])
						if !ok1 || seen[key{cal, pos, -1}] {
							continue
						}
						seen[key{cal, pos, -1}] = true
						wp, _, _ := typeWidth(cal.Params[1].Type())
						st.Instances++
						ev := &bpEval{}
						got := ev.Call(cal, []pval{pSym("w", 32), pConst(uint64(pos), wp)})
						// the selected bit alone; in bit 0, or anywhere if this call's result
						// is only ever tested against zero
						ok := got.kind == pVec
						at := -1
						for i := 0; ok && i < 32; i++ {
							switch {
							case got.bits[i].k == '0':
							case got.bits[i] == pbit{k: 's', src: "w", i: int(pos)} && at < 0:
								at = i
							default:
								ok = false
							}
						}
						if ok && at != 0 {
							ok = at > 0
							if call.Referrers() != nil {
								for _, r := range *call.Referrers() {
									bo, isB := r.(*ssa.BinOp)
									if !isB || (bo.Op != token.EQL && bo.Op != token.NEQ) {
										ok = false
										continue
									}
									other := bo.Y
									if other == ssa.Value(call) {
										other = bo.X
									}
									if k, isC := kc(other); !isC || k != 0 {
										ok = false
									}
								}
							}
						}
						st.Ob(ok)
						if !ok {
							c.ReportAt("R04.16", cal, cal.Pos(), fmt.Sprintf("extract:extractBit:%d", pos), fmt.Sprintf("extractBit(w, %d) yields %s; expected w[%d] in bit 0", pos, got.render(32), pos))
						}
					case "SignExt":
						if len(args) != 2 {
							continue
						}
						sb, ok1 := kc(args[1])
						if !ok1 || seen[key{cal, sb, -2}] {
							continue
						}
						seen[key{cal, sb, -2}] = true
						ws, _, _ := typeWidth(cal.Params[1].Type())
						st.Instances++
						ev := &bpEval{}
						got := ev.Call(cal, []pval{pSym("x", 64), pConst(uint64(sb), ws)})
						ok := got.kind == pVec
						for i := 0; ok && i < 64; i++ {
							want := pbit{k: 's', src: "x", i: i}
							if int64(i) > sb {
								want = pbit{k: 's', src: "x", i: int(sb)}
							}
							if got.bits[i] != want {
								ok = false
							}
						}
						st.Ob(ok)
						if !ok {
							msg := fmt.Sprintf("SignExt(x, %d) yields %s; expected x[%d] in every bit above %d", sb, got.render(64), sb, sb)
							if got.kind != pVec {
								msg = fmt.Sprintf("SignExt(x, %d) could not be evaluated: %s", sb, ev.why)
							}
							c.ReportAt("R04.16", cal, cal.Pos(), fmt.Sprintf("extract:SignExt:%d", sb), msg)
						}
					}
				}
			}
		}
	}
}
