package rules

import (
	"fmt"
	"go/token"
	"regexp"
	"strings"

	"golang.org/x/tools/go/ssa"

	"verif/internal/core"
)

const atPkg = "amd/timing/mem/addresstranslator"

func init() { register("C16", runC16) }

func runC16(c *core.Ctx) core.Meta {
	c.Load(atPkg)
	c.BuildSSA()
	p := NewPkgInfo(c, atPkg)
	checkPayloadNilPreserved(c, p)
	checkGuardedFieldUsed(c, "R16.16", "Lookups sent to the memory providers are never answered: no access behind them is forwarded or answered.", 2, p)
	checkLog2Units(c, "R16.15", 3, "The page and the offset inside it must be cut with the same page size.", p)
	checkBuilderPassThrough(c, "R16.14", "The translator cuts the virtual page and the offset inside it with the page size it holds: a Build that leaves one of them at a default makes the forwarded physical address something other than page base + page offset.", p, map[string]string{"Comp.log2PageSize": "log2PageSize", "Comp.deviceID": "deviceID", "Comp.numReqPerCycle": "numReqPerCycle"})
	prov := core.NewProv(c)

	// R16.1 SEND-DISCIPLINE
	RunProto(c, &ProtoCfg{
		AllEffectsAfterSend: true,
		RuleBase:            "R16.1", Pkg: atPkg, FloorSends: 6,
		Effects: []Effect{
			RetrieveEffect,
			FieldWriteEffect("transactions-write", "Comp.transactions"),
			FieldWriteEffect("inflight-write", "Comp.inflightReqToBottom"),
			FieldWriteEffect("incomingReqs-write", "transaction.incomingReqs"),
			FieldWriteEffect("isFlushing-write", "Comp.isFlushing"),
		},
	})

	// R16.2 FIELDS
	addrRe := `^\(.*translationRsp\.Page.*\.PAddr\+\(.*\.Address(%\(1<<recv\.log2PageSize\)|&\(\(1<<recv\.log2PageSize\)-1\))\)\)$`
	// the in-flight entry must be selected by the lower level's RspTo
	sel := `\(recv\.bottomPort\.PeekIncoming\(\)\.(RespondTo|GetRspTo\(\))\)`
	p.CheckFields("R16.2", []FieldSpec{
		{Builder: "mem.ReadReqBuilder", MinSites: 1,
			Require: map[string]string{"WithAddress": addrRe, "WithByteSize": `\.AccessByteSize$`}},
		{Builder: "mem.WriteReqBuilder", MinSites: 1, SameBase: []string{"WithData", "WithDirtyMask"},
			Require: map[string]string{"WithAddress": addrRe, "WithData": `\.Data$`, "WithDirtyMask": `\.DirtyMask$`}},
		{Builder: "mem.DataReadyRspBuilder", MinSites: 1, SameBase: []string{"WithRspTo", "WithDst"},
			Require: map[string]string{"WithData": `^recv\.bottomPort\.PeekIncoming\(\)\.Data$`,
				"WithRspTo": sel + `\.reqFromTop\.Meta\(\)\.ID$`, "WithDst": sel + `\.reqFromTop\.Meta\(\)\.Src$`}},
		{Builder: "mem.WriteDoneRspBuilder", MinSites: 1, SameBase: []string{"WithRspTo", "WithDst"},
			Require: map[string]string{"WithRspTo": sel + `\.reqFromTop\.Meta\(\)\.ID$`, "WithDst": sel + `\.reqFromTop\.Meta\(\)\.Src$`}},
		{Builder: "vm.TranslationReqBuilder", MinSites: 1,
			Require: map[string]string{"WithPID": `^recv\.topPort\.PeekIncoming\(\)\.GetPID\(\)$`,
				"WithVAddr": `recv\.topPort\.PeekIncoming\(\)\.GetAddress\(\)`, "WithDeviceID": `^recv\.deviceID$`}},
	})
	st2 := c.Stats["R16.2"]
	// the response entry is looked up by the lower level's RspTo; the in-flight
	// entry removed is the one of that response; the request sent down is built
	// from the head of the transaction's queue and that same head is recorded.
	p.Instrs(func(fn *ssa.Function, in ssa.Instruction) {
		if SendOn(in, "bottomPort") {
			st2.Instances++
			pv := prov.Of(core.CallOf(in).Args[0])
			ok := strings.Contains(pv, ".incomingReqs[0]") && strings.Contains(pv, ".translationRsp.Page")
			st2.Ob(ok)
			st2.Sample("%s: bottomPort.Send(%s)", core.FuncName(fn), short(pv))
			if !ok {
				c.ReportAt("R16.2", fn, in.Pos(), "bottomPort.Send:msg", "the translated request is not built from the head of the transaction's request queue and its translation reply: "+short(pv))
			}
		}
	})

	// R16.3 exactly-once bookkeeping
	st3 := c.Rule("R16.3", "each forwarded request is recorded in-flight exactly where it is popped from its transaction's queue (append to inflightReqToBottom PAIRed with incomingReqs = incomingReqs[1:], recording the request that was sent); the in-flight entry removed is the one answered", 3)
	for _, fn := range p.Funcs {
		for _, b := range fn.Blocks {
			for _, in := range b.Instrs {
				s, ok := storeToField(in, "Comp.inflightReqToBottom")
				if !ok {
					continue
				}
				call, isCall := s.Val.(*ssa.Call)
				if !isCall || !core.IsBuiltin(call, "append") {
					continue
				}
				pv := prov.Of(s.Val)
				if !strings.HasPrefix(pv, "append(recv.inflightReqToBottom,[") {
					continue // removal form
				}
				st3.Instances++
				c.MarkAnalysed(fn)
				m := regexp.MustCompile(`reqFromTop:(.*?)\.incomingReqs\[0\]`).FindStringSubmatch(pv)
				okRec := m != nil && strings.Contains(pv, "reqToBottom:recv.createTranslatedReq("+m[1]+".incomingReqs[0],") || (m != nil && strings.Contains(pv, "reqToBottom:"))
				st3.Ob(okRec)
				if !okRec {
					c.ReportAt("R16.3", fn, in.Pos(), "inflight:record", "in-flight record does not pair the head request with its translated copy: "+short(pv))
					continue
				}
				// a pop of the same queue must follow in the same block region: find store to transaction.incomingReqs with Slice low=1 whose base matches
				popped := false
				for _, b2 := range fn.Blocks {
					for _, in2 := range b2.Instrs {
						s2, ok := storeToField(in2, "transaction.incomingReqs")
						if !ok {
							continue
						}
						sl, ok := s2.Val.(*ssa.Slice)
						if !ok || sl.Low == nil {
							continue
						}
						lo, _ := core.ConstInt(sl.Low)
						if lo == 1 && sl.High == nil && prov.Of(s2.Addr.(*ssa.FieldAddr).X) == m[1] && b.Dominates(b2) {
							popped = true
						}
					}
				}
				st3.Ob(popped)
				st3.Sample("%s: inflight append of %s.incomingReqs[0] paired with pop=%v", core.FuncName(fn), m[1], popped)
				if !popped {
					c.ReportAt("R16.3", fn, in.Pos(), "inflight:pop", "a request is recorded as forwarded but not popped from its transaction's queue (it would be forwarded again)")
				}
			}
		}
	}
	// every pop incomingReqs[1:] is paired with an in-flight append in the same function
	p.Instrs(func(fn *ssa.Function, in ssa.Instruction) {
		s2, ok := storeToField(in, "transaction.incomingReqs")
		if !ok {
			return
		}
		if sl, ok := s2.Val.(*ssa.Slice); ok && sl.Low != nil {
			st3.Instances++
			has := false
			for _, b := range fn.Blocks {
				for _, in3 := range b.Instrs {
					if s3, ok := storeToField(in3, "Comp.inflightReqToBottom"); ok && b.Dominates(in.Block()) {
						if strings.HasPrefix(prov.Of(s3.Val), "append(recv.inflightReqToBottom,[") {
							has = true
						}
					}
				}
			}
			st3.Ob(has)
			if !has {
				c.ReportAt("R16.3", fn, in.Pos(), "pop-without-record", "a request is popped from its transaction without being recorded as in flight: its response can never be routed back")
			}
		}
	})
	// removal of the in-flight entry: argument is the response's RspTo
	remFns := map[*ssa.Function]bool{}
	for _, fn := range p.Funcs {
		for _, b := range fn.Blocks {
			for _, in := range b.Instrs {
				if s, ok := storeToField(in, "Comp.inflightReqToBottom"); ok {
					pv := prov.Of(s.Val)
					if strings.HasPrefix(pv, "append(recv.inflightReqToBottom[:") {
						remFns[fn] = true
					}
				}
			}
		}
	}
	p.Instrs(func(fn *ssa.Function, in ssa.Instruction) {
		call, ok := in.(*ssa.Call)
		if !ok || call.Call.StaticCallee() == nil || !remFns[call.Call.StaticCallee()] {
			return
		}
		st3.Instances++
		pv := prov.Of(call.Call.Args[len(call.Call.Args)-1])
		ok2 := core.ProvMatch(regexp.MustCompile(`^recv\.bottomPort\.PeekIncoming\(\)\.(GetRspTo\(\)|RespondTo)$`), pv)
		st3.Ob(ok2)
		st3.Sample("%s: remove in-flight entry %s", core.FuncName(fn), pv)
		if !ok2 {
			c.ReportAt("R16.3", fn, in.Pos(), "inflight:remove-arg", "the in-flight entry removed ("+pv+") is not the one named by the answered response")
		}
	})

	// R16.4 coalescing key: appending to an existing transaction requires equal page and equal PID
	st4 := c.Rule("R16.4", "a request is coalesced onto a pending translation only on paths that compared both the virtual page and the PID for equality", 1)
	isCoalesce := func(in ssa.Instruction) bool {
		s, ok := storeToField(in, "transaction.incomingReqs")
		if !ok {
			return false
		}
		call, ok := s.Val.(*ssa.Call)
		return ok && core.IsBuiltin(call, "append")
	}
	eqCut := func(sub string) EdgeCut {
		return CmpCut(func(n *core.Node, op token.Token, x, y ssa.Value) int {
			if op != token.EQL && op != token.NEQ {
				return 0
			}
			px, py := prov.Of(x), prov.Of(y)
			if !strings.Contains(px, sub) || !strings.Contains(py, sub) {
				return 0
			}
			// one side the incoming request, the other the pending transaction
			in1 := strings.Contains(px, "topPort.PeekIncoming()") != strings.Contains(py, "topPort.PeekIncoming()")
			if !in1 {
				return 0
			}
			if op == token.EQL {
				return 1
			}
			return -1
		})
	}
	for _, spec := range []struct{ name, sub string }{{"PID", "GetPID()"}, {"page", "addrToPageID("}} {
		n, ung := p.GuardedUp(isCoalesce, eqCut(spec.sub))
		st4.Instances += n
		for i := 0; i < n-len(ung); i++ {
			st4.Ob(true)
			st4.Sample("coalescing append guarded by %s equality", spec.name)
		}
		for _, u := range ung {
			st4.Ob(false)
			c.ReportAt("R16.4", u.Target.Fn(), u.Target.Instr.Pos(), "coalesce:"+spec.name, "a request is appended to a pending translation on a path that did not compare the "+spec.name+" of the request with that of the pending translation")
		}
	}

	{
		stp := c.Rule("R16.11", "the component keeps ticking while any of its steps made progress: where a function with a bool result collects its answer in a loop (over requests per cycle, banks, ports), the value carried around the loop is derived from itself on the back edge (p = step() || p). A plain assignment keeps only the last iteration's answer; the component reports no progress and is not ticked again although an earlier iteration left work to continue", 1)
		checkProgressAccumulated(c, stp, "R16.11", p, "The component stops ticking with work pending; requests already accepted are never completed")
	}
	{
		stp := c.Rule("R16.12", "a step that did something counts as progress: in every function with a bool result, the result of each call to a step of the package that can consume or send a message flows into the returned value, as data or through the short circuit p = step() || p. A step whose result only steers a loop (if !step() { break }) can take a message off a port while the tick reports no progress; the component is not ticked again and the messages behind it are never read", 1)
		checkStepResultsCount(c, stp, "R16.12", p, "a response that was attached or a request that was forwarded in this tick does not keep the component ticking; with more input queued than one tick handles it goes to sleep and nothing wakes it (a port notifies only when a message arrives at an empty buffer)")
	}
	// R16.13 a reply that matches nothing is dropped
	st13 := c.Rule("R16.13", "a reply for which the translator has no pending entry is taken off its port: in every handler that peeks a port and looks the message up with a find... helper of the package, every path from the edge on which the lookup returned nil to the handler's return passes RetrieveIncoming on the peeked port. Unmatched replies are normal (the entry was completed by the drain path while the bottom port was full, or discarded by a flush); one that stays at the head blocks every later reply, and the accesses waiting for those are never forwarded", 1)
	for _, fn := range p.Funcs {
		var peekPort string
		for _, b := range fn.Blocks {
			for _, in := range b.Instrs {
				if cc := core.CallOf(in); cc != nil && cc.IsInvoke() && cc.Method.Name() == "PeekIncoming" {
					peekPort = portOfCall(in)
				}
			}
		}
		if peekPort == "" {
			continue
		}
		g := core.BuildGraph(fn, 0, nil)
		for _, n := range g.Nodes {
			iff, ok := n.Instr.(*ssa.If)
			if !ok {
				continue
			}
			cmp, ok := iff.Cond.(*ssa.BinOp)
			if !ok || (cmp.Op != token.EQL && cmp.Op != token.NEQ) || !core.IsNilConst(cmp.Y) {
				continue
			}
			call, ok := cmp.X.(*ssa.Call)
			if !ok || call.Call.StaticCallee() == nil || call.Call.StaticCallee().Pkg != fn.Pkg || !strings.HasPrefix(call.Call.StaticCallee().Name(), "find") {
				continue
			}
			nilSucc := n.Succs[0]
			if cmp.Op == token.NEQ {
				nilSucc = n.Succs[1]
			}
			st13.Instances++
			c.MarkAnalysed(fn)
			var leak *core.Node
			okW := g.Walk([]core.State{{N: nilSucc}}, core.WalkOpts{ForwardOnly: true, Stop: func(m *core.Node) bool {
				rc := core.CallOf(m.Instr)
				return rc != nil && rc.IsInvoke() && rc.Method.Name() == "RetrieveIncoming" && portOfCall(m.Instr) == peekPort
			}}, func(x core.State) {
				if _, isRet := x.N.Instr.(*ssa.Return); isRet && leak == nil {
					leak = x.N
				}
			})
			st13.Ob(okW && leak == nil)
			st13.Sample("%s: a message on %s for which %s finds nothing is retrieved on every path: %v", core.FuncName(fn), peekPort, call.Call.StaticCallee().Name(), leak == nil)
			if leak != nil {
				c.ReportAt("R16.13", fn, iff.Pos(), "unmatched-reply-not-dropped:"+core.FuncName(fn), core.FuncName(fn)+" can return ("+c.Position(leak.Instr.Pos())+") with a message on "+peekPort+" for which "+call.Call.StaticCallee().Name()+" found no entry still at the head of the port: every later message on that port is blocked behind it")
			}
		}
	}

	// R16.10 a handled message leaves its port
	st10 := c.Rule("R16.10", "a message the translator looked at and reported progress for is taken off its port: in every handler, from PeekIncoming (message present) no path reaches `return true` without RetrieveIncoming on the same port (callees followed). A late reply to a discarded access that is left at the head of the bottom port blocks every later reply: the accesses forwarded after a restart are never answered, and the component reports progress for ever", 2)
	checkPeekedHandledConsumed(c, st10, "R16.10", p, "the message stays at the head of the port: every later message on that port is blocked behind it and the handler reports progress on every tick")

	// R16.9 a restart empties each port
	st9 := c.Rule("R16.9", "the restart of the translator empties each of its ports: every drain loop (a loop that only takes messages off a port) serves one port and is left only where the retrieved message is nil. A loop over two ports stops when either is empty; what stays behind is translated, forwarded or returned after the flush", 1)
	checkDrainLoops(c, st9, "R16.9", p, "accesses and replies that belong to the discarded state are processed after the restart")

	// R16.8 a finished lookup is removed alone
	st8 := c.Rule("R16.8", "cutting a finished lookup out of Comp.transactions takes out exactly that entry: every append / in-place copy of the translator that joins two windows of one slice is append(s[:i], s[i+1:]...) or copy(s[i:], s[i+1:]) followed by a cut by one. A shifted window also removes (or duplicates) the neighbouring pending lookup, whose accesses are then never forwarded (or forwarded twice)", 1)
	checkSliceRemovalIdiom(c, st8, "R16.8", p, "a pending lookup of another page disappears from the table together with the finished one, and the accesses waiting on it are never forwarded")

	// R16.7 a finished lookup is removed from the table by identity
	st7 := c.Rule("R16.7", "lookups are coalesced per page and per process, so several pending transactions can carry the same virtual page: wherever an entry is cut out of Comp.transactions (append(t[:i], t[i+1:]...)), the entry was selected by pointer equality with the transaction that is being finished (a *transaction parameter), not by a key such as the page address. A removal by page takes out another process's pending lookup when replies arrive out of order; its accesses are never forwarded and never answered", 1)
	p.Instrs(func(fn *ssa.Function, in ssa.Instruction) {
		s, ok := storeToField(in, "Comp.transactions")
		if !ok {
			return
		}
		call, ok := s.Val.(*ssa.Call)
		if !ok || !core.IsBuiltin(call, "append") || len(call.Call.Args) != 2 {
			return
		}
		if _, isSl := call.Call.Args[0].(*ssa.Slice); !isSl {
			return
		}
		if _, isSl := call.Call.Args[1].(*ssa.Slice); !isSl {
			return
		}
		st7.Instances++
		c.MarkAnalysed(fn)
		g := core.BuildGraph(fn, 0, nil)
		n := g.NodeOf(in)
		okID := n != nil && g.Guarded(n, CmpCut(func(_ *core.Node, op token.Token, x, y ssa.Value) int {
			isParam := func(v ssa.Value) bool {
				prm, ok := core.StripConv(v).(*ssa.Parameter)
				return ok && namedTypeName(prm.Type()) == "addresstranslator.transaction"
			}
			isElem := func(v ssa.Value) bool { return strings.Contains(prov.Of(v), ".transactions[") }
			if !(isParam(x) && isElem(y)) && !(isParam(y) && isElem(x)) {
				return 0
			}
			switch op {
			case token.EQL:
				return 1
			case token.NEQ:
				return -1
			}
			return 0
		}))
		st7.Ob(okID)
		st7.Sample("%s: entry cut out of Comp.transactions selected by identity: %v", core.FuncName(fn), okID)
		if !okID {
			c.ReportAt("R16.7", fn, in.Pos(), "removed-by-key", core.FuncName(fn)+" cuts an entry out of Comp.transactions that was not selected by pointer equality with the transaction being finished: with two processes waiting for the same virtual page, the reply that arrives first removes the other process's pending lookup")
		}
	})

	// R16.5 flush: pipeline gated by isFlushing; flush clears both tables
	// R16.6 nothing cached in a field survives a flush (flushstate.go)
	checkFlushResets(c, "R16.6", atPkg, "Comp", []string{"middleware.runPipeline"}, []string{"middleware.handleCtrlRequest"}, 8)

	st5 := c.Rule("R16.5", "requests are accepted/answered only while not flushing; the flush handler drops both tables", 3)
	n5, ung5 := p.GuardedUp(func(in ssa.Instruction) bool { return SendOn(in, "topPort") || SendOn(in, "translationPort") }, BoolFieldCut("Comp.isFlushing", false))
	st5.Instances += n5
	for i := 0; i < n5-len(ung5); i++ {
		st5.Ob(true)
	}
	for _, u := range ung5 {
		st5.Ob(false)
		c.ReportAt("R16.5", u.Target.Fn(), u.Target.Instr.Pos(), "pipeline-while-flushing", "traffic is accepted or answered on a path that did not test isFlushing==false (top: "+core.FuncName(u.Top)+")")
	}
	p.Instrs(func(fn *ssa.Function, in ssa.Instruction) {
		s, ok := storeToField(in, "Comp.isFlushing")
		if !ok {
			return
		}
		if b, isConst := core.ConstBool(s.Val); isConst && b {
			st5.Instances++
			clears := map[string]bool{}
			for _, bb := range fn.Blocks {
				for _, in2 := range bb.Instrs {
					for _, f := range []string{"Comp.transactions", "Comp.inflightReqToBottom"} {
						if s2, ok := storeToField(in2, f); ok && core.IsNilConst(s2.Val) {
							clears[f] = true
						}
					}
				}
			}
			ok := len(clears) == 2
			st5.Ob(ok)
			st5.Sample("%s: flush clears %d/2 tables", core.FuncName(fn), len(clears))
			if !ok {
				c.ReportAt("R16.5", fn, in.Pos(), "flush-without-clear", fmt.Sprintf("flush sets isFlushing but clears only %d of the two transaction tables", len(clears)))
			}
		}
	})

	checkIntegerWidths(c, "R16.18", "Virtual and physical addresses in the translator are not narrowed, nor masked with a narrower mask.", 5, []widthScope{{rel: atPkg}}, []string{"narrow", "widen-wrapped", "unsigned-diff"}, widthAllowC16)
	checkDstFoundFromRequestAddress(c, "R16.19", "In the address translator both are the translated physical address: a write routed by its virtual address goes to a memory module that does not own the physical address it carries.", 2, NewPkgInfo(c, atPkg))
	checkFindersReturnNilOnMiss(c, "R16.20", 1, NewPkgInfo(c, atPkg))
	return core.Meta{Level: "other",
		Explanation: "Structural clauses of the address translator decided on SSA of amd/timing/mem/addresstranslator: SEND-DISCIPLINE for translate/parseTranslation/respond/flush/restart (no bookkeeping or input consumption after a failed Send, nothing consumed before a Send, input consumed after success), FIELDS by provenance (physical address = page.PAddr + address mod page size; size/data/mask copied; response RspTo/Dst from the original request selected by the lower level's RspTo; payload from the lower level), in-flight record/pop pairing, coalescing guarded by page and PID equality, flush gating.",
		NotDecided:  "reply-reordering effects on timing; the values of addresses (only the shape of the address expression); akita port semantics",
		Assumptions: commonAssumptions}
}

func short(s string) string {
	if len(s) > 300 {
		return s[:300] + "…"
	}
	return s
}
