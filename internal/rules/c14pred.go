package rules

import (
	"go/constant"
	"go/token"
	"go/types"

	"golang.org/x/tools/go/ssa"

	"verif/internal/core"
)

// acceptedStatesSSA decides, for each wavefront state, whether an "every wavefront of the group
// ..." predicate lets a wavefront in that state pass: the predicate (or the helper it hands the
// work to, with function-valued arguments bound to the functions passed) is explored with every
// test of the wavefront's State against a constant decided for that state, every call of a
// per-wavefront predicate replaced by what it returns for that state, and the comparison with the
// excluded wavefront taken as false (the wavefront looked at is another one). The state is
// accepted when no `return false` can be reached. Loop conditions and everything else are
// explored both ways.
func acceptedStatesSSA(fn *ssa.Function, states map[string]int64) (map[string]bool, bool) {
	bind := map[*ssa.Parameter]*ssa.Function{}
	funcValue := func(v ssa.Value, bind map[*ssa.Parameter]*ssa.Function) *ssa.Function {
		for {
			switch x := v.(type) {
			case *ssa.ChangeType:
				v = x.X
				continue
			case *ssa.Function:
				return x
			case *ssa.MakeClosure:
				if f, ok := x.Fn.(*ssa.Function); ok && len(x.Bindings) == 0 {
					return f
				}
			case *ssa.Parameter:
				return bind[x]
			}
			return nil
		}
	}
	// a predicate that only hands the work to a helper is judged by the helper
	for hop := 0; hop < 3; hop++ {
		if len(fn.Blocks) != 1 {
			break
		}
		var ret *ssa.Return
		for _, in := range fn.Blocks[0].Instrs {
			if r, ok := in.(*ssa.Return); ok {
				ret = r
			}
		}
		if ret == nil || len(ret.Results) != 1 {
			break
		}
		call, ok := ret.Results[0].(*ssa.Call)
		if !ok || call.Call.StaticCallee() == nil || len(call.Call.StaticCallee().Blocks) == 0 {
			break
		}
		cal := call.Call.StaticCallee()
		nb := map[*ssa.Parameter]*ssa.Function{}
		for i, a := range call.Call.Args {
			if i < len(cal.Params) {
				if f := funcValue(a, bind); f != nil {
					nb[cal.Params[i]] = f
				}
			}
		}
		fn, bind = cal, nb
	}
	isWfPtr := func(v ssa.Value) bool {
		pt, ok := v.Type().Underlying().(*types.Pointer)
		if !ok {
			return false
		}
		nt, ok := pt.Elem().(*types.Named)
		return ok && nt.Obj().Name() == "Wavefront"
	}
	var evalFn func(f *ssa.Function, bind map[*ssa.Parameter]*ssa.Function, st int64, d int) (bool, bool, bool)
	decideFor := func(bind map[*ssa.Parameter]*ssa.Function, st int64, d int) func(v ssa.Value) (bool, bool) {
		var decide func(v ssa.Value) (bool, bool)
		decide = func(v ssa.Value) (bool, bool) {
			switch x := v.(type) {
			case *ssa.Const:
				if x.Value != nil && x.Value.Kind() == constant.Bool {
					return constant.BoolVal(x.Value), true
				}
			case *ssa.UnOp:
				if x.Op == token.NOT {
					r, ok := decide(x.X)
					return !r, ok
				}
			case *ssa.BinOp:
				if x.Op != token.EQL && x.Op != token.NEQ {
					return false, false
				}
				for _, pr := range [][2]ssa.Value{{x.X, x.Y}, {x.Y, x.X}} {
					if f := core.LoadedField(pr[0]); f != nil && f.Name() == "State" {
						if k, ok := core.ConstInt(pr[1]); ok {
							return (k == st) == (x.Op == token.EQL), true
						}
					}
				}
				if isWfPtr(x.X) && isWfPtr(x.Y) && !core.IsNilConst(x.X) && !core.IsNilConst(x.Y) {
					return x.Op == token.NEQ, true
				}
			case *ssa.Call:
				if d >= 3 {
					return false, false
				}
				var cal *ssa.Function
				if x.Call.IsInvoke() {
					return false, false
				}
				if cal = x.Call.StaticCallee(); cal == nil {
					cal = funcValue(x.Call.Value, bind)
				}
				if cal == nil || len(cal.Blocks) == 0 || cal.Signature.Results().Len() != 1 {
					return false, false
				}
				nb := map[*ssa.Parameter]*ssa.Function{}
				for i, a := range x.Call.Args {
					if i < len(cal.Params) {
						if f := funcValue(a, bind); f != nil {
							nb[cal.Params[i]] = f
						}
					}
				}
				canT, canF, ok := evalFn(cal, nb, st, d+1)
				if ok && canT != canF {
					return canT, true
				}
			}
			return false, false
		}
		return decide
	}
	// evalFn: can the function return true / false for a wavefront in state st
	evalFn = func(f *ssa.Function, bind map[*ssa.Parameter]*ssa.Function, st int64, d int) (canT, canF, ok bool) {
		decide := decideFor(bind, st, d)
		blocks, edges := condReachEdges(f, decide)
		ok = true
		var val func(v ssa.Value, depth int) (bool, bool, bool)
		val = func(v ssa.Value, depth int) (bool, bool, bool) {
			if r, known := decide(v); known {
				return r, !r, true
			}
			if ph, isPhi := v.(*ssa.Phi); isPhi && depth < 6 {
				t, fl, any := false, false, false
				for i, p := range ph.Block().Preds {
					if !edges[[2]*ssa.BasicBlock{p, ph.Block()}] {
						continue
					}
					a, b, k := val(ph.Edges[i], depth+1)
					if !k {
						return false, false, false
					}
					t, fl, any = t || a, fl || b, true
				}
				return t, fl, any
			}
			return false, false, false
		}
		for _, b := range blocks {
			r, isRet := b.Instrs[len(b.Instrs)-1].(*ssa.Return)
			if !isRet || len(r.Results) != 1 {
				continue
			}
			t, fl, k := val(r.Results[0], 0)
			if !k {
				ok = false
				continue
			}
			canT, canF = canT || t, canF || fl
		}
		return canT, canF, ok
	}
	acc := map[string]bool{}
	decided := true
	for name, st := range states {
		_, canF, ok := evalFn(fn, bind, st, 0)
		if !ok {
			decided = false
		}
		acc[name] = !canF
	}
	return acc, decided
}
