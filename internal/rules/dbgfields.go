package rules

import (
	"fmt"
	"go/types"
	"sort"
	"strings"

	"golang.org/x/tools/go/ssa"

	"verif/internal/core"
)

// DebugFieldFlow lists, for the struct types of the given package, fields that are
// read somewhere in the loaded packages but never written (or written and never read).
func DebugFieldFlow(c *core.Ctx, typePkg string, pkgs []string) {
	c.Load(pkgs...)
	c.BuildSSA()
	type stat struct {
		r, w   int
		rs, ws []string
	}
	st := map[string]*stat{}
	get := func(id string) *stat {
		if st[id] == nil {
			st[id] = &stat{}
		}
		return st[id]
	}
	fieldID := func(t types.Type, idx int) string {
		if p, ok := t.Underlying().(*types.Pointer); ok {
			t = p.Elem()
		}
		nt, ok := t.(*types.Named)
		if !ok || nt.Obj().Pkg() == nil || !strings.HasSuffix(nt.Obj().Pkg().Path(), typePkg) {
			return ""
		}
		s, ok := nt.Underlying().(*types.Struct)
		if !ok {
			return ""
		}
		return nt.Obj().Name() + "." + s.Field(idx).Name()
	}
	for _, rel := range pkgs {
		for _, fn := range c.SrcFuncs(rel) {
			for _, b := range fn.Blocks {
				for _, in := range b.Instrs {
					switch t := in.(type) {
					case *ssa.FieldAddr:
						id := fieldID(t.X.Type(), t.Field)
						if id == "" {
							continue
						}
						s := get(id)
						if t.Referrers() != nil {
							for _, r := range *t.Referrers() {
								if x, ok := r.(*ssa.Store); ok && x.Addr == ssa.Value(t) {
									s.w++
									s.ws = append(s.ws, rel+"."+core.FuncName(fn))
								} else if _, ok := r.(*ssa.DebugRef); !ok {
									s.r++
									s.rs = append(s.rs, rel+"."+core.FuncName(fn))
								}
							}
						}
					case *ssa.Field:
						if id := fieldID(t.X.Type(), t.Field); id != "" {
							s := get(id)
							s.r++
							s.rs = append(s.rs, rel+"."+core.FuncName(fn))
						}
					}
				}
			}
		}
	}
	var ids []string
	for id := range st {
		ids = append(ids, id)
	}
	sort.Strings(ids)
	for _, id := range ids {
		s := st[id]
		if s.r > 0 && s.w == 0 {
			fmt.Printf("READ-NEVER-WRITTEN %-45s reads %d e.g. %s\n", id, s.r, s.rs[0])
		}
		if s.w > 0 && s.r == 0 {
			fmt.Printf("WRITTEN-NEVER-READ %-45s writes %d e.g. %s\n", id, s.w, s.ws[0])
		}
	}
}
