package rules

import "verif/internal/core"

// Check is one property's rule set.
type Check struct {
	Prop string
	Run  func(c *core.Ctx) core.Meta
}

var Registry = map[string]*Check{}

func register(prop string, run func(c *core.Ctx) core.Meta) {
	Registry[prop] = &Check{Prop: prop, Run: run}
}

var commonAssumptions = []string{
	"the Go type checker (go/types) and the compiler agree on constant values and method resolution",
	"akita (sim.Port, sim.Buffer, pipelining, mem.Storage, vm.PageTable) honours its documented contracts; akita is outside /repo and is not analysed",
	"only structural necessary conditions are decided; the value-level behaviour named under not_decided is not",
}
