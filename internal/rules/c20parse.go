package rules

import (
	"fmt"
	"go/constant"
	"go/token"
	"go/types"
	"strings"

	"golang.org/x/tools/go/ssa"

	"verif/internal/core"
)

const nvTracePkg = "nvidia/tracereader"
const nvConfigPkg = "nvidia/nvidiaconfig"

// Accel-Sim / NVBit tracer line format (tracer_tool.cu), transcribed:
//
//	[line_num] PC mask dest_num [reg_dests] opcode src_num [reg_srcs] mem_width [address_compress base_addr ...] imm
//
// PC is printed with %04x and the mask with %08x (no prefix), the counts, the
// width, the compression form, the stride and the deltas in decimal, the base
// address with 0x%016lx. Go's %x scan verb does not accept a 0x prefix (it
// reads the leading 0 and stops); %v does.
var traceFieldVerb = map[string]string{
	"PC": "%x", "Mask": "%x", "DestNum": "%d", "SrcNum": "%d", "MemWidth": "%d", "AddressCompress": "%d",
	"MemAddress": "%v", "MemAddressSuffix1": "%d",
}

func checkTraceParsing(c *core.Ctx) {
	// ---------------- R20.6 scan verbs agree with what the tracer prints ----------------
	st6 := c.Rule("R20.6", "every fmt.Sscanf of the trace-line parser that fills a field of Instruction uses the verb that matches how the tracer prints that column (transcribed format: PC and mask hexadecimal without prefix, counts / width / form / stride decimal, base address 0x-prefixed hexadecimal, which needs %v because %x does not accept the prefix)", 6)
	for _, fname := range []string{"extractInst", "updateInstMemoryPart"} {
		fn := c.MustFunc("R20.6", nvTracePkg, fname)
		if fn == nil {
			continue
		}
		c.MarkAnalysed(fn)
		for _, b := range fn.Blocks {
			for _, in := range b.Instrs {
				call, ok := in.(*ssa.Call)
				if !ok {
					continue
				}
				cal := call.Call.StaticCallee()
				if cal == nil || cal.Pkg == nil || cal.Pkg.Pkg.Path() != "fmt" || cal.Name() != "Sscanf" || len(call.Call.Args) < 3 {
					continue
				}
				k, isC := call.Call.Args[1].(*ssa.Const)
				if !isC || k.Value == nil || k.Value.Kind() != constant.String {
					continue
				}
				verb := constant.StringVal(k.Value)
				// the destinations are packed into the variadic slice
				field := ""
				if sl, ok := call.Call.Args[2].(*ssa.Slice); ok {
					if arr, ok := sl.X.(*ssa.Alloc); ok && arr.Referrers() != nil {
						for _, r := range *arr.Referrers() {
							ia, ok := r.(*ssa.IndexAddr)
							if !ok || ia.Referrers() == nil {
								continue
							}
							for _, r2 := range *ia.Referrers() {
								st, ok := r2.(*ssa.Store)
								if !ok {
									continue
								}
								v := st.Val
								if mi, ok := v.(*ssa.MakeInterface); ok {
									v = mi.X
								}
								if fa, ok := v.(*ssa.FieldAddr); ok {
									if n := namedFieldName(fa.X.Type(), fa.Field, "Instruction"); n != "" {
										field = n
									}
								}
							}
						}
					}
				}
				if _, known := traceFieldVerb[field]; !known {
					field = ""
				}
				if field == "" {
					continue
				}
				st6.Instances++
				okV := verb == traceFieldVerb[field]
				st6.Ob(okV)
				st6.Sample("%s: Instruction.%s scanned with %q", fname, field, verb)
				if !okV {
					c.ReportAt("R20.6", fn, call.Pos(), "scan-verb:"+field, fmt.Sprintf("%s scans Instruction.%s with %q; the tracer prints this column so that it needs %q (a 0x-prefixed address scanned with %%x yields 0 without an error)", fname, field, verb, traceFieldVerb[field]))
				}
			}
		}
	}

	// ---------------- R20.7 every register name the format allows is known ----------------
	st7 := c.Rule("R20.7", "the register table covers every operand name a trace line can carry: R0 .. R254 (a kernel may use up to 255 registers, `-nregs`) and the zero register R255; the bound of the loop that fills the table is evaluated from its constant", 1)
	if fn := c.SSAFunc(nvConfigPkg, "init#1"); fn != nil || true {
		var found bool
		for _, f := range c.SrcFuncs(nvConfigPkg) {
			if !strings.HasPrefix(f.Name(), "init") {
				continue
			}
			for _, b := range f.Blocks {
				for _, in := range b.Instrs {
					bo, ok := in.(*ssa.BinOp)
					if !ok || bo.Op != token.LSS {
						continue
					}
					if _, isPhi := bo.X.(*ssa.Phi); !isPhi {
						continue
					}
					if n, isC := core.ConstInt(bo.Y); isC {
						found = true
						st7.Instances++
						c.MarkAnalysed(f)
						okN := n >= 255
						st7.Ob(okN)
						st7.Sample("register table filled for R0 .. R%d plus R255", n-1)
						if !okN {
							c.ReportAt("R20.7", f, bo.Pos(), "register-table-bound", fmt.Sprintf("the register table knows R0 .. R%d and R255 only; NewRegister panics on any other operand, so a trace of a kernel that uses more than %d registers cannot be loaded", n-1, n))
						}
					}
				}
			}
		}
		if !found {
			c.Report(core.Finding{Rule: "R20.7", Kind: "anchor", Pkg: nvConfigPkg, Func: "init", Detail: "register-table-loop", Msg: "the loop that fills the register table was not found"})
		}
	}

	// ---------------- R20.8 header switches that change the line format are honoured ----------------
	st8 := c.Rule("R20.8", "every field of KernelFileHeader that the header parser fills and that changes the layout of the instruction lines (EnableLineinfo: a leading line-number column) is read by the functions that parse the lines; purely descriptive header fields are exempt", 1)
	{
		formatFields := map[string]string{"EnableLineinfo": "adds the [line_num] column in front of the PC"}
		readers := map[string]bool{}
		for _, fn := range c.SrcFuncs(nvTracePkg) {
			if fn.Name() == "updateTraceHeaderParam" {
				continue
			}
			for _, b := range fn.Blocks {
				for _, in := range b.Instrs {
					switch t := in.(type) {
					case *ssa.FieldAddr:
						if n := namedFieldName(t.X.Type(), t.Field, "KernelFileHeader"); n != "" {
							readers[n] = true
						}
					case *ssa.Field:
						if n := namedFieldName(t.X.Type(), t.Field, "KernelFileHeader"); n != "" {
							readers[n] = true
						}
					}
				}
			}
		}
		for f, why := range formatFields {
			st8.Instances++
			st8.Ob(readers[f])
			if !readers[f] {
				c.Report(core.Finding{Rule: "R20.8", Pkg: nvTracePkg, Func: "KernelFileHeader", Detail: "header-switch-ignored:" + f, Msg: "KernelFileHeader." + f + " (" + why + ") is parsed from the header and read by no function of the trace reader: with the switch on, every column of every instruction line is taken for its neighbour"})
			}
		}
	}

	// ---------------- R20.11 address arithmetic fields are as wide as what the tracer prints ----------------
	st11 := c.Rule("R20.11", "the tracer prints the base address, the stride and the per-lane deltas of a memory instruction as 64-bit quantities (addresses and differences of addresses); the fields of Instruction that receive them (MemAddress, MemAddressSuffix1, the elements of MemAddressSuffix2) are 64 bits wide, and the deltas are parsed with a 64-bit conversion", 3)
	if p := c.Pkg(nvTracePkg); p != nil {
		if obj := p.Types.Scope().Lookup("Instruction"); obj != nil {
			if stT, ok := obj.Type().Underlying().(*types.Struct); ok {
				for i := 0; i < stT.NumFields(); i++ {
					f := stT.Field(i)
					switch f.Name() {
					case "MemAddress", "MemAddressSuffix1", "MemAddressSuffix2":
						t := f.Type()
						if sl, ok := t.Underlying().(*types.Slice); ok {
							t = sl.Elem()
						}
						w, _, okW := typeWidth(t)
						st11.Instances++
						st11.Ob(okW && w == 64)
						st11.Sample("Instruction.%s: %s", f.Name(), f.Type())
						if !(okW && w == 64) {
							c.Report(core.Finding{Rule: "R20.11", Pkg: nvTracePkg, Func: "Instruction", Detail: "narrow-address-field:" + f.Name(), Msg: fmt.Sprintf("Instruction.%s has type %s: strides and deltas are differences of 64-bit lane addresses, a gap of 2 GiB or more wraps (or, for the stride, is silently left 0)", f.Name(), f.Type())})
						}
					}
				}
			}
		}
	}

	// ---------------- R20.12 every address form of the format is handled ----------------
	st12 := c.Rule("R20.12", "the tracer writes the addresses of a memory instruction in one of three forms (address_format: 0 = list of all lane addresses, 1 = base + stride, 2 = base + deltas); the parser compares the form with each of the three constants, i.e. has an arm for each", 3)
	if fn := c.MustFunc("R20.12", nvTracePkg, "updateInstMemoryPart"); fn != nil {
		handled := map[int64]bool{}
		for _, b := range fn.Blocks {
			for _, in := range b.Instrs {
				bo, ok := in.(*ssa.BinOp)
				if !ok || (bo.Op != token.EQL && bo.Op != token.NEQ) {
					continue
				}
				if f := core.LoadedField(bo.X); f == nil || f.Name() != "AddressCompress" {
					continue
				}
				if k, isC := core.ConstInt(bo.Y); isC {
					handled[k] = true
				}
			}
		}
		for _, form := range []int64{0, 1, 2} {
			st12.Instances++
			st12.Ob(handled[form])
			if !handled[form] {
				c.ReportAt("R20.12", fn, fn.Pos(), fmt.Sprintf("address-form-unhandled:%d", form), fmt.Sprintf("updateInstMemoryPart has no arm for address form %d: for such a line only the first address is kept and every other lane address is dropped from the parsed instruction", form))
			}
		}
	}

	// ---------------- R20.9 reported work counters are counted ----------------
	st9 := c.Rule("R20.9", "every counter that a component of the NVIDIA model reports through a Get*Count method is written somewhere in its package (a counter nobody increments reports 0 whatever was executed)", 3)
	for _, rel := range []string{"nvidia/subcore", "nvidia/sm", "nvidia/gpu", "nvidia/driver"} {
		written := map[string]bool{}
		for _, fn := range c.SrcFuncs(rel) {
			for _, b := range fn.Blocks {
				for _, in := range b.Instrs {
					if s, ok := in.(*ssa.Store); ok {
						if fa, ok := s.Addr.(*ssa.FieldAddr); ok {
							written[fieldNameOf(fa)] = true
						}
					}
				}
			}
		}
		for _, fn := range c.SrcFuncs(rel) {
			if !strings.HasPrefix(fn.Name(), "Get") || !strings.HasSuffix(fn.Name(), "Count") {
				continue
			}
			for _, b := range fn.Blocks {
				for _, in := range b.Instrs {
					ret, ok := in.(*ssa.Return)
					if !ok || len(ret.Results) != 1 {
						continue
					}
					ld, ok := ret.Results[0].(*ssa.UnOp)
					if !ok {
						continue
					}
					fa, ok := ld.X.(*ssa.FieldAddr)
					if !ok {
						continue
					}
					st9.Instances++
					c.MarkAnalysed(fn)
					name := fieldNameOf(fa)
					st9.Ob(written[name])
					if !written[name] {
						c.ReportAt("R20.9", fn, fn.Pos(), "counter-never-written:"+name, fmt.Sprintf("%s reports %s, which no function of %s ever writes: it is 0 for every run", core.FuncName(fn), name, rel))
					}
				}
			}
		}
	}

	// ---------------- R20.10 the constructors of one type initialise the same reference fields ----------------
	st10 := c.Rule("R20.10", "sibling constructors: every map field of the Driver that one constructor (the builder's Build) creates with make is also created by the other (NewDriver): a map left nil panics on the first registration", 1)
	{
		made := func(fn *ssa.Function) map[string]bool {
			out := map[string]bool{}
			if fn == nil {
				return out
			}
			for _, b := range fn.Blocks {
				for _, in := range b.Instrs {
					if s, ok := in.(*ssa.Store); ok {
						if _, isMake := s.Val.(*ssa.MakeMap); isMake {
							if fa, ok := s.Addr.(*ssa.FieldAddr); ok {
								out[fieldNameOf(fa)] = true
							}
						}
					}
				}
			}
			return out
		}
		a := c.SSAFunc("nvidia/driver", "DriverBuilder.Build")
		b := c.SSAFunc("nvidia/driver", "NewDriver")
		if a != nil && b != nil {
			ma, mb := made(a), made(b)
			for f := range ma {
				st10.Instances++
				st10.Ob(mb[f])
				if !mb[f] {
					c.ReportAt("R20.10", b, b.Pos(), "constructor-siblings:"+f, "DriverBuilder.Build creates the map Driver."+f+" and NewDriver does not: a driver made by NewDriver panics (assignment to entry in nil map) when the first GPU is registered")
				}
			}
		} else {
			st10.Sample("only one constructor of the NVIDIA driver exists")
			st10.Instances++
			st10.Ob(true)
		}
	}
}

func namedFieldName(t types.Type, idx int, typeName string) string {
	if p, ok := t.Underlying().(*types.Pointer); ok {
		t = p.Elem()
	}
	nt, ok := t.(*types.Named)
	if !ok || nt.Obj().Name() != typeName {
		return ""
	}
	s, ok := nt.Underlying().(*types.Struct)
	if !ok || idx >= s.NumFields() {
		return ""
	}
	return s.Field(idx).Name()
}
