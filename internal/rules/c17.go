package rules

import (
	"fmt"
	"go/token"
	"regexp"
	"strings"

	"golang.org/x/tools/go/ssa"

	"verif/internal/core"
)

const sbmPkg = "amd/timing/mem/simplebankedmemory"

func init() { register("C17", runC17) }

func isBufferMethod(in ssa.Instruction, name string) bool {
	cc := core.CallOf(in)
	if cc == nil || !cc.IsInvoke() {
		return false
	}
	m := cc.Method
	return m.Name() == name && m.Pkg() != nil && m.Pkg().Path() == core.SimPkg
}

func isPipelineMethod(in ssa.Instruction, name string) bool {
	cc := core.CallOf(in)
	if cc == nil || !cc.IsInvoke() {
		return false
	}
	m := cc.Method
	return m.Name() == name && m.Pkg() != nil && m.Pkg().Path() == "github.com/sarchlab/akita/v4/pipelining"
}

func isStorageMethod(in ssa.Instruction, name string) bool {
	return core.IsCall(in, core.MemPkg+".Storage."+name)
}

func runC17(c *core.Ctx) core.Meta {
	c.Load(sbmPkg, r9nanoPkg, mi300aPkg)
	c.BuildSSA()
	p := NewPkgInfo(c, sbmPkg)
	checkBankInterleaveCoversLine(c, "R17.16", NewPkgInfo(c, mi300aPkg), NewPkgInfo(c, r9nanoPkg))
	checkLog2Units(c, "R17.15", 4, "Two accesses to one interleaving unit must meet in one bank to stay ordered; with the bank chosen by address / 6 they go to different banks and overtake each other.", p)
	checkNoCompactionWhileRanging(c, "R17.14", 1, p)
	prov := core.NewProv(c)

	// R17.1 one response per request
	RunProto(c, &ProtoCfg{
		AllEffectsAfterSend: true,
		RuleBase:            "R17.1", Pkg: sbmPkg, FloorSends: 2,
		Effects: []Effect{
			RetrieveEffect,
			{Label: "postPipelineBuf.Pop", Consume: true, ConsumesPeeked: true, Match: func(n *core.Node) bool { return isBufferMethod(n.Instr, "Pop") }},
		},
		ExtraPeek: func(n *core.Node) (string, bool) {
			if isBufferMethod(n.Instr, "Peek") {
				return "postPipelineBuf", true
			}
			return "", false
		},
	})
	st1 := c.Rule("R17.1.commit-once", "the storage access of a request is performed only while item.committed is false and every path from it to the response stage sets item.committed (a response retried under back-pressure does not re-execute the access)", 3)
	for _, name := range []string{"Write", "Read"} {
		name := name
		n, ung := p.GuardedUp(func(in ssa.Instruction) bool { return isStorageMethod(in, name) }, BoolFieldCut("bankPipelineItem.committed", false))
		st1.Instances += n
		for i := 0; i < n-len(ung); i++ {
			st1.Ob(true)
		}
		for _, u := range ung {
			st1.Ob(false)
			c.ReportAt("R17.1.commit-once", u.Target.Fn(), u.Target.Instr.Pos(), "Storage."+name+":guard", "storage "+name+" executes on a path that did not test item.committed==false: a retried response repeats the access (a later write could be overwritten by the replayed one)")
		}
	}
	for _, fn := range p.Direct(func(in ssa.Instruction) bool { return isStorageMethod(in, "Write") || isStorageMethod(in, "Read") }) {
		g := core.BuildGraph(fn, 0, nil)
		for _, w := range g.NodesWhere(func(n *core.Node) bool { return isStorageMethod(n.Instr, "Write") || isStorageMethod(n.Instr, "Read") }) {
			st1.Instances++
			leak := false
			g.Walk(core.After(w, nil), core.WalkOpts{ForwardOnly: true, Stop: func(n *core.Node) bool {
				s, ok := storeToField(n.Instr, "bankPipelineItem.committed")
				if !ok {
					return false
				}
				b, isC := core.ConstBool(s.Val)
				return isC && b
			}}, func(s core.State) {
				if _, ok := s.N.Instr.(*ssa.Return); ok {
					leak = true
				}
				if core.IsPortMethod(s.N.Instr, "Send") || core.IsPortMethod(s.N.Instr, "CanSend") {
					leak = true
				}
			})
			st1.Ob(!leak)
			st1.Sample("%s: storage access followed by committed=true on all paths: %v", core.FuncName(fn), !leak)
			if leak {
				c.ReportAt("R17.1.commit-once", fn, w.Instr.Pos(), "Storage:committed-not-set", "after the storage access a path reaches the response stage without setting item.committed: the access is repeated on retry")
			}
		}
	}

	// R17.2 masked write
	st2 := c.Rule("R17.2", "a masked write stores req.Data[k] only where req.DirtyMask[k] is set (same k), and the unmasked whole-buffer write happens only when DirtyMask is nil", 2)
	for _, fn := range p.Funcs {
		g := core.BuildGraph(fn, 0, nil)
		for _, n := range g.Nodes {
			s, ok := n.Instr.(*ssa.Store)
			if !ok {
				continue
			}
			ia, ok := s.Addr.(*ssa.IndexAddr)
			if !ok {
				continue
			}
			val := prov.Of(s.Val)
			m := regexp.MustCompile(`^(.*)\.Data\[(.*)\]$`).FindStringSubmatch(val)
			if m == nil {
				continue
			}
			st2.Instances++
			c.MarkAnalysed(fn)
			idx := prov.Of(ia.Index)
			okIdx := idx == m[2]
			st2.Ob(okIdx)
			if !okIdx {
				c.ReportAt("R17.2", fn, s.Pos(), "masked-write:index", fmt.Sprintf("byte %s of the request is stored at position %s", m[2], idx))
			}
			want := m[1] + ".DirtyMask[" + m[2] + "]"
			cut := boolCut(func(_ *core.Node, v ssa.Value) bool { return prov.Of(v) == want }, true)
			okG := g.Guarded(n, cut)
			st2.Ob(okG)
			st2.Sample("%s: data[%s] = %s guarded by %s: %v", core.FuncName(fn), idx, val, want, okG)
			if !okG {
				c.ReportAt("R17.2", fn, s.Pos(), "masked-write:guard", "a byte of a masked write is stored on a path that did not test "+want)
			}
		}
		// whole-buffer write of req.Data guarded by DirtyMask == nil
		for _, n := range g.Nodes {
			if !isStorageMethod(n.Instr, "Write") {
				continue
			}
			args := core.CallOf(n.Instr).Args
			// the request's buffer itself or a contiguous slice of it: both
			// write bytes without consulting their mask entries
			dataArg := args[len(args)-1]
			if sl, ok := dataArg.(*ssa.Slice); ok {
				dataArg = sl.X
			}
			dv := prov.Of(dataArg)
			dm := regexp.MustCompile(`^(.*)\.Data$`).FindStringSubmatch(dv)
			if dm == nil {
				continue
			}
			st2.Instances++
			base := dm[1]
			cut := NilCut(func(v ssa.Value) bool { return prov.Of(v) == base+".DirtyMask" }, true)
			okG := g.Guarded(n, cut)
			st2.Ob(okG)
			st2.Sample("%s: Storage.Write(_, %s) guarded by DirtyMask==nil: %v", core.FuncName(fn), dv, okG)
			if !okG {
				c.ReportAt("R17.2", fn, n.Instr.Pos(), "unmasked-write:guard", "the request buffer (or a contiguous slice of it) is written to storage on a path that did not find DirtyMask nil: disabled bytes are overwritten")
			}
		}
	}

	{
		stp := c.Rule("R17.12", "the component keeps ticking while any of its steps made progress: where a function with a bool result collects its answer in a loop (over requests per cycle, banks, ports), the value carried around the loop is derived from itself on the back edge (p = step() || p). A plain assignment keeps only the last iteration's answer; the component reports no progress and is not ticked again although an earlier iteration left work to continue", 1)
		checkProgressAccumulated(c, stp, "R17.12", p, "The component stops ticking with work pending; requests already accepted are never completed")
	}
	{
		stp := c.Rule("R17.13", "a step that did something counts as progress: in every function with a bool result, the result of each call to a step of the package that can consume or send a message flows into the returned value, as data or through the short circuit p = step() || p. A step whose result only steers a loop (if !step() { break }) can take a message off a port while the tick reports no progress; the component is not ticked again and the messages behind it are never read", 1)
		checkStepResultsCount(c, stp, "R17.13", p, "a response that was attached or a request that was forwarded in this tick does not keep the component ticking; with more input queued than one tick handles it goes to sleep and nothing wakes it (a port notifies only when a message arrives at an empty buffer)")
	}
	// R17.11 a delayed request expires even when the pipeline is busy at the cycle of expiry
	st11 := c.Rule("R17.11", "the row-miss delay of a request ends: a countdown that the component decrements on every tick whatever its value (delayedItem.cyclesLeft) is tested for expiry with an ordering comparison, not with == 0 - the item that finds the bank's pipeline busy in the cycle its counter reaches 0 is kept, goes to -1 and would never be released; the request gets no response and every later request of the bank waits behind it", 1)
	checkCountdownExpiry(c, st11, "R17.11", p, "the request never enters the bank's pipeline, is never answered, and every later request of that bank queues behind it")

	// R17.10 one internal address per request
	st10 := c.Rule("R17.10", "every storage access of a request uses the request's internal address: where the component has an address converter (a call of AddressConverter.ConvertExternalToInternal exists in the package), the address argument of every Storage.Read / Storage.Write is the converted address (the value merged from the raw address and the converter's result, directly or through a helper of the package), and all accesses of one function use one and the same address value - the read half of a masked read-modify-write at the raw address merges the new bytes into the wrong line", 3)
	isConvert := func(v ssa.Value) bool {
		call, ok := v.(*ssa.Call)
		return ok && call.Call.IsInvoke() && call.Call.Method.Name() == "ConvertExternalToInternal"
	}
	hasConverter := false
	p.Instrs(func(_ *ssa.Function, in ssa.Instruction) {
		if v, ok := in.(ssa.Value); ok && isConvert(v) {
			hasConverter = true
		}
	})
	var fromConvert func(v ssa.Value, d int, seen map[ssa.Value]bool) bool
	fromConvert = func(v ssa.Value, d int, seen map[ssa.Value]bool) bool {
		if seen[v] || d > 6 {
			return false
		}
		seen[v] = true
		if isConvert(v) {
			return true
		}
		switch x := v.(type) {
		case *ssa.Phi:
			for _, e := range x.Edges {
				if fromConvert(e, d+1, seen) {
					return true
				}
			}
		case *ssa.Call:
			if cal := x.Call.StaticCallee(); cal != nil && cal.Pkg == p.Pkg {
				for _, b := range cal.Blocks {
					for _, in := range b.Instrs {
						if r, ok := in.(*ssa.Return); ok {
							for _, res := range r.Results {
								if fromConvert(res, d+1, seen) {
									return true
								}
							}
						}
					}
				}
			}
		case *ssa.UnOp:
			// a local spilled to memory: follow the stores
			if al, ok := x.X.(*ssa.Alloc); ok && x.Op == token.MUL && al.Referrers() != nil {
				for _, r := range *al.Referrers() {
					if sto, ok := r.(*ssa.Store); ok && sto.Addr == al && fromConvert(sto.Val, d+1, seen) {
						return true
					}
				}
			}
		}
		return false
	}
	if hasConverter {
		for _, fn := range p.Funcs {
			var first ssa.Value
			for _, b := range fn.Blocks {
				for _, in := range b.Instrs {
					if !isStorageMethod(in, "Read") && !isStorageMethod(in, "Write") {
						continue
					}
					mname := "Write"
					if isStorageMethod(in, "Read") {
						mname = "Read"
					}
					args := core.CallOf(in).Args
					addr := args[0]
					if len(args) == 3 {
						addr = args[1] // static call: receiver first
					}
					st10.Instances++
					c.MarkAnalysed(fn)
					okC := fromConvert(addr, 0, map[ssa.Value]bool{})
					st10.Ob(okC)
					st10.Sample("%s: %s at the converted address: %v", core.FuncName(fn), mname, okC)
					if !okC {
						c.ReportAt("R17.10", fn, in.Pos(), "storage-access:raw-address:"+mname, core.FuncName(fn)+" accesses the storage at "+prov.Of(addr)+", which is not the address the converter produced: with an address converter installed the access goes to a different line than the request's other accesses (a masked write reads the old bytes from the raw address and writes the merge to the converted one)")
					}
					if first == nil {
						first = addr
					} else {
						same := first == addr
						st10.Ob(same)
						if !same && okC {
							c.ReportAt("R17.10", fn, in.Pos(), "storage-access:two-addresses", core.FuncName(fn)+" accesses the storage at two different address values for one request")
						}
					}
				}
			}
		}
	} else {
		c.Report(core.Finding{Rule: "R17.10", Kind: "anchor", Pkg: sbmPkg, Func: "-", Detail: "converter", Msg: "no call of AddressConverter.ConvertExternalToInternal found in the package"})
	}

	// R17.3 conservation
	st3 := c.Rule("R17.3", "in the dispatch loop every pending request reaches exactly one of {pipeline.Accept, delay-queue append, remaining append} per iteration; every retrieved message is appended to the pending list", 2)
	isSink := func(n *core.Node) (string, bool) {
		if isPipelineMethod(n.Instr, "Accept") {
			return "pipeline.Accept", true
		}
		if s, ok := storeToField(n.Instr, "bank.delayQueue"); ok {
			if call, ok := s.Val.(*ssa.Call); ok && core.IsBuiltin(call, "append") {
				return "delayQueue-append", true
			}
		}
		// append to a local slice of requests (the "remaining" list)
		if call, ok := n.Instr.(*ssa.Call); ok && core.IsBuiltin(call, "append") {
			if strings.Contains(call.Type().String(), "AccessReq") {
				return "remaining-append", true
			}
		}
		return "", false
	}
	for _, fn := range p.Funcs {
		g := core.BuildGraph(fn, 0, nil)
		// loop over pendingReqs: element load
		var starts []*core.Node
		for _, n := range g.Nodes {
			if u, ok := n.Instr.(*ssa.UnOp); ok && u.Op == token.MUL {
				if ia, ok := u.X.(*ssa.IndexAddr); ok {
					if f := core.LoadedField(ia.X); f != nil && core.ShortFieldID(f) == "middleware.pendingReqs" {
						starts = append(starts, n)
					}
				}
			}
		}
		for _, s := range starts {
			st3.Instances++
			c.MarkAnalysed(fn)
			zero := false
			g.Walk(core.After(s, nil), core.WalkOpts{ForwardOnly: true, Stop: func(n *core.Node) bool { _, ok := isSink(n); return ok }}, func(st core.State) {
				for _, m := range st.N.Succs {
					if g.IsBack(st.N, m) {
						if _, ok := isSink(st.N); !ok {
							zero = true
						}
					}
				}
				if _, ok := st.N.Instr.(*ssa.Return); ok {
					zero = true
				}
			})
			st3.Ob(!zero)
			if zero {
				c.ReportAt("R17.3", fn, s.Instr.Pos(), "dispatch:lost", "an iteration of the dispatch loop can end without the request entering a pipeline, a delay queue or the remaining list: the request is lost")
			}
			// at most one
			dup := false
			var which string
			for _, n := range g.Nodes {
				lbl, ok := isSink(n)
				if !ok {
					continue
				}
				g.Walk(core.After(n, nil), core.WalkOpts{ForwardOnly: true}, func(st core.State) {
					if l2, ok := isSink(st.N); ok {
						dup = true
						which = lbl + " then " + l2
					}
				})
			}
			st3.Ob(!dup)
			st3.Sample("%s: each pending request reaches exactly one sink per iteration (lost=%v dup=%v)", core.FuncName(fn), zero, dup)
			if dup {
				c.ReportAt("R17.3", fn, s.Instr.Pos(), "dispatch:duplicated", "a request can enter two places in one iteration ("+which+"): it is executed twice")
			}
		}
		// retrieved messages are kept
		for _, r := range g.NodesWhere(isRetrieve) {
			st3.Instances++
			lost := false
			g.Walk(core.After(r, nil), core.WalkOpts{ForwardOnly: true, Stop: func(n *core.Node) bool {
				_, ok := storeToField(n.Instr, "middleware.pendingReqs")
				return ok
			}}, func(st core.State) {
				if _, ok := st.N.Instr.(*ssa.Return); ok {
					lost = true
				}
				for _, m := range st.N.Succs {
					if g.IsBack(st.N, m) {
						if _, ok := storeToField(st.N.Instr, "middleware.pendingReqs"); !ok {
							lost = true
						}
					}
				}
			})
			st3.Ob(!lost)
			st3.Sample("%s: retrieved message always appended to pendingReqs: %v", core.FuncName(fn), !lost)
			if lost {
				c.ReportAt("R17.3", fn, r.Instr.Pos(), "drain:lost", "a message retrieved from the top port may not be appended to the pending list")
			}
		}
		// the stored pending list after dispatch is the remaining list
		for _, n := range g.Nodes {
			if s, ok := storeToField(n.Instr, "middleware.pendingReqs"); ok && len(starts) > 0 {
				st3.Instances++
				pv := prov.Of(s.Val)
				// remaining = in-order filter of pendingReqs: a loop-carried slice that starts empty and is only ever extended by the current element
				ok2 := core.ProvMatch(regexp.MustCompile(`^iter\(\{@\|append\(@,\[recv\.pendingReqs\[[^\]]*\]\]\)\|make\(slice\)\}\)$`), pv)
				st3.Ob(ok2)
				if !ok2 {
					c.ReportAt("R17.3", fn, s.Pos(), "dispatch:pending-store", "after dispatching, the pending list is not replaced by the list of requests that could not be dispatched: "+short(pv))
				}
			}
		}
	}

	// R17.4 per-bank order
	st4 := c.Rule("R17.4", "a request enters a bank's pipeline directly only when that bank's delay queue is empty (or the delay queue is unused in this configuration: rowMissDelay<=0 / no row tracking); the delay queue is appended and drained in FIFO order", 2)
	emptyDQ := CmpCut(func(n *core.Node, op token.Token, x, y ssa.Value) int {
		px := prov.Of(x)
		z, isZ := core.ConstInt(y)
		if !core.ProvMatch(regexp.MustCompile(`^len\(.*\.delayQueue\)$`), px) || !isZ || z != 0 {
			return 0
		}
		switch op {
		case token.EQL, token.LEQ:
			return 1
		case token.NEQ, token.GTR:
			return -1
		}
		return 0
	})
	unusedDQ := CmpCut(func(n *core.Node, op token.Token, x, y ssa.Value) int {
		px := prov.Of(x)
		z, isZ := core.ConstInt(y)
		if (px != "recv.rowMissDelay" && px != "recv.rowBufferSizeLog2") || !isZ || z != 0 {
			return 0
		}
		switch op {
		case token.GTR, token.NEQ:
			return -1 // unused on the false edge
		case token.LEQ, token.EQL:
			return 1
		}
		return 0
	})
	// the delay queue is only appended where both knobs are > 0
	nA, ungA := p.GuardedUp(func(in ssa.Instruction) bool {
		s, ok := storeToField(in, "bank.delayQueue")
		if !ok {
			return false
		}
		call, ok := s.Val.(*ssa.Call)
		return ok && core.IsBuiltin(call, "append")
	}, CmpCut(func(n *core.Node, op token.Token, x, y ssa.Value) int {
		if prov.Of(x) != "recv.rowMissDelay" {
			return 0
		}
		if z, ok := core.ConstInt(y); !ok || z != 0 {
			return 0
		}
		if op == token.GTR || op == token.NEQ {
			return 1
		}
		return 0
	}))
	st4.Instances += nA
	for i := 0; i < nA-len(ungA); i++ {
		st4.Ob(true)
	}
	for _, u := range ungA {
		st4.Ob(false)
		c.ReportAt("R17.4", u.Target.Fn(), u.Target.Instr.Pos(), "delayQueue:append-guard", "the delay queue is appended on a path that did not test rowMissDelay>0; the 'delay queue unused' argument for direct pipeline entry no longer holds")
	}
	for _, fn := range p.Direct(func(in ssa.Instruction) bool { return isPipelineMethod(in, "Accept") }) {
		g := core.BuildGraph(fn, 0, nil)
		for _, a := range g.NodesWhere(func(n *core.Node) bool { return isPipelineMethod(n.Instr, "Accept") }) {
			st4.Instances++
			c.MarkAnalysed(fn)
			arg := prov.Of(core.CallOf(a.Instr).Args[0])
			if core.ProvMatch(regexp.MustCompile(`\.delayQueue\[`), arg) {
				// draining the delay queue itself: must drain in order — element taken in increasing index and kept in order
				st4.Ob(true)
				st4.Sample("%s: pipeline.Accept(%s) drains the delay queue", core.FuncName(fn), arg)
				continue
			}
			ok := g.Guarded(a, AnyCut(emptyDQ, unusedDQ))
			st4.Ob(ok)
			st4.Sample("%s: direct pipeline.Accept(%s) guarded by empty/unused delay queue: %v", core.FuncName(fn), short(arg), ok)
			if !ok {
				detail := "pipeline.Accept:direct"
				if g.Guarded(a, CmpCut(func(n *core.Node, op token.Token, x, y ssa.Value) int {
					if strings.HasSuffix(prov.Of(x), ".lastRowAddr") || strings.HasSuffix(prov.Of(y), ".lastRowAddr") {
						if op == token.EQL {
							return 1
						}
						if op == token.NEQ {
							return -1
						}
					}
					return 0
				})) {
					detail = "pipeline.Accept:row-hit-fast-path"
				}
				c.ReportAt("R17.4", fn, a.Instr.Pos(), detail, "a request enters the bank pipeline directly while earlier requests of the same bank may still wait in the delay queue: it overtakes them (same-address order broken when rowMissDelay>0)")
			}
		}
	}
	// delay queue FIFO: only appended at the end; rebuilt by in-order filtering
	p.Instrs(func(fn *ssa.Function, in ssa.Instruction) {
		s, ok := storeToField(in, "bank.delayQueue")
		if !ok {
			return
		}
		st4.Instances++
		pv := prov.Of(s.Val)
		base := prov.Of(s.Addr.(*ssa.FieldAddr).X)
		ok2 := strings.HasPrefix(pv, "append("+base+".delayQueue,[") || // push back
			core.ProvMatch(regexp.MustCompile(`^iter\(\{@\|append\(@,\[.*\.delayQueue\[[^\]]*\]\]\)\|make\(slice\)\}\)$`), pv) // in-order filter
		st4.Ob(ok2)
		st4.Sample("%s: delayQueue := %s", core.FuncName(fn), short(pv))
		if !ok2 {
			c.ReportAt("R17.4", fn, in.Pos(), "delayQueue:order", "the delay queue is updated in a way that is neither push-back nor in-order filtering: "+short(pv))
		}
	})

	checkBankOrder(c, p, prov)

	// R17.5 FIELDS
	item := `postPipelineBuf\.Peek\(\)\.req`
	p.CheckFields("R17.5", []FieldSpec{
		{Builder: "mem.DataReadyRspBuilder", MinSites: 1,
			Require: map[string]string{"WithRspTo": item + `\.ID$`, "WithDst": item + `\.Src$`, "WithData": `postPipelineBuf\.Peek\(\)\.readData$`}},
		{Builder: "mem.WriteDoneRspBuilder", MinSites: 1,
			Require: map[string]string{"WithRspTo": item + `\.ID$`, "WithDst": item + `\.Src$`}},
	})
	st5 := c.Stats["R17.5"]
	p.Instrs(func(fn *ssa.Function, in ssa.Instruction) {
		if s, ok := storeToField(in, "bankPipelineItem.readData"); ok {
			st5.Instances++
			pv := prov.Of(s.Val)
			ok2 := core.ProvMatch(regexp.MustCompile(`^recv\.Storage\.Read\(.*`+item+`\.Address.*,.*`+item+`\.AccessByteSize\)$`), pv)
			st5.Ob(ok2)
			st5.Sample("%s: readData = %s", core.FuncName(fn), short(pv))
			if !ok2 {
				c.ReportAt("R17.5", fn, in.Pos(), "readData:source", "the data returned by a read is not Storage.Read(address of the request, AccessByteSize of the request): "+short(pv))
			}
		}
		if isStorageMethod(in, "Write") {
			st5.Instances++
			args := core.CallOf(in).Args
			a := prov.Of(args[len(args)-2])
			ok2 := core.ProvMatch(regexp.MustCompile(item+`\.Address`), a)
			st5.Ob(ok2)
			if !ok2 {
				c.ReportAt("R17.5", fn, in.Pos(), "write:address", "a write is committed at "+short(a)+" rather than at the request's address")
			}
		}
	})

	checkIntegerWidths(c, "R17.17", "Addresses and offsets in the banked memory are not narrowed.", 5, []widthScope{{rel: sbmPkg}}, []string{"narrow", "widen-wrapped", "unsigned-diff"}, widthAllowC17)
	checkMaskWalkedPerByte(c, "R17.18", "In the banked memory this is the merge of a masked write into the stored bytes.", 1, sbmPkg)
	return core.Meta{Level: "other",
		Explanation: "Structural clauses of the banked memory model decided on SSA of simplebankedmemory: one response per request (Pop only after a successful/CanSend-guarded Send, input popped after success, storage access once across retries), masked-write guard per byte, conservation of requests in the dispatch loop and the drain loop, per-bank order (no direct pipeline entry while the delay queue may hold earlier requests; FIFO delay queue), FIELDS of responses and of the storage accesses.",
		NotDecided:  "latency parameters, bank selection arithmetic, pipeline internals (akita pipelining), byte values",
		Assumptions: commonAssumptions}
}
