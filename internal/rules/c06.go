package rules

import (
	"fmt"
	"go/constant"
	"go/token"
	"go/types"
	"sort"
	"strings"

	"golang.org/x/tools/go/ssa"

	"verif/internal/core"
)

const emuPkg = "amd/emu"
const cdna3Pkg = "amd/emu/cdna3"

func init() { register("C06", runC06) }

// ---- lane engine ---------------------------------------------------------------------

type laneLoop struct {
	header *ssa.BasicBlock
	iv     *ssa.Phi
	bound  int64
	okForm bool
	why    string
}

type laneFn struct {
	fn    *ssa.Function
	state ssa.Value // the InstEmuState parameter
	loops map[*ssa.Phi]*laneLoop
}

func isStateIface(t types.Type) bool {
	n, ok := t.(*types.Named)
	return ok && n.Obj().Name() == "InstEmuState" && n.Obj().Pkg() != nil && strings.HasSuffix(n.Obj().Pkg().Path(), "/amd/emu")
}

// stateMethod: invoke of an InstEmuState method; returns its name.
func stateMethod(in ssa.Instruction) (string, *ssa.CallCommon) {
	cc := core.CallOf(in)
	if cc == nil || !cc.IsInvoke() {
		return "", nil
	}
	if !isStateIface(cc.Value.Type()) {
		return "", nil
	}
	return cc.Method.Name(), cc
}

// ivOf: strip integer conversions; if the value is a loop induction phi return it.
func ivOf(v ssa.Value) *ssa.Phi {
	v = core.StripConv(v)
	p, _ := v.(*ssa.Phi)
	return p
}

// analyseLoop recognises `for i := 0; i < N; i++`.
func analyseLoop(phi *ssa.Phi) *laneLoop {
	l := &laneLoop{header: phi.Block(), iv: phi}
	if len(phi.Edges) != 2 {
		l.why = "induction variable has more than two definitions"
		return l
	}
	var init, step ssa.Value
	for _, e := range phi.Edges {
		if bo, ok := e.(*ssa.BinOp); ok && bo.Op == token.ADD && bo.X == ssa.Value(phi) {
			step = bo.Y
		} else {
			init = e
		}
	}
	iz, ok1 := core.ConstInt(init)
	sz, ok2 := core.ConstInt(step)
	if !ok1 || !ok2 || iz != 0 || sz != 1 {
		l.why = fmt.Sprintf("lane loop does not start at 0 and step by 1 (init=%v step=%v)", init, step)
		return l
	}
	ifi, ok := phi.Block().Instrs[len(phi.Block().Instrs)-1].(*ssa.If)
	if !ok {
		l.why = "no exit test at the loop header"
		return l
	}
	c, ok := ifi.Cond.(*ssa.BinOp)
	if !ok || c.Op != token.LSS || core.StripConv(c.X) != ssa.Value(phi) {
		l.why = "exit test is not i < N"
		return l
	}
	n, ok := core.ConstInt(c.Y)
	if !ok {
		l.why = "loop bound is not constant"
		return l
	}
	l.bound = n
	l.okForm = true
	return l
}

func inLoop(l *laneLoop, b *ssa.BasicBlock) bool {
	if !l.header.Dominates(b) {
		return false
	}
	// the loop body is the true successor of the header test
	body := l.header.Succs[0]
	return body.Dominates(b) || b == l.header
}

// execBitTest: does `cond` (on the given truth value) establish that lane
// phi's EXEC bit is set? exec must be the result of state.EXEC().
// Returns +1 if cond true implies bit set, -1 if cond false implies bit set, 0 otherwise.
// maskSrc reports which mask register the test reads ("EXEC", "VCC", ...).
func laneBitTest(cond ssa.Value, phi *ssa.Phi) (int, string) {
	neg := false
	for {
		u, ok := cond.(*ssa.UnOp)
		if !ok || u.Op != token.NOT {
			break
		}
		neg = !neg
		cond = u.X
	}
	res := 0
	src := ""
	switch c := cond.(type) {
	case *ssa.BinOp:
		z, isZ := core.ConstInt(c.Y)
		if !isZ || z != 0 {
			return 0, ""
		}
		and, ok := c.X.(*ssa.BinOp)
		if !ok || and.Op != token.AND {
			return 0, ""
		}
		m, bit := and.X, and.Y
		if !isLaneBit(bit, phi) {
			m, bit = and.Y, and.X
		}
		if !isLaneBit(bit, phi) {
			return 0, ""
		}
		src = maskSource(m)
		switch c.Op {
		case token.NEQ, token.GTR:
			res = 1
		case token.EQL:
			res = -1
		default:
			return 0, ""
		}
	case *ssa.Call:
		cal := c.Call.StaticCallee()
		if cal == nil || (cal.Name() != "laneMasked" && cal.Name() != "LaneMasked") || len(c.Call.Args) != 2 {
			return 0, ""
		}
		if ivOf(c.Call.Args[1]) != phi {
			return 0, ""
		}
		src = maskSource(c.Call.Args[0])
		res = 1
	default:
		return 0, ""
	}
	if neg {
		res = -res
	}
	return res, src
}

// isLaneBit: 1 << i
func isLaneBit(v ssa.Value, phi *ssa.Phi) bool {
	v = core.StripConv(v)
	sh, ok := v.(*ssa.BinOp)
	if !ok || sh.Op != token.SHL {
		return false
	}
	one, isC := core.ConstInt(sh.X)
	return isC && one == 1 && ivOf(sh.Y) == phi
}

// maskSource: which state register does the mask value come from.
func maskSource(v ssa.Value) string {
	v = core.StripConv(v)
	if in, ok := v.(ssa.Instruction); ok {
		if name, _ := stateMethod(in); name != "" {
			return name
		}
	}
	if p, ok := v.(*ssa.Phi); ok {
		// a mask selected among several sources (e.g. SDWA / VOP3 variants)
		set := map[string]bool{}
		for _, e := range p.Edges {
			set[maskSource(e)] = true
		}
		var ks []string
		for k := range set {
			ks = append(ks, k)
		}
		sort.Strings(ks)
		return strings.Join(ks, "|")
	}
	return "?"
}

// execGuarded: the block is dominated by an edge on which lane phi's EXEC bit is set.
func execGuarded(b *ssa.BasicBlock, phi *ssa.Phi) (bool, string) {
	other := ""
	for d := b; d != nil; d = d.Idom() {
		idom := d.Idom()
		if idom == nil {
			break
		}
		ifi, ok := idom.Instrs[len(idom.Instrs)-1].(*ssa.If)
		if !ok {
			continue
		}
		pol, src := laneBitTest(ifi.Cond, phi)
		if pol == 0 {
			continue
		}
		var succ *ssa.BasicBlock
		if pol > 0 {
			succ = idom.Succs[0]
		} else {
			succ = idom.Succs[1]
		}
		if core.EdgeDominates(idom, succ, b) {
			if src == "EXEC" {
				return true, ""
			}
			other = src
		} else {
			// the opposite edge dominates: inverted polarity
			var opp *ssa.BasicBlock
			if pol > 0 {
				opp = idom.Succs[1]
			} else {
				opp = idom.Succs[0]
			}
			if src == "EXEC" && core.EdgeDominates(idom, opp, b) {
				return false, "the effect sits on the branch taken when the lane's EXEC bit is CLEAR (inverted guard)"
			}
		}
	}
	if other != "" {
		return false, "the lane test reads " + other + "(), not EXEC()"
	}
	return false, "no dominating test of the lane's EXEC bit"
}

type laneEffect struct {
	in    ssa.Instruction
	kind  string // write | read | mem | lds
	lane  ssa.Value
	label string
}

func ldsDerived(v ssa.Value, depth int) bool {
	if depth > 6 || v == nil {
		return false
	}
	switch v := v.(type) {
	case *ssa.Call:
		if f := core.CalleeFunc(v); f != nil && f.Name() == "LDS" {
			return true
		}
	case *ssa.Slice:
		return ldsDerived(v.X, depth+1)
	case *ssa.IndexAddr:
		return ldsDerived(v.X, depth+1)
	case *ssa.UnOp:
		if f := core.LoadedField(v); f != nil && strings.EqualFold(f.Name(), "lds") {
			return true
		}
	case *ssa.Phi:
		for _, e := range v.Edges {
			if ldsDerived(e, depth+1) {
				return true
			}
		}
	}
	return false
}

func collectEffects(fn *ssa.Function) []laneEffect {
	var out []laneEffect
	for _, b := range fn.Blocks {
		for _, in := range b.Instrs {
			if name, cc := stateMethod(in); name != "" {
				switch name {
				case "WriteOperand", "WriteOperandBytes":
					out = append(out, laneEffect{in: in, kind: "write", lane: cc.Args[1], label: name})
				case "ReadOperand", "ReadOperandBytes":
					out = append(out, laneEffect{in: in, kind: "read", lane: cc.Args[1], label: name})
				}
				continue
			}
			if cc := core.CallOf(in); cc != nil && cc.IsInvoke() {
				if n, ok := cc.Value.Type().(*types.Named); ok && n.Obj().Name() == "StorageAccessor" && (cc.Method.Name() == "Read" || cc.Method.Name() == "Write") {
					out = append(out, laneEffect{in: in, kind: "mem", label: "StorageAccessor." + cc.Method.Name()})
				}
			}
			// LDS accesses: copy(lds[..], x) / copy(x, lds[..]) / loads and stores through lds-derived addresses
			if core.IsBuiltin(in, "copy") {
				a := core.CallOf(in).Args
				if ldsDerived(a[0], 0) {
					out = append(out, laneEffect{in: in, kind: "lds", label: "LDS write (copy)"})
				} else if ldsDerived(a[1], 0) {
					out = append(out, laneEffect{in: in, kind: "lds", label: "LDS read (copy)"})
				}
			}
			if s, ok := in.(*ssa.Store); ok && ldsDerived(s.Addr, 0) {
				out = append(out, laneEffect{in: in, kind: "lds", label: "LDS write"})
			}
			if u, ok := in.(*ssa.UnOp); ok && u.Op == token.MUL && ldsDerived(u.X, 0) {
				if _, isField := u.X.(*ssa.FieldAddr); !isField {
					out = append(out, laneEffect{in: in, kind: "lds", label: "LDS read"})
				}
			}
			// binary.LittleEndian.UintN(lds[...]) / PutUintN(lds[...], v)
			if cc := core.CallOf(in); cc != nil && !cc.IsInvoke() {
				if cal := cc.StaticCallee(); cal != nil && cal.Pkg != nil && cal.Pkg.Pkg.Path() == "encoding/binary" {
					for _, a := range cc.Args {
						if ldsDerived(a, 0) {
							out = append(out, laneEffect{in: in, kind: "lds", label: "LDS access (" + cal.Name() + ")"})
						}
					}
				}
			}
		}
	}
	return out
}

// documented cross-lane instructions: function name -> reason
var crossLaneExceptions = map[string]string{
	"ALUImpl.runVREADFIRSTLANEB32": "v_readfirstlane_b32 is the documented cross-lane instruction: it copies the first active lane into a scalar register",
	"ALU.runVREADFIRSTLANEB32":     "v_readfirstlane_b32 (CDNA3 ALU), same documented exception",
}

func runC06(c *core.Ctx) core.Meta {
	c.Load(emuPkg, cdna3Pkg, kernelsPkg, cuPkg)
	c.BuildSSA()
	prov := core.NewProv(c)
	stLoop := c.Rule("R06.loop", "every loop whose induction variable is used as a lane index starts at 0, steps by 1 and runs while i < 64", 300)
	stGuard := c.Rule("R06.guard", "every lane-indexed write, storage access and LDS access inside a lane loop uses the loop's own lane index and is dominated by the edge on which that lane's bit of state.EXEC() is set (both `== 0 {continue}` and `!= 0 {…}` spellings and laneMasked(exec,i); inverted tests and tests of another mask are rejected)", 230)
	stRead := c.Rule("R06.flow", "every operand read inside a lane loop reads the loop's own lane; VCC/EXEC/SCC values are used only through lane i's own bit; no value carried from another iteration reaches a lane-indexed write", 600)
	stUni := c.Rule("R06.uniform", "writes to a scalar destination (lane constant, SetVCC, SetEXEC, SetSCC) happen outside every lane loop with a lane-mask accumulator, or in a listed documented cross-lane instruction", 60)
	stIdx := c.Rule("R06.index", "inside a lane loop the lane index is used only to select the lane (lane argument of operand accessors and helpers, bit position of a mask, index of a per-lane array); it never enters the arithmetic that produces the value written to the lane", 230)
	stHoist := c.Rule("R06.hoist", "a vector handler (a function with a lane loop) reads an operand outside the loop, at a fixed lane, only if the operand can never be a vector register: for every format whose dispatcher reaches the handler (FormatType dispatch of the ALU's Run resolved per format), every store to that operand field in the format's decoder (FormatType dispatch of Disassembler.Decode) stores a freshly built non-register operand (the literal K of v_madak / v_fmaak / v_fmamk). An operand filled from an operand code (getOperand) or a register constructor may be a VGPR with a different value per lane", 3)
	checkScratchPerLane(c, "R06.scratch", []string{emuPkg, cdna3Pkg})
	checkLaneLoopExits(c, []string{emuPkg, cdna3Pkg})
	{
		// the initial lanes: which work-item the grid builder puts into which lane, the EXEC bit it
		// sets for it, and the first flat id both register initialisations count lanes from
		lp := core.NewLocalProv(c)
		lp.InlinePure = true
		checkWavefrontFormation(c, lp, "R06.form")
	}
	decArms := formatArms(c, c.SSAFunc(instsPkg, "Disassembler.Decode"))
	aluArms := map[string]map[string]map[*ssa.Function]bool{}
	for _, a := range [][2]string{{emuPkg, "ALUImpl.Run"}, {cdna3Pkg, "ALU.Run"}} {
		aluArms[a[0]] = formatArms(c, c.SSAFunc(a[0], a[1]))
	}
	regOperandConst := int64(-1)
	if k, ok := c.SSAPkg(instsPkg).Pkg.Scope().Lookup("RegOperand").(*types.Const); ok {
		regOperandConst, _ = constant.Int64Val(k.Val())
	}
	// hoistable: may the operand (a load of Inst.<field>) be read once for all lanes in fn?
	hoistable := func(fn *ssa.Function, operand ssa.Value) (bool, string) {
		ld, ok := operand.(*ssa.UnOp)
		if !ok {
			return false, "the operand is not a field of the instruction"
		}
		fa, ok := ld.X.(*ssa.FieldAddr)
		if !ok {
			return false, "the operand is not a field of the instruction"
		}
		field := fieldNameOf(fa)
		var formats []string
		for _, arms := range aluArms {
			for f, set := range arms {
				if set[fn] {
					formats = append(formats, f)
				}
			}
		}
		sort.Strings(formats)
		if len(formats) == 0 {
			return false, "no format dispatcher reaches the handler"
		}
		for _, f := range formats {
			stores, regs := 0, 0
			for dfn := range decArms[f] {
				for _, b := range dfn.Blocks {
					for _, in := range b.Instrs {
						st, ok := in.(*ssa.Store)
						if !ok {
							continue
						}
						sf := core.FieldOfAddr(st.Addr)
						if sf == nil || core.ShortFieldID(sf) != "Inst."+field {
							continue
						}
						stores++
						al, isAlloc := st.Val.(*ssa.Alloc)
						nonReg := false
						if isAlloc {
							if refs := al.Referrers(); refs != nil {
								for _, r := range *refs {
									if fa2, ok := r.(*ssa.FieldAddr); ok && fieldNameOf(fa2) == "OperandType" {
										if r2 := fa2.Referrers(); r2 != nil {
											for _, x := range *r2 {
												if s2, ok := x.(*ssa.Store); ok {
													if k, isC := core.ConstInt(s2.Val); isC && k != regOperandConst {
														nonReg = true
													}
												}
											}
										}
									}
								}
							}
						}
						if !nonReg {
							regs++
						}
					}
				}
			}
			if stores == 0 || regs > 0 {
				return false, fmt.Sprintf("the decoder of format %s fills Inst.%s from an operand code or a register constructor in %d of %d places, so it may be a vector register", f, field, regs, stores)
			}
		}
		return true, fmt.Sprintf("Inst.%s is a decoder-built constant in format(s) %s", field, strings.Join(formats, ", "))
	}
	stScalar := c.Rule("R06.scalar", "scalar handlers (reachable from the SOP*/SMEM dispatchers) do not read EXEC() unless the instruction is an EXEC-reading scalar instruction", 100)

	excUsed := map[string]bool{}
	for _, rel := range []string{emuPkg, cdna3Pkg} {
		for _, fn := range c.SrcFuncs(rel) {
			var state ssa.Value
			for _, p := range fn.Params {
				if isStateIface(p.Type()) {
					state = p
				}
			}
			if state == nil {
				continue
			}
			effects := collectEffects(fn)
			if len(effects) == 0 {
				continue
			}
			c.MarkAnalysed(fn)
			name := core.FuncName(fn)
			_, isExc := crossLaneExceptions[name]
			if isExc {
				// documented cross-lane instruction: by definition not lane-independent
				excUsed[name] = true
				continue
			}
			loops := map[*ssa.Phi]*laneLoop{}
			getLoop := func(phi *ssa.Phi) *laneLoop {
				if l, ok := loops[phi]; ok {
					return l
				}
				l := analyseLoop(phi)
				loops[phi] = l
				return l
			}
			// lane loops of this function: loops whose iv is used as a lane index
			for _, e := range effects {
				if e.lane == nil {
					continue
				}
				if phi := ivOf(e.lane); phi != nil {
					getLoop(phi)
				}
			}
			for _, phi := range sortedPhis(loops) {
				l := loops[phi]
				stLoop.Instances++
				ok := l.okForm && l.bound == 64
				stLoop.Ob(ok)
				if !ok {
					why := l.why
					if l.okForm {
						why = fmt.Sprintf("the lane loop runs to %d instead of 64: lanes are skipped (or out-of-range lanes touched)", l.bound)
					}
					c.ReportAt("R06.loop", fn, phi.Pos(), "lane-loop", why)
				} else {
					stLoop.Sample("%s: lane loop 0..63", name)
				}
			}
			// innermost lane loop containing a block
			loopOf := func(b *ssa.BasicBlock) *laneLoop {
				var best *laneLoop
				for _, l := range loops {
					if l.okForm && inLoop(l, b) {
						if best == nil || best.header.Dominates(l.header) {
							best = l
						}
					}
				}
				return best
			}
			for _, e := range effects {
				blk := e.in.Block()
				l := loopOf(blk)
				switch e.kind {
				case "read":
					stRead.Instances++
					phi := ivOf(e.lane)
					switch {
					case l != nil && phi == l.iv:
						stRead.Ob(true)
						stRead.Sample("%s: %s(·, i) reads the loop's own lane", name, e.label)
					case l != nil && phi != l.iv:
						if isExc {
							excUsed[name] = true
							stRead.Ob(true)
							continue
						}
						stRead.Ob(false)
						c.ReportAt("R06.flow", fn, e.in.Pos(), "read-lane:"+e.label, "inside the lane loop an operand is read at lane "+prov.Of(e.lane)+" instead of the loop's lane: lane i's result depends on another lane")
					default:
						// outside any lane loop: only a uniform read at a constant lane of a scalar/literal operand
						if _, isC := core.ConstInt(core.StripConv(e.lane)); isC {
							// a handler with a lane loop may read an operand once, at a fixed lane, only if the
							// decoder of the handler's format can never put a vector register into that operand
							okH, why := true, ""
							if len(loops) > 0 {
								okH, why = hoistable(fn, core.CallOf(e.in).Args[len(core.CallOf(e.in).Args)-2])
								stHoist.Instances++
								stHoist.Ob(okH)
								if okH {
									stHoist.Sample("%s: operand read once outside the lane loop: %s", name, why)
								}
							}
							stRead.Ob(okH)
							if !okH {
								c.ReportAt("R06.hoist", fn, e.in.Pos(), "read-hoisted:"+e.label, "an operand is read once, at lane "+prov.Of(e.lane)+", outside the lane loop of "+name+", but "+why+": every lane then computes with that lane's value (also when that lane is disabled by EXEC) instead of its own")
							}
						} else if p2 := ivOf(e.lane); p2 != nil && loops[p2] != nil && !loops[p2].okForm {
							stRead.Ob(true) // judged by R06.loop
						} else if _, isParam := core.StripConv(e.lane).(*ssa.Parameter); isParam {
							stRead.Ob(true) // helper: lane supplied by the caller, checked at the call site
						} else {
							stRead.Ob(false)
							c.ReportAt("R06.flow", fn, e.in.Pos(), "read-lane-outside:"+e.label, "operand read at computed lane "+prov.Of(e.lane)+" outside a lane loop")
						}
					}
				case "write":
					phi := ivOf(e.lane)
					if l == nil || phi == nil || phi != l.iv {
						// scalar destination write
						stUni.Instances++
						_, isC := core.ConstInt(core.StripConv(e.lane))
						_, isParam := core.StripConv(e.lane).(*ssa.Parameter)
						switch {
						case l == nil && (isC || isParam):
							stUni.Ob(true)
							stUni.Sample("%s: scalar destination written outside the lane loop", name)
						case isExc:
							excUsed[name] = true
							stUni.Ob(true)
						default:
							stUni.Ob(false)
							c.ReportAt("R06.uniform", fn, e.in.Pos(), "scalar-write-in-loop:"+e.label, "a destination is written at lane "+prov.Of(e.lane)+" inside a lane loop: the result is the last active lane's value, a cross-lane dependence (only documented cross-lane instructions may do this)")
						}
						continue
					}
					stGuard.Instances++
					ok, why := execGuarded(blk, l.iv)
					stGuard.Ob(ok)
					if ok {
						stGuard.Sample("%s: %s(·, i, ·) guarded by EXEC bit i", name, e.label)
					} else {
						c.ReportAt("R06.guard", fn, e.in.Pos(), "write:"+e.label, "lane write not protected by the lane's EXEC bit: "+why)
					}
					// flow: no loop-carried value in the written value
					stRead.Instances++
					cc := core.CallOf(e.in)
					if bad := loopCarried(cc.Args[len(cc.Args)-1], l, map[ssa.Value]bool{}, 0); bad != nil {
						stRead.Ob(false)
						c.ReportAt("R06.flow", fn, e.in.Pos(), "loop-carried:"+e.label, "the value written to lane i depends on "+prov.Of(bad)+", which is carried over from earlier iterations (other lanes)")
					} else {
						stRead.Ob(true)
					}
					// the lane index selects the lane; it is not an input of lane i's result
					stIdx.Instances++
					if bad := laneAsData(cc.Args[len(cc.Args)-1], l, map[ssa.Value]bool{}, 0); bad != nil {
						stIdx.Ob(false)
						c.ReportAt("R06.index", fn, e.in.Pos(), "lane-index-as-data:"+e.label, "the value written to lane i is computed from the lane index itself ("+core.InstrString(bad.(ssa.Instruction))+"): permuting the lanes does not permute the results (only documented cross-lane instructions may use the lane number as data)")
					} else {
						stIdx.Ob(true)
					}
				case "mem", "lds":
					if l == nil {
						// helpers without a loop are checked at their call sites (inlined view not needed: they receive the lane)
						continue
					}
					stGuard.Instances++
					ok, why := execGuarded(blk, l.iv)
					stGuard.Ob(ok)
					if ok {
						stGuard.Sample("%s: %s guarded by EXEC bit i", name, e.label)
					} else {
						c.ReportAt("R06.guard", fn, e.in.Pos(), "access:"+e.label, e.label+" inside a lane loop is not protected by the lane's EXEC bit: "+why)
					}
				}
			}
			// mask register uses inside lane loops and scalar writes of masks
			for _, b := range fn.Blocks {
				for _, in := range b.Instrs {
					mname, cc := stateMethod(in)
					switch mname {
					case "SetVCC", "SetEXEC", "SetSCC":
						stUni.Instances++
						l := loopOf(b)
						if l != nil && !isExc {
							stUni.Ob(false)
							c.ReportAt("R06.uniform", fn, in.Pos(), mname+"-in-loop", mname+" is called inside a lane loop: the register ends up with the last lane's value")
							continue
						}
						// accumulator check: every loop-carried term must be OR-ed lane bits
						v := cc.Args[0]
						if mname != "SetSCC" {
							if bad := badAccumulator(v, loops, map[ssa.Value]bool{}, 0); bad != "" {
								stUni.Ob(false)
								c.ReportAt("R06.uniform", fn, in.Pos(), mname+":accumulator", mname+" receives "+short(prov.Of(v))+": "+bad)
								continue
							}
						}
						stUni.Ob(true)
						stUni.Sample("%s: %s(mask accumulator) after the lane loop", name, mname)
					case "VCC", "EXEC", "SCC":
						val := in.(ssa.Value)
						refs := val.Referrers()
						if refs == nil {
							continue
						}
						for _, r := range *refs {
							rb := r.Block()
							l := loopOf(rb)
							if l == nil {
								continue
							}
							stRead.Instances++
							if cv, isCv := r.(*ssa.Convert); isCv && mname != "SCC" {
								if bt, isB := cv.Type().Underlying().(*types.Basic); isB && bt.Info()&types.IsInteger != 0 && c.Sizeof(cv.Type()) < 8 {
									stRead.Ob(false)
									c.ReportAt("R06.flow", fn, r.Pos(), mname+"-narrowed", "inside the lane loop the 64-lane mask "+mname+"() is converted to "+cv.Type().String()+" before lane i's bit is taken: lanes 32..63 always read 0, so what a lane computes depends on its number")
									continue
								}
							}
							ok := laneBitUse(r, val, l.iv)
							if ph, isPhi := r.(*ssa.Phi); isPhi && ph.Block() == l.header && validAccumulator(ph, l) {
								ok = true // seeds a lane-mask accumulator (each lane updates only its own bit)
							}
							if ok {
								// x & (1 << i) is 0 or 1<<i: testing it against any other constant singles out lane 0
								if bad := laneBitBadCompare(r); bad != nil {
									stRead.Instances++
									stRead.Ob(false)
									c.ReportAt("R06.flow", fn, bad.Pos(), mname+"-bit-compared-with-constant", "lane i's bit of "+mname+"() is isolated as mask & (1<<i), whose value is 0 or 1<<i, and then compared with a non-zero constant ("+core.InstrString(bad)+"): the test can only succeed for lane 0, so lanes are not treated alike")
								}
							}
							stRead.Ob(ok)
							if !ok {
								c.ReportAt("R06.flow", fn, r.Pos(), mname+"-use", "inside the lane loop "+mname+"() is used other than through lane i's own bit ("+core.InstrString(r)+"): lane i's result depends on other lanes' bits")
							}
						}
					}
				}
			}
		}
	}
	// lane-parametric helpers: a helper that reads / writes operands at a lane given by one of
	// its parameters must be called, inside a lane loop, with that loop's own lane
	stHelp := c.Rule("R06.helper", "helpers that access operands at a lane passed as a parameter (address helpers, SDWA/modifier helpers) are called inside lane loops with the loop's own lane index", 10)
	for _, rel := range []string{emuPkg, cdna3Pkg} {
		laneParam := map[*ssa.Function]int{}
		for _, fn := range c.SrcFuncs(rel) {
			for _, e := range collectEffects(fn) {
				if e.lane == nil {
					continue
				}
				if prm, ok := core.StripConv(e.lane).(*ssa.Parameter); ok {
					for i, q := range fn.Params {
						if q == prm {
							laneParam[fn] = i
						}
					}
				}
			}
		}
		for _, fn := range c.SrcFuncs(rel) {
			if _, isExc := crossLaneExceptions[core.FuncName(fn)]; isExc {
				continue
			}
			for _, b := range fn.Blocks {
				for _, in := range b.Instrs {
					call, ok := in.(*ssa.Call)
					if !ok || call.Call.StaticCallee() == nil {
						continue
					}
					idx, isHelper := laneParam[call.Call.StaticCallee()]
					if !isHelper || idx >= len(call.Call.Args) {
						continue
					}
					arg := call.Call.Args[idx]
					phi := ivOf(arg)
					if _, isParam := core.StripConv(arg).(*ssa.Parameter); isParam {
						continue // forwarded by another helper; judged at its own call sites
					}
					stHelp.Instances++
					ok2 := false
					if phi != nil {
						l := analyseLoop(phi)
						ok2 = l.okForm && l.bound == 64 && inLoop(l, b)
					}
					stHelp.Ob(ok2)
					if ok2 {
						stHelp.Sample("%s: %s(…, lane=i, …)", core.FuncName(fn), call.Call.StaticCallee().Name())
					} else {
						c.ReportAt("R06.helper", fn, in.Pos(), "helper-lane:"+call.Call.StaticCallee().Name(), "helper "+call.Call.StaticCallee().Name()+" accesses operands at lane "+prov.Of(arg)+", which is not the enclosing lane loop's own index")
					}
				}
			}
		}
	}

	for name, why := range crossLaneExceptions {
		if !excUsed[name] {
			c.Notes = append(c.Notes, "exception entry not exercised: "+name)
		} else {
			c.Notes = append(c.Notes, "exception: "+name+" — "+why)
		}
	}

	// R06.scalar
	for _, rel := range []string{emuPkg, cdna3Pkg} {
		p := NewPkgInfo(c, rel)
		roots := map[*ssa.Function]bool{}
		for _, fn := range p.Funcs {
			n := fn.Name()
			for _, pre := range []string{"runSOP1", "runSOP2", "runSOPC", "runSOPK", "runSOPP", "runSMEM"} {
				if n == pre {
					roots[fn] = true
				}
			}
		}
		seen := map[*ssa.Function]bool{}
		var visit func(fn *ssa.Function, depth int)
		visit = func(fn *ssa.Function, depth int) {
			if seen[fn] || depth > 4 {
				return
			}
			seen[fn] = true
			for _, b := range fn.Blocks {
				for _, in := range b.Instrs {
					if call, ok := in.(*ssa.Call); ok {
						if cal := call.Call.StaticCallee(); cal != nil && cal.Pkg == p.Pkg {
							visit(cal, depth+1)
						}
					}
				}
			}
		}
		for r := range roots {
			visit(r, 0)
		}
		for fn := range seen {
			if roots[fn] {
				continue
			}
			stScalar.Instances++
			uses := false
			for _, b := range fn.Blocks {
				for _, in := range b.Instrs {
					if m, _ := stateMethod(in); m == "EXEC" {
						uses = true
					}
				}
			}
			allowed := strings.Contains(strings.ToUpper(fn.Name()), "EXEC")
			ok := !uses || allowed
			stScalar.Ob(ok)
			if !ok {
				c.ReportAt("R06.scalar", fn, fn.Pos(), "EXEC-read", "a scalar instruction handler reads EXEC(): scalar instructions must not depend on the EXEC mask")
			}
		}
	}

	checkLaneBitIsOneBit(c)
	checkModifierIndexMatchesOperand(c)
	checkNoAppendOntoWindow(c, "R06.win", "In the DS handlers the storage is the work-group's LDS: one lane's load then changes what a later lane of the same instruction reads.", 2, emuPkg, cdna3Pkg)
	return core.Meta{Level: "other",
		Explanation: "Lane non-interference decided per vector handler of both ALUs on SSA: lane loops 0..63 (R06.loop), every lane write / storage / LDS access uses the loop's lane and is dominated by the edge on which that lane's EXEC bit is set, polarity checked on the CFG edge (R06.guard), every operand read in a lane loop reads the loop's lane, VCC/EXEC/SCC used through lane i's own bit only, no loop-carried value reaches a lane write (R06.flow), scalar destinations written outside the loops from lane-mask accumulators or in the listed cross-lane exception (R06.uniform), scalar handlers do not read EXEC (R06.scalar).",
		NotDecided:  "what value a lane computes; that InstEmuState implementations keep lanes apart (C07); helper functions that receive the lane as a parameter are checked at their call sites only for the lane argument",
		Assumptions: append([]string{"the InstEmuState contract: ReadOperand/WriteOperand(op, lane) touch only that lane of op"}, commonAssumptions...)}
}

func sortedPhis(m map[*ssa.Phi]*laneLoop) []*ssa.Phi {
	var out []*ssa.Phi
	for p := range m {
		out = append(out, p)
	}
	sort.Slice(out, func(i, j int) bool { return out[i].Pos() < out[j].Pos() })
	return out
}

// loopCarried: does v (data-)depend on a phi of the lane loop's header other
// than the induction variable? Returns the offending phi.
func loopCarried(v ssa.Value, l *laneLoop, seen map[ssa.Value]bool, depth int) ssa.Value {
	if v == nil || seen[v] || depth > 40 {
		return nil
	}
	seen[v] = true
	if p, ok := v.(*ssa.Phi); ok {
		if p.Block() == l.header && p != l.iv {
			return p
		}
	}
	// (acc >> i) & 1 or acc & (1 << i) on a lane-mask accumulator whose updates
	// only touch the updating lane's own bit: at iteration i bit i is still the
	// initial value, so this is lane i's own input
	if b, ok := v.(*ssa.BinOp); ok && b.Op == token.AND {
		for _, pair := range [][2]ssa.Value{{b.X, b.Y}, {b.Y, b.X}} {
			m, other := pair[0], pair[1]
			var accV ssa.Value
			if sh, ok := core.StripConv(m).(*ssa.BinOp); ok && sh.Op == token.SHR && ivOf(sh.Y) == l.iv {
				if one, isC := core.ConstInt(other); isC && one == 1 {
					accV = sh.X
				}
			} else if isLaneBit(other, l.iv) {
				accV = m
			}
			if acc, ok := core.StripConv(accV).(*ssa.Phi); accV != nil && ok && acc.Block() == l.header {
				if validAccumulator(acc, l) {
					return nil
				}
			}
		}
	}
	in, ok := v.(ssa.Instruction)
	if !ok {
		return nil
	}
	if in.Block() != nil && !l.header.Dominates(in.Block()) {
		return nil // defined before the loop: uniform
	}
	// loads from local cells: follow the stores of this iteration is beyond reach; cells allocated outside the loop and stored inside are loop-carried candidates
	if u, ok := v.(*ssa.UnOp); ok && u.Op == token.MUL {
		if a, ok := rootAlloc(u.X); ok && !l.header.Dominates(a.Block()) {
			// scratch cell declared outside the loop: accepted only if a store/copy covering it dominates this load within the loop body
			if !storedEarlierInIteration(a, u, l) {
				return a
			}
			return nil
		}
	}
	for _, op := range in.Operands(nil) {
		if *op == nil {
			continue
		}
		if bad := loopCarried(*op, l, seen, depth+1); bad != nil {
			return bad
		}
	}
	return nil
}

func rootAlloc(v ssa.Value) (*ssa.Alloc, bool) {
	for i := 0; i < 6; i++ {
		switch x := v.(type) {
		case *ssa.Alloc:
			return x, true
		case *ssa.IndexAddr:
			v = x.X
		case *ssa.FieldAddr:
			v = x.X
		case *ssa.Slice:
			v = x.X
		default:
			return nil, false
		}
	}
	return nil, false
}

func storedEarlierInIteration(a *ssa.Alloc, load ssa.Instruction, l *laneLoop) bool {
	if a.Referrers() == nil {
		return false
	}
	var check func(v ssa.Value, depth int) bool
	check = func(v ssa.Value, depth int) bool {
		if depth > 4 || v.Referrers() == nil {
			return false
		}
		for _, r := range *v.Referrers() {
			switch r := r.(type) {
			case *ssa.Store:
				if r.Addr == v && inLoop(l, r.Block()) && r.Block().Dominates(load.Block()) {
					return true
				}
			case *ssa.Call:
				if core.IsBuiltin(r, "copy") && inLoop(l, r.Block()) && r.Block().Dominates(load.Block()) {
					return true
				}
			case *ssa.Slice:
				if check(r, depth+1) {
					return true
				}
			case *ssa.IndexAddr:
				if check(r, depth+1) {
					return true
				}
			}
		}
		return false
	}
	return check(a, 0)
}

// laneBitUse: the referrer uses mask value m only as (m >> i) & 1 or m & (1 << i).
func laneBitUse(r ssa.Instruction, m ssa.Value, phi *ssa.Phi) bool {
	switch r := r.(type) {
	case *ssa.BinOp:
		switch r.Op {
		case token.AND:
			other := r.X
			if core.StripConv(other) == m || other == m {
				other = r.Y
			}
			return isLaneBit(other, phi)
		case token.SHR:
			return (r.X == m) && ivOf(r.Y) == phi
		}
	case *ssa.Convert:
		if r.Referrers() == nil {
			return true
		}
		for _, rr := range *r.Referrers() {
			if !laneBitUse(rr, r, phi) {
				return false
			}
		}
		return true
	case *ssa.Call:
		if cal := r.Call.StaticCallee(); cal != nil && (cal.Name() == "laneMasked" || cal.Name() == "LaneMasked") && len(r.Call.Args) == 2 {
			return ivOf(r.Call.Args[1]) == phi
		}
	case *ssa.DebugRef:
		return true
	}
	return false
}

// badAccumulator: v must be built from lane-independent values and loop
// accumulators whose only updates OR in lane bits (acc | x<<i, acc | 1<<i) or
// clear lane bits (acc &^ 1<<i). Returns a reason or "".
func badAccumulator(v ssa.Value, loops map[*ssa.Phi]*laneLoop, seen map[ssa.Value]bool, depth int) string {
	if v == nil || seen[v] || depth > 30 {
		return ""
	}
	seen[v] = true
	switch x := v.(type) {
	case *ssa.Phi:
		isHeader := false
		for _, l := range loops {
			if l.okForm && x.Block() == l.header && x != l.iv {
				isHeader = true
			}
			if x == l.iv {
				return "the lane index itself flows into the mask"
			}
		}
		for _, e := range x.Edges {
			if isHeader {
				if r := accUpdateOK(e, x, loops); r != "" {
					return r
				}
			}
			if r := badAccumulator(e, loops, seen, depth+1); r != "" {
				return r
			}
		}
	case *ssa.BinOp:
		if x.Op == token.SHL || x.Op == token.SHR {
			if p := ivOf(x.Y); p != nil {
				if _, isLane := loops[p]; isLane {
					return "" // a lane-bit term: X << i positions lane i's own contribution
				}
			}
		}
		if r := badAccumulator(x.X, loops, seen, depth+1); r != "" {
			return r
		}
		return badAccumulator(x.Y, loops, seen, depth+1)
	case *ssa.Convert:
		return badAccumulator(x.X, loops, seen, depth+1)
	case *ssa.UnOp:
		return badAccumulator(x.X, loops, seen, depth+1)
	}
	return ""
}

// accUpdateOK: edge value e updates accumulator acc only by |/&^/^ with lane-bit terms (or leaves it unchanged / merges such updates).
func accUpdateOK(e ssa.Value, acc *ssa.Phi, loops map[*ssa.Phi]*laneLoop) string {
	seen := map[ssa.Value]bool{}
	var ok func(v ssa.Value, depth int) bool
	ok = func(v ssa.Value, depth int) bool {
		if v == ssa.Value(acc) || depth > 20 {
			return true
		}
		if seen[v] {
			return true
		}
		seen[v] = true
		switch x := v.(type) {
		case *ssa.Const:
			return true
		case *ssa.Phi:
			for _, ee := range x.Edges {
				if !ok(ee, depth+1) {
					return false
				}
			}
			return true
		case *ssa.BinOp:
			switch x.Op {
			case token.OR, token.AND_NOT, token.XOR, token.AND:
				// one side continues the accumulator chain, the other must be a lane-bit term
				l, r := x.X, x.Y
				if chainsTo(l, acc, map[ssa.Value]bool{}, 0) {
					return ok(l, depth+1) && laneTerm(r, loops)
				}
				if chainsTo(r, acc, map[ssa.Value]bool{}, 0) {
					return ok(r, depth+1) && laneTerm(l, loops)
				}
				return laneTerm(x, loops)
			}
			return false
		case *ssa.Convert:
			return ok(x.X, depth+1)
		}
		// values defined before the loop (initial masks) are fine
		if in, isIn := v.(ssa.Instruction); isIn {
			for _, l := range loops {
				if l.okForm && inLoop(l, in.Block()) {
					return false
				}
			}
			return true
		}
		return true
	}
	if !ok(e, 0) {
		return "the value accumulated across lanes is updated by something other than OR-ing/clearing lane i's own bit"
	}
	return ""
}

func chainsTo(v ssa.Value, acc *ssa.Phi, seen map[ssa.Value]bool, depth int) bool {
	if v == ssa.Value(acc) {
		return true
	}
	if seen[v] || depth > 20 {
		return false
	}
	seen[v] = true
	switch x := v.(type) {
	case *ssa.Phi:
		for _, e := range x.Edges {
			if chainsTo(e, acc, seen, depth+1) {
				return true
			}
		}
	case *ssa.BinOp:
		return chainsTo(x.X, acc, seen, depth+1) || chainsTo(x.Y, acc, seen, depth+1)
	case *ssa.Convert:
		return chainsTo(x.X, acc, seen, depth+1)
	}
	return false
}

// laneTerm: X << i with i a lane induction variable, (possibly &^ / ^ complement forms)
func laneTerm(v ssa.Value, loops map[*ssa.Phi]*laneLoop) bool {
	v = core.StripConv(v)
	switch x := v.(type) {
	case *ssa.BinOp:
		if x.Op == token.SHL {
			if p := ivOf(x.Y); p != nil {
				if _, ok := loops[p]; ok {
					return true
				}
			}
		}
		if x.Op == token.AND || x.Op == token.OR {
			return laneTerm(x.X, loops) || laneTerm(x.Y, loops)
		}
	case *ssa.UnOp:
		if x.Op == token.XOR {
			return laneTerm(x.X, loops)
		}
	case *ssa.Phi:
		for _, e := range x.Edges {
			if c, isC := e.(*ssa.Const); isC && c.Value != nil {
				continue
			}
			if !laneTerm(e, loops) {
				return false
			}
		}
		return true
	}
	return false
}

// validAccumulator: a header phi whose in-loop updates only OR / clear lane
// i's own bit, and whose uses inside the loop are those updates or lane-bit
// extractions.
func validAccumulator(acc *ssa.Phi, l *laneLoop) bool {
	loops := map[*ssa.Phi]*laneLoop{l.iv: l}
	for _, e := range acc.Edges {
		if accUpdateOK(e, acc, loops) != "" {
			return false
		}
	}
	var usesOK func(v ssa.Value, depth int) bool
	usesOK = func(v ssa.Value, depth int) bool {
		if v.Referrers() == nil || depth > 6 {
			return true
		}
		for _, r := range *v.Referrers() {
			if r.Block() == nil || !inLoop(l, r.Block()) {
				continue
			}
			switch r := r.(type) {
			case *ssa.Phi:
				if r == acc {
					continue
				}
				if !usesOK(r, depth+1) {
					return false
				}
			case *ssa.BinOp:
				switch r.Op {
				case token.OR, token.AND_NOT, token.XOR:
					other := r.X
					if other == v {
						other = r.Y
					}
					if !laneTerm(other, loops) {
						return false
					}
					if !usesOK(r, depth+1) {
						return false
					}
				case token.AND:
					other := r.X
					if other == v {
						other = r.Y
					}
					if isLaneBit(other, l.iv) {
						continue // lane-bit extraction
					}
					if !laneTerm(other, loops) {
						return false
					}
					if !usesOK(r, depth+1) {
						return false
					}
				case token.SHR:
					if !(r.X == v && ivOf(r.Y) == l.iv) {
						return false
					}
				default:
					return false
				}
			case *ssa.DebugRef:
			default:
				return false
			}
		}
		return true
	}
	return usesOK(acc, 0)
}

// laneAsData: does v depend on the lane index through arithmetic (rather than
// through lane selection)? Returns the instruction that consumes the index as data.
func laneAsData(v ssa.Value, l *laneLoop, seen map[ssa.Value]bool, depth int) ssa.Value {
	if v == nil || seen[v] || depth > 40 {
		return nil
	}
	seen[v] = true
	in, ok := v.(ssa.Instruction)
	if !ok {
		return nil
	}
	if in.Block() != nil && !l.header.Dominates(in.Block()) {
		return nil
	}
	isIV := func(x ssa.Value) bool { return ivOf(x) == l.iv }
	switch t := v.(type) {
	case *ssa.Phi:
		if t == l.iv {
			return nil // judged by the consumer
		}
	case *ssa.BinOp:
		switch t.Op {
		case token.SHL, token.SHR:
			if isIV(t.Y) { // bit position: 1 << i, mask >> i
				return laneAsData(t.X, l, seen, depth+1)
			}
		}
		if isIV(t.X) || isIV(t.Y) {
			return t
		}
	case *ssa.Convert:
		if isIV(t.X) {
			// a bare conversion of the index is data only if it reaches the written value, which is
			// where we came from; selector uses (call arguments, indices, shift amounts) never get here
			return t
		}
	case *ssa.Call:
		// arguments that are the index itself select a lane (accessors, lane-parametric helpers)
		for _, a := range t.Call.Args {
			if isIV(a) {
				continue
			}
			if bad := laneAsData(a, l, seen, depth+1); bad != nil {
				return bad
			}
		}
		return nil
	case *ssa.IndexAddr:
		return laneAsData(t.X, l, seen, depth+1) // index position selects
	case *ssa.Index:
		return laneAsData(t.X, l, seen, depth+1)
	case *ssa.Lookup:
		return laneAsData(t.X, l, seen, depth+1)
	case *ssa.Slice:
		return laneAsData(t.X, l, seen, depth+1)
	}
	for _, op := range in.Operands(nil) {
		if *op == nil {
			continue
		}
		if bad := laneAsData(*op, l, seen, depth+1); bad != nil {
			return bad
		}
	}
	return nil
}

// laneBitBadCompare: r is mask & (1<<i); returns a comparison of that value with a non-zero constant.
func laneBitBadCompare(r ssa.Instruction) ssa.Instruction {
	bo, ok := r.(*ssa.BinOp)
	if !ok || bo.Op != token.AND {
		if cv, isC := r.(*ssa.Convert); isC && cv.Referrers() != nil {
			for _, rr := range *cv.Referrers() {
				if bad := laneBitBadCompare(rr); bad != nil {
					return bad
				}
			}
		}
		return nil
	}
	var walk func(v ssa.Value, depth int) ssa.Instruction
	walk = func(v ssa.Value, depth int) ssa.Instruction {
		if v.Referrers() == nil || depth > 3 {
			return nil
		}
		for _, rr := range *v.Referrers() {
			switch t := rr.(type) {
			case *ssa.BinOp:
				if t.Op == token.EQL || t.Op == token.NEQ {
					other := t.X
					if other == v {
						other = t.Y
					}
					if k, isC := core.ConstInt(other); isC && k != 0 {
						return t
					}
					if ku, isC := core.ConstUint(other); isC && ku != 0 {
						return t
					}
				}
			case *ssa.Convert:
				if bad := walk(t, depth+1); bad != nil {
					return bad
				}
			}
		}
		return nil
	}
	return walk(bo, 0)
}
