package rules

import (
	"fmt"
	"go/ast"
	"go/token"
	"path/filepath"
	"strings"

	"golang.org/x/tools/go/ssa"

	"verif/internal/core"
)

// order.go: rules about the order of two steps inside one function. Each is a
// must-pass-through check on the function's flow graph: on every path from the
// entry to a step of kind B, a step of kind A lies before it. The two steps
// commute in ordinary use (the send succeeds, the queue has a waiter asleep,
// the device has a page left), which is why no sampled run sees them swapped.

// mustPrecede reports every B that is reachable from the entry of fn without
// passing an A. Returns the number of B nodes looked at.
func mustPrecede(c *core.Ctx, st *core.RuleStat, rule string, fn *ssa.Function, isA, isB func(n *core.Node) bool, detail, msg string) int {
	g := core.BuildGraph(fn, 0, nil)
	bs := g.NodesWhere(isB)
	if len(bs) == 0 {
		return 0
	}
	c.MarkAnalysed(fn)
	reached := map[*core.Node]bool{}
	g.Walk([]core.State{{N: g.Entry}}, core.WalkOpts{Stop: isA}, func(x core.State) {
		if isB(x.N) && !isA(x.N) {
			reached[x.N] = true
		}
	})
	for _, b := range bs {
		st.Instances++
		st.Ob(!reached[b])
		if reached[b] {
			c.ReportAt(rule, fn, b.Instr.Pos(), detail, core.FuncName(fn)+": "+msg)
		}
	}
	return len(bs)
}

func callsNamed(names ...string) func(n *core.Node) bool {
	return func(n *core.Node) bool {
		cc := core.CallOf(n.Instr)
		if cc == nil {
			return false
		}
		nm := ""
		if cc.IsInvoke() {
			nm = cc.Method.Name()
		} else if cal := cc.StaticCallee(); cal != nil {
			nm = cal.Name()
		} else if f := core.CalleeFunc(n.Instr); f != nil {
			nm = f.Name()
		}
		for _, w := range names {
			if nm == w {
				return true
			}
		}
		return false
	}
}

func loadsField(name string) func(n *core.Node) bool {
	return func(n *core.Node) bool {
		if u, ok := n.Instr.(*ssa.UnOp); ok && u.Op == token.MUL {
			if f := core.FieldOfAddr(u.X); f != nil && f.Name() == name {
				return true
			}
		}
		return false
	}
}

func storesField(name string) func(n *core.Node) bool {
	return func(n *core.Node) bool {
		if s, ok := n.Instr.(*ssa.Store); ok {
			if f := core.FieldOfAddr(s.Addr); f != nil && f.Name() == name {
				return true
			}
		}
		return false
	}
}

// R20.20: "including now" - the line the scanner is on is examined before the scanner moves.
func checkScannerLooksBeforeItMoves(c *core.Ctx) {
	st := c.Rule("R20.20", "goToNextlineWithPrefixIncludingNow examines the line the scanner is on before it advances: on every path from its entry to a moveScannerToNextLine call a strings.HasPrefix test lies before it. readTraceHeader and the warp loop stop ON the first line that is not theirs; in a trace without comment lines that line is the next `thread block =` header, and a helper that advances first steps over it - the block, its warps and instructions vanish from the parsed kernel", 1)
	if fn := c.MustFunc("R20.20", nvTracePkg, "goToNextlineWithPrefixIncludingNow"); fn != nil {
		mustPrecede(c, st, "R20.20", fn, callsNamed("HasPrefix"), callsNamed("moveScannerToNextLine"), "scanner-advanced-before-current-line-was-tested", "the scanner is advanced on a path on which the current line has not been tested for the prefix")
	}
}

// R15.14: the flushing flag is read after this tick's control message was processed.
func checkFlushFlagReadAfterControl(c *core.Ctx) {
	st := c.Rule("R15.14", "ReorderBuffer.Tick reads isFlushing only after this tick's control message was processed: on every path to a load of the flag the processControlMsg call lies before it. Read first, the tick that processes a discard still runs the pipeline once: a request waiting in the top port is forwarded and recorded after the buffer was emptied, and survives the flush", 1)
	if fn := c.MustFunc("R15.14", robPkg, "ReorderBuffer.Tick"); fn != nil {
		mustPrecede(c, st, "R15.14", fn, callsNamed("processControlMsg"), loadsField("isFlushing"), "flush-flag-read-before-control-message", "isFlushing is read before processControlMsg has run in this tick")
	}
}

// R12.29: the queue announces a change after it was made.
func checkNotifyAfterChange(c *core.Ctx, pi *PkgInfo) {
	st := c.Rule("R12.29", "a command queue notifies its subscribers after the change they wait for: in every method of CommandQueue that calls NotifyAllSubscribers, a store to q.commands lies before the call on every path. Notified first, a waiter that is already awake re-reads NumCommand between the notification and the pop of the last command, sees 1, sleeps again and is never woken: DrainCommandQueue, and with it every blocking copy and launch, hangs", 2)
	for _, fn := range pi.Funcs {
		if !strings.HasPrefix(core.FuncName(fn), "CommandQueue.") || core.FuncName(fn) == "CommandQueue.NotifyAllSubscribers" {
			continue
		}
		mustPrecede(c, st, "R12.29", fn, storesField("commands"), callsNamed("NotifyAllSubscribers"), "notified-before-the-change", "subscribers are notified on a path on which the command list has not been changed yet")
	}
}

// R10.24: capacity is tested before a page is taken.
func checkCapacityTestedBeforePop(c *core.Ctx, pi *PkgInfo) {
	st := c.Rule("R10.24", "a device tests that it has space left before it takes pages off its free list: in every Device method, a call of mustHaveSpaceLeft lies before each popNextAvailablePAddrs / MemState.allocateMultiplePages call on every path. Tested after the pop, the allocation that takes the device's last free page panics out of memory although it fits, with the page already off the list and the pages of the same buffer mapped so far left in the table", 2)
	for _, fn := range pi.Funcs {
		if !strings.HasPrefix(core.FuncName(fn), "Device.") {
			continue
		}
		isPop := func(n *core.Node) bool {
			cc := core.CallOf(n.Instr)
			return cc != nil && cc.IsInvoke() && (cc.Method.Name() == "popNextAvailablePAddrs" || cc.Method.Name() == "allocateMultiplePages")
		}
		mustPrecede(c, st, "R10.24", fn, callsNamed("mustHaveSpaceLeft"), isPop, "page-taken-before-capacity-test", "pages are taken off the free list on a path on which mustHaveSpaceLeft has not been called")
	}
}

// R03.53: a VOPC dispatcher returns only through a handler.
func checkCompareDispatcherAlwaysDispatches(c *core.Ctx) {
	st := c.Rule("R03.53", "the VOPC dispatcher of each ALU returns only after it has called a handler: on every path from the entry of runVOPC to a return, a call of a function of the ALU's package lies before it. Every handler ends by writing all 64 bits of VCC (zero for lanes that are off); a dispatcher that returns early when EXEC is zero leaves the previous compare's VCC, which s_cbranch_vccnz, a break-mask accumulation or v_div_fmas then consume", 2)
	for _, rel := range []string{emuPkg, cdna3Pkg} {
		for _, name := range []string{"ALUImpl.runVOPC", "ALU.runVOPC"} {
			fn := c.SSAFunc(rel, name)
			if fn == nil {
				continue
			}
			isHandler := func(n *core.Node) bool {
				if core.IsNoReturnCall(n.Instr) {
					return true
				}
				cc := core.CallOf(n.Instr)
				if cc == nil || cc.IsInvoke() {
					return cc != nil && cc.IsInvoke() && cc.Method.Name() == "SetVCC"
				}
				cal := cc.StaticCallee()
				return cal != nil && cal.Pkg == fn.Pkg && len(cal.Blocks) > 0
			}
			isRet := func(n *core.Node) bool { _, ok := n.Instr.(*ssa.Return); return ok }
			mustPrecede(c, st, "R03.53", fn, isHandler, isRet, "compare-dispatcher-returns-without-handler", "returns on a path on which no compare handler was called, so VCC keeps the previous instruction's value")
		}
	}
}

// R05.15: the parallel engine is chosen by the parallel flag.
func checkParallelEngineFlag(c *core.Ctx) {
	st := c.Rule("R05.15", "the runner builds the simulation with the parallel engine only under the -parallel flag: every call of WithParallelEngine in amd/samples/runner is dominated by a branch whose condition is read from the parallel flag (parallelFlag / Runner.Parallel). Under a neighbouring flag (-verify, -timing) ordinary verified runs are driven by goroutines that handle same-cycle events concurrently, and two runs of one program report different cycle counts and metrics", 1)
	const runnerPkg = "amd/samples/runner"
	prov := core.NewLocalProv(c)
	for _, fn := range c.SrcFuncs(runnerPkg) {
		for _, b := range fn.Blocks {
			for _, in := range b.Instrs {
				if !callsNamed("WithParallelEngine")(&core.Node{Instr: in}) {
					continue
				}
				st.Instances++
				c.MarkAnalysed(fn)
				good := false
				conds := []string{}
				for d := b; d != nil; d = d.Idom() {
					idom := d.Idom()
					if idom == nil {
						break
					}
					if iff, ok := idom.Instrs[len(idom.Instrs)-1].(*ssa.If); ok && len(idom.Succs) == 2 && idom.Succs[0] == d && len(d.Preds) == 1 {
						p := prov.Of(iff.Cond)
						conds = append(conds, short(p))
						if strings.Contains(strings.ToLower(p), "parallel") {
							good = true
						}
					}
				}
				st.Ob(good)
				if !good {
					c.ReportAt("R05.15", fn, in.Pos(), "parallel-engine-under-other-flag", fmt.Sprintf("%s selects the parallel engine under %v, not under the parallel flag", core.FuncName(fn), conds))
				}
			}
		}
	}
}

// R18.16: in the benchmarks a buffer is filled after it was distributed.
func checkUploadAfterDistribute(c *core.Ctx) {
	st := c.Rule("R18.16", "in amd/benchmarks a buffer that is distributed over GPUs is filled afterwards: no MemCopyH2D / EnqueueMemCopyH2D into a buffer lies, in the same function and on the way to it, before the driver's Distribute of that buffer. Distribute re-homes every page to a fresh frame and does not carry contents over; with one GPU it returns early, so the same program is right on one GPU and reads never-written memory on two", 3)
	c.Load("./amd/benchmarks/...")
	for _, p := range c.RepoPkgs() {
		if !strings.HasPrefix(core.RelPkg(p.PkgPath), "amd/benchmarks") {
			continue
		}
		for i, f := range p.Syntax {
			if i < len(p.CompiledGoFiles) && strings.HasSuffix(p.CompiledGoFiles[i], "_test.go") {
				continue
			}
			rel, _ := filepath.Rel(core.RepoDir, c.Fset.Position(f.Pos()).Filename)
			for _, d := range f.Decls {
				fd, ok := d.(*ast.FuncDecl)
				if !ok || fd.Body == nil {
					continue
				}
				type site struct {
					buf  string
					call *ast.CallExpr
					path []ast.Node
				}
				var dist, up []site
				var stack []ast.Node
				ast.Inspect(fd.Body, func(n ast.Node) bool {
					if n == nil {
						stack = stack[:len(stack)-1]
						return true
					}
					stack = append(stack, n)
					call, ok := n.(*ast.CallExpr)
					if !ok {
						return true
					}
					sel, ok := call.Fun.(*ast.SelectorExpr)
					if !ok {
						return true
					}
					cp := append([]ast.Node(nil), stack...)
					switch sel.Sel.Name {
					case "Distribute":
						if len(call.Args) >= 2 {
							dist = append(dist, site{typesExprString(call.Args[1]), call, cp})
						}
					case "MemCopyH2D", "EnqueueMemCopyH2D":
						if len(call.Args) >= 2 {
							up = append(up, site{typesExprString(call.Args[1]), call, cp})
						}
					}
					return true
				})
				if len(dist) == 0 {
					continue
				}
				st.Instances++
				good := true
				for _, dsite := range dist {
					for _, u := range up {
						if u.buf != dsite.buf || u.call.Pos() >= dsite.call.Pos() {
							continue
						}
						// the upload's innermost block must enclose the Distribute (same straight line or an outer one)
						var ublock ast.Node
						for k := len(u.path) - 1; k >= 0; k-- {
							if _, isB := u.path[k].(*ast.BlockStmt); isB {
								ublock = u.path[k]
								break
							}
						}
						encloses := ublock == nil
						for _, a := range dsite.path {
							if a == ublock {
								encloses = true
							}
						}
						if !encloses {
							continue
						}
						good = false
						c.Report(core.Finding{Rule: "R18.16", Pkg: core.RelPkg(p.PkgPath), Func: core.DeclName(fd), Detail: "upload-before-distribute:" + u.buf, Pos: fmt.Sprintf("%s:%d", rel, c.Fset.Position(u.call.Pos()).Line),
							Msg: core.DeclName(fd) + " copies host data into " + u.buf + " and distributes " + u.buf + " afterwards: the data stays in the frames the buffer had before"})
					}
				}
				st.Ob(good)
			}
		}
	}
}

// R05.16: the engine goroutine leaves only when no re-run was asked for.
func checkEngineLeavesOnlyWithoutRerun(c *core.Ctx) {
	st := c.Rule("R05.16", "Driver.runEngine marks the engine as not running (and leaves) only on a path on which it found engineRerun false: runAsync, finding the engine marked running, only records a re-run request. A re-run test with a second conjunct lets the goroutine leave with a request recorded: the tick for the new command stays in the event queue, the simulated clock stops and the application thread waits in DrainCommandQueue - whether that happens depends on where the host scheduler put the request relative to the end of Engine.Run", 1)
	fn := c.MustFunc("R05.16", driverPkg, "Driver.runEngine")
	if fn == nil {
		return
	}
	c.MarkAnalysed(fn)
	g := core.BuildGraph(fn, 0, nil)
	for _, n := range g.Nodes {
		s, ok := storeToField(n.Instr, "Driver.engineRunning")
		if !ok {
			continue
		}
		if b, isC := core.ConstBool(s.Val); !isC || b {
			continue
		}
		st.Instances++
		good := g.Guarded(n, BoolFieldCut("Driver.engineRerun", false))
		st.Ob(good)
		if !good {
			c.ReportAt("R05.16", fn, n.Instr.Pos(), "engine-leaves-with-rerun-pending", "runEngine clears engineRunning on a path that did not find engineRerun false: a re-run request recorded by runAsync is dropped")
		}
	}
}
