package rules

import (
	"fmt"
	"go/ast"
	"go/constant"
	"go/token"
	"go/types"
	"sort"

	"golang.org/x/tools/go/packages"

	"verif/internal/core"
)

const instsPkg = "amd/insts"

// ---- tables extracted from amd/insts ---------------------------------------------

type FormatRow struct {
	Name        string // constant name of the FormatType (SOP2, ...)
	Type        int64
	FormatName  string
	Encoding    uint32
	Mask        uint32
	ByteSize    int64
	OpLow, OpHi int64
	Pos         token.Pos
}

type InstRow struct {
	Name     string
	Opcode   int64
	Format   string   // FormatType constant name
	Widths   [5]int64 // DST, SRC0, SRC1, SRC2, SDST
	Pos      token.Pos
	FromLoop bool
}

type InstTables struct {
	Formats    map[string]*FormatRow
	Rows       []*InstRow
	Undecided  []string
	formatByTy map[int64]string
}

func findFuncDecl(p *packages.Package, name string) *ast.FuncDecl {
	var out *ast.FuncDecl
	core.FuncDecls(p, func(fd *ast.FuncDecl) {
		if core.DeclName(fd) == name {
			out = fd
		}
	})
	return out
}

func constInt64(p *packages.Package, e ast.Expr) (int64, bool) {
	tv, ok := p.TypesInfo.Types[e]
	if !ok || tv.Value == nil {
		return 0, false
	}
	if tv.Value.Kind() != constant.Int {
		return 0, false
	}
	if i, ok := constant.Int64Val(tv.Value); ok {
		return i, true
	}
	if u, ok := constant.Uint64Val(tv.Value); ok {
		return int64(u), true
	}
	return 0, false
}

func constString(p *packages.Package, e ast.Expr) (string, bool) {
	tv, ok := p.TypesInfo.Types[e]
	if !ok || tv.Value == nil || tv.Value.Kind() != constant.String {
		return "", false
	}
	return constant.StringVal(tv.Value), true
}

// formatIndex: FormatTable[X] -> constant name X
func formatIndex(p *packages.Package, e ast.Expr) (string, bool) {
	ix, ok := e.(*ast.IndexExpr)
	if !ok {
		return "", false
	}
	if id, ok := ix.X.(*ast.Ident); !ok || id.Name != "FormatTable" {
		return "", false
	}
	if id, ok := ix.Index.(*ast.Ident); ok {
		if _, isConst := p.TypesInfo.Uses[id].(*types.Const); isConst {
			return id.Name, true
		}
	}
	return "", false
}

// LoadInstTables evaluates the format table and the decode table from the
// syntax of amd/insts using the type checker's constant values.
func LoadInstTables(c *core.Ctx) *InstTables {
	p := c.Pkg(instsPkg)
	t := &InstTables{Formats: map[string]*FormatRow{}, formatByTy: map[int64]string{}}
	ft := findFuncDecl(p, "initFormatTable")
	if ft == nil {
		t.Undecided = append(t.Undecided, "initFormatTable not found")
	} else {
		ast.Inspect(ft.Body, func(n ast.Node) bool {
			as, ok := n.(*ast.AssignStmt)
			if !ok || len(as.Lhs) != 1 || len(as.Rhs) != 1 {
				return true
			}
			name, ok := formatIndex(p, as.Lhs[0])
			if !ok {
				return true
			}
			ue, ok := as.Rhs[0].(*ast.UnaryExpr)
			if !ok {
				t.Undecided = append(t.Undecided, "format table entry "+name+" is not a &Format{...} literal")
				return true
			}
			cl, ok := ue.X.(*ast.CompositeLit)
			if !ok {
				t.Undecided = append(t.Undecided, "format table entry "+name+" is not a composite literal")
				return true
			}
			vals := map[string]ast.Expr{}
			order := []string{"FormatType", "FormatName", "Encoding", "Mask", "ByteSizeExLiteral", "OpcodeLow", "OpcodeHigh"}
			for i, el := range cl.Elts {
				if kv, ok := el.(*ast.KeyValueExpr); ok {
					vals[kv.Key.(*ast.Ident).Name] = kv.Value
				} else if i < len(order) {
					vals[order[i]] = el
				}
			}
			row := &FormatRow{Name: name, Pos: as.Pos()}
			okAll := true
			get := func(k string) int64 {
				v, ok := constInt64(p, vals[k])
				if !ok {
					okAll = false
				}
				return v
			}
			row.Type = get("FormatType")
			row.Encoding = uint32(get("Encoding"))
			row.Mask = uint32(get("Mask"))
			row.ByteSize = get("ByteSizeExLiteral")
			row.OpLow = get("OpcodeLow")
			row.OpHi = get("OpcodeHigh")
			row.FormatName, _ = constString(p, vals["FormatName"])
			if !okAll {
				t.Undecided = append(t.Undecided, "format table entry "+name+" has non-constant fields")
				return true
			}
			t.Formats[name] = row
			t.formatByTy[row.Type] = name
			return true
		})
	}
	dt := findFuncDecl(p, "Disassembler.initializeDecodeTable")
	if dt == nil {
		t.Undecided = append(t.Undecided, "initializeDecodeTable not found")
		return t
	}
	parseRow := func(call *ast.CallExpr) (*InstRow, string) {
		if len(call.Args) != 1 {
			return nil, "addInstType with unexpected arity"
		}
		ue, ok := call.Args[0].(*ast.UnaryExpr)
		if !ok {
			return nil, "addInstType argument is not &InstType{...}"
		}
		cl, ok := ue.X.(*ast.CompositeLit)
		if !ok {
			return nil, "addInstType argument is not a composite literal"
		}
		order := []string{"InstName", "Opcode", "Format", "ID", "ExeUnit", "DSTWidth", "SRC0Width", "SRC1Width", "SRC2Width", "SDSTWidth"}
		vals := map[string]ast.Expr{}
		for i, el := range cl.Elts {
			if kv, ok := el.(*ast.KeyValueExpr); ok {
				vals[kv.Key.(*ast.Ident).Name] = kv.Value
			} else if i < len(order) {
				vals[order[i]] = el
			}
		}
		row := &InstRow{Pos: call.Pos()}
		var ok1, ok2, ok3 bool
		row.Name, ok1 = constString(p, vals["InstName"])
		row.Opcode, ok2 = constInt64(p, vals["Opcode"])
		row.Format, ok3 = formatIndex(p, vals["Format"])
		for i, k := range []string{"DSTWidth", "SRC0Width", "SRC1Width", "SRC2Width", "SDSTWidth"} {
			if e, ok := vals[k]; ok {
				row.Widths[i], _ = constInt64(p, e)
			}
		}
		if !ok1 || !ok2 || !ok3 {
			return row, "non-constant row"
		}
		return row, ""
	}
	isAdd := func(call *ast.CallExpr) bool {
		sel, ok := call.Fun.(*ast.SelectorExpr)
		return ok && sel.Sel.Name == "addInstType"
	}
	for _, stmt := range dt.Body.List {
		switch s := stmt.(type) {
		case *ast.ExprStmt:
			call, ok := s.X.(*ast.CallExpr)
			if !ok || !isAdd(call) {
				continue
			}
			row, why := parseRow(call)
			if why != "" {
				t.Undecided = append(t.Undecided, fmt.Sprintf("%s at %s", why, c.Position(call.Pos())))
				continue
			}
			t.Rows = append(t.Rows, row)
		case *ast.RangeStmt:
			// for _, it := range d.decodeTables[F1].insts { d.addInstType(&InstType{it.InstName, it.Opcode + Opcode(K), FormatTable[F2], ...}) }
			src := ""
			if sel, ok := s.X.(*ast.SelectorExpr); ok && sel.Sel.Name == "insts" {
				if ix, ok := sel.X.(*ast.IndexExpr); ok {
					if id, ok := ix.Index.(*ast.Ident); ok {
						src = id.Name
					}
				}
			}
			if src == "" || len(s.Body.List) != 1 {
				t.Undecided = append(t.Undecided, "unrecognised loop in initializeDecodeTable at "+c.Position(s.Pos()))
				continue
			}
			es, ok := s.Body.List[0].(*ast.ExprStmt)
			if !ok {
				t.Undecided = append(t.Undecided, "unrecognised loop body in initializeDecodeTable")
				continue
			}
			call, ok := es.X.(*ast.CallExpr)
			if !ok || !isAdd(call) {
				t.Undecided = append(t.Undecided, "unrecognised loop body in initializeDecodeTable")
				continue
			}
			cl := call.Args[0].(*ast.UnaryExpr).X.(*ast.CompositeLit)
			var off int64 = -1
			if be, ok := cl.Elts[1].(*ast.BinaryExpr); ok && be.Op == token.ADD {
				if v, ok := constInt64(p, be.Y); ok {
					off = v
				}
			}
			dst, okF := formatIndex(p, cl.Elts[2])
			if off < 0 || !okF {
				t.Undecided = append(t.Undecided, "loop copy in initializeDecodeTable has no constant opcode offset / format")
				continue
			}
			n := len(t.Rows)
			for _, r := range t.Rows[:n] {
				if r.Format == src {
					nr := &InstRow{Name: r.Name, Opcode: r.Opcode + off, Format: dst, Pos: call.Pos(), FromLoop: true}
					for i := 5; i < len(cl.Elts) && i-5 < 5; i++ {
						if v, ok := constInt64(p, cl.Elts[i]); ok {
							nr.Widths[i-5] = v
							continue
						}
						// a width copied from the source row: <range var>.DSTWidth ...
						copied := false
						if sel, ok := cl.Elts[i].(*ast.SelectorExpr); ok {
							if id, ok := sel.X.(*ast.Ident); ok {
								if vid, ok := s.Value.(*ast.Ident); ok && id.Name == vid.Name {
									for k, fnm := range []string{"DSTWidth", "SRC0Width", "SRC1Width", "SRC2Width", "SDSTWidth"} {
										if sel.Sel.Name == fnm {
											nr.Widths[i-5] = r.Widths[k]
											copied = true
										}
									}
								}
							}
						}
						if !copied {
							t.Undecided = append(t.Undecided, "loop copy in initializeDecodeTable has a width that is neither a constant nor a field of the source row at "+c.Position(cl.Elts[i].Pos()))
						}
					}
					t.Rows = append(t.Rows, nr)
				}
			}
		}
	}
	return t
}

// Lookup returns the name decoded for (format, opcode): the last row wins, as
// in the map assignment of addInstType.
func (t *InstTables) Lookup(format string, opcode int64) (*InstRow, bool) {
	var out *InstRow
	for _, r := range t.Rows {
		if r.Format == format && r.Opcode == opcode {
			out = r
		}
	}
	return out, out != nil
}

func (t *InstTables) FormatNames() []string {
	var out []string
	for k := range t.Formats {
		out = append(out, k)
	}
	sort.Strings(out)
	return out
}

// SwitchCases extracts, from the first switch over `tagSuffix` (e.g.
// "inst.Opcode" or "inst.FormatType") in a function, the constant case values
// and the called function of each case (first call in the clause body).
type SwitchCase struct {
	Values  []int64
	Callee  string
	NCalls  int
	Pos     token.Pos
	Default bool
	Panics  bool
}

func exprString(e ast.Expr) string {
	switch e := e.(type) {
	case *ast.Ident:
		return e.Name
	case *ast.SelectorExpr:
		return exprString(e.X) + "." + e.Sel.Name
	case *ast.CallExpr:
		return exprString(e.Fun) + "()"
	}
	return "?"
}

func SwitchCases(p *packages.Package, fd *ast.FuncDecl, tagSuffix string) ([]SwitchCase, bool) {
	var sw *ast.SwitchStmt
	ast.Inspect(fd.Body, func(n ast.Node) bool {
		if s, ok := n.(*ast.SwitchStmt); ok && sw == nil && s.Tag != nil {
			ts := exprString(s.Tag)
			if len(ts) >= len(tagSuffix) && ts[len(ts)-len(tagSuffix):] == tagSuffix {
				sw = s
				return false
			}
		}
		return true
	})
	if sw == nil {
		return nil, false
	}
	var out []SwitchCase
	for _, st := range sw.Body.List {
		cc := st.(*ast.CaseClause)
		sc := SwitchCase{Pos: cc.Pos(), Default: cc.List == nil}
		for _, e := range cc.List {
			if v, ok := constInt64(p, e); ok {
				sc.Values = append(sc.Values, v)
			}
		}
		for _, b := range cc.Body {
			ast.Inspect(b, func(n ast.Node) bool {
				if call, ok := n.(*ast.CallExpr); ok {
					name := exprString(call.Fun)
					if name == "log.Panicf" || name == "log.Panic" || name == "panic" || name == "log.Fatalf" {
						sc.Panics = true
						return true
					}
					if sel, ok := call.Fun.(*ast.SelectorExpr); ok {
						if _, isFn := p.TypesInfo.Uses[sel.Sel].(*types.Func); isFn {
							if sc.Callee == "" {
								sc.Callee = sel.Sel.Name
							}
							sc.NCalls++
						}
					}
				}
				return true
			})
		}
		out = append(out, sc)
	}
	return out, true
}
