package rules

import (
	"fmt"
	"go/token"
	"regexp"
	"strings"

	"golang.org/x/tools/go/ssa"

	"verif/internal/core"
)

const pmcPkg = "amd/timing/pagemigrationcontroller"
const cpPkg = "amd/timing/cp"
const driverPkg = "amd/driver"

func init() { register("C19", runC19) }

var cpSequencers = map[string]string{
	"CommandProcessor.Tick":                   "sequences dispatchers and both middlewares",
	"CommandProcessor.processReqFromDriver":   "peeks only to decide whether to tick both middlewares; each middleware handler is its own scope",
	"CommandProcessor.processRspFromInternal": "sequences both middlewares",
	"cpMiddleware.Tick":                       "sequences Handle and HandleInternal",
	"ctrlMiddleware.Tick":                     "sequences Handle and HandleInternal",
	"ctrlMiddleware.HandleInternal":           "sequences six independent response handlers",
	"cpMiddleware.HandleInternal":             "sequences response handlers",
}

// counterEqZero: edges on which the named counter field ("recv.numX") == 0.
func counterEqZero(prov *core.Prov, field string) EdgeCut {
	return CmpCut(func(n *core.Node, op token.Token, x, y ssa.Value) int {
		if prov.Of(x) != field {
			return 0
		}
		if z, ok := core.ConstInt(y); !ok || z != 0 {
			return 0
		}
		switch op {
		case token.EQL:
			return 1
		case token.NEQ, token.GTR:
			return -1
		}
		return 0
	})
}

func callsFunc(in ssa.Instruction, pkg *ssa.Package, name string) bool {
	call, ok := in.(*ssa.Call)
	if !ok {
		return false
	}
	cal := call.Call.StaticCallee()
	return cal != nil && cal.Pkg == pkg && core.FuncName(cal) == name
}

func runC19(c *core.Ctx) core.Meta {
	c.Load(pmcPkg, cpPkg, driverPkg)
	c.BuildSSA()
	prov := core.NewProv(c)

	// ---------------- PMC ----------------
	p := NewPkgInfo(c, pmcPkg)
	checkScratchFieldsReset(c, "R19.12", "In the driver's migration path: a GPU that requested a page before is served twice, the page is re-homed twice and the table ends on a page that never receives the data.", 0, NewPkgInfo(c, driverPkg))

	// R19.11 a refused command leaves the running one alone
	st11 := c.Rule("R19.11", "a command the control middleware of the command processor refuses (return false: an earlier flush / shootdown / restart is still in progress, the command stays at the head of the port) does not change the middleware's state: in every bool-returning handler of ctrlMiddleware that takes a command or response, no store to a field of the middleware is followed by a return false. A shootdown that is only peeked while another runs must not replace currShootdownRequest: the running one would flush the waiting command's pages from the TLBs and report completion with its own pages still cached", 10)
	checkNoStoreBeforeRefusal(c, st11, "R19.11", NewPkgInfo(c, cpPkg), "ctrlMiddleware", "the command that is being served loses its parameters to a command that was not accepted; its TLB flush names the wrong pages and the GPU keeps a stale translation for a page that migrated away")

	// R19.10 the owner answers whoever asked last
	st10 := c.Rule("R19.10", "a page-migration controller that serves a pull request sends the data to the controller that asked for it: the handler that accepts a DataPullReq stores the request's Src in the field the responses are addressed with (PageMigrationController.requestingPMCtrlPort) on every path to its return - unconditionally, since the field is never cleared. Recording the requester only when none is recorded addresses every later migration's chunks to the first controller that ever pulled from this owner: the third GPU's page is never filled and the first one panics on data it did not ask for", 1)
	for _, fn := range p.Funcs {
		takesPull := false
		for _, prm := range fn.Params {
			if strings.HasSuffix(namedTypeName(prm.Type()), "DataPullReq") {
				takesPull = true
			}
		}
		if !takesPull || len(fn.Blocks) == 0 {
			continue
		}
		hasRetrieve := false
		for _, b := range fn.Blocks {
			for _, in := range b.Instrs {
				if cc := core.CallOf(in); cc != nil && cc.IsInvoke() && cc.Method.Name() == "RetrieveIncoming" {
					hasRetrieve = true
				}
			}
		}
		if !hasRetrieve {
			continue
		}
		st10.Instances++
		c.MarkAnalysed(fn)
		g := core.BuildGraph(fn, 0, nil)
		var leak *core.Node
		okW := g.Walk([]core.State{{N: g.Entry}}, core.WalkOpts{ForwardOnly: true, Stop: func(m *core.Node) bool {
			sto, ok := storeToField(m.Instr, "PageMigrationController.requestingPMCtrlPort")
			if !ok {
				return false
			}
			f := core.LoadedField(sto.Val)
			return f != nil && f.Name() == "Src"
		}}, func(x core.State) {
			if r, isRet := x.N.Instr.(*ssa.Return); isRet && leak == nil {
				if len(r.Results) == 1 && core.EvalFact(x.N, r.Results[0], x.F) < 0 {
					return // the request was not accepted on this path
				}
				leak = x.N
			}
		})
		st10.Ob(okW && leak == nil)
		st10.Sample("%s: the requester of the pull is recorded on every path that accepts it: %v", core.FuncName(fn), leak == nil)
		if leak != nil {
			c.ReportAt("R19.10", fn, leak.Instr.Pos(), "pull-requester-not-recorded:"+core.FuncName(fn), core.FuncName(fn)+" can accept a DataPullReq without storing its Src as the destination of the responses: the chunks are sent to the controller recorded by an earlier migration (GPU B pulled from this owner before; GPU C's chunks go to B, which panics, and C's page is never filled)")
		}
	}
	RunProto(c, &ProtoCfg{
		AllEffectsAfterSend: true,
		RuleBase:            "R19.1.pmc", Pkg: pmcPkg, FloorSends: 5,
		Effects: []Effect{
			RetrieveEffect,
			FieldWriteEffect("isHandlingPageMigration-write", "PageMigrationController.isHandlingPageMigration"),
			FieldWriteEffect("toSendToCtrlPort-write", "PageMigrationController.toSendToCtrlPort"),
		},
	})
	CheckRetryLists(c, p, "R19.1.retry", 4)

	p.CheckFields("R19.2", []FieldSpec{
		{Builder: "pagemigrationcontroller.DataPullReqBuilder", MinSites: 1,
			Require: map[string]string{
				"WithReadFromPhyAddress": `^iter\(\{\(@\+recv\.onDemandPagingDataTransferSize\)\|recv\.currentMigrationRequest\.ToReadFromPhysicalAddress\}\)$`,
				"WithDataTransferSize":   `^recv\.onDemandPagingDataTransferSize$`,
				"WithDst":                `^recv\.currentMigrationRequest\.PMCPortOfRemoteGPU$`}},
		{Builder: "mem.ReadReqBuilder", MinSites: 1, SameBase: []string{"WithAddress", "WithByteSize"},
			Require: map[string]string{"WithAddress": `\.ToReadFromPhyAddress$`, "WithByteSize": `\.DataTransferSize$`}},
		{Builder: "pagemigrationcontroller.DataPullRspBuilder", MinSites: 1,
			Require: map[string]string{"WithData": `^recv\.dataReadyRspFromMemCtrl\[.*\]\.Data$`, "WithDst": `^recv\.requestingPMCtrlPort$`}},
		{Builder: "mem.WriteReqBuilder", MinSites: 1,
			Require: map[string]string{"WithData": `^recv\.receivedDataFromAnothePMC\[.*\]\.Data$`,
				"WithAddress": `^recv\.reqIDToWriteAddressMap\[recv\.receivedDataFromAnothePMC\[.*\]\.ID\]$`}},
		{Builder: "pagemigrationcontroller.PageMigrationRspFromPMCBuilder", MinSites: 1,
			Require: map[string]string{"WithDst": `^recv\.currentMigrationRequest\.Src$`}},
	})
	st2 := c.Stats["R19.2"]
	// IDs thread the chunk through the pipeline: read request takes the pull request's ID, pull response takes the read response's RespondTo, write address is keyed by the pull request's ID
	type idSpec struct{ builder, want, what string }
	for _, sp := range []idSpec{
		{"mem.ReadReqBuilder", `^recv\.currentPullReqFromAnotherPMC\[.*\]\.ID$`, "the local read request must reuse the pull request's ID"},
		{"pagemigrationcontroller.DataPullRspBuilder", `^recv\.dataReadyRspFromMemCtrl\[.*\]\.RespondTo$`, "the pull response must carry the ID of the read it answers (which is the pull request's ID)"},
	} {
		for _, fn := range p.Funcs {
			for _, bc := range core.BuilderChains(fn) {
				if bc.Builder != sp.builder {
					continue
				}
				st2.Instances++
				found := false
				built := prov.Of(bc.Build)
				for _, b := range fn.Blocks {
					for _, in := range b.Instrs {
						s, ok := in.(*ssa.Store)
						if !ok {
							continue
						}
						fa, ok := s.Addr.(*ssa.FieldAddr)
						if !ok {
							continue
						}
						f := core.FieldOfAddr(fa)
						if core.ShortFieldID(f) != "MsgMeta.ID" || prov.Of(fa.X) != built {
							continue
						}
						found = true
						pv := prov.Of(s.Val)
						ok2 := core.ProvMatch(regexp.MustCompile(sp.want), pv)
						st2.Ob(ok2)
						st2.Sample("%s: %s.ID = %s", core.FuncName(fn), sp.builder, pv)
						if !ok2 {
							c.ReportAt("R19.2", fn, in.Pos(), sp.builder+".ID", sp.what+" (got "+short(pv)+")")
						}
					}
				}
				if !found {
					st2.Ob(false)
					c.ReportAt("R19.2", fn, bc.Build.Pos(), sp.builder+".ID:missing", sp.what+": the ID is never set")
				}
			}
		}
	}
	// write-address map: keyed by the pull request's ID, cursor advances by the transfer size; pending count = pageSize / transfer size
	p.Instrs(func(fn *ssa.Function, in ssa.Instruction) {
		if mu, ok := in.(*ssa.MapUpdate); ok {
			if f := core.LoadedField(mu.Map); f != nil && f.Name() == "reqIDToWriteAddressMap" {
				st2.Instances++
				k, v := prov.Of(mu.Key), prov.Of(mu.Value)
				ok2 := strings.HasSuffix(k, ".Build().ID") && strings.Contains(k, "DataPullReqBuilder") &&
					core.ProvEq(v, "iter({(@+recv.onDemandPagingDataTransferSize)|recv.currentMigrationRequest.ToWriteToPhysicalAddress})")
				st2.Ob(ok2)
				st2.Sample("%s: writeAddressMap[pullReq.ID] = %s", core.FuncName(fn), v)
				if !ok2 {
					c.ReportAt("R19.2", fn, in.Pos(), "writeAddressMap:insert", "the write-address map entry is not [pull request ID] = write cursor advancing by the transfer size from ToWriteToPhysicalAddress: ["+short(k)+"] = "+short(v))
				}
			}
		}
		if s, ok := storeToField(in, "PageMigrationController.numDataRspPendingForPageMigration"); ok {
			pv := prov.Of(s.Val)
			if strings.Contains(pv, "PageSize") {
				st2.Instances++
				ok2 := pv == "(recv.currentMigrationRequest.PageSize/recv.onDemandPagingDataTransferSize)"
				st2.Ob(ok2)
				if !ok2 {
					c.ReportAt("R19.2", fn, in.Pos(), "pending-count", "the number of expected chunks is "+pv+", not PageSize / transfer size (the count used to generate the pull requests)")
				}
			}
		}
	})
	// number of pull requests generated equals the pending count: loop bound
	for _, fn := range p.Direct(func(in ssa.Instruction) bool {
		s, ok := storeToField(in, "PageMigrationController.toPullFromAnotherPMC")
		if !ok {
			return false
		}
		return strings.Contains(prov.Of(s.Val), "DataPullReqBuilder")
	}) {
		st2.Instances++
		okB := false
		for _, b := range fn.Blocks {
			for _, in := range b.Instrs {
				if bo, ok := in.(*ssa.BinOp); ok && bo.Op == token.LSS {
					if prov.Of(bo.Y) == "(recv.currentMigrationRequest.PageSize/recv.onDemandPagingDataTransferSize)" && strings.HasPrefix(prov.Of(bo.X), "iter(") {
						okB = true
					}
				}
			}
		}
		st2.Ob(okB)
		if !okB {
			c.ReportAt("R19.2", fn, fn.Pos(), "pull-loop-bound", "the loop generating pull requests is not bounded by PageSize / transfer size: the page is not covered exactly")
		}
	}

	// R19.3 completion once
	st3 := c.Rule("R19.3", "the migration-complete response is built only where the pending-chunk counter was found 0 and the counter is then moved away from 0; each decrement consumes exactly one write acknowledgement; isHandlingPageMigration is cleared only after the response was sent", 3)
	isRspBuild := func(in ssa.Instruction) bool {
		call, ok := in.(*ssa.Call)
		if !ok {
			return false
		}
		cal := call.Call.StaticCallee()
		return cal != nil && core.FuncName(cal) == "PageMigrationRspFromPMCBuilder.Build" && cal.Pkg == p.Pkg
	}
	n3, ung3 := p.GuardedUp(isRspBuild, counterEqZero(prov, "recv.numDataRspPendingForPageMigration"))
	st3.Instances += n3
	if n3 == 0 {
		c.Report(core.Finding{Rule: "R19.3", Kind: "anchor", Pkg: pmcPkg, Func: "-", Detail: "completion-rsp", Msg: "no PageMigrationRspFromPMC construction found"})
	}
	for i := 0; i < n3-len(ung3); i++ {
		st3.Ob(true)
	}
	for _, u := range ung3 {
		st3.Ob(false)
		c.ReportAt("R19.3", u.Target.Fn(), u.Target.Instr.Pos(), "completion:guard", "the migration-complete response is built on a path that did not find the pending-chunk counter equal to 0")
	}
	for _, fn := range p.Direct(isRspBuild) {
		g := core.BuildGraph(fn, 0, nil)
		for _, b := range g.NodesWhere(func(n *core.Node) bool { return isRspBuild(n.Instr) }) {
			st3.Instances++
			leak := false
			g.Walk(core.After(b, nil), core.WalkOpts{ForwardOnly: true, Stop: func(n *core.Node) bool {
				s, ok := storeToField(n.Instr, "PageMigrationController.numDataRspPendingForPageMigration")
				if !ok {
					return false
				}
				z, isC := core.ConstInt(s.Val)
				return isC && z != 0
			}}, func(s core.State) {
				if _, ok := s.N.Instr.(*ssa.Return); ok {
					leak = true
				}
			})
			st3.Ob(!leak)
			if leak {
				c.ReportAt("R19.3", fn, b.Instr.Pos(), "completion:counter-not-reset", "after building the completion response the counter stays 0: the next tick builds a second completion response")
			}
		}
	}
	// decrement pairs with consuming one acknowledgement
	for _, fn := range p.Funcs {
		g := core.BuildGraph(fn, 0, nil)
		for _, d := range g.NodesWhere(func(n *core.Node) bool {
			s, ok := storeToField(n.Instr, "PageMigrationController.numDataRspPendingForPageMigration")
			return ok && prov.Of(s.Val) == "(recv.numDataRspPendingForPageMigration-1)"
		}) {
			st3.Instances++
			okG := g.Guarded(d, NilCut(func(v ssa.Value) bool { return prov.Of(v) == "recv.receivedWriteDoneFromMemCtrl" }, false))
			st3.Ob(okG)
			if !okG {
				c.ReportAt("R19.3", fn, d.Instr.Pos(), "decrement:guard", "the pending-chunk counter is decremented without a write acknowledgement being present")
			}
			leak := false
			// the acknowledgement must be cleared on every path from entry through the decrement to return
			g.Walk(core.After(d, nil), core.WalkOpts{ForwardOnly: true, Stop: func(n *core.Node) bool {
				s, ok := storeToField(n.Instr, "PageMigrationController.receivedWriteDoneFromMemCtrl")
				return ok && core.IsNilConst(s.Val)
			}}, func(s core.State) {
				if _, ok := s.N.Instr.(*ssa.Return); ok {
					leak = true
				}
			})
			st3.Ob(!leak)
			st3.Sample("%s: counter-- guarded by ack present=%v, ack cleared=%v", core.FuncName(fn), okG, !leak)
			if leak {
				c.ReportAt("R19.3", fn, d.Instr.Pos(), "decrement:ack-not-cleared", "the write acknowledgement is not cleared after being counted: it is counted again on the next tick")
			}
		}
	}
	// one migration at a time: the control port is read only when not handling a migration
	n3b, ung3b := p.GuardedUp(func(in ssa.Instruction) bool {
		return core.IsPortMethod(in, "RetrieveIncoming") && portOfCall(in) == "ctrlPort"
	}, BoolFieldCut("PageMigrationController.isHandlingPageMigration", false))
	st3.Instances += n3b
	for i := 0; i < n3b-len(ung3b); i++ {
		st3.Ob(true)
	}
	for _, u := range ung3b {
		st3.Ob(false)
		c.ReportAt("R19.3", u.Target.Fn(), u.Target.Instr.Pos(), "ctrl:busy-gate", "a new migration request is taken from the control port while another migration is in progress: the current request is overwritten")
	}

	// ---------------- CP ctrl middleware ----------------
	pc := NewPkgInfo(c, cpPkg)
	RunProto(c, &ProtoCfg{
		AllEffectsAfterSend: true,
		RuleBase:            "R19.1.cp", Pkg: cpPkg, FloorSends: 13,
		Effects:   []Effect{RetrieveEffect},
		SkipRoots: cpSequencers,
		OnlyFuncs: func(name string) bool { return strings.HasPrefix(name, "ctrlMiddleware.") },
	})
	pc.CheckFields("R19.2.cp", []FieldSpec{
		{Builder: "pagemigrationcontroller.PageMigrationReqToPMCBuilder", MinSites: 1, SameBase: []string{"WithPageSize", "WithReadFrom", "WithWriteTo"},
			Require: map[string]string{
				"WithPageSize":           `\.PageSize$`,
				"WithReadFrom":           `\.ToReadFromPhysicalAddress$`,
				"WithWriteTo":            `\.ToWriteToPhysicalAddress$`,
				"WithPMCPortOfRemoteGPU": `\.DestinationPMCPort\.AsRemote\(\)$`}},
	})

	// ---------------- driver handshake ----------------
	pd := NewPkgInfo(c, driverPkg)
	RunProto(c, &ProtoCfg{
		AllEffectsAfterSend: true,
		RuleBase:            "R19.1.driver", Pkg: driverPkg, FloorSends: 3,
		Effects: []Effect{
			RetrieveEffect,
			FieldWriteEffect("requestsToSend-write", "Driver.requestsToSend"),
			FieldWriteEffect("migrationReqToSendToCP-write", "Driver.migrationReqToSendToCP"),
			FieldWriteEffect("isCurrentlyMigratingOnePage-write", "Driver.isCurrentlyMigratingOnePage"),
			FieldWriteEffect("toSendToMMU-write", "Driver.toSendToMMU"),
		},
		OnlyFuncs: func(name string) bool { return strings.HasPrefix(name, "Driver.send") },
	})
	// ---------------- R19.7 acknowledgement counters belong to one handshake at a time (c19ack.go) ----------------
	checkAckCounterOwnership(c, pc)

	// the driver's receive side: every handler reached after a message was retrieved from
	// the GPU port reports progress (R19.1.rx.progress-after-consume); a handler that
	// returns false after consuming lets the driver sleep with the next acknowledgement
	// unread, because a port only wakes its component when its buffer was empty
	RunProto(c, &ProtoCfg{
		RuleBase: "R19.1.rx", Pkg: driverPkg, FloorSends: 0,
		Effects:   []Effect{RetrieveEffect},
		OnlyFuncs: func(name string) bool { return name == "Driver.processReturnReq" },
	})
	st4 := c.Rule("R19.4", "the drain → shootdown → migrate → restart stages are each entered only where the previous stage's acknowledgement counter was found 0; a new migration request is accepted only when none is being handled; one page migrates at a time", 6)
	type stage struct {
		what    string
		target  func(in ssa.Instruction) bool
		counter string
	}
	stages := []stage{
		{"shootdown requests", func(in ssa.Instruction) bool { return callsFunc(in, pd.Pkg, "Driver.sendShootDownReqs") }, "recv.numRDMADrainACK"},
		{"page preparation / migration requests", func(in ssa.Instruction) bool { return callsFunc(in, pd.Pkg, "Driver.preparePageForMigration") }, "recv.numShootDownACK"},
		{"GPU restart requests", func(in ssa.Instruction) bool { return callsFunc(in, pd.Pkg, "Driver.prepareGPURestartReqs") }, "recv.numPagesMigratingACK"},
		{"migration response to the MMU", func(in ssa.Instruction) bool { return callsFunc(in, pd.Pkg, "Driver.preparePageMigrationRspToMMU") }, "recv.numPagesMigratingACK"},
		{"RDMA restart requests", func(in ssa.Instruction) bool { return callsFunc(in, pd.Pkg, "Driver.prepareRDMARestartReqs") }, "recv.numRestartACK"},
		{"end of migration handling", func(in ssa.Instruction) bool {
			s, ok := storeToField(in, "Driver.isCurrentlyHandlingMigrationReq")
			if !ok {
				return false
			}
			b, isC := core.ConstBool(s.Val)
			return isC && !b
		}, "recv.numRDMARestartACK"},
	}
	for _, sg := range stages {
		n, ung := pd.GuardedUp(sg.target, counterEqZero(prov, sg.counter))
		st4.Instances += n
		if n == 0 {
			c.Report(core.Finding{Rule: "R19.4", Kind: "anchor", Pkg: driverPkg, Func: "-", Detail: sg.what, Msg: "stage entry not found: " + sg.what})
		}
		for i := 0; i < n-len(ung); i++ {
			st4.Ob(true)
			st4.Sample("%s entered only where %s == 0", sg.what, sg.counter)
		}
		for _, u := range ung {
			st4.Ob(false)
			c.ReportAt("R19.4", u.Target.Fn(), u.Target.Instr.Pos(), "stage:"+sg.counter, fmt.Sprintf("%s are issued on a path that did not find %s == 0: the stage starts before all acknowledgements of the previous stage arrived", sg.what, sg.counter))
		}
	}
	// each counter is decremented only in a function reached from the response dispatcher, exactly one site
	for _, cnt := range []string{"numRDMADrainACK", "numShootDownACK", "numPagesMigratingACK", "numRestartACK", "numRDMARestartACK"} {
		dec := 0
		pd.Instrs(func(fn *ssa.Function, in ssa.Instruction) {
			if s, ok := storeToField(in, "Driver."+cnt); ok && prov.Of(s.Val) == "(recv."+cnt+"-1)" {
				dec++
			}
		})
		st4.Instances++
		st4.Ob(dec == 1)
		if dec != 1 {
			c.Report(core.Finding{Rule: "R19.4", Pkg: driverPkg, Func: "-", Detail: "decrement:" + cnt, Msg: fmt.Sprintf("%d decrement sites for %s; exactly one (one per acknowledgement) is expected", dec, cnt)})
		}
	}
	// accept a migration request only when idle
	n4, ung4 := pd.GuardedUp(func(in ssa.Instruction) bool {
		return core.IsPortMethod(in, "RetrieveIncoming") && portOfCall(in) == "mmuPort"
	}, BoolFieldCut("Driver.isCurrentlyHandlingMigrationReq", false))
	st4.Instances += n4
	for i := 0; i < n4-len(ung4); i++ {
		st4.Ob(true)
	}
	for _, u := range ung4 {
		st4.Ob(false)
		c.ReportAt("R19.4", u.Target.Fn(), u.Target.Instr.Pos(), "mmu:busy-gate", "a migration request is taken from the MMU port while another one is being handled: requests arriving during a migration would overwrite it instead of being served afterwards")
	}
	n4b, ung4b := pd.GuardedUp(func(in ssa.Instruction) bool {
		if !core.IsPortMethod(in, "Send") {
			return false
		}
		return strings.HasPrefix(prov.Of(core.CallOf(in).Args[0]), "recv.migrationReqToSendToCP[")
	}, BoolFieldCut("Driver.isCurrentlyMigratingOnePage", false))
	st4.Instances += n4b
	for i := 0; i < n4b-len(ung4b); i++ {
		st4.Ob(true)
	}
	for _, u := range ung4b {
		st4.Ob(false)
		c.ReportAt("R19.4", u.Target.Fn(), u.Target.Instr.Pos(), "one-page-gate", "a page migration request is sent while another page is still migrating")
	}
	// request fields: read from the old physical page, write to the newly allocated page, page table updated to the new page
	st5 := c.Rule("R19.5", "the migration request reads from the page's old physical address (looked up before re-homing) and writes to the newly allocated page; the page table is updated with the new page on the destination device", 3)
	pd.Instrs(func(fn *ssa.Function, in ssa.Instruction) {
		for field, want := range map[string]string{
			"PageMigrationReqToCP.ToReadFromPhysicalAddress": `^recv\.preparePageForMigration\(.*\)#1$`,
			"PageMigrationReqToCP.ToWriteToPhysicalAddress":  `^recv\.preparePageForMigration\(.*\)\.PAddr$`,
			"PageMigrationReqToCP.PageSize":                  `^recv\.currentPageMigrationReq\.PageSize$`,
		} {
			if s, ok := storeToField(in, field); ok {
				st5.Instances++
				pv := prov.Of(s.Val)
				ok2 := core.ProvMatch(regexp.MustCompile(want), pv)
				st5.Ob(ok2)
				st5.Sample("%s: %s = %s", core.FuncName(fn), field, short(pv))
				if !ok2 {
					c.ReportAt("R19.5", fn, in.Pos(), field, field+" is "+short(pv)+", required /"+want+"/")
				}
			}
		}
	})
	if fn := c.MustFunc("R19.5", driverPkg, "Driver.preparePageForMigration"); fn != nil {
		for _, b := range fn.Blocks {
			for _, in := range b.Instrs {
				if r, ok := in.(*ssa.Return); ok && len(r.Results) == 2 {
					st5.Instances++
					old := prov.Of(r.Results[1])
					ok2 := core.ProvMatch(regexp.MustCompile(`^recv\.pageTable\.Find\(.*\)\.PAddr$`), old)
					st5.Ob(ok2)
					if !ok2 {
						c.ReportAt("R19.5", fn, in.Pos(), "oldPAddr", "the source address returned is "+short(old)+", not the PAddr found in the page table before re-homing")
					}
				}
				if cc := core.CallOf(in); cc != nil && cc.IsInvoke() && cc.Method.Name() == "Update" && strings.HasSuffix(prov.Of(cc.Value), ".pageTable") {
					st5.Instances++
					pv := prov.Of(cc.Args[0])
					ok2 := strings.Contains(pv, "AllocatePageWithGivenVAddr(")
					st5.Ob(ok2)
					st5.Sample("preparePageForMigration: pageTable.Update(%s)", short(pv))
					if !ok2 {
						c.ReportAt("R19.5", fn, in.Pos(), "pageTable.Update:arg", "the page table is updated with "+short(pv)+", not with the newly allocated page")
					}
				}
			}
		}
	}

	// ---------------- R19.9 a chunk goes to the memory controller that owns the chunk's address ----------------
	st9 := c.Rule("R19.9", "every memory request the page migration controller builds is addressed (WithDst(MemCtrlFinder.Find(a))) with the very address it carries (WithAddress(a)): a page can be spread over several memory controllers (banks interleaved finer than a page), so a request routed by the page's base address reaches a bank that does not own the chunk; the chunks overwrite that bank's part of the page and the owning banks never receive their data", 2)
	p.Instrs(func(fn *ssa.Function, in ssa.Instruction) {
		cc := core.CallOf(in)
		if cc == nil || cc.StaticCallee() == nil || cc.StaticCallee().Name() != "WithDst" || len(cc.Args) < 2 {
			return
		}
		find, ok := cc.Args[len(cc.Args)-1].(*ssa.Call)
		if !ok || !find.Call.IsInvoke() || find.Call.Method.Name() != "Find" || len(find.Call.Args) != 1 {
			return
		}
		// the WithAddress call of the same builder chain: in the same block
		var carried ssa.Value
		for _, i2 := range in.Block().Instrs {
			if c2 := core.CallOf(i2); c2 != nil && c2.StaticCallee() != nil && c2.StaticCallee().Name() == "WithAddress" {
				carried = c2.Args[len(c2.Args)-1]
			}
		}
		if carried == nil {
			return
		}
		st9.Instances++
		c.MarkAnalysed(fn)
		okA := core.StripConv(find.Call.Args[0]) == core.StripConv(carried) || prov.Of(find.Call.Args[0]) == prov.Of(carried)
		st9.Ob(okA)
		st9.Sample("%s: destination looked up with the address the request carries: %v", core.FuncName(fn), okA)
		if !okA {
			c.ReportAt("R19.9", fn, in.Pos(), "dst-for-other-address", "the request carries address "+short(prov.Of(carried))+" but its destination is the memory controller of "+short(prov.Of(find.Call.Args[0]))+": when a page is interleaved over several controllers the chunk is written to (read from) a bank that does not own it")
		}
	})

	// ---------------- R19.8 the one-page gate is reopened by every acknowledgement ----------------
	st8 := c.Rule("R19.8", "the driver sends one page-migration request to a command processor at a time: the function that sends it closes a gate (a boolean field of the driver set after the successful Send and tested before it), and the handler of the command processor's acknowledgement (the driver function that takes a *PageMigrationRspToDriver) reopens the gate on every path to its return, helpers expanded. If the last acknowledgement of a request leaves the gate closed, the next migration request re-homes its page in the page table, queues the copy and never sends it: the page is mapped to a frame its contents were never copied to and no completion is reported", 2)
	{
		pdrv := NewPkgInfo(c, driverPkg)
		// the gate: a bool field of Driver stored true in a function that also Sends on gpuPort and tests the same field
		var gate string
		var sender *ssa.Function
		for _, fn := range pdrv.Funcs {
			tested := map[string]bool{}
			sends := false
			for _, b := range fn.Blocks {
				for _, in := range b.Instrs {
					if iff, ok := in.(*ssa.If); ok {
						if f := core.LoadedField(iff.Cond); f != nil {
							tested[core.ShortFieldID(f)] = true
						}
					}
					if SendOn(in, "gpuPort") {
						sends = true
					}
				}
			}
			if !sends {
				continue
			}
			for _, b := range fn.Blocks {
				for _, in := range b.Instrs {
					if st, ok := in.(*ssa.Store); ok {
						if f := core.FieldOfAddr(st.Addr); f != nil && tested[core.ShortFieldID(f)] {
							if bv, isC := core.ConstBool(st.Val); isC && bv && strings.HasPrefix(core.ShortFieldID(f), "Driver.") {
								gate, sender = core.ShortFieldID(f), fn
							}
						}
					}
				}
			}
		}
		var handler *ssa.Function
		for _, fn := range pdrv.Funcs {
			for _, prm := range fn.Params {
				if namedTypeName(prm.Type()) == "protocol.PageMigrationRspToDriver" {
					handler = fn
				}
			}
		}
		if gate == "" || handler == nil {
			c.Report(core.Finding{Rule: "R19.8", Kind: "anchor", Pkg: driverPkg, Func: "-", Detail: "gate/handler", Msg: "the one-page gate of the driver or the handler of PageMigrationRspToDriver was not found"})
		} else {
			c.MarkAnalysed(sender)
			c.MarkAnalysed(handler)
			st8.Instances++
			// the sender closes the gate only after a successful Send
			gs := core.BuildGraph(sender, 0, nil)
			okClose := true
			for _, n := range gs.Nodes {
				if st, ok := storeToField(n.Instr, gate); ok {
					if bv, isC := core.ConstBool(st.Val); isC && bv {
						if !gs.Guarded(n, NilCut(func(v ssa.Value) bool {
							in, ok := v.(ssa.Instruction)
							return ok && SendOn(in, "gpuPort")
						}, true)) {
							okClose = false
						}
					}
				}
			}
			st8.Ob(okClose)
			if !okClose {
				c.ReportAt("R19.8", sender, sender.Pos(), "gate:closed-without-send", gate+" is set on a path on which the request was not sent: the gate stays closed with nothing in flight to reopen it")
			}
			st8.Instances++
			gh := core.BuildGraph(handler, 2, func(cal *ssa.Function) bool { return cal.Pkg == handler.Pkg })
			reopen := func(n *core.Node) bool {
				st, ok := storeToField(n.Instr, gate)
				if !ok {
					return false
				}
				bv, isC := core.ConstBool(st.Val)
				return isC && !bv
			}
			var leak *core.Node
			gh.Walk([]core.State{{N: gh.Entry}}, core.WalkOpts{Stop: reopen}, func(x core.State) {
				if _, isRet := x.N.Instr.(*ssa.Return); isRet && x.N.Frame.Parent == nil && leak == nil {
					leak = x.N
				}
			})
			st8.Ob(leak == nil)
			st8.Sample("gate %s: closed in %s after a successful Send, reopened on every path of %s: %v", gate, core.FuncName(sender), core.FuncName(handler), leak == nil)
			if leak != nil {
				c.ReportAt("R19.8", handler, leak.Instr.Pos(), "gate:not-reopened", core.FuncName(handler)+" can return without clearing "+gate+": after that acknowledgement "+core.FuncName(sender)+" refuses every further page-migration request, although the page table was already pointed at the new frame; the page's contents are never copied and the migration never completes")
			}
		}
	}

	// ---------------- R19.6 expected acknowledgements are counted where requests are queued ----------------
	st6 := c.Rule("R19.6", "in the driver's migration handshake every increment of an acknowledgement counter (num…ACK) sits in the same basic block as the queueing of the request it stands for, and every page-migration request queued for a command processor has its increment in that block: the stage is left when the counter returns to zero, so a counter that counts per GPU while requests are queued per page reports completion (and restarts the GPUs) before the last page was copied, and underflows afterwards", 4)
	{
		pdrv := NewPkgInfo(c, driverPkg)
		isQueue := func(in ssa.Instruction, field string) bool {
			st, ok := in.(*ssa.Store)
			if !ok {
				return false
			}
			f := core.FieldOfAddr(st.Addr)
			if f == nil || (field != "" && f.Name() != field) || (field == "" && f.Name() != "requestsToSend" && f.Name() != "migrationReqToSendToCP") {
				return false
			}
			return strings.Contains(prov.Of(st.Val), "append(")
		}
		ackInc := func(in ssa.Instruction) string {
			st, ok := in.(*ssa.Store)
			if !ok {
				return ""
			}
			f := core.FieldOfAddr(st.Addr)
			if f == nil || !core.ProvMatch(regexp.MustCompile(`^num\w*ACK$`), f.Name()) {
				return ""
			}
			if strings.HasSuffix(prov.Of(st.Val), "."+f.Name()+"+1)") {
				return f.Name()
			}
			return ""
		}
		// every acknowledgement counter that is decremented is also raised (incremented per request, or set to the number of requests)
		raised, lowered := map[string]int{}, map[string]int{}
		pdrv.Instrs(func(fn *ssa.Function, in ssa.Instruction) {
			st, ok := in.(*ssa.Store)
			if !ok {
				return
			}
			f := core.FieldOfAddr(st.Addr)
			if f == nil || !core.ProvMatch(regexp.MustCompile(`^num\w*ACK$`), f.Name()) {
				return
			}
			pv := prov.Of(st.Val)
			switch {
			case strings.HasSuffix(pv, "."+f.Name()+"-1)"):
				lowered[f.Name()]++
			case strings.HasSuffix(pv, "."+f.Name()+"+1)"), strings.Contains(pv, "len("):
				raised[f.Name()]++
			}
		})
		for _, name := range sortedKeys(lowered) {
			st6.Instances++
			ok := raised[name] > 0
			st6.Ob(ok)
			if !ok {
				c.Report(core.Finding{Rule: "R19.6", Pkg: driverPkg, Func: "Driver", Detail: "ack-never-raised:" + name, Msg: name + " is decremented for every acknowledgement but never raised when the requests are queued: the first acknowledgement underflows it and the stage never ends (or ends at once)"})
			}
		}
		pdrv.Instrs(func(fn *ssa.Function, in ssa.Instruction) {
			if name := ackInc(in); name != "" {
				st6.Instances++
				c.MarkAnalysed(fn)
				ok := false
				for _, i2 := range in.Block().Instrs {
					if isQueue(i2, "") {
						ok = true
					}
				}
				st6.Ob(ok)
				st6.Sample("%s: %s++ next to the queueing of its request: %v", core.FuncName(fn), name, ok)
				if !ok {
					c.ReportAt("R19.6", fn, in.Pos(), "ack-count:"+name, name+" is incremented in a block that queues no request: the number of acknowledgements waited for differs from the number of requests sent (too few: the stage is left, GPUs are restarted and completion is reported while requests are still being served, and the late acknowledgement underflows the counter; too many: the stage never ends)")
				}
			}
			if isQueue(in, "migrationReqToSendToCP") {
				st6.Instances++
				ok := false
				for _, i2 := range in.Block().Instrs {
					if ackInc(i2) == "numPagesMigratingACK" {
						ok = true
					}
				}
				st6.Ob(ok)
				if !ok {
					c.ReportAt("R19.6", fn, in.Pos(), "queued-without-count:migrationReqToSendToCP", "a page-migration request is queued without incrementing numPagesMigratingACK in the same block: completion is reported before this page was copied")
				}
			}
		})
	}

	checkIntegerWidths(c, "R19.13", "Physical addresses in the migration controller are not narrowed, nor masked with a narrower mask.", 5, []widthScope{{rel: pmcPkg}}, []string{"narrow", "widen-wrapped", "unsigned-diff"}, widthAllowC19)
	checkMigrationTargetDevice(c, "R19.14")
	checkAppendToOwnField(c, "R19.15", "In the page migration controller the two lists are the replies still owed to another controller and the chunks received from one: a received chunk appended to the owed replies makes the controller treat its own outgoing replies as received data.", 4, NewPkgInfo(c, pmcPkg))
	checkNoSharedElementAcrossIterations(c, "R19.16", "In the driver's migration handshake the entries are the restart requests for the GPUs that were shot down: all of them would name the last GPU, which is restarted twice while the others never are.", 3, NewPkgInfo(c, driverPkg))
	checkScanNotLeftByBreak(c, "R19.17", "PageMigrationController.sendReadReqLocalMemPort offers every queued read to the port: the walk over toSendLocalMemPort is not left by a break. Left after the first accepted send, the reads queued behind it are dropped from the list: their chunks are never copied and the migration never completes", pmcPkg, "PageMigrationController.sendReadReqLocalMemPort", "toSendLocalMemPort")
	return core.Meta{Level: "other",
		Explanation: "Structural clauses of page migration decided on SSA of pagemigrationcontroller, the CP control middleware and the driver handshake: back-pressure discipline incl. the retry-list idiom on the PMC's four list-driven send stages, FIELDS/ID threading along the pull→read→reply→write chunk pipeline (cursors advance by the transfer unit, chunk count = page size / unit), completion built only at counter 0 and counter reset, acknowledgement counted once, one migration at a time, stage order of the driver handshake (each stage entered only at its predecessor's counter 0), request fields (old PAddr → new page).",
		NotDecided:  "byte equality of page contents, page-size divisibility by the transfer unit, memory controller behaviour",
		Assumptions: commonAssumptions}
}
