package rules

import (
	"fmt"
	"go/ast"
	"go/constant"
	"go/token"
	"go/types"
	"regexp"
	"sort"
	"strings"

	"golang.org/x/tools/go/ssa"

	"verif/internal/core"
)

func init() { register("C04", runC04) }

// evalNumCond evaluates a boolean AST over the single variable `num` for a
// concrete value using only comparisons with constants, &&, ||, !.
func evalNumCond(c *core.Ctx, e ast.Expr, num int64) (bool, bool) {
	p := c.Pkg(instsPkg)
	switch e := e.(type) {
	case *ast.ParenExpr:
		return evalNumCond(c, e.X, num)
	case *ast.UnaryExpr:
		if e.Op == token.NOT {
			v, ok := evalNumCond(c, e.X, num)
			return !v, ok
		}
	case *ast.BinaryExpr:
		switch e.Op {
		case token.LAND:
			a, ok1 := evalNumCond(c, e.X, num)
			b, ok2 := evalNumCond(c, e.Y, num)
			return a && b, ok1 && ok2
		case token.LOR:
			a, ok1 := evalNumCond(c, e.X, num)
			b, ok2 := evalNumCond(c, e.Y, num)
			return a || b, ok1 && ok2
		case token.EQL, token.NEQ, token.LSS, token.LEQ, token.GTR, token.GEQ:
			var x, y int64
			okx, oky := false, false
			if id, ok := e.X.(*ast.Ident); ok && id.Name == "num" {
				x, okx = num, true
			} else {
				x, okx = constInt64(p, e.X)
			}
			if id, ok := e.Y.(*ast.Ident); ok && id.Name == "num" {
				y, oky = num, true
			} else {
				y, oky = constInt64(p, e.Y)
			}
			if !okx || !oky {
				return false, false
			}
			switch e.Op {
			case token.EQL:
				return x == y, true
			case token.NEQ:
				return x != y, true
			case token.LSS:
				return x < y, true
			case token.LEQ:
				return x <= y, true
			case token.GTR:
				return x > y, true
			case token.GEQ:
				return x >= y, true
			}
		}
	}
	return false, false
}

// operandOKSet: the set of operand codes on which getOperand returns a nil error.
func operandOKSet(c *core.Ctx) (map[int64]bool, string) {
	p := c.Pkg(instsPkg)
	fd := findFuncDecl(p, "getOperand")
	if fd == nil {
		return nil, "getOperand not found"
	}
	var sw *ast.SwitchStmt
	for _, st := range fd.Body.List {
		if s, ok := st.(*ast.SwitchStmt); ok && s.Tag == nil {
			sw = s
		}
	}
	if sw == nil {
		return nil, "getOperand is no longer a tagless switch over num"
	}
	okSet := map[int64]bool{}
	for num := int64(0); num < 1024; num++ {
		decided := false
		for _, st := range sw.Body.List {
			cc := st.(*ast.CaseClause)
			match := cc.List == nil
			for _, e := range cc.List {
				v, ok := evalNumCond(c, e, num)
				if !ok {
					return nil, "a case of getOperand is not a comparison of num with constants"
				}
				if v {
					match = true
				}
			}
			if !match {
				continue
			}
			// the clause's return: last result nil => ok
			ret, ok := cc.Body[len(cc.Body)-1].(*ast.ReturnStmt)
			if !ok || len(ret.Results) != 2 {
				return nil, "a case of getOperand does not end in a two-value return"
			}
			if id, ok := ret.Results[1].(*ast.Ident); ok && id.Name == "nil" {
				if id0, ok := ret.Results[0].(*ast.Ident); !ok || id0.Name != "nil" {
					okSet[num] = true
				}
			}
			decided = true
			break
		}
		_ = decided
	}
	return okSet, ""
}

type ival struct{ lo, hi int64 }

var top = ival{0, 1 << 20}

func intervalOf(v ssa.Value, depth int) ival {
	if depth > 12 {
		return top
	}
	if k, ok := core.ConstInt(v); ok {
		return ival{k, k}
	}
	switch x := v.(type) {
	case *ssa.Convert:
		iv := intervalOf(x.X, depth+1)
		if b, ok := x.Type().Underlying().(*types.Basic); ok {
			var max int64 = 1 << 20
			switch b.Kind() {
			case types.Uint8:
				max = 255
			case types.Uint16:
				max = 65535
			}
			if iv.hi > max {
				return ival{0, max}
			}
		}
		return iv
	case *ssa.Call:
		if cal := x.Call.StaticCallee(); cal != nil && cal.Name() == "extractBits" && len(x.Call.Args) == 3 {
			lo, ok1 := core.ConstInt(x.Call.Args[1])
			hi, ok2 := core.ConstInt(x.Call.Args[2])
			if ok1 && ok2 && hi >= lo {
				return ival{0, (int64(1) << uint(hi-lo+1)) - 1}
			}
		}
	case *ssa.BinOp:
		a, b := intervalOf(x.X, depth+1), intervalOf(x.Y, depth+1)
		switch x.Op {
		case token.ADD:
			return ival{a.lo + b.lo, a.hi + b.hi}
		case token.AND:
			if b.lo == b.hi {
				return ival{0, b.hi}
			}
		case token.REM:
			if b.lo == b.hi && b.hi > 0 {
				return ival{0, b.hi - 1}
			}
		}
	case *ssa.Phi:
		out := ival{1 << 20, 0}
		for _, e := range x.Edges {
			iv := intervalOf(e, depth+1)
			if iv.lo < out.lo {
				out.lo = iv.lo
			}
			if iv.hi > out.hi {
				out.hi = iv.hi
			}
		}
		return out
	}
	return top
}

func runC04(c *core.Ctx) core.Meta {
	c.Load(instsPkg, "amd/emu", "amd/emu/cdna3", "amd/timing/cu")
	c.BuildSSA()
	p := c.Pkg(instsPkg)
	pi := NewPkgInfo(c, instsPkg)
	prov := core.NewProv(c)
	t := LoadInstTables(c)
	for _, u := range t.Undecided {
		c.Report(core.Finding{Rule: "R04.2", Kind: "undecided", Pkg: instsPkg, Func: "tables", Detail: u, Msg: "table could not be evaluated: " + u})
	}

	// ---------------- R04.1 format table ----------------
	st1 := c.Rule("R04.1", "format table: Encoding within Mask; formats whose patterns overlap have different masks and the numerically larger mask is the more specific one (the order initFormatList sorts by), equal masks imply disjoint patterns unless matchFormat skips one (VOP3a/VOP3b); opcode field inside the zero bits of the mask; so matchFormat is independent of map order and sort stability", 18)
	names := t.FormatNames()
	skipVOP3b := false
	if fd := findFuncDecl(p, "Disassembler.matchFormat"); fd != nil {
		ast.Inspect(fd.Body, func(n ast.Node) bool {
			if ifs, ok := n.(*ast.IfStmt); ok {
				if be, ok := ifs.Cond.(*ast.BinaryExpr); ok && be.Op == token.EQL && strings.HasSuffix(exprString(be.X), ".FormatType") && exprString(be.Y) == "VOP3b" {
					if len(ifs.Body.List) == 1 {
						if bs, ok := ifs.Body.List[0].(*ast.BranchStmt); ok && bs.Tok == token.CONTINUE {
							skipVOP3b = true
						}
					}
				}
			}
			return true
		})
	}
	for _, n := range names {
		f := t.Formats[n]
		st1.Instances++
		ok := f.Encoding&^f.Mask == 0
		st1.Ob(ok)
		if !ok {
			c.Report(core.Finding{Rule: "R04.1", Pkg: instsPkg, Func: "initFormatTable", Detail: n + ":encoding-outside-mask", Pos: c.Position(f.Pos), Msg: fmt.Sprintf("format %s: encoding %#x has bits outside mask %#x: it can never match", n, f.Encoding, f.Mask)})
		}
		width := f.OpHi - f.OpLow + 1
		okOp := f.OpHi >= f.OpLow && width <= 16 && (uint32((uint64(1)<<uint(width))-1)<<uint(f.OpLow))&f.Mask == 0
		if n == "EXP" {
			okOp = f.OpHi >= f.OpLow
		}
		st1.Ob(okOp)
		if !okOp {
			c.Report(core.Finding{Rule: "R04.1", Pkg: instsPkg, Func: "initFormatTable", Detail: n + ":opcode-field", Pos: c.Position(f.Pos), Msg: fmt.Sprintf("format %s: opcode field [%d..%d] is empty or overlaps the encoding mask %#x", n, f.OpLow, f.OpHi, f.Mask)})
		}
		okSz := f.ByteSize == 4 || f.ByteSize == 8
		st1.Ob(okSz)
		if !okSz {
			c.Report(core.Finding{Rule: "R04.1", Pkg: instsPkg, Func: "initFormatTable", Detail: n + ":size", Pos: c.Position(f.Pos), Msg: fmt.Sprintf("format %s: base size %d is not 4 or 8 bytes", n, f.ByteSize)})
		}
		st1.Sample("%s enc=%#08x mask=%#08x size=%d opcode[%d..%d]", n, f.Encoding, f.Mask, f.ByteSize, f.OpLow, f.OpHi)
	}
	for i, a := range names {
		for _, b := range names[i+1:] {
			fa, fb := t.Formats[a], t.Formats[b]
			overlap := (fa.Encoding^fb.Encoding)&(fa.Mask&fb.Mask) == 0
			if !overlap {
				continue
			}
			st1.Instances++
			pair := a + "/" + b
			if (a == "VOP3a" && b == "VOP3b") || (a == "VOP3b" && b == "VOP3a") {
				st1.Ob(skipVOP3b)
				if !skipVOP3b {
					c.Report(core.Finding{Rule: "R04.1", Pkg: instsPkg, Func: "Disassembler.matchFormat", Detail: pair + ":not-skipped", Msg: "VOP3a and VOP3b share encoding and mask but matchFormat no longer skips VOP3b: which one is returned depends on sort/map order"})
				}
				continue
			}
			if fa.Mask == fb.Mask {
				st1.Ob(false)
				c.Report(core.Finding{Rule: "R04.1", Pkg: instsPkg, Func: "initFormatTable", Detail: pair + ":ambiguous", Msg: fmt.Sprintf("formats %s and %s have the same mask and encoding: the match depends on unstable sort / map iteration order, so independent decoder instances can disagree", a, b)})
				continue
			}
			big, small := fa, fb
			if fb.Mask > fa.Mask {
				big, small = fb, fa
			}
			ok := big.Mask&small.Mask == small.Mask
			st1.Ob(ok)
			if !ok {
				c.Report(core.Finding{Rule: "R04.1", Pkg: instsPkg, Func: "initFormatTable", Detail: pair + ":order", Msg: fmt.Sprintf("formats %s and %s overlap but the numerically larger mask %#x is not the more specific one: the wrong format is matched first", a, b, big.Mask)})
			}
		}
	}
	// the sort order of initFormatList
	if fd := findFuncDecl(p, "Disassembler.initFormatList"); fd != nil {
		st1.Instances++
		desc := false
		ast.Inspect(fd.Body, func(n ast.Node) bool {
			if be, ok := n.(*ast.BinaryExpr); ok && (be.Op == token.GTR || be.Op == token.LSS) && strings.HasSuffix(exprString(be.X), ".Mask") && strings.HasSuffix(exprString(be.Y), ".Mask") {
				xi, yi := be.X.(*ast.SelectorExpr).X, be.Y.(*ast.SelectorExpr).X
				if be.Op == token.LSS { // list[j].Mask < list[i].Mask
					xi, yi = yi, xi
				}
				if ix, ok := xi.(*ast.IndexExpr); ok {
					if iy, ok := yi.(*ast.IndexExpr); ok && exprString(ix.Index) == "i" && exprString(iy.Index) == "j" {
						desc = true
					}
				}
			}
			return true
		})
		st1.Ob(desc)
		if !desc {
			c.Report(core.Finding{Rule: "R04.1", Pkg: instsPkg, Func: "Disassembler.initFormatList", Detail: "sort-order", Pos: c.Position(fd.Pos()), Msg: "the format list is no longer sorted by descending mask (most specific first)"})
		}
	} else {
		c.Report(core.Finding{Rule: "R04.1", Kind: "anchor", Pkg: instsPkg, Func: "Disassembler.initFormatList", Detail: "anchor", Msg: "initFormatList not found"})
	}

	// ---------------- R04.2 decode tables ----------------
	st2 := c.Rule("R04.2", "decode tables: no two explicit rows give one (format, opcode) different names; every opcode fits its format's opcode field; VOP3b rows are exactly opcodes accepted by isVOP3bOpcode; every format with rows is dispatched in Decode", 1000)
	type key struct {
		f  string
		op int64
	}
	first := map[key]*InstRow{}
	for _, r := range t.Rows {
		st2.Instances++
		f := t.Formats[r.Format]
		if f == nil {
			st2.Ob(false)
			c.Report(core.Finding{Rule: "R04.2", Pkg: instsPkg, Func: "initializeDecodeTable", Detail: "row:" + r.Name + ":no-format", Pos: c.Position(r.Pos), Msg: "row uses a format without a format-table entry"})
			continue
		}
		width := f.OpHi - f.OpLow + 1
		ok := r.Opcode >= 0 && r.Opcode < int64(1)<<uint(width)
		st2.Ob(ok)
		if !ok {
			c.Report(core.Finding{Rule: "R04.2", Pkg: instsPkg, Func: "initializeDecodeTable", Detail: fmt.Sprintf("row:%s:%s:%d:width", r.Format, r.Name, r.Opcode), Pos: c.Position(r.Pos), Msg: fmt.Sprintf("opcode %d of %s does not fit the %d-bit opcode field of %s: the row can never be decoded", r.Opcode, r.Name, width, r.Format)})
		}
		k := key{r.Format, r.Opcode}
		if prev, dup := first[k]; dup && prev.Name != r.Name && !prev.FromLoop && !r.FromLoop {
			st2.Ob(false)
			c.Report(core.Finding{Rule: "R04.2", Pkg: instsPkg, Func: "initializeDecodeTable", Detail: fmt.Sprintf("dup:%s:%d:%s/%s", r.Format, r.Opcode, prev.Name, r.Name), Pos: c.Position(r.Pos), Msg: fmt.Sprintf("(%s, opcode %d) is registered as %s and again as %s: the first is silently overwritten, bytes encoding it decode to the other instruction", r.Format, r.Opcode, prev.Name, r.Name)})
		} else {
			st2.Ob(true)
		}
		if _, dup := first[k]; !dup || !r.FromLoop {
			first[k] = r
		}
	}
	if len(t.Rows) > 0 {
		st2.Sample("%d rows, e.g. %s opcode %d format %s", len(t.Rows), t.Rows[0].Name, t.Rows[0].Opcode, t.Rows[0].Format)
	}
	// formats with rows are dispatched
	decodeFd := findFuncDecl(p, "Disassembler.Decode")
	dispatch := map[string]string{} // format name -> decode function
	if decodeFd == nil {
		c.Report(core.Finding{Rule: "R04.2", Kind: "anchor", Pkg: instsPkg, Func: "Disassembler.Decode", Detail: "anchor", Msg: "Decode not found"})
	} else {
		cases, ok := SwitchCases(p, decodeFd, "FormatType")
		if !ok {
			c.Report(core.Finding{Rule: "R04.2", Kind: "undecided", Pkg: instsPkg, Func: "Disassembler.Decode", Detail: "format-switch", Msg: "no switch over the format type in Decode"})
		}
		for _, sc := range cases {
			for _, v := range sc.Values {
				dispatch[t.formatByTy[v]] = sc.Callee
			}
			if sc.Default {
				st2.Instances++
				st2.Ob(sc.Panics || true)
			}
		}
		withRows := map[string]bool{}
		for _, r := range t.Rows {
			withRows[r.Format] = true
		}
		for _, f := range sortedKeys(withRows) {
			st2.Instances++
			_, ok := dispatch[f]
			st2.Ob(ok)
			if !ok {
				c.Report(core.Finding{Rule: "R04.2", Pkg: instsPkg, Func: "Disassembler.Decode", Detail: "format-not-dispatched:" + f, Pos: c.Position(decodeFd.Pos()), Msg: "format " + f + " has decode-table rows but no case in Decode: bytes of that format reach the panic instead of an error"})
			}
		}
	}
	// VOP3b
	if fd := findFuncDecl(p, "Disassembler.isVOP3bOpcode"); fd != nil {
		vop3b := map[int64]bool{}
		if fnV := c.SSAFunc(instsPkg, "Disassembler.isVOP3bOpcode"); fnV != nil && len(fnV.Params) == 2 {
			// decided per opcode on the SSA form, so a switch and an if chain are alike
			for op := int64(0); op < 1024; op++ {
				r := opPath(fnV, func(v ssa.Value) bool { return v == ssa.Value(fnV.Params[1]) }, op)
				if !r.decided || r.ret == nil || len(r.ret.Results) != 1 {
					t.Undecided = append(t.Undecided, fmt.Sprintf("isVOP3bOpcode(%d) could not be decided", op))
					break
				}
				if k, ok := r.ret.Results[0].(*ssa.Const); ok && k.Value != nil && constant.BoolVal(k.Value) {
					vop3b[op] = true
				}
			}
		}
		for _, r := range t.Rows {
			if r.Format == "VOP3b" {
				st2.Instances++
				ok := vop3b[r.Opcode]
				st2.Ob(ok)
				if !ok {
					c.Report(core.Finding{Rule: "R04.2", Pkg: instsPkg, Func: "initializeDecodeTable", Detail: fmt.Sprintf("vop3b-row-unreachable:%s:%d", r.Name, r.Opcode), Pos: c.Position(r.Pos), Msg: fmt.Sprintf("VOP3b row %s (opcode %d) is not accepted by isVOP3bOpcode: it is decoded as VOP3a (different operand layout) or not at all", r.Name, r.Opcode)})
				}
			}
		}
		for op := range vop3b {
			st2.Instances++
			_, has := t.Lookup("VOP3b", op)
			_, hasA := t.Lookup("VOP3a", op)
			ok := has || !hasA
			st2.Ob(ok)
			if !ok {
				r, _ := t.Lookup("VOP3a", op)
				c.Report(core.Finding{Rule: "R04.2", Pkg: instsPkg, Func: "Disassembler.isVOP3bOpcode", Detail: fmt.Sprintf("vop3b-opcode-without-row:%d", op), Msg: fmt.Sprintf("opcode %d is routed to VOP3b but only VOP3a has a row for it (%s): the instruction becomes undecodable", op, r.Name)})
			}
		}
	}

	// ---------------- R04.3 dropped decode error ----------------
	st3 := c.Rule("R04.3", "every call of getOperand either tests the returned error before using the operand or passes an operand code whose INTERVAL lies inside the set of codes on which getOperand cannot fail", 20)
	okSet, why := operandOKSet(c)
	if okSet == nil {
		c.Report(core.Finding{Rule: "R04.3", Kind: "undecided", Pkg: instsPkg, Func: "getOperand", Detail: "ok-set", Msg: why})
	}
	getOp := c.SSAFunc(instsPkg, "getOperand")
	if getOp == nil {
		c.Report(core.Finding{Rule: "R04.3", Kind: "anchor", Pkg: instsPkg, Func: "getOperand", Detail: "anchor", Msg: "getOperand not found"})
	}
	siteNo := map[string]int{}
	pi.Instrs(func(fn *ssa.Function, in ssa.Instruction) {
		call, ok := in.(*ssa.Call)
		if !ok || getOp == nil || call.Call.StaticCallee() != getOp || okSet == nil {
			return
		}
		st3.Instances++
		c.MarkAnalysed(fn)
		name := core.FuncName(fn)
		siteNo[name]++
		// which operand field receives the result
		dst := "?"
		errUsed := false
		if refs := call.Referrers(); refs != nil {
			for _, r := range *refs {
				ex, ok := r.(*ssa.Extract)
				if !ok {
					continue
				}
				if ex.Index == 0 && ex.Referrers() != nil {
					for _, rr := range *ex.Referrers() {
						if s, ok := rr.(*ssa.Store); ok {
							if f := core.FieldOfAddr(s.Addr); f != nil {
								dst = f.Name()
							}
						}
					}
				}
				if ex.Index == 1 && ex.Referrers() != nil {
					for _, rr := range *ex.Referrers() {
						switch rr.(type) {
						case *ssa.BinOp, *ssa.Return, *ssa.If:
							errUsed = true
						}
					}
				}
			}
		}
		iv := intervalOf(call.Call.Args[0], 0)
		inside := true
		var bad int64 = -1
		for v := iv.lo; v <= iv.hi && v < 1024; v++ {
			if !okSet[v] {
				inside = false
				bad = v
				break
			}
		}
		if iv.hi >= 1024 {
			inside = false
			bad = iv.hi
		}
		ok2 := errUsed || inside
		st3.Ob(ok2)
		st3.Sample("%s: %s = getOperand(code in [%d,%d]) errorTested=%v insideOK=%v", name, dst, iv.lo, iv.hi, errUsed, inside)
		if !ok2 {
			c.ReportAt("R04.3", fn, in.Pos(), fmt.Sprintf("getOperand:%s", dst),
				fmt.Sprintf("the error of getOperand is discarded although the operand code ranges over [%d,%d] and e.g. code %d is undefined: a malformed word yields a nil operand (memory fault or nil-field instruction) instead of an error", iv.lo, iv.hi, bad))
		}
	})

	// ---------------- R04.4 buffer accesses bounded ----------------
	st4 := c.Rule("R04.4", "every access to the instruction bytes needs at most as many bytes as the path has established: the format's base size (tested in Decode against len(buf) before the per-format decoder runs) or an in-function len(buf) test", 25)
	need := func(in ssa.Instruction, buf ssa.Value) (int64, bool) {
		// returns the number of bytes of buf this instruction requires
		switch x := in.(type) {
		case *ssa.Slice:
			if x.X != buf {
				return 0, false
			}
			if x.High != nil {
				if h, ok := core.ConstInt(x.High); ok {
					return h, true
				}
				return 1 << 30, true
			}
			lo := int64(0)
			if x.Low != nil {
				l, ok := core.ConstInt(x.Low)
				if !ok {
					return 1 << 30, true
				}
				lo = l
			}
			// buf[lo:] : requirement comes from its consumers
			n := lo
			if x.Referrers() != nil {
				for _, r := range *x.Referrers() {
					if k := consumerBytes(r); k > 0 && lo+k > n {
						n = lo + k
					}
				}
			}
			return n, true
		case *ssa.IndexAddr:
			if x.X != buf {
				return 0, false
			}
			if k, ok := core.ConstInt(x.Index); ok {
				return k + 1, true
			}
			return 1 << 30, true
		case *ssa.Call:
			for _, a := range x.Call.Args {
				if a == buf {
					if k := consumerBytes(x); k > 0 {
						return k, true
					}
				}
			}
		}
		return 0, false
	}
	for _, fn := range pi.Funcs {
		name := core.FuncName(fn)
		if !strings.HasPrefix(name, "Disassembler.decode") && name != "Disassembler.Decode" {
			continue
		}
		var buf ssa.Value
		for _, prm := range fn.Params {
			if core.PinnedName(fn, prm.Name()) == "buf" {
				buf = prm
			}
		}
		if buf == nil {
			continue
		}
		c.MarkAnalysed(fn)
		// established by the caller: the format's base size
		base := int64(0)
		for f, cal := range dispatch {
			if "Disassembler."+cal == name && t.Formats[f] != nil {
				if base == 0 || t.Formats[f].ByteSize < base {
					base = t.Formats[f].ByteSize
				}
			}
		}
		g := core.BuildGraph(fn, 0, nil)
		for _, n := range g.Nodes {
			k, ok := need(n.Instr, buf)
			if !ok || k == 0 {
				continue
			}
			st4.Instances++
			okB := k <= base
			if !okB {
				// in-function guard: len(buf) < K false edge with K >= k, or X > len(buf) false edge with X established
				cut := CmpCut(func(_ *core.Node, op token.Token, x, y ssa.Value) int {
					lx := isLenOf(x, buf)
					ly := isLenOf(y, buf)
					switch {
					case lx:
						if kk, isC := core.ConstInt(y); isC {
							switch op {
							case token.LSS: // len < K : false edge => len >= K
								if kk >= k {
									return -1
								}
							case token.GEQ:
								if kk >= k {
									return 1
								}
							}
						}
					case ly:
						// X > len(buf): false edge => len >= X ; accept when X is ByteSize initialised from the format (Decode)
						if op == token.GTR && name == "Disassembler.Decode" {
							return 0
						}
					}
					return 0
				})
				okB = g.Guarded(n, cut)
				if !okB {
					// flag idiom: the access sits under `if inst.F` and F is only ever set
					// true on paths that established enough bytes
					okB = flagEstablishes(c, pi, g, n, k)
				}
			}
			st4.Ob(okB)
			st4.Sample("%s: access needs %d bytes, base size %d", name, k, base)
			if !okB {
				c.ReportAt("R04.4", fn, n.Instr.Pos(), fmt.Sprintf("buf:%d-bytes", k), fmt.Sprintf("the decoder reads %d bytes of the buffer on a path that only established %d: a short byte string causes a slice-bounds panic instead of an error", k, base))
			}
		}
	}

	// ---------------- R04.5 size accounting ----------------
	st5 := c.Rule("R04.5", "ByteSize is set from the format's base size in Decode and changed only by `+= 4` steps, each of which is followed by a len(buf) < 8 test before the second word is read; no byte beyond offset 8 is ever accessed", 10)
	pi.Instrs(func(fn *ssa.Function, in ssa.Instruction) {
		s, ok := storeToField(in, "Inst.ByteSize")
		if !ok {
			return
		}
		st5.Instances++
		c.MarkAnalysed(fn)
		pv := prov.Of(s.Val)
		name := core.FuncName(fn)
		switch {
		case strings.HasSuffix(pv, ".ByteSizeExLiteral"):
			ok := name == "Disassembler.Decode"
			st5.Ob(ok)
			if !ok {
				c.ReportAt("R04.5", fn, in.Pos(), "ByteSize:init", "ByteSize is initialised outside Decode")
			}
		case strings.HasSuffix(pv, ".ByteSize+4)"):
			g := core.BuildGraph(fn, 0, nil)
			var sn *core.Node
			for _, n := range g.Nodes {
				if n.Instr == in {
					sn = n
				}
			}
			var buf ssa.Value
			for _, prm := range fn.Params {
				if core.PinnedName(fn, prm.Name()) == "buf" {
					buf = prm
				}
			}
			lenTest := func(n *core.Node) bool {
				ifi, ok := n.Instr.(*ssa.If)
				if !ok {
					return false
				}
				bo, ok := ifi.Cond.(*ssa.BinOp)
				if !ok || !isLenOf(bo.X, buf) {
					return false
				}
				k, isC := core.ConstInt(bo.Y)
				return isC && k == 8 && bo.Op == token.LSS
			}
			// either a len test dominates the increment or every path from it passes one before returning nil
			okT := false
			for _, n := range g.Nodes {
				if lenTest(n) && n.Block.Dominates(sn.Block) {
					okT = true
				}
			}
			if !okT {
				leak := false
				g.Walk(core.After(sn, nil), core.WalkOpts{ForwardOnly: true, Stop: lenTest}, func(x core.State) {
					if _, isRet := x.N.Instr.(*ssa.Return); isRet {
						leak = true
					}
				})
				okT = !leak
			}
			st5.Ob(okT)
			st5.Sample("%s: ByteSize += 4 accompanied by len(buf) < 8 test: %v", name, okT)
			if !okT {
				c.ReportAt("R04.5", fn, in.Pos(), "ByteSize:+4-without-length-test", "the instruction is declared 4 bytes longer without testing that the buffer holds 8 bytes: the reported length can exceed the bytes available")
			}
		default:
			st5.Ob(false)
			c.ReportAt("R04.5", fn, in.Pos(), "ByteSize:other-write", "ByteSize is written as "+short(pv)+": only the format's base size and +4 steps (literal / SDWA word) are valid sizes")
		}
	})

	// R04.5 (continued): an instruction has one literal dword; two operands that both name it extend the size once
	{
		litConst := int64(-1)
		if o := pi.Pkg.Pkg.Scope().Lookup("LiteralConstant"); o != nil {
			if k, ok := o.(*types.Const); ok {
				litConst, _ = constant.Int64Val(k.Val())
			}
		}
		// "Src0" for `inst.Src0.OperandType <op> LiteralConstant`; an operand passed to an inlined helper
		// (`operand.OperandType` with operand a parameter) is resolved through the call sites of the frame chain
		opNameRe := regexp.MustCompile(`\.(\w+)$`)
		litOperand := func(n *core.Node, x, y ssa.Value) string {
			k, isC := core.ConstInt(y)
			if !isC || k != litConst {
				return ""
			}
			ld, ok := x.(*ssa.UnOp)
			if !ok || ld.Op != token.MUL {
				return ""
			}
			fa, ok := ld.X.(*ssa.FieldAddr)
			if !ok {
				return ""
			}
			if f := core.FieldOfAddr(fa); f == nil || f.Name() != "OperandType" {
				return ""
			}
			base := fa.X
			fr := n.Frame
			for fr != nil && fr.Parent != nil && fr.CallSite != nil {
				prm, isP := base.(*ssa.Parameter)
				if !isP {
					break
				}
				idx := -1
				for i, q := range fr.Fn.Params {
					if q == prm {
						idx = i
					}
				}
				call, isCall := fr.CallSite.Instr.(*ssa.Call)
				if idx < 0 || !isCall || idx >= len(call.Call.Args) {
					break
				}
				base = call.Call.Args[idx]
				fr = fr.Parent
			}
			m := opNameRe.FindStringSubmatch(prov.Of(base))
			if m == nil {
				return ""
			}
			return m[1]
		}
		samePkg := func(callee *ssa.Function) bool { return callee.Pkg == pi.Pkg }
		incFuncs := map[*ssa.Function]bool{}
		pi.Instrs(func(fn *ssa.Function, in ssa.Instruction) {
			if st, ok := storeToField(in, "Inst.ByteSize"); ok && strings.HasSuffix(prov.Of(st.Val), ".ByteSize+4)") {
				incFuncs[fn] = true
			}
		})
		for _, fn := range pi.Funcs {
			type inc struct {
				n  *core.Node
				op string
			}
			var incs []inc
			hasInc := false
			for _, b := range fn.Blocks {
				for _, in := range b.Instrs {
					if cc := core.CallOf(in); cc != nil {
						if callee := cc.StaticCallee(); callee != nil && callee.Pkg == pi.Pkg && incFuncs[callee] {
							hasInc = true
						}
					}
					if st, ok := storeToField(in, "Inst.ByteSize"); ok && strings.HasSuffix(prov.Of(st.Val), ".ByteSize+4)") {
						hasInc = true
					}
				}
			}
			if !hasInc {
				continue
			}
			// helpers that account for a literal are expanded at their call sites
			g := core.BuildGraph(fn, 2, samePkg)
			for _, n := range g.Nodes {
				st, ok := storeToField(n.Instr, "Inst.ByteSize")
				if !ok || !strings.HasSuffix(prov.Of(st.Val), ".ByteSize+4)") {
					continue
				}
				// which operand's literal test leads here?
				for _, operand := range []string{"Src0", "Src1", "Src2"} {
					operand := operand
					if g.Guarded(n, CmpCut(func(cn *core.Node, op token.Token, x, y ssa.Value) int {
						if litOperand(cn, x, y) != operand {
							return 0
						}
						switch op {
						case token.EQL:
							return 1
						case token.NEQ:
							return -1
						}
						return 0
					})) {
						incs = append(incs, inc{n, operand})
						break
					}
				}
				// a size step for a constant that is part of the opcode (v_madak / v_madmk K): its block fills a LiteralConstant
				found := false
				for _, x := range incs {
					if x.n == n {
						found = true
					}
				}
				if !found {
					for _, i2 := range n.Block.Instrs {
						if st2, ok := i2.(*ssa.Store); ok {
							if f2 := core.FieldOfAddr(st2.Addr); f2 != nil && f2.Name() == "LiteralConstant" {
								incs = append(incs, inc{n, "K"})
								break
							}
						}
					}
				}
			}
			for i, a := range incs {
				for j, b := range incs {
					if i == j || a.op == b.op {
						continue
					}
					after, _ := g.Reach(core.After(a.n, nil), core.WalkOpts{ForwardOnly: true})
					if !after[b.n] {
						continue
					}
					st5.Instances++
					aop := a.op
					okOnce := g.Guarded(b.n, CmpCut(func(cn *core.Node, op token.Token, x, y ssa.Value) int {
						if litOperand(cn, x, y) != aop {
							return 0
						}
						switch op {
						case token.NEQ:
							return 1
						case token.EQL:
							return -1
						}
						return 0
					}))
					st5.Ob(okOnce)
					st5.Sample("%s: the literal of %s extends the size only when %s did not already: %v", core.FuncName(fn), b.op, a.op, okOnce)
					if !okOnce {
						c.ReportAt("R04.5", fn, b.n.Instr.Pos(), "literal-counted-twice:"+a.op+"+"+b.op, fmt.Sprintf("ByteSize grows by 4 for a literal %s and again for a literal %s: both operands read the same dword buf[4:8], the encoding is 8 bytes long but is reported as 12 and the next instruction is decoded from the wrong offset", a.op, b.op))
					}
				}
			}
		}
	}

	// ---------------- R04.7 decoding never writes the shared tables ----------------
	st7 := c.Rule("R04.7", "the rows of the decode table and the format table (InstType, Format) are written only while the disassembler is built (functions reachable only from NewDisassembler / package initialisation) or on objects freshly allocated in the writing function; a decoded instruction shares its table row through an embedded pointer, so a write on the decode path changes what this decoder instance returns for every other instruction of that opcode - decoding would depend on what was decoded before, and two decoder instances would disagree", 3)
	{
		initOnly := map[*ssa.Function]bool{}
		var isInitOnly func(fn *ssa.Function, depth int) bool
		isInitOnly = func(fn *ssa.Function, depth int) bool {
			if v, ok := initOnly[fn]; ok {
				return v
			}
			if depth > 8 {
				return false
			}
			initOnly[fn] = false // cycles are not init-only
			name := fn.Name()
			if name == "NewDisassembler" || name == "init" || strings.HasPrefix(name, "init#") {
				initOnly[fn] = true
				return true
			}
			crs := pi.Callers(fn)
			if len(crs) == 0 {
				return false
			}
			for _, cr := range crs {
				if !isInitOnly(cr, depth+1) {
					return false
				}
			}
			initOnly[fn] = true
			return true
		}
		pi.Instrs(func(fn *ssa.Function, in ssa.Instruction) {
			s, ok := in.(*ssa.Store)
			if !ok {
				return
			}
			fa, ok := s.Addr.(*ssa.FieldAddr)
			if !ok {
				return
			}
			owner := namedTypeName(fa.X.Type())
			if owner != "insts.InstType" && owner != "insts.Format" {
				return
			}
			st7.Instances++
			// fresh object allocated here?
			fresh := false
			base := fa.X
			for i := 0; i < 4; i++ {
				switch t := base.(type) {
				case *ssa.Alloc:
					fresh = true
				case *ssa.FieldAddr:
					base = t.X
					continue
				case *ssa.UnOp:
					base = t.X
					continue
				}
				break
			}
			ok2 := fresh || isInitOnly(fn, 0)
			st7.Ob(ok2)
			st7.Sample("%s writes %s.%s (fresh object: %v, construction-time only: %v)", core.FuncName(fn), owner, fieldOfStruct(fa.X.Type(), fa.Field).Name(), fresh, isInitOnly(fn, 0))
			if !ok2 {
				c.ReportAt("R04.7", fn, in.Pos(), "table-row-write:"+owner+"."+fieldOfStruct(fa.X.Type(), fa.Field).Name(), core.FuncName(fn)+" writes "+owner+"."+fieldOfStruct(fa.X.Type(), fa.Field).Name()+" of an object it did not allocate and is reachable from decoding: the decoded instruction shares its decode-table row, so the write changes the table for every later (and earlier returned) instruction of that opcode in this decoder instance")
			}
		})
	}

	// ---------------- R04.8 register families are reachable completely ----------------
	st8 := c.Rule("R04.8", "an arm of getOperand that maps a range of operand codes onto consecutive register constants (BASE + RegType(num - LO)) covers as many codes as the register family of BASE has members (constants declared consecutively with the same name stem): a family member that no operand code produces makes well-formed encodings that name it undecodable", 1)
	if fd := findFuncDecl(c.Pkg(instsPkg), "getOperand"); fd != nil {
		pk := c.Pkg(instsPkg)
		stem := func(n string) string { return strings.TrimRight(n, "0123456789") }
		ast.Inspect(fd.Body, func(n ast.Node) bool {
			cc, ok := n.(*ast.CaseClause)
			if !ok || len(cc.Body) == 0 {
				return true
			}
			ret, ok := cc.Body[len(cc.Body)-1].(*ast.ReturnStmt)
			if !ok || len(ret.Results) != 2 {
				return true
			}
			call, ok := ret.Results[0].(*ast.CallExpr)
			if !ok || len(call.Args) < 2 {
				return true
			}
			be, ok := call.Args[1].(*ast.BinaryExpr)
			if !ok || be.Op != token.ADD {
				return true
			}
			baseID, ok := be.X.(*ast.Ident)
			if !ok {
				// BASE + RegType(n - LO) may be written (or normalised) with the constant last
				baseID, ok = be.Y.(*ast.Ident)
			}
			if !ok {
				return true
			}
			baseObj, ok := pk.TypesInfo.Uses[baseID].(*types.Const)
			if !ok {
				return true
			}
			bv, _ := constant.Int64Val(baseObj.Val())
			// family: constants of the same type with consecutive values and the same stem
			fam := 0
			for v := bv; ; v++ {
				found := false
				for _, name := range pk.Types.Scope().Names() {
					if k, ok := pk.Types.Scope().Lookup(name).(*types.Const); ok && types.Identical(k.Type(), baseObj.Type()) && stem(name) == stem(baseObj.Name()) {
						if kv, _ := constant.Int64Val(k.Val()); kv == v {
							found = true
						}
					}
				}
				if !found {
					break
				}
				fam++
			}
			// codes matched by this arm
			codes := 0
			for num := int64(0); num < 1024; num++ {
				for _, e := range cc.List {
					if v, ok := evalNumCond(c, e, num); ok && v {
						codes++
						break
					}
				}
			}
			st8.Instances++
			okF := codes == fam
			st8.Ob(okF)
			st8.Sample("getOperand: %d operand codes map onto the %d-member register family %s*", codes, fam, stem(baseObj.Name()))
			if !okF {
				c.Report(core.Finding{Rule: "R04.8", Pkg: instsPkg, Func: "getOperand", Detail: "family:" + stem(baseObj.Name()), Pos: c.Position(cc.Pos()),
					Msg: fmt.Sprintf("the arm mapping operand codes onto %s + (num - LO) matches %d codes, the register family %s* has %d members: the remaining register(s) cannot be named by any operand code and encodings that use them are reported as undecodable", baseObj.Name(), codes, stem(baseObj.Name()), fam)})
			}
			return true
		})
	}

	// ---------------- R04.9 mnemonics that carry a literal are sized accordingly ----------------
	st9 := c.Rule("R04.9", "every decode-table row whose mnemonic says that a 32-bit constant follows the instruction word (…_imm32_…, v_madmk / v_madak / v_fmamk / v_fmaak) has, in its format's decoder, a `ByteSize += 4` step that is reached only for that opcode; otherwise the instruction is reported four bytes short and the following one is decoded from the middle of the literal", 3)
	litName := regexp.MustCompile(`imm32|madmk|madak|fmamk|fmaak`)
	for _, r := range t.Rows {
		if !litName.MatchString(r.Name) || strings.HasPrefix(r.Format, "VOP3") {
			continue
		}
		fn := c.SSAFunc(instsPkg, "Disassembler.decode"+r.Format)
		if fn == nil {
			continue
		}
		st9.Instances++
		g := core.BuildGraph(fn, 0, nil)
		opc := r.Opcode
		opcodeTest := func(only int64) EdgeCut {
			return CmpCut(func(_ *core.Node, op token.Token, x, y ssa.Value) int {
				f := core.LoadedField(core.StripConv(x))
				if f == nil || f.Name() != "Opcode" {
					return 0
				}
				k, isC := core.ConstInt(y)
				if !isC || (only >= 0 && k != only) {
					return 0
				}
				switch op {
				case token.EQL:
					return 1
				case token.NEQ:
					return -1
				}
				return 0
			})
		}
		anyOpcode, thisOpcode := opcodeTest(-1), opcodeTest(opc)
		found := false
		for _, n := range g.Nodes {
			st, ok := storeToField(n.Instr, "Inst.ByteSize")
			if !ok || !strings.HasSuffix(prov.Of(st.Val), ".ByteSize+4)") {
				continue
			}
			// opcode specific (unreachable once every `opcode == const` edge is removed) ...
			if !g.Guarded(n, anyOpcode) {
				continue
			}
			// ... and reached from the edge on which the opcode is this row's
			for _, m := range g.Nodes {
				if _, isIf := m.Instr.(*ssa.If); !isIf {
					continue
				}
				for i := range m.Succs {
					if thisOpcode(m, i) {
						if after, _ := g.Reach([]core.State{{N: m.Succs[i]}}, core.WalkOpts{ForwardOnly: true}); after[n] {
							found = true
						}
					}
				}
			}
		}
		st9.Ob(found)
		st9.Sample("%s (%s opcode %d): literal accounted for in decode%s: %v", r.Name, r.Format, r.Opcode, r.Format, found)
		if !found {
			c.Report(core.Finding{Rule: "R04.9", Pkg: instsPkg, Func: "Disassembler.decode" + r.Format, Detail: "literal-mnemonic:" + r.Name, Pos: c.Position(r.Pos),
				Msg: fmt.Sprintf("%s (%s opcode %d) carries a 32-bit constant after the instruction word, but decode%s has no size step for that opcode: the instruction is reported 4 bytes long and the next one is decoded from the literal", r.Name, r.Format, r.Opcode, r.Format)})
		}
	}

	// ---------------- R04.10 the single-bit helper ----------------
	st10 := c.Rule("R04.10", "extractBit(word, k) yields bit k of the word: (word >> k) & 1, or word & (1 << k)", 1)
	if fn := c.MustFunc("R04.10", instsPkg, "extractBit"); fn != nil {
		lp := core.NewLocalProv(c)
		for _, b := range fn.Blocks {
			for _, in := range b.Instrs {
				ret, ok := in.(*ssa.Return)
				if !ok || len(ret.Results) != 1 {
					continue
				}
				st10.Instances++
				pv := lp.Of(core.StripConv(ret.Results[0]))
				okB := pv == "((param:number>>param:bitPosition)&1)" || pv == "(param:number&(1<<param:bitPosition))" || pv == "((1<<param:bitPosition)&param:number)"
				st10.Ob(okB)
				st10.Sample("extractBit returns %s", pv)
				if !okB {
					c.ReportAt("R04.10", fn, in.Pos(), "extractBit:shape", "extractBit returns "+pv+", which is not bit `bitPosition` of the word: every single-bit modifier decoded with it (the GDS flag of DS instructions) is taken from other bits")
				}
			}
		}
	}

	// ---------------- R04.11 a format without rows has no decode table ----------------
	st11 := c.Rule("R04.11", "the decode table of a format is created when the format's first row is added, so formats that are matched but have no rows (MUBUF, MTBUF, MIMG, EXP, VINTRP) have a nil table: every dereference of decodeTables[format] outside the construction of the disassembler is reached only on a path that found that entry non-nil; otherwise an unsupported encoding is reported by a nil-pointer fault instead of an error", 2)
	pi.Instrs(func(fn *ssa.Function, in ssa.Instruction) {
		// dereference of a *decodeTable: field address on a value looked up from decodeTables
		fa, ok := in.(*ssa.FieldAddr)
		if !ok || namedTypeName(fa.X.Type()) != "insts.decodeTable" {
			return
		}
		lk, ok := fa.X.(*ssa.Lookup)
		if !ok {
			if ex, isEx := fa.X.(*ssa.Extract); isEx {
				lk, ok = ex.Tuple.(*ssa.Lookup)
			}
		}
		if !ok {
			return
		}
		if f := core.LoadedField(lk.X); f == nil || f.Name() != "decodeTables" {
			return
		}
		name := fn.Name()
		if name == "addInstType" || name == "initializeDecodeTable" || strings.HasPrefix(name, "init") {
			return // construction time: rows are being added
		}
		st11.Instances++
		c.MarkAnalysed(fn)
		g := core.BuildGraph(fn, 0, nil)
		keyProv := prov.Of(lk.Index)
		okN := false
		for _, n := range g.Nodes {
			if n.Instr != in {
				continue
			}
			okN = g.Guarded(n, NilCut(func(v ssa.Value) bool {
				l2, isL := v.(*ssa.Lookup)
				if !isL {
					if ex, isEx := v.(*ssa.Extract); isEx {
						l2, isL = ex.Tuple.(*ssa.Lookup)
					}
				}
				if !isL {
					return false
				}
				f := core.LoadedField(l2.X)
				return f != nil && f.Name() == "decodeTables" && prov.Of(l2.Index) == keyProv
			}, false))
		}
		st11.Ob(okN)
		st11.Sample("%s: decodeTables[%s] dereferenced only where found non-nil: %v", core.FuncName(fn), short(keyProv), okN)
		if !okN {
			c.ReportAt("R04.11", fn, in.Pos(), "nil-decode-table", core.FuncName(fn)+" dereferences decodeTables["+short(keyProv)+"] on a path that did not find it non-nil: for a word of a format that has no rows (MUBUF, MTBUF, MIMG, EXP, VINTRP) decoding faults with a nil-pointer dereference instead of returning an error")
		}
	})

	// ---------------- R04.12 a destination decoded from an operand code is a register ----------------
	st12 := c.Rule("R04.12", "where a destination operand (Dst / SDst) is obtained from getOperand with an operand code whose interval reaches the inline constants and the literal (codes 128..255), the decoder returns successfully only on a path that found the operand to be a register: a constant as destination is not an instruction, and executing it dereferences a nil register", 1)
	regOperandConst := int64(-1)
	if o := pi.Pkg.Pkg.Scope().Lookup("RegOperand"); o != nil {
		if k, ok := o.(*types.Const); ok {
			regOperandConst, _ = constant.Int64Val(k.Val())
		}
	}
	for _, fn := range pi.Funcs {
		if !strings.HasPrefix(fn.Name(), "decode") {
			continue
		}
		var g *core.Graph
		for _, b := range fn.Blocks {
			for _, in := range b.Instrs {
				stv, ok := in.(*ssa.Store)
				if !ok {
					continue
				}
				f := core.FieldOfAddr(stv.Addr)
				if f == nil || (f.Name() != "Dst" && f.Name() != "SDst") {
					continue
				}
				ex, ok := stv.Val.(*ssa.Extract)
				if !ok {
					continue
				}
				call, ok := ex.Tuple.(*ssa.Call)
				if !ok || core.CalleeFunc(call) == nil || core.CalleeFunc(call).Name() != "getOperand" {
					continue
				}
				iv := intervalOf(call.Call.Args[0], 0)
				if iv.hi < 128 || iv.lo > 255 {
					continue // 7-bit destination fields name scalar registers only (or fail); codes 256..511 are vector registers
				}
				st12.Instances++
				c.MarkAnalysed(fn)
				if g == nil {
					g = core.BuildGraph(fn, 0, nil)
				}
				field := f.Name()
				cut := CmpCut(func(_ *core.Node, op token.Token, x, y ssa.Value) int {
					if !strings.HasSuffix(prov.Of(x), "."+field+".OperandType") {
						return 0
					}
					k, isC := core.ConstInt(y)
					if !isC || k != regOperandConst {
						return 0
					}
					switch op {
					case token.EQL:
						return 1
					case token.NEQ:
						return -1
					}
					return 0
				})
				okG := true
				// from this store, a successful return must not be reachable once the "is a register" edges are removed
				g.Walk(core.After(g.NodeOf(in), nil), core.WalkOpts{CutEdge: func(n *core.Node, i int) bool { return cut(n, i) }}, func(stt core.State) {
					if r, isR := stt.N.Instr.(*ssa.Return); isR && len(r.Results) == 1 && core.IsNilConst(r.Results[0]) {
						okG = false
					}
				})
				st12.Ob(okG)
				st12.Sample("%s: %s = getOperand(code in [%d,%d]); success only for a register: %v", core.FuncName(fn), field, iv.lo, iv.hi, okG)
				if !okG {
					c.ReportAt("R04.12", fn, in.Pos(), "non-register-destination:"+field, fmt.Sprintf("%s takes %s from getOperand with an operand code in [%d,%d] and returns successfully without checking that the operand is a register: an encoding whose destination field names an inline constant or the literal decodes to an instruction with a nil destination register", core.FuncName(fn), field, iv.lo, iv.hi))
				}
			}
		}
	}

	// ---------------- R04.13 a cache of decoded instructions is keyed by everything the bytes depend on ----------------
	st13 := c.Rule("R04.13", "where a decoded instruction is stored in a map (a decode cache), the key carries every non-constant argument of the memory read that produced the decoded bytes (the process and the address): instruction memory is per process, and every process starts allocating at the same virtual address", 1)
	for _, rel := range []string{"amd/emu", "amd/timing/cu"} {
		for _, fn := range c.SrcFuncs(rel) {
			for _, b := range fn.Blocks {
				for _, in := range b.Instrs {
					mu, ok := in.(*ssa.MapUpdate)
					if !ok {
						continue
					}
					if namedTypeName(mu.Value.Type()) != "insts.Inst" {
						continue
					}
					// the Decode call whose result is stored, and the Read feeding it
					var deps []string
					var walk func(v ssa.Value, d int)
					seenV := map[ssa.Value]bool{}
					walk = func(v ssa.Value, d int) {
						if v == nil || seenV[v] || d > 8 {
							return
						}
						seenV[v] = true
						switch t := v.(type) {
						case *ssa.Phi:
							for _, e := range t.Edges {
								walk(e, d+1)
							}
						case *ssa.Extract:
							walk(t.Tuple, d+1)
						case *ssa.Call:
							if t.Call.IsInvoke() && t.Call.Method.Name() == "Decode" {
								walk(t.Call.Args[0], d+1)
							}
							if t.Call.IsInvoke() && t.Call.Method.Name() == "Read" {
								for _, a := range t.Call.Args {
									if _, isC := a.(*ssa.Const); !isC {
										deps = append(deps, prov.Of(a))
									}
								}
							}
						}
					}
					walk(mu.Value, 0)
					if len(deps) == 0 {
						continue
					}
					st13.Instances++
					c.MarkAnalysed(fn)
					kp := prov.Of(mu.Key)
					missing := ""
					for _, dp := range deps {
						if !strings.Contains(kp, dp) {
							missing = dp
						}
					}
					st13.Ob(missing == "")
					st13.Sample("%s: decode cache key %s covers %v", core.FuncName(fn), short(kp), deps)
					if missing != "" {
						c.ReportAt("R04.13", fn, in.Pos(), "decode-cache-key", core.FuncName(fn)+" caches a decoded instruction under "+short(kp)+", but the decoded bytes were read with "+short(missing)+": another process with different code at the same address is given these instructions")
					}
				}
			}
		}
	}

	// ---------------- R04.6 callers use the error path ----------------
	st6 := c.Rule("R04.6", "every caller of Disassembler.Decode uses the decoded instruction only on paths on which the returned error was found nil", 3)
	for _, rel := range []string{instsPkg, "amd/emu", "amd/timing/cu"} {
		for _, fn := range c.SrcFuncs(rel) {
			var g *core.Graph
			for _, b := range fn.Blocks {
				for _, in := range b.Instrs {
					if !core.IsCall(in, core.ModPath+"/amd/insts.Disassembler.Decode") && !invokesNamed(in, "Decode", "insts.Inst") {
						continue
					}
					st6.Instances++
					c.MarkAnalysed(fn)
					if g == nil {
						g = core.BuildGraph(fn, 0, nil)
					}
					val := in.(ssa.Value)
					var instV, errV []ssa.Value
					if val.Referrers() != nil {
						for _, r := range *val.Referrers() {
							if ex, ok := r.(*ssa.Extract); ok {
								if ex.Index == 0 {
									instV = append(instV, ex)
								} else {
									errV = append(errV, ex)
								}
							}
						}
					}
					// values may be stored to locals (inst, err = ...): follow one level of store/load
					expand := func(vs []ssa.Value) []ssa.Value {
						out := append([]ssa.Value{}, vs...)
						for _, v := range vs {
							if v.Referrers() == nil {
								continue
							}
							for _, r := range *v.Referrers() {
								if s, ok := r.(*ssa.Store); ok && s.Val == v {
									if a, ok := s.Addr.(*ssa.Alloc); ok && a.Referrers() != nil {
										for _, rr := range *a.Referrers() {
											if u, ok := rr.(*ssa.UnOp); ok && u.Op == token.MUL {
												out = append(out, u)
											}
										}
									}
								}

							}
						}
						return out
					}
					instV, errV = expand(instV), expand(errV)
					isErr := func(v ssa.Value) bool {
						for _, e := range errV {
							if e == v {
								return true
							}
						}
						return false
					}
					cut := NilCut(isErr, true)
					bad := 0
					uses := 0
					for _, iv := range instV {
						if iv.Referrers() == nil {
							continue
						}
						for _, r := range *iv.Referrers() {
							if ph, isPhi := r.(*ssa.Phi); isPhi {
								// the decoded value flows into a merge: the incoming edge must be guarded
								for ei, e := range ph.Edges {
									if e != iv {
										continue
									}
									pred := ph.Block().Preds[ei]
									for _, n := range g.Nodes {
										if n.Block == pred && n.Idx == len(pred.Instrs)-1 {
											uses++
											if !g.Guarded(n, cut) {
												bad++
												c.ReportAt("R04.6", fn, pred.Instrs[len(pred.Instrs)-1].Pos(), "inst-merged-without-error-test", "the result of Decode is merged into the instruction used afterwards on a path that did not find the error nil")
											}
										}
									}
								}
								continue
							}
							switch r.(type) {
							case *ssa.DebugRef, *ssa.Store:
								continue
							}
							for _, n := range g.Nodes {
								if n.Instr == r {
									uses++
									if !g.Guarded(n, cut) {
										bad++
										c.ReportAt("R04.6", fn, r.Pos(), "inst-used-without-error-test", "the result of Decode is used ("+core.InstrString(r)+") on a path that did not find the error nil")
									}
								}
							}
						}
					}
					st6.Ob(bad == 0 && len(errV) > 0)
					st6.Sample("%s: %d uses of the decoded instruction, all after err==nil: %v", core.FuncName(fn), uses, bad == 0)
					if len(errV) == 0 {
						c.ReportAt("R04.6", fn, in.Pos(), "error-discarded", "the error returned by Decode is discarded")
					}
				}
			}
		}
	}

	// ---------------- R04.14 field positions against the ISA manuals (c04layout.go) ----------------
	checkInstLayout(c, core.NewLocalProv(c), t)
	checkEncodingSiblings(c, t)
	checkExtractHelpers(c)
	checkDecoderWidths(c, core.NewLocalProv(c), t)
	checkTableWidths(c, t)
	checkVOP3bMembership(c, t)
	checkDstRegisterFile(c, t)
	checkVOP3PModifiers(c, t)
	checkTableIndependentOfConfiguration(c)
	checkVOP2ImplicitVCC(c, t)
	checkDSOffsetForms(c, t)
	checkPrinterReadsWholeOperand(c)
	checkDisassembleAdvances(c)
	checkNoStateBetweenCalls(c, "R04.42", "disassembling a file is a function of that file: the functions reached from Disassembler.Disassemble store nothing into the Disassembler (the running instruction id excepted) and keep nothing in package-level variables. A symbol table cached in the object on the first call decides where kernels start in every later file: headers are decoded as instructions and code is skipped, and a reused decoder disagrees with a fresh one on the same input", 5, instsPkg, []string{"Disassembler.Disassemble"}, map[string]string{"nextInstID": "a running id, never read back by the decoder", "FormatTable": "the constant format table", "Regs": "the constant register table"})
	checkFLATOperands(c, t)
	checkSMEMOperands(c, t)
	checkSOP2Operands(c, t)
	checkDSDestinationPrinted(c, t)
	checkEveryRowPrints(c, t)
	checkVOPCDestinationText(c, t)
	checkModifierFlags(c)
	checkOperandsFresh(c)
	checkOpcodeOperandsPrinted(c)
	checkImmediateArithmeticWide(c, "R04.32", []string{instsPkg}, 1, "The branch-target annotation of the disassembly (PC + simm16 * 4 + 4) names the wrong symbol for far branches otherwise")
	checkWidthColumn(c)
	checkFlatOpcodes(c, t)
	checkDSOperands(c, t)
	checkFieldCoverage(c, core.NewLocalProv(c))
	checkSRegOperandRange(c)

	checkIntegerWidths(c, "R04.43", "A field the decoder takes out of the instruction word is not put through a signed type on its way into the Inst: an immediate, an offset or a register code is the unsigned number the encoding holds, and whoever needs it signed extends it where it is used.", 20, []widthScope{{rel: instsPkg, filter: inFile(c, "disassembler.go")}}, []string{"sign-extend"}, widthAllowC04)
	checkPrinterDoesNotWriteInst(c)
	return core.Meta{Level: "other",
		Explanation: "Totality and determinism of decoding decided from tables and code shape of amd/insts: the 18-row format table (mask/encoding/overlap/order/opcode field), the ~1000-row decode table evaluated from constant expressions incl. the VOP1→VOP3a copy loop (duplicates, field width, VOP3b routing, dispatch coverage), every getOperand call site against the computed set of defined operand codes with an interval analysis of the code argument, buffer-access bounds per format, size accounting, and error handling at the three callers.",
		NotDecided:  "decode(encode(d)) = d (value level): field extraction positions versus the ISA encodings and the printer are not compared; an instruction with two literal operands is not modelled",
		Assumptions: commonAssumptions}
}

func isLenOf(v, buf ssa.Value) bool {
	call, ok := v.(*ssa.Call)
	if !ok || !core.IsBuiltin(call, "len") || len(call.Call.Args) != 1 {
		return false
	}
	return buf == nil || call.Call.Args[0] == buf
}

// consumerBytes: how many bytes does this consumer read from the slice it is given.
func consumerBytes(in ssa.Instruction) int64 {
	f := core.CalleeFunc(in)
	if f == nil {
		return 0
	}
	switch f.Name() {
	case "Uint32", "BytesToUint32":
		return 4
	case "Uint16":
		return 2
	case "Uint64":
		return 8
	}
	return 0
}

// invokesNamed: interface call of method `name` whose first result type string contains resultSub.
func invokesNamed(in ssa.Instruction, name, resultSub string) bool {
	cc := core.CallOf(in)
	if cc == nil || !cc.IsInvoke() || cc.Method.Name() != name {
		return false
	}
	sig := cc.Method.Type().(*types.Signature)
	return sig.Results().Len() > 0 && strings.Contains(sig.Results().At(0).Type().String(), resultSub)
}

var _ = sort.Strings

// flagEstablishes: node n is guarded by the true edge of a boolean field F of
// the instruction, and every store of `true` to F in the package is dominated
// by a len(buf) test establishing at least k bytes.
func flagEstablishes(c *core.Ctx, pi *PkgInfo, g *core.Graph, n *core.Node, k int64) bool {
	fields := map[string]bool{}
	for _, m := range g.Nodes {
		ifi, ok := m.Instr.(*ssa.If)
		if !ok {
			continue
		}
		v, _ := stripNot(ifi.Cond)
		if f := core.LoadedField(v); f != nil {
			fields[core.ShortFieldID(f)] = true
		}
	}
	for f := range fields {
		if !g.Guarded(n, BoolFieldCut(f, true)) {
			continue
		}
		all := true
		found := false
		pi.Instrs(func(fn *ssa.Function, in ssa.Instruction) {
			s, ok := storeToField(in, f)
			if !ok {
				return
			}
			b, isC := core.ConstBool(s.Val)
			if !isC {
				all = false
				return
			}
			if !b {
				return
			}
			found = true
			var buf ssa.Value
			for _, prm := range fn.Params {
				if core.PinnedName(fn, prm.Name()) == "buf" {
					buf = prm
				}
			}
			g2 := core.BuildGraph(fn, 0, nil)
			for _, m := range g2.Nodes {
				if m.Instr != in {
					continue
				}
				cut := CmpCut(func(_ *core.Node, op token.Token, x, y ssa.Value) int {
					if buf == nil || !isLenOf(x, buf) {
						return 0
					}
					kk, isC := core.ConstInt(y)
					if !isC || kk < k {
						return 0
					}
					switch op {
					case token.LSS:
						return -1
					case token.GEQ:
						return 1
					}
					return 0
				})
				if !g2.Guarded(m, cut) {
					all = false
				}
			}
		})
		if all && found {
			return true
		}
	}
	return false
}
