package rules

import (
	"fmt"
	"go/token"
	"regexp"
	"strings"

	"golang.org/x/tools/go/ssa"

	"verif/internal/core"
)

// Rules written after the seventeenth seeding batch (slips that show only at a boundary or on a
// degenerate input). Each reads a structural necessary condition of the boundary case.

// checkFlushDecisionRanges (R02.18; the argument clause of R11.1): the driver decides whether a
// copy needs the caches flushed by asking memRangeOverlap about half-open ranges.
func checkFlushDecisionRanges(c *core.Ctx, rule string) {
	st := c.Rule(rule, "the driver's decision to flush the caches before a copy asks the overlap predicate about half-open ranges: memRangeOverlap, which tests s1 < e2 && s2 < e1, is called with (buffer start, buffer start + size, copy start, copy start + size). Passing the last byte instead of the end makes two ranges that share exactly one end byte disjoint: a one-byte copy at the first or last byte of a dirty buffer is not flushed, the timing platform reads DRAM underneath its write-back L2 and returns what emulation does not", 1)
	fn := c.MustFunc(rule, driverPkg, "defaultMemoryCopyMiddleware.needFlushing")
	if fn == nil {
		return
	}
	prov := core.NewProv(c)
	pd := NewPkgInfo(c, driverPkg)
	g := core.BuildGraph(fn, 3, func(cal *ssa.Function) bool { return cal.Pkg == fn.Pkg })
	for _, n := range g.Nodes {
		if !callsFunc(n.Instr, pd.Pkg, "memRangeOverlap") {
			continue
		}
		st.Instances++
		c.MarkAnalysed(fn)
		var a []string
		for _, x := range core.CallOf(n.Instr).Args {
			a = append(a, prov.Of(x))
		}
		ok := len(a) == 4 && core.ProvMatch(regexp.MustCompile(`\.buffers\[[^\]]*\]\.vAddr$`), a[0]) &&
			core.ProvEq(a[1], "("+a[0]+"+"+strings.TrimSuffix(a[0], ".vAddr")+".size)") &&
			(strings.HasPrefix(a[3], "("+a[2]+"+") || strings.HasSuffix(a[3], "+"+a[2]+")")) && !strings.Contains(a[2], ".buffers[")
		st.Ob(ok)
		if !ok {
			c.ReportAt(rule, fn, n.Instr.Pos(), "needFlushing:args", "the overlap test is not (buffer start, buffer start+size, copy start, copy start+size): "+strings.Join(a, ", "))
		}
	}
}

// checkNoneFoundValue (R03.49): the find-first-bit instructions return -1 when no bit is found.
var findBitMnemonic = regexp.MustCompile(`^(v_ffbh_u32|v_ffbl_b32|v_ffbh_i32|s_ff0_i32_b(32|64)|s_ff1_i32_b(32|64)|s_flbit_i32(_b32|_b64|_i64)?)(_e32|_e64)?$`)

func checkNoneFoundValue(c *core.Ctx, handlers []handlerRef) {
	st := c.Rule("R03.49", "the find-first-bit instructions (v_ffbh / v_ffbl / s_ff0 / s_ff1 / s_flbit) return -1 when no bit qualifies (a zero source, or all bits equal to the sign): every handler dispatched for such a mnemonic has a path that writes the constant all-ones (0xFFFFFFFF, as a 32- or 64-bit constant) to its destination. A handler that leaves the case to a counting primitive (bits.LeadingZeros32(0) = 32) returns 32", 1)
	seen := map[string]bool{}
	for _, h := range handlers {
		match := ""
		for _, n := range h.insts {
			if findBitMnemonic.MatchString(strings.TrimSpace(n)) {
				match = strings.TrimSpace(n)
			}
		}
		key := h.alu.pkg + "." + h.name
		if match == "" || seen[key] {
			continue
		}
		seen[key] = true
		fn := c.SSAFunc(h.alu.pkg, h.alu.typ+"."+h.name)
		if fn == nil {
			continue
		}
		st.Instances++
		c.MarkAnalysed(fn)
		ok := false
		for _, b := range fn.Blocks {
			for _, in := range b.Instrs {
				name, cc := stateMethod(in)
				if (name != "WriteOperand" && name != "WriteOperandBytes") || cc == nil {
					continue
				}
				seenV := map[ssa.Value]bool{}
				var walk func(v ssa.Value, d int)
				walk = func(v ssa.Value, d int) {
					if d > 6 || seenV[v] {
						return
					}
					seenV[v] = true
					switch x := v.(type) {
					case *ssa.Const:
						if k, isC := core.ConstInt(x); isC && (uint64(k)&0xFFFFFFFF) == 0xFFFFFFFF {
							ok = true
						}
					case *ssa.Phi:
						for _, e := range x.Edges {
							walk(e, d+1)
						}
					case *ssa.Convert:
						walk(x.X, d+1)
					case *ssa.ChangeType:
						walk(x.X, d+1)
					}
				}
				walk(cc.Args[len(cc.Args)-1], 0)
			}
		}
		st.Ob(ok)
		st.Sample("%s.%s (%s): writes all-ones on some path: %v", h.alu.typ, h.name, match, ok)
		if !ok {
			c.ReportAt("R03.49", fn, fn.Pos(), "none-found-not-all-ones:"+match, fmt.Sprintf("%s (%s) never writes 0xFFFFFFFF: for a source in which no bit qualifies (zero for v_ffbh_u32 / v_ffbl_b32 / s_ff1, all ones for s_ff0, all sign bits for the signed forms) the ISA returns -1, and a count of leading or trailing zeros returns 32 or 64 instead", h.name, match))
		}
	}
}

// checkEndedWavefrontReleasesRegisters (R07.11).
func checkEndedWavefrontReleasesRegisters(c *core.Ctx) {
	st := c.Rule("R07.11", "a wavefront that ends gives its registers back as cells that read zero: in the scheduler's s_endpgm evaluation every path that marks the wavefront completed (a store of WfCompleted into Wavefront.State) also calls resetRegisterValue for it, before or after, whichever of the three ways a wavefront can end it takes (last of its group, the others at a barrier, the others still running). The next wavefront placed at the same offsets otherwise reads the dead wavefront's values where the flat-cell model and emulation read 0", 3)
	fn := c.MustFunc("R07.11", cuPkg, "SchedulerImpl.evalSEndPgm")
	if fn == nil {
		return
	}
	c.MarkAnalysed(fn)
	g := core.BuildGraph(fn, 0, nil)
	states := wfStateNames(c)
	completed := states["WfCompleted"]
	isReset := func(n *core.Node) bool {
		f := core.CalleeFunc(n.Instr)
		return f != nil && f.Name() == "resetRegisterValue"
	}
	for _, n := range g.Nodes {
		s, ok := storeToField(n.Instr, "Wavefront.State")
		if !ok {
			continue
		}
		if k, isC := core.ConstInt(s.Val); !isC || k != completed {
			continue
		}
		st.Instances++
		// reset before: every path from entry to the store passes a reset; or reset after:
		// every path from the store to a return passes one
		before := true
		g.Walk([]core.State{{N: g.Entry}}, core.WalkOpts{ForwardOnly: true, Stop: isReset}, func(x core.State) {
			if x.N == n {
				before = false
			}
		})
		after := true
		g.Walk(core.After(n, nil), core.WalkOpts{ForwardOnly: true, Stop: isReset}, func(x core.State) {
			if _, isRet := x.N.Instr.(*ssa.Return); isRet {
				after = false
			}
		})
		ok = before || after
		st.Ob(ok)
		if !ok {
			c.ReportAt("R07.11", fn, s.Pos(), "ended-wavefront-keeps-registers", "evalSEndPgm marks the wavefront completed on a path that never calls resetRegisterValue: its SGPR window and its VGPR lanes keep their last values, and the wavefront placed there next reads them wherever it reads a register it has not written")
		}
	}
}

// checkLevelScanReachesRoot (R10.20).
func checkLevelScanReachesRoot(c *core.Ctx) {
	st := c.Rule("R10.20", "the buddy allocator finds the level of a block being freed by looking for the deepest split ancestor, and the scan includes the root (level 0): in levelOfBlock the level handed to blockHasBeenSplit reaches 0 - it is the loop variable minus one under a `> 0` loop test, or the loop variable itself under `>= 0`. A scan that stops above the root files a half-device block as the whole device: its buddy is handed out while still allocated", 1)
	fn := c.MustFunc("R10.20", drvIntPkg, "deviceBuddyMemoryState.levelOfBlock")
	if fn == nil {
		return
	}
	c.MarkAnalysed(fn)
	for _, b := range fn.Blocks {
		for _, in := range b.Instrs {
			cal := core.CalleeFunc(in)
			if cal == nil || cal.Name() != "blockHasBeenSplit" {
				continue
			}
			cc := core.CallOf(in)
			lvl := core.StripConv(cc.Args[len(cc.Args)-1])
			st.Instances++
			// the loop test that dominates the call
			verdict := "undecided"
			for d := b; d != nil && verdict == "undecided"; d = d.Idom() {
				iff, ok := d.Instrs[len(d.Instrs)-1].(*ssa.If)
				if !ok {
					continue
				}
				cond, neg := stripNot(iff.Cond)
				bo, ok := cond.(*ssa.BinOp)
				if !ok {
					continue
				}
				op, x, y := cmpConstRight(bo)
				k, isC := core.ConstInt(y)
				if !isC || k != 0 {
					continue
				}
				if neg {
					op = map[token.Token]token.Token{token.GTR: token.LEQ, token.GEQ: token.LSS, token.LSS: token.GEQ, token.LEQ: token.GTR}[op]
				}
				x = core.StripConv(x)
				// is the call on the edge where the test holds?
				holdsOnTrue := d.Succs[0] == b || d.Succs[0].Dominates(b)
				if !holdsOnTrue {
					continue
				}
				sub, isSub := lvl.(*ssa.BinOp)
				switch {
				case lvl == x && op == token.GEQ:
					verdict = "ok"
				case lvl == x && op == token.GTR:
					verdict = "stops-above-root"
				case isSub && sub.Op == token.SUB && core.StripConv(sub.X) == x && op == token.GTR:
					if one, isOne := core.ConstInt(sub.Y); isOne && one == 1 {
						verdict = "ok"
					}
				case isSub && sub.Op == token.SUB && core.StripConv(sub.X) == x && op == token.GEQ:
					verdict = "below-root"
				}
			}
			st.Ob(verdict == "ok")
			st.Sample("levelOfBlock: the split test reaches level 0: %s", verdict)
			switch verdict {
			case "ok":
			case "undecided":
				c.Undecided("R10.20", fn, in.Pos(), "level-scan-shape", "the loop that looks for the deepest split ancestor is no longer a countdown compared with 0")
			default:
				c.ReportAt("R10.20", fn, in.Pos(), "level-scan:"+verdict, "levelOfBlock's scan of the ancestors' split bits does not end at the root (level 0): a block that is half of the device is taken for the whole device when it is freed, put on the top free list with the root still marked split, and when that entry is split again its other half - still allocated - is handed out a second time")
			}
		}
	}
}

// checkSymbolScansWhole (R13.10).
func checkSymbolScansWhole(c *core.Ctx) {
	st := c.Rule("R13.10", "loading a kernel does not depend on where its symbols sit in the symbol table: the loader scans the whole list debug/elf returns (File.Symbols already leaves out the reserved null symbol) - no function of the loader re-slices a symbol list (symbols[1:], symbols[:n]) before ranging over it. Skipping the first entry loses the descriptor of a kernel whose .kd symbol happens to come first: the kernel loads with all-zero metadata", 2)
	for _, fn := range c.SrcFuncs(instsPkg) {
		uses := false
		var bad ssa.Instruction
		for _, b := range fn.Blocks {
			for _, in := range b.Instrs {
				if cal := core.CalleeFunc(in); cal != nil && cal.Name() == "Symbols" && cal.Pkg() != nil && cal.Pkg().Path() == "debug/elf" {
					uses = true
				}
				if sl, ok := in.(*ssa.Slice); ok {
					if strings.HasSuffix(sl.X.Type().String(), "[]debug/elf.Symbol") {
						bad = sl
					}
				}
			}
		}
		for _, p := range fn.Params {
			if strings.HasSuffix(p.Type().String(), "[]debug/elf.Symbol") {
				uses = true
			}
		}
		if !uses {
			continue
		}
		st.Instances++
		c.MarkAnalysed(fn)
		st.Ob(bad == nil)
		if bad != nil {
			c.ReportAt("R13.10", fn, bad.Pos(), "symbol-list-resliced:"+core.FuncName(fn), core.FuncName(fn)+" re-slices the list of ELF symbols before scanning it: File.Symbols() has already dropped the null symbol, so a real symbol is skipped, and what is loaded depends on the order of the symbol table (a kernel whose descriptor symbol comes first loads with zero kernarg / LDS / register counts)")
		}
	}
}

// checkPayloadNilPreserved (R16.17).
func checkPayloadNilPreserved(c *core.Ctx, pi *PkgInfo) {
	st := c.Rule("R16.17", "the payload of a forwarded write keeps its nil-ness: in the functions that build the translated request, the slices handed to WithData and WithDirtyMask are not fresh make(...) buffers filled by copy - a nil DirtyMask means \"every byte of Data is written\" in the memory protocol, and make([]bool, 0) is an empty, non-nil mask that writes nothing (or indexes out of range below). The field itself, or a copy that preserves nil (append on a nil slice), is accepted", 2)
	for _, fn := range pi.Funcs {
		for _, b := range fn.Blocks {
			for _, in := range b.Instrs {
				cal := core.CalleeFunc(in)
				if cal == nil || (cal.Name() != "WithData" && cal.Name() != "WithDirtyMask") {
					continue
				}
				cc := core.CallOf(in)
				st.Instances++
				c.MarkAnalysed(fn)
				fresh := false
				seen := map[ssa.Value]bool{}
				var walk func(v ssa.Value, d int)
				walk = func(v ssa.Value, d int) {
					if d > 6 || seen[v] {
						return
					}
					seen[v] = true
					switch x := v.(type) {
					case *ssa.MakeSlice:
						fresh = true
					case *ssa.Phi:
						for _, e := range x.Edges {
							walk(e, d+1)
						}
					case *ssa.Slice:
						walk(x.X, d+1)
					case *ssa.ChangeType:
						walk(x.X, d+1)
					}
				}
				walk(cc.Args[len(cc.Args)-1], 0)
				st.Ob(!fresh)
				if fresh {
					c.ReportAt("R16.17", fn, in.Pos(), "payload-nil-lost:"+cal.Name(), core.FuncName(fn)+" hands "+cal.Name()+" a buffer made with make(...): a request whose "+strings.TrimPrefix(cal.Name(), "With")+" was nil leaves the translator with an empty non-nil slice - for the mask that turns \"write every byte\" into \"write nothing\"")
				}
			}
		}
	}
}

// checkNoCountdownBeforeImmediateRetire (R05.13 / R12.23).
func checkNoCountdownBeforeImmediateRetire(c *core.Ctx, rule string, pd *PkgInfo) {
	st := c.Rule(rule, "a copy command that is retired on the spot (the zero-length case: Dequeue in the function that starts it) leaves no countdown armed: in the process...Command functions of the DMA copy middleware no store to the middleware's cyclesLeft can be followed by CommandQueue.Dequeue in the same call. The application thread is released by the Dequeue while the driver keeps ticking through the armed countdown; the next command is then picked up by whichever idle tick first sees it, and its start time depends on how fast the host thread was", 2)
	for _, fn := range pd.Funcs {
		name := core.FuncName(fn)
		if !strings.HasPrefix(name, "defaultMemoryCopyMiddleware.process") || !strings.HasSuffix(name, "Command") {
			continue
		}
		g := core.BuildGraph(fn, 1, func(cal *ssa.Function) bool {
			return cal.Pkg == fn.Pkg && strings.HasPrefix(core.FuncName(cal), "defaultMemoryCopyMiddleware.")
		})
		for _, n := range g.Nodes {
			s, ok := n.Instr.(*ssa.Store)
			if !ok {
				continue
			}
			f := core.FieldOfAddr(s.Addr)
			if f == nil || f.Name() != "cyclesLeft" {
				continue
			}
			st.Instances++
			c.MarkAnalysed(fn)
			reach, _ := g.Reach(core.After(n, nil), core.WalkOpts{ForwardOnly: true})
			bad := false
			for m := range reach {
				if core.IsCall(m.Instr, core.ModPath+"/amd/driver.CommandQueue.Dequeue") {
					bad = true
				}
			}
			st.Ob(!bad)
			if bad {
				c.ReportAt(rule, fn, s.Pos(), "countdown-armed-before-retire", name+" arms the copy latency countdown on a path that goes on to Dequeue the command at once: the waiting application continues while the driver ticks through an idle countdown, and the simulated time at which its next command starts depends on host scheduling")
			}
		}
	}
}

// checkParkedRequestsReleasedAtZero (R12.24).
func checkParkedRequestsReleasedAtZero(c *core.Ctx, pd *PkgInfo) {
	st := c.Rule("R12.24", "the copy requests a command parks for the copy latency are released by the value of the countdown: in the DMA copy middleware's Tick the hand-over of awaitingReqs to the driver's requestsToSend is taken exactly where cyclesLeft was found equal to 0, a value the command that parked them stores directly when the configured latency is 0 cycles - the builder's default. A release keyed on a flag that only the decrementing branch sets never fires for a latency of 0: the command stays at the head of its queue and every wait on it blocks", 1)
	fn := c.MustFunc("R12.24", driverPkg, "defaultMemoryCopyMiddleware.Tick")
	if fn == nil {
		return
	}
	c.MarkAnalysed(fn)
	g := core.BuildGraph(fn, 0, nil)
	for _, n := range g.Nodes {
		s, ok := storeToField(n.Instr, "Driver.requestsToSend")
		if !ok {
			continue
		}
		st.Instances++
		okG := g.Guarded(n, CmpCut(func(_ *core.Node, op token.Token, x, y ssa.Value) int {
			f := core.LoadedField(core.StripConv(x))
			if f == nil || f.Name() != "cyclesLeft" {
				return 0
			}
			if k, isC := core.ConstInt(y); !isC || k != 0 {
				return 0
			}
			// `<= 0` would include the idle sentinel -1
			switch op {
			case token.EQL:
				return 1
			case token.NEQ:
				return -1
			}
			return 0
		}))
		st.Ob(okG)
		if !okG {
			c.ReportAt("R12.24", fn, s.Pos(), "release-not-keyed-on-countdown", "Tick hands the parked copy requests to the driver on a path that did not find cyclesLeft equal to 0: with a copy latency of 0 cycles (the driver builder's default) the countdown is stored as 0 and never decremented, so a release that depends on anything else never happens and DrainCommandQueue / MemCopy never return")
		}
	}
	_ = pd
}
