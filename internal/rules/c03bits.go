package rules

import (
	"fmt"
	"go/token"
	"go/types"
	"regexp"
	"sort"
	"strings"

	"golang.org/x/tools/go/ssa"

	"verif/internal/core"
)

// R03.40: the bit-level instructions, decided exactly.
//
// For the instructions whose result is, bit by bit, a copy of a source bit, its
// complement or a constant once the shift amounts / field positions / selector
// bits are fixed (bitwise logic, moves, shifts, bit-field extract and insert,
// sign extension, conditional move, align), the handler's lane body is
// interpreted over the bit-provenance domain (bitprov.go): sources that carry
// data are vectors of named bits, the operands that steer (shift amount, field
// offset and width, the second operand of two-operand logic, the lane's
// condition bit) run through a covering set of constants. The value that
// reaches WriteOperand(inst.Dst, ...) is compared, bit for bit, with the value
// the ISA prescribes, which is written down once per mnemonic below as the same
// kind of bit vector. Nothing is executed: operand reads are symbols, the state
// is a model, the lane loop is entered once.

type laneEnv struct {
	srcs map[string]pval // Src0, Src1, Src2: what ReadOperand delivers (64 bits wide)
	vcc  uint64
	scc  uint64
}

type laneResult struct {
	dst    pval
	hasDst bool
	why    string
}

// operandFieldName: the Inst field an operand value was loaded from ("Src0", "Dst", ...).
func operandFieldName(v ssa.Value) string {
	ld, ok := v.(*ssa.UnOp)
	if !ok || ld.Op != token.MUL {
		return ""
	}
	fa, ok := ld.X.(*ssa.FieldAddr)
	if !ok {
		return ""
	}
	return fieldNameOf(fa)
}

// runLaneBody interprets a handler up to its first write of the destination.
func runLaneBody(fn *ssa.Function, env laneEnv) laneResult {
	res := laneResult{}
	e := &bpEval{}
	e.root = fn
	e.visited = map[*ssa.BasicBlock]bool{}
	e.load = func(ld *ssa.UnOp, fr *bpFrame) (pval, bool) {
		fa, ok := ld.X.(*ssa.FieldAddr)
		if !ok {
			return pval{}, false
		}
		name := fieldNameOf(fa)
		switch name {
		case "IsSdwa", "Src0Neg", "Src1Neg", "Src2Neg", "Src0Abs", "Src1Abs", "Src2Abs", "Clamp":
			return pBoolOf(pbit{k: '0'}), true
		case "Neg", "Abs", "Omod":
			return pConst(0, 64), true
		}
		return pval{}, false
	}
	e.invoke = func(call *ssa.Call, fr *bpFrame) (pval, bool) {
		name, cc := stateMethod(call)
		switch name {
		case "EXEC":
			return pConst(^uint64(0), 64), true
		case "VCC":
			return pConst(env.vcc, 64), true
		case "SCC":
			return pConst(env.scc, 8), true
		case "ReadOperand":
			f := operandFieldName(cc.Args[0])
			if v, ok := env.srcs[f]; ok {
				return v, true
			}
			e.fail("reads operand %q, which the scenario does not bind", f)
			return pval{}, true
		case "WriteOperand":
			f := operandFieldName(cc.Args[0])
			if f == "Dst" || f == "SDst" {
				sub := &bpEval{}
				e.captured = sub.get(cc.Args[2], fr)
				res.hasDst = true
				e.stopped = true
			}
			return pval{kind: pTuple}, true
		case "SetSCC", "SetVCC", "SetEXEC", "SetPC":
			return pval{kind: pTuple}, true
		case "Inst", "PC":
			return pval{}, true
		}
		return pval{}, false
	}
	// a handler with a lane loop is followed through its first iteration only; loops inside the
	// lane body (bit reversal, byte permutation) run to their end
	e.laneHeaders = map[*ssa.BasicBlock]bool{}
	for _, b := range fn.Blocks {
		for _, in := range b.Instrs {
			name, cc := stateMethod(in)
			if name != "ReadOperand" && name != "WriteOperand" && name != "ReadOperandBytes" && name != "WriteOperandBytes" {
				continue
			}
			if phi := ivOf(cc.Args[1]); phi != nil {
				e.laneHeaders[phi.Block()] = true
			}
		}
	}
	var args []pval
	for range fn.Params {
		args = append(args, pval{})
	}
	out := e.Call(fn, args)
	if res.hasDst {
		res.dst = out
	}
	if !res.hasDst {
		res.why = e.why
		if res.why == "" {
			res.why = "no write of the destination reached"
		}
	} else if res.dst.kind != pVec {
		res.why = "the value written is not modelled"
		if e.why != "" {
			res.why = e.why
		}
		res.hasDst = false
	}
	return res
}

// ---- the ISA side -------------------------------------------------------------

func bvTrunc(v pval, w int) pval { return v.trunc(w) }

func bvOp(op token.Token, a, b pval, w int) pval {
	e := &bpEval{}
	var t types.Type = types.Typ[types.Uint64]
	if w <= 32 {
		t = types.Typ[types.Uint32]
	}
	return e.binop(op, a.trunc(w), b.trunc(w), t)
}

func bvNot(a pval, w int) pval {
	r := pval{kind: pVec, w: w}
	for i := 0; i < 64; i++ {
		if i < w {
			x := a.bits[i]
			if x.k == 0 {
				x = pbit{k: '0'}
			}
			r.bits[i] = x.not()
		} else {
			r.bits[i] = pbit{k: '0'}
		}
	}
	return r
}

// bvShift: logical / arithmetic shift of the low w bits by a constant.
func bvShift(a pval, w int, n int, left, arith bool) pval {
	a = a.trunc(w)
	r := pval{kind: pVec, w: w}
	for i := 0; i < 64; i++ {
		r.bits[i] = pbit{k: '0'}
	}
	for i := 0; i < w; i++ {
		j := i + n
		if left {
			j = i - n
		}
		switch {
		case j >= 0 && j < w:
			r.bits[i] = a.bits[j]
		case !left && arith && j >= w:
			r.bits[i] = a.bits[w-1]
		}
		if r.bits[i].k == 0 {
			r.bits[i] = pbit{k: '0'}
		}
	}
	return r
}

type bitScenario struct {
	env  laneEnv
	want pval
	w    int
	desc string
}

type bitSpec struct {
	re   *regexp.Regexp
	gen  func(m []string) []bitScenario
	what string
}

func symSrc(name string) pval { return pSym(name, 64) }

func constSrc(v uint64) pval { return pConst(v, 64) }

var patternsFor = map[int][]uint64{
	32: {0xAAAAAAAA, 0x55555555},
	64: {0xAAAAAAAAAAAAAAAA, 0x5555555555555555},
}

func widthOfSuffix(s string) int {
	if strings.Contains(s, "64") {
		return 64
	}
	return 32
}

func bitSpecs() []bitSpec {
	logic := map[string]func(a, b pval, w int) pval{
		"and":   func(a, b pval, w int) pval { return bvOp(token.AND, a, b, w) },
		"or":    func(a, b pval, w int) pval { return bvOp(token.OR, a, b, w) },
		"xor":   func(a, b pval, w int) pval { return bvOp(token.XOR, a, b, w) },
		"andn2": func(a, b pval, w int) pval { return bvOp(token.AND, a, bvNot(b, w), w) },
		"orn2":  func(a, b pval, w int) pval { return bvOp(token.OR, a, bvNot(b, w), w) },
		"nand":  func(a, b pval, w int) pval { return bvNot(bvOp(token.AND, a, b, w), w) },
		"nor":   func(a, b pval, w int) pval { return bvNot(bvOp(token.OR, a, b, w), w) },
		"xnor":  func(a, b pval, w int) pval { return bvNot(bvOp(token.XOR, a, b, w), w) },
	}
	var specs []bitSpec
	specs = append(specs, bitSpec{
		re:   regexp.MustCompile(`^[sv]_(and|or|xor|andn2|orn2|nand|nor|xnor)_b(32|64)$`),
		what: "two-operand logic",
		gen: func(m []string) []bitScenario {
			w := widthOfSuffix(m[2])
			f := logic[m[1]]
			var out []bitScenario
			for _, p := range patternsFor[w] {
				out = append(out,
					bitScenario{env: laneEnv{srcs: map[string]pval{"Src0": symSrc("S0"), "Src1": constSrc(p)}}, want: f(symSrc("S0"), constSrc(p), w), w: w, desc: fmt.Sprintf("S1 = %#x", p)},
					bitScenario{env: laneEnv{srcs: map[string]pval{"Src0": constSrc(p), "Src1": symSrc("S1")}}, want: f(constSrc(p), symSrc("S1"), w), w: w, desc: fmt.Sprintf("S0 = %#x", p)})
			}
			return out
		}})
	specs = append(specs, bitSpec{
		re:   regexp.MustCompile(`^[sv]_(mov|not)_b(32|64)$`),
		what: "move / complement",
		gen: func(m []string) []bitScenario {
			w := widthOfSuffix(m[2])
			want := symSrc("S0").trunc(w)
			if m[1] == "not" {
				want = bvNot(symSrc("S0"), w)
			}
			return []bitScenario{{env: laneEnv{srcs: map[string]pval{"Src0": symSrc("S0")}}, want: want, w: w, desc: "S0 symbolic"}}
		}})
	specs = append(specs, bitSpec{
		re:   regexp.MustCompile(`^[sv]_(lshl|lshr|ashr)(rev)?_[biu](32|64)$`),
		what: "shift",
		gen: func(m []string) []bitScenario {
			w := widthOfSuffix(m[3])
			data, amt := "Src0", "Src1"
			if m[2] == "rev" {
				data, amt = "Src1", "Src0"
			}
			var out []bitScenario
			for _, k := range []uint64{0, 1, 5, 31, 32, 33, 63, 64, 67, 0xFFFFFFE1} {
				n := int(k) & (w - 1)
				out = append(out, bitScenario{
					env:  laneEnv{srcs: map[string]pval{data: symSrc("D"), amt: constSrc(k)}},
					want: bvShift(symSrc("D"), w, n, m[1] == "lshl", m[1] == "ashr"), w: w,
					desc: fmt.Sprintf("shift amount %#x", k)})
			}
			return out
		}})
	specs = append(specs, bitSpec{
		re:   regexp.MustCompile(`^v_bfe_(u|i)32$`),
		what: "vector bit-field extract",
		gen: func(m []string) []bitScenario {
			var out []bitScenario
			for off := 0; off < 32; off++ {
				for wd := 0; wd < 32; wd++ {
					out = append(out, bitScenario{
						env:  laneEnv{srcs: map[string]pval{"Src0": symSrc("D"), "Src1": constSrc(uint64(off) | 0xFFFFFF00), "Src2": constSrc(uint64(wd) | 0x40)}},
						want: bfeWant(off, wd, m[1] == "i"), w: 32, desc: fmt.Sprintf("offset %d width %d", off, wd)})
				}
			}
			return out
		}})
	specs = append(specs, bitSpec{
		re:   regexp.MustCompile(`^s_bfe_(u|i)32$`),
		what: "scalar bit-field extract",
		gen: func(m []string) []bitScenario {
			var out []bitScenario
			for off := 0; off < 32; off++ {
				for wd := 0; wd < 32; wd++ {
					out = append(out, bitScenario{
						env:  laneEnv{srcs: map[string]pval{"Src0": symSrc("D"), "Src1": constSrc(uint64(off) | uint64(wd)<<16)}},
						want: bfeWant(off, wd, m[1] == "i"), w: 32, desc: fmt.Sprintf("offset %d width %d", off, wd)})
				}
			}
			return out
		}})
	specs = append(specs, bitSpec{
		re:   regexp.MustCompile(`^v_bfi_b32$`),
		what: "bit-field insert",
		gen: func(m []string) []bitScenario {
			var out []bitScenario
			for _, p := range patternsFor[32] {
				want := bvOp(token.OR, bvOp(token.AND, constSrc(p), symSrc("S1"), 32), bvOp(token.AND, bvNot(constSrc(p), 32), symSrc("S2"), 32), 32)
				out = append(out, bitScenario{env: laneEnv{srcs: map[string]pval{"Src0": constSrc(p), "Src1": symSrc("S1"), "Src2": symSrc("S2")}}, want: want, w: 32, desc: fmt.Sprintf("mask %#x", p)})
			}
			return out
		}})
	specs = append(specs, bitSpec{
		re:   regexp.MustCompile(`^s_sext_i32_i(8|16)$`),
		what: "sign extension",
		gen: func(m []string) []bitScenario {
			n := 8
			if m[1] == "16" {
				n = 16
			}
			want := pval{kind: pVec, w: 32}
			s := symSrc("S0")
			for i := 0; i < 64; i++ {
				switch {
				case i < n:
					want.bits[i] = s.bits[i]
				case i < 32:
					want.bits[i] = s.bits[n-1]
				default:
					want.bits[i] = pbit{k: '0'}
				}
			}
			return []bitScenario{{env: laneEnv{srcs: map[string]pval{"Src0": symSrc("S0")}}, want: want, w: 32, desc: "S0 symbolic"}}
		}})
	specs = append(specs, bitSpec{
		re:   regexp.MustCompile(`^v_cndmask_b32$`),
		what: "conditional move",
		gen: func(m []string) []bitScenario {
			var out []bitScenario
			for _, vcc := range []uint64{0, 1, 0xFFFFFFFFFFFFFFFE, 0xFFFFFFFFFFFFFFFF} {
				want := symSrc("S0").trunc(32)
				if vcc&1 == 1 {
					want = symSrc("S1").trunc(32)
				}
				out = append(out, bitScenario{env: laneEnv{vcc: vcc, srcs: map[string]pval{"Src0": symSrc("S0"), "Src1": symSrc("S1"), "Src2": constSrc(vcc)}}, want: want, w: 32, desc: fmt.Sprintf("condition mask %#x (lane 0)", vcc)})
			}
			return out
		}})
	specs = append(specs, bitSpec{
		re:   regexp.MustCompile(`^v_alignbit_b32$`),
		what: "align",
		gen: func(m []string) []bitScenario {
			var out []bitScenario
			for _, k := range []uint64{0, 1, 8, 31, 32 + 4, 0xFFFFFFE3} {
				n := int(k & 31)
				want := pval{kind: pVec, w: 32}
				hi, lo := symSrc("S0"), symSrc("S1")
				for i := 0; i < 64; i++ {
					switch {
					case i >= 32:
						want.bits[i] = pbit{k: '0'}
					case i+n < 32:
						want.bits[i] = lo.bits[i+n]
					default:
						want.bits[i] = hi.bits[i+n-32]
					}
				}
				out = append(out, bitScenario{env: laneEnv{srcs: map[string]pval{"Src0": symSrc("S0"), "Src1": symSrc("S1"), "Src2": constSrc(k)}}, want: want, w: 32, desc: fmt.Sprintf("shift %#x", k)})
			}
			return out
		}})
	specs = append(specs, bitSpec{
		re:   regexp.MustCompile(`^[sv]_bfm_b(32|64)$`),
		what: "bit-field mask",
		gen: func(m []string) []bitScenario {
			w := widthOfSuffix(m[1])
			var out []bitScenario
			for _, a := range []uint64{0, 1, 7, 31, 32, 33, 63, 0xFFFFFFC5} {
				for _, b := range []uint64{0, 3, 31, 32, 40, 63, 0xFFFFFF82} {
					cnt, off := a&uint64(w-1), b&uint64(w-1)
					var v uint64
					if cnt < 64 {
						v = (uint64(1)<<cnt - 1) << off
					}
					out = append(out, bitScenario{env: laneEnv{srcs: map[string]pval{"Src0": constSrc(a), "Src1": constSrc(b)}}, want: constSrc(v).trunc(w), w: w, desc: fmt.Sprintf("width %#x offset %#x", a, b)})
				}
			}
			return out
		}})
	specs = append(specs, bitSpec{
		re:   regexp.MustCompile(`^(s_brev|v_bfrev)_b(32|64)$`),
		what: "bit reversal",
		gen: func(m []string) []bitScenario {
			w := widthOfSuffix(m[2])
			want := pval{kind: pVec, w: w}
			s0 := symSrc("S0")
			for i := 0; i < 64; i++ {
				if i < w {
					want.bits[i] = s0.bits[w-1-i]
				} else {
					want.bits[i] = pbit{k: '0'}
				}
			}
			return []bitScenario{{env: laneEnv{srcs: map[string]pval{"Src0": symSrc("S0")}}, want: want, w: w, desc: "S0 symbolic"}}
		}})
	specs = append(specs, bitSpec{
		re:   regexp.MustCompile(`^s_cselect_b(32|64)$`),
		what: "scalar select",
		gen: func(m []string) []bitScenario {
			w := widthOfSuffix(m[1])
			var out []bitScenario
			for _, scc := range []uint64{0, 1} {
				want := symSrc("S1").trunc(w)
				if scc == 1 {
					want = symSrc("S0").trunc(w)
				}
				out = append(out, bitScenario{env: laneEnv{scc: scc, srcs: map[string]pval{"Src0": symSrc("S0"), "Src1": symSrc("S1")}}, want: want, w: w, desc: fmt.Sprintf("SCC = %d", scc)})
			}
			return out
		}})
	specs = append(specs, bitSpec{
		re:   regexp.MustCompile(`^s_movk_i32$`),
		what: "move of a sign-extended 16-bit immediate",
		gen: func(m []string) []bitScenario {
			want := pval{kind: pVec, w: 32}
			k := symSrc("K")
			for i := 0; i < 64; i++ {
				switch {
				case i < 16:
					want.bits[i] = k.bits[i]
				case i < 32:
					want.bits[i] = k.bits[15]
				default:
					want.bits[i] = pbit{k: '0'}
				}
			}
			// the decoder delivers SIMM16 zero-extended: bits above 15 are 0
			imm := symSrc("K").trunc(16)
			imm.w = 64
			return []bitScenario{{env: laneEnv{srcs: map[string]pval{"SImm16": imm}}, want: want, w: 32, desc: "SIMM16 symbolic"}}
		}})
	specs = append(specs, bitSpec{
		re:   regexp.MustCompile(`^v_lshl_or_b32$`),
		what: "shift-left-and-or",
		gen: func(m []string) []bitScenario {
			var out []bitScenario
			for _, k := range []uint64{0, 1, 16, 31, 32 + 5, 0xFFFFFFE2} {
				for _, p := range patternsFor[32] {
					want := bvOp(token.OR, bvShift(symSrc("S0"), 32, int(k&31), true, false), constSrc(p), 32)
					out = append(out, bitScenario{env: laneEnv{srcs: map[string]pval{"Src0": symSrc("S0"), "Src1": constSrc(k), "Src2": constSrc(p)}}, want: want, w: 32, desc: fmt.Sprintf("shift %#x, S2 = %#x", k, p)})
				}
			}
			return out
		}})
	specs = append(specs, bitSpec{
		re:   regexp.MustCompile(`^s_bitset(0|1)_b(32|64)$`),
		what: "single-bit set / clear",
		gen: func(m []string) []bitScenario {
			w := widthOfSuffix(m[2])
			var out []bitScenario
			for _, k := range []uint64{0, 1, 31, 32, 45, 63, 0xFFFFFFC7} {
				n := int(k & uint64(w-1))
				want := symSrc("D").trunc(w)
				if m[1] == "1" {
					want.bits[n] = pbit{k: '1'}
				} else {
					want.bits[n] = pbit{k: '0'}
				}
				out = append(out, bitScenario{env: laneEnv{srcs: map[string]pval{"Src0": constSrc(k), "Dst": symSrc("D")}}, want: want, w: w, desc: fmt.Sprintf("bit index %#x", k)})
			}
			return out
		}})
	return specs
}

// bfeWant: the field of `wd` bits at `off` of D (arithmetic shift for the signed form,
// so a field that reaches past bit 31 is filled with the sign), zero / sign extended.
func bfeWant(off, wd int, signed bool) pval {
	d := symSrc("D")
	want := pval{kind: pVec, w: 32}
	for i := 0; i < 64; i++ {
		want.bits[i] = pbit{k: '0'}
	}
	if wd == 0 {
		return want
	}
	bit := func(j int) pbit { // bit j of D >> off
		if off+j < 32 {
			return d.bits[off+j]
		}
		if signed {
			return d.bits[31]
		}
		return pbit{k: '0'}
	}
	for i := 0; i < 32; i++ {
		switch {
		case i < wd:
			want.bits[i] = bit(i)
		case signed:
			want.bits[i] = bit(wd - 1)
		}
	}
	return want
}

func sameBits(a, b pval, w int) (bool, int) {
	for i := 0; i < w; i++ {
		x, y := a.bits[i], b.bits[i]
		if x.k == 0 {
			x = pbit{k: '0'}
		}
		if y.k == 0 {
			y = pbit{k: '0'}
		}
		if x != y {
			return false, i
		}
	}
	return true, -1
}

func checkBitSemantics(c *core.Ctx, handlers []handlerRef) {
	st := c.Rule("R03.40", "the bit-level instructions compute, bit for bit, what the ISA prescribes: for two-operand logic, moves, shifts, bit-field extract / insert, sign extension, conditional move and align the lane body of the handler is interpreted over the bit-provenance domain (data sources as vectors of named bits; shift amounts, field positions, the other logic operand and the lane's condition bit through covering sets of constants, out-of-range amounts included) and the value written to the destination is compared with the ISA's bit vector for that mnemonic", 40)
	specs := bitSpecs()
	seen := map[string]bool{}
	for _, h := range handlers {
		var names []string
		for _, n := range h.insts {
			names = append(names, baseMnemonic(n))
		}
		names = uniqueStrings(names)
		sort.Strings(names)
		for _, name := range names {
			for _, sp := range specs {
				m := sp.re.FindStringSubmatch(name)
				if m == nil {
					continue
				}
				key := h.alu.pkg + "." + h.name + ":" + name
				if seen[key] {
					continue
				}
				seen[key] = true
				fn := c.SSAFunc(h.alu.pkg, h.alu.typ+"."+h.name)
				if fn == nil {
					continue
				}
				c.MarkAnalysed(fn)
				st.Instances++
				scen := sp.gen(m)
				bad, undecided := "", ""
				for _, sc := range scen {
					r := runLaneBody(fn, sc.env)
					if !r.hasDst {
						undecided = sc.desc + ": " + r.why
						break
					}
					if ok, bit := sameBits(r.dst, sc.want, sc.w); !ok {
						bad = fmt.Sprintf("%s: bit %d of the result is %s, the ISA prescribes %s", sc.desc, bit, r.dst.bits[bit], sc.want.bits[bit])
						break
					}
				}
				switch {
				case undecided != "":
					st.Ob(false)
					c.Undecided("R03.40", fn, fn.Pos(), "bits:"+name, core.FuncName(fn)+" ("+name+", "+sp.what+") could not be interpreted over the bit domain: "+undecided)
				case bad != "":
					st.Ob(false)
					c.ReportAt("R03.40", fn, fn.Pos(), "bits:"+name, core.FuncName(fn)+" ("+name+") does not compute the "+sp.what+" the ISA prescribes: "+bad)
				default:
					st.Ob(true)
					st.Sample("%s.%s (%s): %d scenarios agree with the ISA bit for bit", h.alu.typ, h.name, name, len(scen))
				}
			}
		}
	}
}
