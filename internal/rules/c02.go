package rules

import (
	"fmt"
	"go/ast"
	"go/token"
	"go/types"
	"regexp"
	"sort"
	"strings"

	"golang.org/x/tools/go/packages"
	"golang.org/x/tools/go/ssa"

	"verif/internal/core"
)

func init() { register("C02", runC02) }

// initSummary: ordered list of (flag, bytes reserved, value written) of the
// SGPR initialisation, and the lane-id part, extracted from the syntax of the
// two sibling functions.
type sgprStep struct {
	flag     string
	reserved int64
	value    string
	pos      token.Pos
}

func normExpr(s string) string {
	s = strings.ReplaceAll(s, " ", "")
	s = strings.ReplaceAll(s, "\n", "")
	s = strings.ReplaceAll(s, "\t", "")
	return s
}

func summariseInit(p *packages.Package, fd *ast.FuncDecl) (steps []sgprStep, lane []string) {
	for _, st := range fd.Body.List {
		switch s := st.(type) {
		case *ast.IfStmt:
			flag := types.ExprString(s.Cond)
			if !strings.HasPrefix(flag, "co.") {
				continue
			}
			step := sgprStep{flag: strings.TrimSuffix(strings.TrimPrefix(flag, "co."), "()"), pos: s.Pos()}
			locals := map[string]string{}
			ast.Inspect(s.Body, func(n ast.Node) bool {
				switch x := n.(type) {
				case *ast.AssignStmt:
					if len(x.Lhs) == 1 && types.ExprString(x.Lhs[0]) == "SGPRPtr" && x.Tok == token.ADD_ASSIGN {
						if v, ok := constInt64(p, x.Rhs[0]); ok {
							step.reserved += v
						}
					}
					// the same step spelled out: SGPRPtr = SGPRPtr + k
					if len(x.Lhs) == 1 && len(x.Rhs) == 1 && types.ExprString(x.Lhs[0]) == "SGPRPtr" && x.Tok == token.ASSIGN {
						if be, ok := ast.Unparen(x.Rhs[0]).(*ast.BinaryExpr); ok && be.Op == token.ADD {
							for _, pr := range [][2]ast.Expr{{be.X, be.Y}, {be.Y, be.X}} {
								if types.ExprString(ast.Unparen(pr[0])) == "SGPRPtr" {
									if v, ok := constInt64(p, pr[1]); ok {
										step.reserved += v
									}
								}
							}
						}
					}
					if x.Tok == token.DEFINE && len(x.Lhs) == 1 && len(x.Rhs) == 1 {
						locals[types.ExprString(x.Lhs[0])] = normExpr(types.ExprString(x.Rhs[0]))
					}
				case *ast.CallExpr:
					name := exprString(x.Fun)
					switch {
					case strings.HasPrefix(name, "binary.LittleEndian.PutUint"):
						step.value = normExpr(types.ExprString(x.Args[1]))
					case name == "insts.Uint32ToBytes" || name == "insts.Uint64ToBytes":
						v := normExpr(types.ExprString(x.Args[0]))
						if l, ok := locals[v]; ok {
							v = l
						}
						step.value = v
					}
				}
				return true
			})
			steps = append(steps, step)
		case *ast.ForStmt:
			// the lane-id loop: collect (condition context, register index, source)
			var walk func(n ast.Node, ctx string)
			walk = func(n ast.Node, ctx string) {
				switch x := n.(type) {
				case *ast.BlockStmt:
					for _, st := range x.List {
						walk(st, ctx)
						// a guard clause `if g { ...; continue / return }` puts the rest of the block under !g
						if is, ok := st.(*ast.IfStmt); ok && is.Else == nil && is.Init == nil && len(is.Body.List) > 0 {
							leaves := false
							switch t := is.Body.List[len(is.Body.List)-1].(type) {
							case *ast.ReturnStmt:
								leaves = true
							case *ast.BranchStmt:
								leaves = t.Tok == token.CONTINUE || t.Tok == token.BREAK
							}
							if leaves {
								cond, neg := ast.Expr(is.Cond), true
								for {
									if p, ok := cond.(*ast.ParenExpr); ok {
										cond = p.X
										continue
									}
									if u, ok := cond.(*ast.UnaryExpr); ok && u.Op == token.NOT {
										cond, neg = u.X, !neg
										continue
									}
									break
								}
								c := normExpr(types.ExprString(cond))
								if neg {
									ctx += "[!" + c + "]"
								} else {
									ctx += "[" + c + "]"
								}
							}
						}
					}
				case *ast.IfStmt:
					// `if !(c) { B } else { A }` is `if c { A } else { B }`
					cond, neg := ast.Expr(x.Cond), false
					for {
						if p, ok := cond.(*ast.ParenExpr); ok {
							cond = p.X
							continue
						}
						if u, ok := cond.(*ast.UnaryExpr); ok && u.Op == token.NOT {
							cond, neg = u.X, !neg
							continue
						}
						break
					}
					c := normExpr(types.ExprString(cond))
					pos, negc := ctx+"["+c+"]", ctx+"[!"+c+"]"
					if neg {
						pos, negc = negc, pos
					}
					walk(x.Body, pos)
					if x.Else != nil {
						walk(x.Else, negc)
					}
				case *ast.ExprStmt:
					walk(x.X, ctx)
				case *ast.CallExpr:
					// find VReg(k) and Uint32ToBytes(src) inside this call
					reg, src := "", ""
					ast.Inspect(x, func(m ast.Node) bool {
						if c2, ok := m.(*ast.CallExpr); ok {
							switch exprString(c2.Fun) {
							case "insts.VReg":
								reg = "v" + normExpr(types.ExprString(c2.Args[0]))
							case "insts.Uint32ToBytes":
								src = normExpr(types.ExprString(c2.Args[0]))
							}
						}
						return true
					})
					if reg != "" && src != "" {
						lane = append(lane, ctx+reg+"="+src)
					}
				case *ast.AssignStmt:
					if len(x.Lhs) == 1 && len(x.Rhs) == 1 {
						l := types.ExprString(x.Lhs[0])
						if l == "x" || l == "y" || l == "z" || l == "packed" {
							lane = append(lane, ctx+l+":="+normExpr(types.ExprString(x.Rhs[0])))
						}
					}
				}
			}
			walk(s.Body, "")
		}
	}
	return
}

func opcodeSet(p *packages.Package, fd *ast.FuncDecl) map[int64]bool {
	out := map[int64]bool{}
	if fd == nil {
		return out
	}
	cases, _ := opcodeCases(p, fd)
	for _, oc := range cases {
		if oc.isDef {
			continue
		}
		if oc.panics && len(oc.callees) == 0 {
			continue
		}
		for _, v := range oc.values {
			out[v] = true
		}
	}
	return out
}

// opcodeSetSSA: the opcodes (0..255) for which the dispatcher reaches a handler rather
// than its panic, decided on the SSA form per opcode value (a switch and an if chain are
// the same there). ok is false when some branch could not be decided.
func opcodeSetSSA(fn *ssa.Function) (map[int64]bool, bool) {
	out := map[int64]bool{}
	if fn == nil {
		return out, false
	}
	isOp := isLoadOfField("Opcode")
	for op := int64(0); op < 256; op++ {
		r := opPath(fn, isOp, op)
		if !r.decided {
			return out, false
		}
		if !r.panics && (len(r.calls) > 0 || len(r.invokes) > 1) {
			out[op] = true
		}
	}
	return out, true
}

func setStr(m map[int64]bool) string {
	var ks []int
	for k := range m {
		ks = append(ks, int(k))
	}
	sort.Ints(ks)
	return fmt.Sprint(ks)
}

// platform packages that assemble emulation / timing GPUs
var platformPkgs = []string{"amd/samples/runner/emusystem/emugpu", "amd/samples/runner/timingconfig/mi300a", "amd/samples/runner/timingconfig/r9nano", "amd/samples/runner/timingconfig/shaderarray"}

func runC02(c *core.Ctx) core.Meta {
	c.Load(cuPkg, wfPkg, emuPkg, cdna3Pkg, driverPkg, cpPkg, instsPkg, robPkg, platformPkgs[0], platformPkgs[1], platformPkgs[2], platformPkgs[3])
	c.BuildSSA()
	checkFlushDecisionRanges(c, "R02.18")
	checkDirtyMarkUnconditional(c, "R02.19")
	checkCreatedOncePerBuild(c, "R02.16", NewPkgInfo(c, cpPkg), "NewCUResourcePool", "Two kernels in flight on one GPU then share physical registers and LDS in the timing CU, which emulation (one kernel at a time per CU state) never does: the two modes diverge.")
	pcu := NewPkgInfo(c, cuPkg)
	pd := NewPkgInfo(c, driverPkg)
	pc := NewPkgInfo(c, cpPkg)
	prov := core.NewLocalProv(c)

	// ---------------- R02.1 one ALU ----------------
	st1 := c.Rule("R02.1", "in the timing compute unit architectural state of a wavefront (operand writes, VCC/SCC/EXEC/PC) is changed only through the shared emulation ALU (alu.Run from the branch, scalar, SIMD and LDS units) plus a frozen list of non-interpreting writers; the builder obtains the ALU only from emu.NewALU or the injected factory", 8)
	allowed := map[string]string{
		"WfDispatcherImpl.setWfInfo":      "initial PC and EXEC of a dispatched wavefront",
		"ComputeUnit.UpdatePCAndSetReady": "advances the PC past a completed instruction",
		"WfDispatcherImpl.initRegisters":  "initial register values (mirrors emu.initWfRegs, R02.2)",
		"CURegFileAccessor.WriteReg":      "the register store behind WriteOperand (C07)",
	}
	pcu.Instrs(func(fn *ssa.Function, in ssa.Instruction) {
		f := core.CalleeFunc(in)
		if f == nil {
			return
		}
		switch f.Name() {
		case "WriteOperand", "WriteOperandBytes", "SetVCC", "SetSCC", "SetEXEC", "SetPC":
		default:
			return
		}
		// receiver is a timing wavefront or the InstEmuState interface
		sig := f.Type().(*types.Signature)
		if sig.Recv() == nil {
			return
		}
		rt := namedTypeName(sig.Recv().Type())
		if rt != "wavefront.Wavefront" && rt != "emu.InstEmuState" {
			return
		}
		st1.Instances++
		name := core.FuncName(fn)
		_, ok := allowed[name]
		st1.Ob(ok)
		st1.Sample("%s: %s on %s", name, f.Name(), rt)
		if !ok {
			c.ReportAt("R02.1", fn, in.Pos(), "mutator:"+f.Name(), fmt.Sprintf("%s changes architectural state (%s) inside the timing compute unit outside the shared ALU: a second place that interprets instructions lets timing and emulation results diverge", name, f.Name()))
		}
	})
	// alu.Run call sites: exactly the four execution units
	runOwners := map[string]bool{"BranchUnit": true, "ScalarUnit": true, "SIMDUnit": true, "LDSUnit": true}
	pcu.Instrs(func(fn *ssa.Function, in ssa.Instruction) {
		cc := core.CallOf(in)
		if cc == nil || !cc.IsInvoke() || cc.Method.Name() != "Run" || namedTypeName(cc.Value.Type()) != "emu.ALU" {
			return
		}
		st1.Instances++
		owner := strings.SplitN(core.FuncName(fn), ".", 2)[0]
		ok := runOwners[owner]
		st1.Ob(ok)
		if !ok {
			c.ReportAt("R02.1", fn, in.Pos(), "alu.Run:owner", "the emulation ALU is run from "+core.FuncName(fn)+", not from one of the four execution units")
		}
	})
	if fn := c.MustFunc("R02.1", cuPkg, "Builder.Build"); fn != nil {
		for _, f2 := range append([]*ssa.Function{fn}, pcu.Funcs...) {
			if f2 != fn && !strings.HasPrefix(core.FuncName(f2), "Builder.") {
				continue
			}
			for _, b := range f2.Blocks {
				for _, in := range b.Instrs {
					if s, ok := storeToField(in, "Builder.alu"); ok {
						st1.Instances++
						pv := prov.Of(s.Val)
						ok2 := strings.HasPrefix(pv, "emu.NewALU(") || strings.HasPrefix(pv, "dyncall(recv.aluFactory)") || strings.Contains(pv, "aluFactory")
						st1.Ob(ok2)
						st1.Sample("%s: Builder.alu = %s", core.FuncName(f2), short(pv))
						if !ok2 {
							c.ReportAt("R02.1", f2, in.Pos(), "Builder.alu:source", "the compute unit's ALU is "+short(pv)+", not emu.NewALU or the injected ALU factory")
						}
					}
				}
			}
		}
	}

	// ---------------- R02.2 initial registers mirrored ----------------
	checkInitRegistersMirrored(c, "R02.2")

	// ---------------- R02.3 memory-instruction coverage agrees ----------------
	st3 := c.Rule("R02.3", "the scalar-memory opcodes executed by both ALUs equal those executed by the timing scalar unit; every FLAT opcode of the ALUs is accepted by the timing vector memory unit; every FLAT load whose emulation handler transforms the loaded bytes has a dedicated write-back case in timing", 4)
	eS := opcodeSet(c.Pkg(emuPkg), findFuncDecl(c.Pkg(emuPkg), "ALUImpl.runSMEM"))
	if ss, ok := opcodeSetSSA(c.SSAFunc(emuPkg, "ALUImpl.runSMEM")); ok {
		eS = ss
	}
	cS := opcodeSet(c.Pkg(cdna3Pkg), findFuncDecl(c.Pkg(cdna3Pkg), "ALU.runSMEM"))
	if ss, ok := opcodeSetSSA(c.SSAFunc(cdna3Pkg, "ALU.runSMEM")); ok {
		cS = ss
	}
	tS := opcodeSet(c.Pkg(cuPkg), findFuncDecl(c.Pkg(cuPkg), "ScalarUnit.executeSMEMInst"))
	if ss, ok := opcodeSetSSA(c.SSAFunc(cuPkg, "ScalarUnit.executeSMEMInst")); ok {
		tS = ss
	}
	if len(eS) == 0 || len(tS) == 0 {
		c.Report(core.Finding{Rule: "R02.3", Kind: "anchor", Pkg: cuPkg, Func: "ScalarUnit.executeSMEMInst", Detail: "anchor", Msg: "SMEM dispatch not found"})
	}
	for _, pair := range []struct {
		name string
		a    map[int64]bool
	}{{"emu.ALUImpl.runSMEM", eS}, {"cdna3.ALU.runSMEM", cS}} {
		for op := range pair.a {
			st3.Instances++
			ok := tS[op]
			st3.Ob(ok)
			if !ok {
				c.Report(core.Finding{Rule: "R02.3", Pkg: cuPkg, Func: "ScalarUnit.executeSMEMInst", Detail: fmt.Sprintf("smem-opcode-missing:%d", op), Msg: fmt.Sprintf("SMEM opcode %d is executed by %s but the timing scalar unit panics on it: the program runs in emulation and crashes in timing", op, pair.name)})
			}
		}
	}
	for op := range tS {
		st3.Instances++
		ok := eS[op] || cS[op]
		st3.Ob(ok)
		if !ok {
			c.Report(core.Finding{Rule: "R02.3", Pkg: cuPkg, Func: "ScalarUnit.executeSMEMInst", Detail: fmt.Sprintf("smem-opcode-extra:%d", op), Msg: fmt.Sprintf("SMEM opcode %d is executed by the timing scalar unit but by neither ALU", op)})
		}
	}
	st3.Sample("SMEM opcodes: emu %s cdna3 %s timing %s", setStr(eS), setStr(cS), setStr(tS))
	// the byte size loaded in timing equals the emu handler's read size
	if fd := findFuncDecl(c.Pkg(cuPkg), "ScalarUnit.executeSMEMInst"); fd != nil {
		ast.Inspect(fd.Body, func(n ast.Node) bool {
			cc, ok := n.(*ast.CaseClause)
			if !ok || len(cc.List) != 1 {
				return true
			}
			op, ok1 := constInt64(c.Pkg(cuPkg), cc.List[0])
			var size int64 = -1
			ast.Inspect(cc, func(m ast.Node) bool {
				if call, ok := m.(*ast.CallExpr); ok && strings.HasSuffix(exprString(call.Fun), "executeSMEMLoad") {
					size, _ = constInt64(c.Pkg(cuPkg), call.Args[0])
				}
				return true
			})
			if !ok1 || size < 0 {
				return true
			}
			st3.Instances++
			want := int64(4) << uint(op)
			okS := size == want
			st3.Ob(okS)
			if !okS {
				c.Report(core.Finding{Rule: "R02.3", Pkg: cuPkg, Func: "ScalarUnit.executeSMEMInst", Detail: fmt.Sprintf("smem-size:%d", op), Pos: c.Position(cc.Pos()), Msg: fmt.Sprintf("SMEM opcode %d loads %d bytes in timing; s_load_dword x%d loads %d bytes", op, size, 1<<uint(op), want)})
			}
			return true
		})
	}
	eF := opcodeSet(c.Pkg(emuPkg), findFuncDecl(c.Pkg(emuPkg), "ALUImpl.runFlat"))
	if ss, ok := opcodeSetSSA(c.SSAFunc(emuPkg, "ALUImpl.runFlat")); ok {
		eF = ss
	}
	cF := opcodeSet(c.Pkg(cdna3Pkg), findFuncDecl(c.Pkg(cdna3Pkg), "ALU.runFlat"))
	if ss, ok := opcodeSetSSA(c.SSAFunc(cdna3Pkg, "ALU.runFlat")); ok {
		cF = ss
	}
	tF := opcodeSet(c.Pkg(cuPkg), findFuncDecl(c.Pkg(cuPkg), "VectorMemoryUnit.executeFlatInsts"))
	if ss, ok := opcodeSetSSA(c.SSAFunc(cuPkg, "VectorMemoryUnit.executeFlatInsts")); ok {
		tF = ss
	}
	for _, pair := range []struct {
		name string
		a    map[int64]bool
	}{{"emu.ALUImpl.runFlat", eF}, {"cdna3.ALU.runFlat", cF}} {
		for op := range pair.a {
			st3.Instances++
			ok := tF[op]
			st3.Ob(ok)
			if !ok {
				c.Report(core.Finding{Rule: "R02.3", Pkg: cuPkg, Func: "VectorMemoryUnit.executeFlatInsts", Detail: fmt.Sprintf("flat-opcode-missing:%d", op), Msg: fmt.Sprintf("FLAT opcode %d is executed by %s but not accepted by the timing vector memory unit", op, pair.name)})
			}
		}
	}
	// the other direction: an opcode only the timing unit executes has no functional
	// reference at all (the emulator panics on it), so nothing ties the bytes the
	// coalescer moves to the instruction's data width
	var extra []int64
	for op := range tF {
		if !eF[op] && !cF[op] {
			extra = append(extra, op)
		}
	}
	sort.Slice(extra, func(i, j int) bool { return extra[i] < extra[j] })
	subDwordName := regexp.MustCompile(`_(u|s)?(byte|short)(_d16(_hi)?)?$`)
	for _, op := range extra {
		r, ok := LoadInstTables(c).Lookup("FLAT", op)
		if !ok {
			continue // not decodable: the case is unreachable
		}
		name := strings.TrimSpace(r.Name)
		if !subDwordName.MatchString(name) {
			continue // whole-dword accesses move what the coalescer moves
		}
		st3.Instances++
		st3.Ob(false)
		c.Report(core.Finding{Rule: "R02.3", Pkg: cuPkg, Func: "VectorMemoryUnit.executeFlatInsts", Detail: fmt.Sprintf("flat-opcode-extra:%d", op), Msg: fmt.Sprintf("FLAT opcode %d (%s) is a sub-dword access executed by the timing vector memory unit but by neither ALU: the same binary panics in emulation and runs in timing, where the coalescer moves one whole dword per lane whatever the instruction's width (flat_store_byte / flat_store_short overwrite the neighbouring bytes, flat_load_sshort is not sign-extended)", op, name)})
	}
	st3.Sample("FLAT opcodes: emu %s cdna3 %s timing accepts %s", setStr(eF), setStr(cF), setStr(tF))
	// transforming (sub-dword) loads: how many memory bytes reach the register, and how they are extended
	type subDword struct {
		bytes  int
		signed bool
	}
	narrowConv := func(in ssa.Instruction) (int, bool) {
		cv, ok := in.(*ssa.Convert)
		if !ok {
			return 0, false
		}
		if bt, ok := cv.Type().Underlying().(*types.Basic); ok {
			switch bt.Kind() {
			case types.Int8:
				return 1, true
			case types.Int16:
				return 2, true
			}
		}
		return 0, false
	}
	wb := map[int64]subDword{}
	if fn := c.SSAFunc(cuPkg, "ComputeUnit.handleVectorDataLoadReturn"); fn != nil {
		lp := core.NewLocalProv(c)
		for _, b := range fn.Blocks {
			for _, in := range b.Instrs {
				bo, ok := in.(*ssa.BinOp)
				if !ok || bo.Op != token.EQL {
					continue
				}
				f := core.LoadedField(bo.X)
				k, isC := core.ConstInt(bo.Y)
				if f == nil || f.Name() != "Opcode" || !isC {
					continue
				}
				var then *ssa.BasicBlock
				for _, ref := range *bo.Referrers() {
					if iff, ok := ref.(*ssa.If); ok {
						then = iff.Block().Succs[0]
					}
				}
				if then == nil {
					continue
				}
				sd := subDword{}
				idx := map[string]bool{}
				for _, tb := range fn.Blocks {
					if !then.Dominates(tb) {
						continue
					}
					for _, ti := range tb.Instrs {
						if n, ok := narrowConv(ti); ok {
							sd.signed, sd.bytes = true, n
						}
						if ia, ok := ti.(*ssa.IndexAddr); ok {
							if df := core.LoadedField(ia.X); df != nil && df.Name() == "Data" {
								idx[lp.Of(ia.Index)] = true
							}
						}
						if cf := core.CalleeFunc(ti); cf != nil && cf.Pkg() != nil && cf.Pkg().Path() == "encoding/binary" {
							switch cf.Name() {
							case "Uint16":
								idx["le16.0"], idx["le16.1"] = true, true
							case "Uint32":
								idx["le32.0"], idx["le32.1"], idx["le32.2"], idx["le32.3"] = true, true, true, true
							}
						}
					}
				}
				if !sd.signed {
					sd.bytes = len(idx)
				}
				wb[k] = sd
			}
		}
	} else {
		c.Report(core.Finding{Rule: "R02.3", Kind: "anchor", Pkg: cuPkg, Func: "ComputeUnit.handleVectorDataLoadReturn", Detail: "anchor", Msg: "vector load write-back not found"})
	}
	for _, alu := range []aluDesc{{emuPkg, "ALUImpl"}, {cdna3Pkg, "ALU"}} {
		fd := findFuncDecl(c.Pkg(alu.pkg), alu.typ+".runFlat")
		if fd == nil {
			continue
		}
		cases, _ := opcodeCases(c.Pkg(alu.pkg), fd)
		for _, oc := range cases {
			for _, cal := range oc.callees {
				fn := c.SSAFunc(alu.pkg, alu.typ+"."+cal)
				if fn == nil {
					continue
				}
				// does the handler modify the bytes read from memory before writing them to the register?
				transforms := false
				isLoad := false
				sd := subDword{bytes: 4}
				zeroed := map[int64]bool{}
				for _, b := range fn.Blocks {
					for _, in := range b.Instrs {
						if name, cc := stateMethod(in); name == "WriteOperandBytes" || name == "WriteOperand" {
							isLoad = true
							// the value written is not the buffer returned by the memory read itself
							data := cc.Args[len(cc.Args)-1]
							if call, ok := data.(*ssa.Call); !ok || !call.Call.IsInvoke() || call.Call.Method.Name() != "Read" {
								transforms = true
							}
						}
						if n, ok := narrowConv(in); ok {
							sd.signed, sd.bytes = true, n
						}
						if s, ok := in.(*ssa.Store); ok {
							if ia, ok := s.Addr.(*ssa.IndexAddr); ok {
								if call, ok := ia.X.(*ssa.Call); ok && call.Call.IsInvoke() && call.Call.Method.Name() == "Read" {
									transforms = true
								}
								if z, isC := core.ConstInt(s.Val); isC && z == 0 {
									if k, isK := core.ConstInt(ia.Index); isK {
										zeroed[k] = true
									}
								}
							}
						}
					}
				}
				if !isLoad || !transforms {
					continue
				}
				if !sd.signed {
					sd.bytes = 4 - len(zeroed)
					for k := range zeroed {
						if k < int64(sd.bytes) || k > 3 {
							sd.bytes = -1 // zeroed bytes are not the upper ones: not a plain zero-extension
						}
					}
				}
				for _, op := range oc.values {
					st3.Instances++
					tsd, ok := wb[op]
					st3.Ob(ok)
					st3.Sample("%s.%s (FLAT %d) keeps %d byte(s), sign-extended: %v; timing write-back: %+v (case present: %v)", alu.typ, cal, op, sd.bytes, sd.signed, tsd, ok)
					if !ok {
						c.Report(core.Finding{Rule: "R02.3", Pkg: cuPkg, Func: "ComputeUnit.handleVectorDataLoadReturn", Detail: fmt.Sprintf("flat-writeback-missing:%d", op), Msg: fmt.Sprintf("FLAT opcode %d (%s.%s) transforms the loaded bytes in emulation (sub-dword load) but the timing write-back has no case for it and copies the raw dword: the register differs between the modes", op, alu.typ, cal)})
						continue
					}
					if sd.bytes < 0 || sd.bytes == 4 {
						continue // a transformation this summary does not model; presence of the case is all that is decided
					}
					st3.Instances++
					okW := tsd == sd
					st3.Ob(okW)
					if !okW {
						c.Report(core.Finding{Rule: "R02.3", Pkg: cuPkg, Func: "ComputeUnit.handleVectorDataLoadReturn", Detail: fmt.Sprintf("flat-writeback-width:%d", op), Msg: fmt.Sprintf("FLAT opcode %d: emulation (%s.%s) puts %d memory byte(s) into the register (sign-extended: %v), the timing write-back %d (sign-extended: %v): the register differs between the modes for values that need the dropped bytes", op, alu.typ, cal, sd.bytes, sd.signed, tsd.bytes, tsd.signed)})
					}
				}
			}
		}
	}

	// ---------------- R02.4 flush before copy ----------------
	checkFlushBeforeCopy(c, pd, pc, prov, "R02.4")

	// ---------------- R02.6 scalar loads split across cache lines land in consecutive registers ----------------
	st6 := c.Rule("R02.6", "the timing scalar unit splits an s_load that crosses cache lines into pieces of X bytes (X from the address cursor and the remaining byte count): the address cursor advances by X, each request asks for X bytes at the cursor, and the destination register of a piece is the first register plus (cursor - start) / 4, or a register cursor that advances by X / 4; emulation writes the whole range at once, so a piece that lands elsewhere makes the two modes differ", 4)
	if fn := c.MustFunc("R02.6", cuPkg, "ScalarUnit.executeSMEMLoad"); fn != nil {
		c.MarkAnalysed(fn)
		loops := findSplitLoops(fn)
		st6.Instances++
		st6.Ob(len(loops) == 1)
		if len(loops) != 1 {
			c.ReportAt("R02.6", fn, fn.Pos(), "split-loop", "the loop `for bytesLeft > 0 { bytesLeft -= X }` that splits a scalar load into cache-line pieces was not found")
		} else {
			sl := loops[0]
			X := sl.chunk
			// the address cursor: another header phi advanced by X
			var cursor *ssa.Phi
			var start ssa.Value
			scaledStep := func(step ssa.Value) bool { // X/4 or X>>2
				bo, ok := core.StripConv(step).(*ssa.BinOp)
				if !ok || core.StripConv(bo.X) != X {
					return false
				}
				k, isC := core.ConstInt(bo.Y)
				return isC && ((bo.Op == token.QUO && k == 4) || (bo.Op == token.SHR && k == 2))
			}
			var regCursor *ssa.Phi
			for _, in := range sl.header.Instrs {
				phi, ok := in.(*ssa.Phi)
				if !ok {
					break
				}
				if phi == sl.rem {
					continue
				}
				for i, e := range phi.Edges {
					bo, ok := e.(*ssa.BinOp)
					if !ok || bo.Op != token.ADD || bo.X != ssa.Value(phi) {
						continue
					}
					st6.Instances++
					switch {
					case bo.Y == X:
						cursor, start = phi, phi.Edges[1-i]
						st6.Ob(true)
					case scaledStep(bo.Y):
						regCursor = phi
						st6.Ob(true)
					default:
						st6.Ob(false)
						c.ReportAt("R02.6", fn, bo.Pos(), "cursor-step:"+core.PinnedName(fn, phi.Comment), fmt.Sprintf("cursor %s advances by %s per piece while the piece is %s bytes long (a register cursor must advance by the piece size / 4)", phi.Comment, short(prov.Of(bo.Y)), short(prov.Of(X))))
					}
				}
			}
			st6.Instances++
			st6.Ob(cursor != nil)
			if cursor == nil {
				c.ReportAt("R02.6", fn, sl.rem.Pos(), "address-cursor", "no address cursor advancing by the piece size was found")
			}
			for _, b := range fn.Blocks {
				if !sl.header.Dominates(b) {
					continue
				}
				for _, in := range b.Instrs {
					if cc := core.CallOf(in); cc != nil {
						if f := core.CalleeFunc(in); f != nil && len(cc.Args) > 0 {
							arg := cc.Args[len(cc.Args)-1]
							switch f.Name() {
							case "WithByteSize":
								st6.Instances++
								st6.Ob(arg == X)
								if arg != X {
									c.ReportAt("R02.6", fn, in.Pos(), "piece-size", "a piece requests "+short(prov.Of(arg))+" bytes, not the piece size")
								}
							case "WithAddress":
								st6.Instances++
								st6.Ob(cursor != nil && arg == ssa.Value(cursor))
								if cursor == nil || arg != ssa.Value(cursor) {
									c.ReportAt("R02.6", fn, in.Pos(), "piece-address", "a piece is read at "+short(prov.Of(arg))+", not at the address cursor")
								}
							}
						}
					}
					stv, ok := in.(*ssa.Store)
					if !ok {
						continue
					}
					if f := core.FieldOfAddr(stv.Addr); f == nil || f.Name() != "DstSGPR" {
						continue
					}
					st6.Instances++
					okD := false
					var regArg ssa.Value
					if call, isCall := stv.Val.(*ssa.Call); isCall && len(call.Call.Args) == 1 {
						regArg = core.StripConv(call.Call.Args[0])
					}
					if regArg != nil {
						if ph, isPhi := regArg.(*ssa.Phi); isPhi && ph == regCursor {
							okD = true
						}
						if add, isAdd := regArg.(*ssa.BinOp); isAdd && add.Op == token.ADD {
							for _, off := range []ssa.Value{add.X, add.Y} {
								q, isQ := core.StripConv(off).(*ssa.BinOp)
								if !isQ {
									continue
								}
								k, isC := core.ConstInt(q.Y)
								if !isC || !((q.Op == token.QUO && k == 4) || (q.Op == token.SHR && k == 2)) {
									continue
								}
								if sub, isSub := core.StripConv(q.X).(*ssa.BinOp); isSub && sub.Op == token.SUB && cursor != nil && sub.X == ssa.Value(cursor) && sub.Y == start {
									okD = true
								}
							}
						}
					}
					st6.Ob(okD)
					st6.Sample("executeSMEMLoad: destination register of a piece = %s", short(prov.Of(stv.Val)))
					if !okD {
						c.ReportAt("R02.6", fn, in.Pos(), "piece-register", "the destination register of a piece is "+short(prov.Of(stv.Val))+", not first register + (cursor - start) / 4: a load split unevenly over two cache lines writes its second piece to the wrong registers")
					}
				}
			}
		}
	}

	// ---------------- R02.7 per-CU caches do not outlive a kernel ----------------
	st7 := c.Rule("R02.7", "the per-CU L1 caches are not coherent with each other, so data written by one compute unit in a kernel is visible to another compute unit in the next kernel only if the L1 caches are invalidated in between (they drop every line on any flush request): the kernel-launch handling of the driver or of the command processor reaches the construction of a cache flush request (protocol.NewFlushReq in the driver, cache.FlushReqBuilder.Build in the command processor); emulation has no caches, so a stale L1 hit makes the two modes differ", 1)
	{
		buildsFlush := func(fn *ssa.Function) bool {
			for _, b := range fn.Blocks {
				for _, in := range b.Instrs {
					f := core.CalleeFunc(in)
					if f == nil {
						continue
					}
					if f.Name() == "NewFlushReq" && f.Pkg() != nil && strings.HasSuffix(f.Pkg().Path(), "amd/protocol") {
						return true
					}
					if f.Name() == "Build" && f.Signature().Recv() != nil && strings.HasSuffix(f.Signature().Recv().Type().String(), "mem/cache.FlushReqBuilder") {
						return true
					}
				}
			}
			return false
		}
		reach := func(root *ssa.Function) bool {
			seen := map[*ssa.Function]bool{}
			var walk func(f *ssa.Function, d int) bool
			walk = func(f *ssa.Function, d int) bool {
				if f == nil || seen[f] || d > 6 || len(f.Blocks) == 0 {
					return false
				}
				seen[f] = true
				if buildsFlush(f) {
					return true
				}
				for _, b := range f.Blocks {
					for _, in := range b.Instrs {
						if cc := core.CallOf(in); cc != nil {
							if cal := cc.StaticCallee(); cal != nil && cal.Pkg == f.Pkg && walk(cal, d+1) {
								return true
							}
						}
					}
				}
				return false
			}
			return walk(root, 0)
		}
		st7.Instances++
		okI := false
		nRoots := 0
		for _, r := range []struct{ pkg, name string }{
			{cpPkg, "cpMiddleware.processLaunchKernelReq"},
			{driverPkg, "Driver.processLaunchKernelCommand"},
			{driverPkg, "Driver.processUnifiedMultiGPULaunchKernelCommand"},
		} {
			fn := c.MustFunc("R02.7", r.pkg, r.name)
			if fn == nil {
				continue
			}
			nRoots++
			c.MarkAnalysed(fn)
			if reach(fn) {
				okI = true
			}
		}
		// positive control: the memory-copy path does build flush requests
		ctl := false
		if fn := c.SSAFunc(cpPkg, "cpMiddleware.processFlushReq"); fn != nil {
			ctl = reach(fn)
		}
		if !ctl {
			c.Report(core.Finding{Rule: "R02.7", Kind: "undecided", Pkg: cpPkg, Func: "cpMiddleware.processFlushReq", Detail: "control", Msg: "control: cpMiddleware.processFlushReq is not recognised as building a cache flush request, so the rule cannot recognise one on the launch path either"})
		}
		st7.Ob(okI)
		st7.Sample("kernel launch handling (driver, command processor) reaches a cache flush request: %v; control processFlushReq: %v", okI, ctl)
		if !okI {
			c.Report(core.Finding{Rule: "R02.7", Pkg: cpPkg, Func: "cpMiddleware.processLaunchKernelReq", Detail: "l1-not-invalidated-between-kernels", Msg: "nothing in the kernel launch path of the driver or the command processor flushes the per-CU L1 caches: a compute unit that read a line in one kernel gets a stale hit in the next kernel after another compute unit rewrote the line (caches are flushed only for memory copies that touch dirty buffers); bitonicsort -timing -verify fails, the emulator passes"})
		}
	}

	// ---------------- R02.8 the decoder follows the architecture of the ALU ----------------
	st8 := c.Rule("R02.8", "the decoder has architecture-dependent rules (Disassembler.IsCDNA3) and the two modes must decode a kernel identically: every platform package that installs the CDNA3 ALU (a reference to cdna3.NewALU) also configures the decoder for CDNA3 (a store to Disassembler.IsCDNA3), and a compute-unit builder that accepts a decoder installs it (the timing CU's Decoder is the configured one when one was given)", 3)
	{
		for _, rel := range platformPkgs {
			if !c.HasPkg(rel) {
				continue
			}
			usesCDNA3, setsFlag := false, false
			var where *ssa.Function
			for _, fn := range c.SrcFuncs(rel) {
				for _, b := range fn.Blocks {
					for _, in := range b.Instrs {
						if cc := core.CallOf(in); cc != nil {
							if cal := cc.StaticCallee(); cal != nil && cal.Name() == "NewALU" && cal.Pkg != nil && strings.HasSuffix(cal.Pkg.Pkg.Path(), cdna3Pkg) {
								usesCDNA3 = true
								if where == nil {
									where = fn
								}
							}
						}
						if s, ok := in.(*ssa.Store); ok {
							if fa, ok := s.Addr.(*ssa.FieldAddr); ok && fieldNameOf(fa) == "IsCDNA3" {
								setsFlag = true
							}
						}
					}
				}
			}
			if !usesCDNA3 {
				st8.Sample("%s: no CDNA3 ALU", rel)
				continue
			}
			st8.Instances++
			st8.Ob(setsFlag)
			st8.Sample("%s: installs the CDNA3 ALU, configures the decoder for CDNA3: %v", rel, setsFlag)
			if !setsFlag {
				c.MarkAnalysed(where)
				c.ReportAt("R02.8", where, where.Pos(), "decoder-not-cdna3:"+rel, rel+" installs the CDNA3 ALU but never sets Disassembler.IsCDNA3: its compute units decode with the GCN3 rules (a FLAT / GLOBAL access with SADDR = s[0:1] is decoded as a VGPR-pair address), while the emulation platform of the same architecture decodes with the CDNA3 rules")
			}
		}
		// the timing CU builder installs a given decoder
		if fn := c.MustFunc("R02.8", cuPkg, "Builder.Build"); fn != nil {
			st8.Instances++
			c.MarkAnalysed(fn)
			installs := false
			for _, b := range fn.Blocks {
				for _, in := range b.Instrs {
					if s, ok := in.(*ssa.Store); ok {
						if fa, ok := s.Addr.(*ssa.FieldAddr); ok && fieldNameOf(fa) == "Decoder" && strings.Contains(prov.Of(s.Val), ".decoder") {
							installs = true
						}
					}
				}
			}
			st8.Ob(installs)
			if !installs {
				c.ReportAt("R02.8", fn, fn.Pos(), "decoder-option-ignored", "the compute-unit builder never installs the decoder it was configured with: every timing compute unit decodes with a default (GCN3) disassembler")
			}
		}
	}

	// ---------------- R02.15 a flushed execution unit starts from its reset state ----------------
	// The pipeline flush of the compute unit (page migration, TLB shootdown) drops the instructions in
	// flight and re-issues them. A unit that decides "this instruction has not been executed yet" by a
	// field still holding its zero value (a start latch: the field is set to a non-zero value only under
	// the test field == 0, next to the call of the ALU) has to reset that field in its Flush.
	st15 := c.Rule("R02.15", "an execution unit of the timing compute unit that latches the start of an instruction in a field (the field is stored a non-zero value only on the edge of a test field == 0; LDSUnit.cycleLeft: 0 means not executed yet) stores that field in its Flush method. A latch that survives the pipeline flush makes the unit count down for the first instruction it receives after the restart instead of executing it: a ds_write is lost, a ds_read leaves stale registers, while PCs and instruction counts still match emulation", 1)
	{
		pcu := NewPkgInfo(c, cuPkg)
		for _, fn := range pcu.Funcs {
			if fn.Signature.Recv() == nil {
				continue
			}
			unit := namedTypeName(fn.Signature.Recv().Type())
			flush := c.SSAFunc(cuPkg, strings.TrimPrefix(unit, "cu.")+".Flush")
			if flush == nil || fn == flush {
				continue
			}
			var g *core.Graph
			for _, b := range fn.Blocks {
				for _, in := range b.Instrs {
					sto, ok := in.(*ssa.Store)
					if !ok {
						continue
					}
					f := core.FieldOfAddr(sto.Addr)
					if f == nil {
						continue
					}
					if k, isC := core.ConstInt(sto.Val); !isC || k == 0 {
						continue
					}
					if g == nil {
						g = core.BuildGraph(fn, 0, nil)
					}
					n := g.NodeOf(in)
					if n == nil {
						continue
					}
					latched := g.Guarded(n, CmpCut(func(_ *core.Node, op token.Token, x, y ssa.Value) int {
						if core.LoadedField(x) != f {
							return 0
						}
						if z, isC := core.ConstInt(y); !isC || z != 0 {
							return 0
						}
						switch op {
						case token.EQL:
							return 1
						case token.NEQ:
							return -1
						}
						return 0
					}))
					if !latched {
						continue
					}
					st15.Instances++
					c.MarkAnalysed(fn)
					reset := false
					for _, fb := range flush.Blocks {
						for _, fin := range fb.Instrs {
							if fs, ok := fin.(*ssa.Store); ok && core.FieldOfAddr(fs.Addr) == f {
								reset = true
							}
						}
					}
					st15.Ob(reset)
					st15.Sample("%s latches the start of an instruction in %s; %s resets it: %v", core.FuncName(fn), f.Name(), core.FuncName(flush), reset)
					if !reset {
						c.ReportAt("R02.15", flush, flush.Pos(), "latch-survives-flush:"+core.FuncName(fn)+":"+f.Name(), core.FuncName(fn)+" starts an instruction (runs it on the shared ALU and arms "+f.Name()+") only while "+f.Name()+" is 0, and "+core.FuncName(flush)+" does not reset it: after a pipeline flush that arrives while an instruction is in that stage, the first instruction the unit receives is counted down but never executed - its effect is lost in timing mode while emulation executes it")
					}
				}
			}
		}
	}

	// ---------------- R02.14 a wavefront retires only when its scalar loads have returned ----------------
	// (c14.go, the check of R14.1) the return of a scalar load writes at the wavefront's SGPR offset
	// whatever has become of the wavefront; emulation executes the load at once
	checkEndPgmWaits(c, "R02.14")

	// ---------------- R02.13 store data is merged lane by lane ----------------
	st13 := c.Rule("R02.13", "the coalescer merges the data of a multi-dword store in the order the emulator writes it: lane by lane, each lane's dwords in register order. In every function of the compute unit that feeds store data into write requests (calls findOrCreateWriteReq), the loop over the lanes (bound 64) encloses the loop over the data registers. The emulator's flat_store_dwordx2/x3/x4 handlers write all bytes of lane i before lane i+1, so where the ranges of two active lanes overlap the higher lane wins; a register-major merge lets a lower lane's later register win and the final memory differs", 1)
	{
		pcu := NewPkgInfo(c, cuPkg)
		for _, fn := range pcu.Funcs {
			feeds := false
			for _, b := range fn.Blocks {
				for _, in := range b.Instrs {
					if cc := core.CallOf(in); cc != nil && cc.StaticCallee() != nil && cc.StaticCallee().Name() == "findOrCreateWriteReq" {
						feeds = true
					}
				}
			}
			if !feeds {
				continue
			}
			var laneHdr, regHdr *ssa.BasicBlock
			for _, b := range fn.Blocks {
				for _, in := range b.Instrs {
					phi, ok := in.(*ssa.Phi)
					if !ok {
						break
					}
					// the loop test: phi < N
					if phi.Referrers() == nil {
						continue
					}
					for _, r := range *phi.Referrers() {
						cmp, ok := r.(*ssa.BinOp)
						if !ok || cmp.Op != token.LSS || cmp.X != ssa.Value(phi) {
							continue
						}
						if k, isC := core.ConstInt(cmp.Y); isC && k == 64 {
							laneHdr = b
						} else if !isC {
							regHdr = b
						}
					}
				}
			}
			if laneHdr == nil || regHdr == nil {
				continue
			}
			st13.Instances++
			c.MarkAnalysed(fn)
			ok := laneHdr != regHdr && laneHdr.Dominates(regHdr)
			st13.Ob(ok)
			st13.Sample("%s: the lane loop encloses the register loop: %v", core.FuncName(fn), ok)
			if !ok {
				c.ReportAt("R02.13", fn, fn.Pos(), "store-merge-order:"+core.FuncName(fn), core.FuncName(fn)+" walks the data registers in the outer loop and the lanes in the inner one: the dwords of a multi-dword store are merged register-major, while the emulator writes lane by lane. For two active lanes whose ranges overlap at different register indices (lane 0 at A, lane 1 at A+4, dwordx2) the emulator ends with the higher lane's dword in the shared location, the timing model with the lower lane's second register")
			}
		}
	}

	// ---------------- R02.12 the shared ALU runs a DS instruction on the LDS of the executing wave ----------------
	st12 := c.Rule("R02.12", "one emu.ALU per compute unit is shared by all execution units and keeps the LDS it works on as state: in the unit that binds it (the type whose methods call ALU.SetLDS), every ALU.Run(w) is dominated, in the same function, by a SetLDS whose argument is the LDS of that same wave w. The unit is a pipeline: a binding made when a wave is accepted is overwritten by the next wave before the first one executes, and a DS instruction of one work-group then reads and writes another work-group's LDS (emulation runs one work-group at a time and is unaffected)", 1)
	{
		pcu := NewPkgInfo(c, cuPkg)
		isALU := func(cc *ssa.CallCommon, name string) bool {
			return cc != nil && cc.IsInvoke() && cc.Method.Name() == name && namedTypeName(cc.Value.Type()) == "emu.ALU"
		}
		binds := map[string]bool{} // receiver types with a SetLDS call
		for _, fn := range pcu.Funcs {
			if fn.Signature.Recv() == nil {
				continue
			}
			for _, b := range fn.Blocks {
				for _, in := range b.Instrs {
					if isALU(core.CallOf(in), "SetLDS") {
						binds[namedTypeName(fn.Signature.Recv().Type())] = true
					}
				}
			}
		}
		for _, fn := range pcu.Funcs {
			if fn.Signature.Recv() == nil || !binds[namedTypeName(fn.Signature.Recv().Type())] {
				continue
			}
			for _, b := range fn.Blocks {
				for i, in := range b.Instrs {
					cc := core.CallOf(in)
					if !isALU(cc, "Run") {
						continue
					}
					st12.Instances++
					c.MarkAnalysed(fn)
					wave := prov.Of(cc.Args[0])
					bound := false
					for _, b2 := range fn.Blocks {
						for j, in2 := range b2.Instrs {
							c2 := core.CallOf(in2)
							if !isALU(c2, "SetLDS") {
								continue
							}
							before := (b2 == b && j < i) || (b2 != b && b2.Dominates(b))
							if before && strings.Contains(prov.Of(c2.Args[0]), strings.TrimSuffix(wave, ")")) {
								bound = true
							}
						}
					}
					st12.Ob(bound)
					st12.Sample("%s: ALU.Run(%s) preceded by SetLDS of the same wave: %v", core.FuncName(fn), short(wave), bound)
					if !bound {
						c.ReportAt("R02.12", fn, in.Pos(), "lds-not-bound-at-run:"+core.FuncName(fn), core.FuncName(fn)+" runs the shared ALU on "+short(wave)+" without binding that wave's LDS first in the same function: the ALU still points at the LDS of whichever wave was bound last (the next wave entering the pipeline), so a DS instruction acts on another work-group's LDS")
					}
				}
			}
		}
	}

	// ---------------- R02.11 load lanes are matched to a transaction register by register ----------------
	st11 := c.Rule("R02.11", "the load coalescer creates one read per cache line that any destination dword of any active lane touches, and on return writes the registers listed in the transaction's lane info: the function that builds the lane info (stores VectorMemAccessInfo.laneInfo) walks lanes and registers, and every same-cache-line test that guards an entry takes the address of that very register (it depends on the lane index and on the register index). A test on the lane's base address alone drops the trailing dwords of a multi-dword load that straddles a cache line: those registers are never written and keep stale values, while the emulator reads every dword", 1)
	{
		pcu := NewPkgInfo(c, cuPkg)
		for _, fn := range pcu.Funcs {
			stores := false
			for _, b := range fn.Blocks {
				for _, in := range b.Instrs {
					if _, ok := storeToField(in, "VectorMemAccessInfo.laneInfo"); ok {
						stores = true
					}
				}
			}
			if !stores {
				continue
			}
			c.MarkAnalysed(fn)
			var ivs []*ssa.Phi
			for _, b := range fn.Blocks {
				for _, in := range b.Instrs {
					phi, ok := in.(*ssa.Phi)
					if !ok {
						break
					}
					for _, e := range phi.Edges {
						if bo, ok := e.(*ssa.BinOp); ok && bo.Op == token.ADD && bo.X == ssa.Value(phi) {
							if k, isC := core.ConstInt(bo.Y); isC && k == 1 {
								ivs = append(ivs, phi)
							}
						}
					}
				}
			}
			type lineTest struct {
				call *ssa.Call
				deps int
			}
			var tests []lineTest
			maxDeps := 0
			for _, b := range fn.Blocks {
				for _, in := range b.Instrs {
					call, ok := in.(*ssa.Call)
					if !ok {
						continue
					}
					cal := call.Call.StaticCallee()
					if cal == nil || cal.Pkg != pcu.Pkg || (cal.Name() != "isInSameCacheLine" && cal.Name() != "cacheLineID") || len(call.Call.Args) < 2 {
						continue
					}
					deps := 0
					for _, iv := range ivs {
						iv := iv
						if dependsOn(call.Call.Args[1], func(v ssa.Value) bool { return v == ssa.Value(iv) }, map[ssa.Value]bool{}) {
							deps++
						}
					}
					tests = append(tests, lineTest{call, deps})
					if deps > maxDeps {
						maxDeps = deps
					}
				}
			}
			for _, t := range tests {
				st11.Instances++
				ok := t.deps == maxDeps || maxDeps < 2
				st11.Ob(ok)
				st11.Sample("%s: cache-line test on an address that depends on %d of the function's loop indices (lane, register)", core.FuncName(fn), t.deps)
				if !ok {
					c.ReportAt("R02.11", fn, t.call.Pos(), "lane-filter:base-address", "a same-cache-line test in "+core.FuncName(fn)+" takes an address that does not depend on the register index: a lane of a multi-dword load whose base lies in another cache line is dropped from this transaction although its trailing dwords belong to it; their destination registers are never written in timing mode")
				}
			}
		}
	}

	// ---------------- R02.10 the coalescer applies the signed FLAT offset (c03flat.go) ----------------
	checkFlatOffsetSigned(c, "R02.10", []string{cuPkg}, 1)

	// ---------------- R02.9 both modes show the ALU the same PC ----------------
	st9 := c.Rule("R02.9", "the ALU is shared by both modes and some handlers read the PC register (relative branches, s_getpc_b64): both compute units run the ALU with the PC at the address of the executing instruction and add the instruction size afterwards: in the emulator's execution loop no call that runs the ALU is reachable, within one iteration, after the PC was advanced by the instruction size (the timing units advance the PC in their write stage, after the execute stage); and a handler that writes a PC-derived value to an operand computes the same function of PC() in both ALUs", 3)
	{
		if fn := c.MustFunc("R02.9", emuPkg, "ComputeUnit.runWfUntilBarrier"); fn != nil {
			c.MarkAnalysed(fn)
			g := core.BuildGraph(fn, 2, func(cal *ssa.Function) bool { return cal.Pkg == fn.Pkg })
			isAdvance := func(n *core.Node) bool {
				cc := core.CallOf(n.Instr)
				if cc == nil || cc.StaticCallee() == nil || cc.StaticCallee().Name() != "SetPC" || len(cc.Args) < 2 {
					return false
				}
				return strings.Contains(prov.Of(cc.Args[1]), ".ByteSize")
			}
			isRun := func(n *core.Node) bool {
				cc := core.CallOf(n.Instr)
				return cc != nil && cc.IsInvoke() && cc.Method.Name() == "Run" && strings.Contains(cc.Value.Type().String(), "ALU")
			}
			adv := g.NodesWhere(isAdvance)
			runs := g.NodesWhere(isRun)
			st9.Instances++
			st9.Ob(len(adv) > 0 && len(runs) > 0)
			if len(adv) == 0 || len(runs) == 0 {
				c.Report(core.Finding{Rule: "R02.9", Kind: "anchor", Pkg: emuPkg, Func: "ComputeUnit.runWfUntilBarrier", Detail: "shape", Msg: fmt.Sprintf("PC advance (%d) / ALU run (%d) not recognised in the emulator's execution loop", len(adv), len(runs))})
			}
			for _, a := range adv {
				st9.Instances++
				reach, okW := g.Reach(core.After(a, nil), core.WalkOpts{ForwardOnly: true})
				early := false
				for _, r := range runs {
					if reach[r] {
						early = true
					}
				}
				st9.Ob(okW && !early)
				if early {
					c.ReportAt("R02.9", fn, a.Instr.Pos(), "pc-advanced-before-alu", "the emulator advances the PC by the instruction size before it runs the ALU, the timing compute unit after it: a handler that reads the PC register (s_getpc_b64) sees a value that differs by the instruction size between the two modes")
				}
			}
		}
		// sibling handlers that write a PC-derived value
		written := map[string]map[string]string{} // handler name -> ALU -> provenance of the written value
		for _, a := range []struct{ pkg, typ string }{{emuPkg, "ALUImpl"}, {cdna3Pkg, "ALU"}} {
			for _, fn := range c.SrcFuncs(a.pkg) {
				if fn.Signature.Recv() == nil || !strings.HasSuffix(fn.Signature.Recv().Type().String(), "."+a.typ) {
					continue
				}
				for _, b := range fn.Blocks {
					for _, in := range b.Instrs {
						name, cc := stateMethod(in)
						if name != "WriteOperand" {
							continue
						}
						pv := prov.Of(cc.Args[len(cc.Args)-1])
						if !strings.Contains(pv, ".PC()") {
							continue
						}
						if written[fn.Name()] == nil {
							written[fn.Name()] = map[string]string{}
						}
						written[fn.Name()][a.typ] = pv
						c.MarkAnalysed(fn)
					}
				}
			}
		}
		for _, h := range sortedKeys(written) {
			st9.Instances++
			vals := map[string]bool{}
			for _, v := range written[h] {
				vals[v] = true
			}
			okS := len(vals) == 1
			st9.Ob(okS)
			st9.Sample("%s writes %v", h, sortedKeys(vals))
			if !okS {
				c.Report(core.Finding{Rule: "R02.9", Pkg: emuPkg, Func: h, Detail: "pc-siblings:" + h, Msg: fmt.Sprintf("the two ALUs write different functions of the PC register in %s (%v): at most one of them is right for the PC the compute units present", h, written[h])})
			}
		}
	}

	// ---------------- R02.5 timing-only wait counters stay balanced ----------------
	checkOutstandingCounters(c, pcu, prov, "R02.5")

	checkIntegerWidths(c, "R02.20", "Operand values read by the timing wavefront are not narrowed, sign-extended or widened after wrapping.", 5, []widthScope{{rel: wfPkg}}, []string{"narrow", "widen-wrapped", "sign-extend"}, widthAllowC02)
	RunProto(c, &ProtoCfg{RuleBase: "R02.21", Pkg: robPkg, FloorSends: 2, Effects: []Effect{RetrieveEffect}})
	checkFlatRegCountMatchesMnemonic(c, LoadInstTables(c))
	checkRegisterReadsFresh(c, "R02.23")
	checkRetiredOnlyIfAccepted(c, "R02.24")
	checkFlatHandlerLoopsConstant(c)
	return core.Meta{Level: "other",
		Explanation: "Necessary conditions of functional transparency of the timing mode, decided structurally: architectural state of timing wavefronts is changed only through the shared emulation ALU (who-may-call with a frozen allow-list), the initial-register code of the two modes is reduced to summaries (flag → reserved bytes → value; lane-id registers) that must be equal, the memory-instruction opcode sets of ALUs and timing units agree incl. write-back cases for transforming loads, cache flushes precede copies that touch dirty buffers, and the timing-only counters that make s_waitcnt / s_endpgm wait are decremented only for the last returning piece of an instruction (a fully masked memory instruction that decrements them lets a later consumer read its register before the data arrived).",
		NotDecided:  "equality of final memory and PC traces (runtime quantities): coalescer / write-back value correctness, scoreboard hazards, caches and DRAM behaviour",
		Assumptions: commonAssumptions}
}

// sgprABI: bytes of scalar registers each enabled system register occupies (HSA ABI for GCN3 /
// CDNA code objects, in the order the hardware lays them out).
var sgprABI = map[string]int64{
	"EnableSgprPrivateSegmentBuffer":         16,
	"EnableSgprDispatchPtr":                  8,
	"EnableSgprQueuePtr":                     8,
	"EnableSgprKernargSegmentPtr":            8,
	"EnableSgprDispatchID":                   8,
	"EnableSgprFlatScratchInit":              8,
	"EnableSgprPrivateSegmentSize":           4,
	"EnableSgprGridWorkgroupCountX":          4,
	"EnableSgprGridWorkgroupCountY":          4,
	"EnableSgprGridWorkgroupCountZ":          4,
	"EnableSgprWorkGroupIDX":                 4,
	"EnableSgprWorkGroupIDY":                 4,
	"EnableSgprWorkGroupIDZ":                 4,
	"EnableSgprWorkGroupInfo":                4,
	"EnableSgprPrivateSegmentWaveByteOffset": 4,
}

// checkInitRegistersMirrored (R02.2, shared with C08 as R08.7): the two modes initialise a
// wavefront's registers alike, and as the ABI lays them out.
func checkInitRegistersMirrored(c *core.Ctx, rule string) {
	st2 := c.Rule(rule, "the initial scalar-register layout (which enable flag reserves how many bytes and which value is written, in order) and the lane-id registers are the same in emu.ComputeUnit.initWfRegs and cu.WfDispatcherImpl.initRegisters", 15)
	fe := findFuncDecl(c.Pkg(emuPkg), "ComputeUnit.initWfRegs")
	ft := findFuncDecl(c.Pkg(cuPkg), "WfDispatcherImpl.initRegisters")
	if fe == nil || ft == nil {
		c.Report(core.Finding{Rule: rule, Kind: "anchor", Pkg: emuPkg, Func: "initWfRegs/initRegisters", Detail: "anchor", Msg: "initial-register functions not found"})
	} else {
		se, le := summariseInit(c.Pkg(emuPkg), fe)
		stt, lt := summariseInit(c.Pkg(cuPkg), ft)
		em := map[string]sgprStep{}
		var order []string
		for _, s := range se {
			em[s.flag] = s
			order = append(order, s.flag)
		}
		tm := map[string]sgprStep{}
		var orderT []string
		for _, s := range stt {
			tm[s.flag] = s
			orderT = append(orderT, s.flag)
		}
		abiSeen := 0
		defer func() { st2.Sample("flags compared with the HSA ABI's register counts: %d", abiSeen) }()
		st2.Instances++
		okOrder := strings.Join(order, ",") == strings.Join(orderT, ",")
		st2.Ob(okOrder)
		if !okOrder {
			c.Report(core.Finding{Rule: rule, Pkg: cuPkg, Func: "WfDispatcherImpl.initRegisters", Detail: "flag-order", Pos: c.Position(ft.Pos()), Msg: fmt.Sprintf("the two modes visit the enable flags in different orders: emu %v, timing %v", order, orderT)})
		}
		// the space a flag takes matters for what is laid out behind it
		lastWritten := -1
		for i, f := range order {
			if em[f].value != "" || tm[f].value != "" {
				lastWritten = i
			}
		}
		for fi, f := range order {
			e, t := em[f], tm[f]
			st2.Instances++
			if _, has := tm[f]; !has {
				st2.Ob(false)
				c.Report(core.Finding{Rule: rule, Pkg: cuPkg, Func: "WfDispatcherImpl.initRegisters", Detail: "flag-missing:" + f, Pos: c.Position(ft.Pos()), Msg: "emulation handles " + f + " but timing does not"})
				continue
			}
			okR := e.reserved == t.reserved
			st2.Ob(okR)
			st2.Sample("%s: reserves %d bytes (emu) / %d bytes (timing); value %s / %s", f, e.reserved, t.reserved, e.value, t.value)
			if !okR {
				c.Report(core.Finding{Rule: rule, Pkg: cuPkg, Func: "WfDispatcherImpl.initRegisters", Detail: "reserve:" + f, Pos: c.Position(t.pos), Msg: fmt.Sprintf("%s reserves %d bytes of scalar registers in emulation but %d in timing: every later system register lands in a different SGPR in the two modes", f, e.reserved, t.reserved)})
			}
			if want, known := sgprABI[strings.TrimSuffix(strings.TrimPrefix(f, "co."), "()")]; known && fi < lastWritten {
				abiSeen++
				okA := e.reserved == want && t.reserved == want
				st2.Ob(okA)
				if !okA {
					c.Report(core.Finding{Rule: rule, Pkg: cuPkg, Func: "WfDispatcherImpl.initRegisters", Detail: "abi-reserve:" + f, Pos: c.Position(t.pos), Msg: fmt.Sprintf("%s takes %d bytes of scalar registers in the HSA ABI; emulation reserves %d and timing %d: the work-group ids and counts behind it are read from the wrong SGPRs by the kernel", f, want, e.reserved, t.reserved)})
				}
			}
			okV := e.value == t.value
			st2.Ob(okV)
			if !okV {
				c.Report(core.Finding{Rule: rule, Pkg: cuPkg, Func: "WfDispatcherImpl.initRegisters", Detail: "value:" + f, Pos: c.Position(t.pos), Msg: fmt.Sprintf("%s writes %q in emulation but %q in timing", f, e.value, t.value)})
			}
		}
		// lane ids
		norm := func(l []string) []string {
			var out []string
			for _, s := range l {
				out = append(out, s)
			}
			sort.Strings(out)
			return out
		}
		ne, nt := norm(le), norm(lt)
		st2.Instances++
		setT := map[string]bool{}
		for _, s := range nt {
			setT[s] = true
		}
		// timing has no code-object-version branch: compare emu's non-V5 branch with timing, and report the V5 branch separately
		var emuV23, emuV5 []string
		for _, s := range ne {
			switch {
			case strings.Contains(s, "[co.Version==insts.CodeObjectV5]"):
				emuV5 = append(emuV5, strings.ReplaceAll(s, "[co.Version==insts.CodeObjectV5]", ""))
			case strings.Contains(s, "[!co.Version==insts.CodeObjectV5]"):
				emuV23 = append(emuV23, strings.ReplaceAll(s, "[!co.Version==insts.CodeObjectV5]", ""))
			default:
				emuV23 = append(emuV23, s)
			}
		}
		var tV23, tV5 []string
		for _, s := range nt {
			switch {
			case strings.Contains(s, "[co.Version==insts.CodeObjectV5]"):
				tV5 = append(tV5, strings.ReplaceAll(s, "[co.Version==insts.CodeObjectV5]", ""))
			case strings.Contains(s, "[!co.Version==insts.CodeObjectV5]"):
				tV23 = append(tV23, strings.ReplaceAll(s, "[!co.Version==insts.CodeObjectV5]", ""))
			default:
				tV23 = append(tV23, s)
			}
		}
		sort.Strings(emuV23)
		sort.Strings(tV23)
		okL := strings.Join(emuV23, ";") == strings.Join(tV23, ";")
		st2.Ob(okL)
		st2.Sample("lane ids (V2/V3): %v", emuV23)
		if !okL {
			c.Report(core.Finding{Rule: rule, Pkg: cuPkg, Func: "WfDispatcherImpl.initRegisters", Detail: "lane-ids:v2v3", Pos: c.Position(ft.Pos()), Msg: fmt.Sprintf("work-item id registers are initialised differently: emu %v, timing %v", emuV23, tV23)})
		}
		st2.Instances++
		sort.Strings(emuV5)
		sort.Strings(tV5)
		okV5 := strings.Join(emuV5, ";") == strings.Join(tV5, ";")
		st2.Ob(okV5)
		if !okV5 {
			c.Report(core.Finding{Rule: rule, Pkg: cuPkg, Func: "WfDispatcherImpl.initRegisters", Detail: "lane-ids:v5-packed", Pos: c.Position(ft.Pos()), Msg: fmt.Sprintf("for V5 code objects emulation packs the work-item ids into v0 (%v) but timing does %v: a 2-D/3-D CDNA3 kernel sees y = z = 0 in timing mode", emuV5, tV5)})
		}
	}

}
