package rules

import (
	"go/constant"
	"go/types"

	"golang.org/x/tools/go/ssa"

	"verif/internal/core"
)

// checkFlatOffsetSigned: the FLAT / GLOBAL immediate offset is a signed 13-bit
// field that the decoder keeps sign-extended in the unsigned 32-bit field
// Inst.Offset0 (DS instructions keep an unsigned 8/16-bit offset in the same
// field). A site that widens the field to 64 bits for address arithmetic has to
// reinterpret it as int32 first; a direct uint32 -> 64-bit conversion turns the
// offset -4 into +4294967292. Functions that only the DS arm of the format
// dispatch reaches are exempt: their offsets are below 2^16 and both
// extensions agree.
func checkFlatOffsetSigned(c *core.Ctx, rule string, pkgs []string, floor int) {
	st := c.Rule(rule, "the FLAT/GLOBAL immediate offset is signed: every site that widens Inst.Offset0 to a 64-bit integer (address arithmetic of the flat handlers and of the timing coalescer) converts it through int32 first, so that a negative offset moves the address down; a direct uint32 -> 64-bit conversion is reported. Functions reached only from the DS arm of the FormatType dispatch are exempt (DS offsets are unsigned and below 2^16)", floor)
	formatConst := func(name string) (int64, bool) {
		ip := c.SSAPkg(instsPkg)
		if ip == nil {
			return 0, false
		}
		k, ok := ip.Pkg.Scope().Lookup(name).(*types.Const)
		if !ok {
			return 0, false
		}
		v, exact := constant.Int64Val(k.Val())
		return v, exact
	}
	kDS, ok1 := formatConst("DS")
	kFLAT, ok2 := formatConst("FLAT")
	if !ok1 || !ok2 {
		c.Report(core.Finding{Rule: rule, Kind: "anchor", Pkg: instsPkg, Func: "-", Detail: "format-constants", Msg: "insts.DS / insts.FLAT not found"})
		return
	}
	is64 := func(t types.Type) bool {
		b, ok := t.Underlying().(*types.Basic)
		if !ok {
			return false
		}
		switch b.Kind() {
		case types.Int64, types.Uint64, types.Int, types.Uint, types.Uintptr:
			return true
		}
		return false
	}
	isKind := func(t types.Type, k types.BasicKind) bool {
		b, ok := t.Underlying().(*types.Basic)
		return ok && b.Kind() == k
	}
	for _, rel := range pkgs {
		pi := NewPkgInfo(c, rel)
		if pi.Pkg == nil {
			continue
		}
		// functions that only the DS arm of a FormatType dispatch reaches
		closure := func(blocks []*ssa.BasicBlock) map[*ssa.Function]bool {
			set := map[*ssa.Function]bool{}
			var add func(fn *ssa.Function)
			add = func(fn *ssa.Function) {
				if fn == nil || fn.Pkg != pi.Pkg || set[fn] {
					return
				}
				set[fn] = true
				for _, b := range fn.Blocks {
					for _, in := range b.Instrs {
						if cc := core.CallOf(in); cc != nil {
							add(cc.StaticCallee())
						}
					}
				}
			}
			for _, b := range blocks {
				for _, in := range b.Instrs {
					if cc := core.CallOf(in); cc != nil {
						add(cc.StaticCallee())
					}
				}
			}
			return set
		}
		dsOnly := map[*ssa.Function]bool{}
		isFmt := isLoadOfField("FormatType")
		for _, fn := range pi.Funcs {
			has := false
			for _, b := range fn.Blocks {
				for _, in := range b.Instrs {
					if v, ok := in.(ssa.Value); ok && isFmt(v) {
						has = true
					}
				}
			}
			if !has {
				continue
			}
			ds := closure(opReach(fn, isFmt, kDS))
			fl := closure(opReach(fn, isFmt, kFLAT))
			for f := range ds {
				if !fl[f] {
					dsOnly[f] = true
				}
			}
		}
		for _, fn := range pi.Funcs {
			for _, b := range fn.Blocks {
				for _, in := range b.Instrs {
					ld, ok := in.(*ssa.UnOp)
					if !ok || !isLoadOfField("Offset0")(ld) {
						continue
					}
					// follow the 32-bit value through phis and type changes to its conversions
					seen := map[ssa.Value]bool{}
					var follow func(v ssa.Value, signed bool)
					follow = func(v ssa.Value, signed bool) {
						if seen[v] {
							return
						}
						seen[v] = true
						refs := v.Referrers()
						if refs == nil {
							return
						}
						for _, r := range *refs {
							switch x := r.(type) {
							case *ssa.Phi:
								follow(x, signed)
							case *ssa.ChangeType:
								follow(x, signed)
							case *ssa.Convert:
								switch {
								case isKind(x.Type(), types.Int32):
									follow(x, true)
								case isKind(x.Type(), types.Uint32):
									follow(x, false)
								case is64(x.Type()):
									st.Instances++
									c.MarkAnalysed(fn)
									ok := signed || dsOnly[fn]
									st.Ob(ok)
									st.Sample("%s: Offset0 widened to %s, sign-extended: %v (DS-only function: %v)", core.FuncName(fn), x.Type(), signed, dsOnly[fn])
									if !ok {
										c.ReportAt(rule, fn, x.Pos(), "offset0:zero-extended", "the immediate offset is widened from uint32 to "+x.Type().String()+" without passing through int32: a negative FLAT/GLOBAL offset (offset:-4 is stored as 0xfffffffc) moves the address up by almost 4 GiB instead of down; loads and stores touch the wrong memory")
									}
								}
							}
						}
					}
					follow(ld, false)
				}
			}
		}
	}
}
