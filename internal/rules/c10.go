package rules

import (
	"fmt"
	"go/ast"
	"go/token"
	"go/types"
	"regexp"
	"strings"

	"golang.org/x/tools/go/ssa"

	"verif/internal/core"
)

const drvIntPkg = "amd/driver/internal"

func init() { register("C10", runC10) }

func isPageTableCall(in ssa.Instruction, names ...string) (string, bool) {
	cc := core.CallOf(in)
	if cc == nil || !cc.IsInvoke() || cc.Method.Pkg() == nil || cc.Method.Pkg().Path() != core.VMPkg {
		return "", false
	}
	if n, ok := cc.Value.Type().(*types.Named); !ok || n.Obj().Name() != "PageTable" {
		return "", false
	}
	for _, n := range names {
		if cc.Method.Name() == n {
			return n, true
		}
	}
	return "", false
}

func runC10(c *core.Ctx) core.Meta {
	c.Load(drvIntPkg, driverPkg)
	c.BuildSSA()
	pint := NewPkgInfo(c, drvIntPkg)
	pd := NewPkgInfo(c, driverPkg)
	checkLog2Units(c, "R10.19", 10, "Buffers, free lists and the page table must agree on the page size.", pd, pint)
	checkBuilderPassThrough(c, "R10.18", "The allocator, the page table and the distributor must cut buffers into pages of one size: a distributor left at its constructor default remaps at addresses that are not page boundaries of the configured size, and the page table update panics or re-homes half pages.", pd, map[string]string{"distributorImpl.pageSizeAsPowerOf2": "log2PageSize", "Driver.Log2PageSize": "log2PageSize"})
	prov := core.NewLocalProv(c)

	checkPhysicalLayout(c, pint, prov)
	checkLevelScanReachesRoot(c)
	checkScratchFieldsReset(c, "R10.21", "In the allocator: the second Remap re-homes the first one's pages too.", 0, pint)
	checkRoundRobinCursors(c, pint)

	// ---------------- R10.17 the buddy allocator frees blocks by their start ----------------
	st17 := c.Rule("R10.17", "in the buddy allocator a block is returned as a whole when its last page comes back, and it is returned by its start: every call of deviceBuddyMemoryState.freeBlock from outside freeBlock passes the initialAddr recorded in the block's tracker (a load of blockTracker.initialAddr). Passing the address of the page that happened to come back last merges buddies around the middle of the block: its first pages are never free again and neighbouring live blocks are handed out a second time", 1)
	if fb := c.MustFunc("R10.17", drvIntPkg, "deviceBuddyMemoryState.freeBlock"); fb != nil {
		for _, fn := range pint.Funcs {
			if fn == fb {
				continue
			}
			for _, b := range fn.Blocks {
				for _, in := range b.Instrs {
					cc := core.CallOf(in)
					if cc == nil || cc.StaticCallee() != fb || len(cc.Args) != 2 {
						continue
					}
					st17.Instances++
					c.MarkAnalysed(fn)
					f := core.LoadedField(core.StripConv(cc.Args[1]))
					ok := f != nil && f.Name() == "initialAddr"
					st17.Ob(ok)
					st17.Sample("%s: freeBlock(%s)", core.FuncName(fn), short(prov.Of(cc.Args[1])))
					if !ok {
						c.ReportAt("R10.17", fn, in.Pos(), "freeBlock:not-block-start:"+core.FuncName(fn), core.FuncName(fn)+" frees a buddy block by "+short(prov.Of(cc.Args[1]))+", which is not the start recorded in the block's tracker (blockTracker.initialAddr): when the pages of a multi-page block come back in any order but last-page-first, the block is merged around an inner page - its leading pages are lost and live neighbours are handed out again")
					}
				}
			}
		}
	}

	// ---------------- R10.16 a device's free list holds its own pages only ----------------
	st16 := c.Rule("R10.16", "the free list of a device is filled with the pages [initialAddress, initialAddress + storageSize): in every loop of the allocator package whose counter advances by the page size and is compared with a bound derived from the device's storage size, the comparison excludes the bound (counter < bound). With <= the list gets one extra entry, the first page of the next device (or an address no device owns): it is handed out once the device has served as many allocations as it has pages, aliases the neighbour's first page and is returned to the neighbour's list by Free", 1)
	for _, fn := range pint.Funcs {
		for _, b := range fn.Blocks {
			for _, in := range b.Instrs {
				cmp, ok := in.(*ssa.BinOp)
				if !ok {
					continue
				}
				switch cmp.Op {
				case token.LSS, token.LEQ, token.GTR, token.GEQ:
				default:
					continue
				}
				// counter on one side: a phi with an edge phi + pageSize
				for _, pr := range [][2]ssa.Value{{cmp.X, cmp.Y}, {cmp.Y, cmp.X}} {
					phi, ok := pr[0].(*ssa.Phi)
					if !ok {
						continue
					}
					pageStep := false
					for _, e := range phi.Edges {
						if add, ok := e.(*ssa.BinOp); ok && add.Op == token.ADD && (add.X == ssa.Value(phi) || add.Y == ssa.Value(phi)) {
							step := add.Y
							if add.Y == ssa.Value(phi) {
								step = add.X
							}
							if ps := strings.ToLower(prov.Of(step)); strings.Contains(ps, "pagesize") {
								pageStep = true
							}
						}
					}
					if !pageStep || !strings.Contains(prov.Of(pr[1]), "storageSize") {
						continue
					}
					op := cmp.Op
					if pr[0] == cmp.Y { // bound OP counter
						switch op {
						case token.LSS:
							op = token.GTR
						case token.LEQ:
							op = token.GEQ
						case token.GTR:
							op = token.LSS
						case token.GEQ:
							op = token.LEQ
						}
					}
					st16.Instances++
					c.MarkAnalysed(fn)
					ok = op == token.LSS
					st16.Ob(ok)
					st16.Sample("%s: pages are enumerated while %s %s %s", core.FuncName(fn), short(prov.Of(pr[0])), op, short(prov.Of(pr[1])))
					if !ok {
						c.ReportAt("R10.16", fn, cmp.Pos(), "free-list-includes-bound:"+core.FuncName(fn), core.FuncName(fn)+" enumerates the device's pages while the address is "+op.String()+" its end: the address just behind the device (the next device's first page) enters this device's free list and is handed out after as many allocations as the device has pages - a page outside the device, recorded under the neighbour's ID and possibly live there")
					}
				}
			}
		}
	}

	// ---------------- R10.15 FreeMemory always reaches the allocator ----------------
	st15 := c.Rule("R10.15", "Driver.FreeMemory hands every pointer to the allocator: on every path from its entry to a return the allocator's Free is called (a must-pass). The per-context buffer list is bookkeeping for copies; contexts created for an existing process share the address space but not that list, so a free that is conditional on finding the pointer in the calling context's list leaves a buffer allocated through a sibling context mapped, and its physical pages are never reusable", 1)
	if fn := c.MustFunc("R10.15", driverPkg, "Driver.FreeMemory"); fn != nil {
		c.MarkAnalysed(fn)
		g := core.BuildGraph(fn, 1, func(cal *ssa.Function) bool { return cal.Pkg == fn.Pkg })
		isFree := func(n *core.Node) bool {
			cc := core.CallOf(n.Instr)
			if cc == nil {
				return false
			}
			if cc.IsInvoke() {
				return cc.Method.Name() == "Free"
			}
			return cc.StaticCallee() != nil && cc.StaticCallee().Name() == "Free"
		}
		st15.Instances++
		var leak *core.Node
		okW := g.Walk([]core.State{{N: g.Entry}}, core.WalkOpts{ForwardOnly: true, Stop: isFree}, func(x core.State) {
			if _, isRet := x.N.Instr.(*ssa.Return); isRet && x.N.Frame.Parent == nil && leak == nil {
				leak = x.N
			}
		})
		st15.Ob(okW && leak == nil)
		st15.Sample("Driver.FreeMemory: the allocator's Free is called on every path: %v", leak == nil)
		if leak != nil {
			c.ReportAt("R10.15", fn, leak.Instr.Pos(), "free-skips-allocator", "Driver.FreeMemory can return without having called the allocator's Free: a pointer that is not in the calling context's buffer list (allocated through a sibling context of the same process) stays mapped, FreeMemory reports success, and the device runs out of memory within its capacity")
		}
	}

	// ---------------- R10.1 lock discipline of the allocator ----------------
	st1 := c.Rule("R10.1", "every access to a field of memoryAllocatorImpl happens with its embedded mutex held: exported methods lock before touching a field and keep the lock to every exit; unexported helpers that touch fields are reached only from call sites that hold the lock of the same allocator", 15)
	type unl struct {
		fn *ssa.Function
		in ssa.Instruction
		f  string
	}
	locks := map[*ssa.Function]map[ssa.Instruction]map[lockKey]bool{}
	lsOf := func(fn *ssa.Function) map[ssa.Instruction]map[lockKey]bool {
		if l, ok := locks[fn]; ok {
			return l
		}
		l := locksets(fn)
		locks[fn] = l
		return l
	}
	var heldAtCallers func(fn *ssa.Function, depth int) bool
	heldAtCallers = func(fn *ssa.Function, depth int) bool {
		if depth > 4 || fn.Object() == nil || fn.Object().Exported() || fn.Signature.Recv() == nil {
			return false
		}
		sites := 0
		for _, g := range pint.Funcs {
			for _, b := range g.Blocks {
				for _, in := range b.Instrs {
					call, ok := in.(*ssa.Call)
					if !ok || call.Call.StaticCallee() != fn {
						continue
					}
					sites++
					recv := call.Call.Args[0]
					if lsOf(g)[in][lockKey{recv, "Mutex"}] {
						continue
					}
					// the caller itself is a helper running under its callers' lock, on the same receiver
					if len(g.Params) > 0 && recv == ssa.Value(g.Params[0]) && heldAtCallers(g, depth+1) {
						continue
					}
					return false
				}
			}
		}
		return sites > 0
	}
	for _, fn := range pint.Funcs {
		if fn.Signature.Recv() == nil || namedTypeName(fn.Signature.Recv().Type()) != "internal.memoryAllocatorImpl" {
			continue
		}
		c.MarkAnalysed(fn)
		ls := lsOf(fn)
		helperOK := -1
		for _, b := range fn.Blocks {
			for _, in := range b.Instrs {
				fa, ok := in.(*ssa.FieldAddr)
				if !ok {
					continue
				}
				f := core.FieldOfAddr(fa)
				if core.ShortFieldID(f) != "memoryAllocatorImpl."+f.Name() || f.Name() == "Mutex" {
					continue
				}
				st1.Instances++
				held := ls[in][lockKey{fa.X, "Mutex"}]
				if !held && len(fn.Params) > 0 && fa.X == ssa.Value(fn.Params[0]) {
					if helperOK < 0 {
						helperOK = b2i(heldAtCallers(fn, 0))
					}
					held = helperOK == 1
				}
				st1.Ob(held)
				if held {
					st1.Sample("%s: %s accessed with the allocator's mutex held", core.FuncName(fn), f.Name())
				} else {
					c.ReportAt("R10.1", fn, in.Pos(), "unlocked:"+f.Name(), fmt.Sprintf("field %s of the allocator is accessed without the allocator's mutex held (neither locally nor at every call site): concurrent allocations from several application threads corrupt the tables / hand out a page twice", f.Name()))
				}
			}
		}
		// exported methods keep the lock to every exit: an explicit Unlock must not precede a field access (covered above); a Lock without defer must be released on all paths
		if fn.Object() != nil && fn.Object().Exported() {
			hasLock, hasDefer := false, false
			for _, b := range fn.Blocks {
				for _, in := range b.Instrs {
					if op, k, ok := mutexCall(in); ok && k.field == "Mutex" {
						if _, isDefer := in.(*ssa.Defer); isDefer && op == "unlock" {
							hasDefer = true
						} else if op == "lock" {
							hasLock = true
						}
					}
				}
			}
			if hasLock {
				st1.Instances++
				okRel := hasDefer
				if !hasDefer {
					// every return must be reached with the lock released
					okRel = true
					for _, b := range fn.Blocks {
						for _, in := range b.Instrs {
							if _, isRet := in.(*ssa.Return); isRet {
								for k := range ls[in] {
									if k.field == "Mutex" {
										okRel = false
									}
								}
							}
						}
					}
				}
				st1.Ob(okRel)
				if !okRel {
					c.ReportAt("R10.1", fn, fn.Pos(), "lock-not-released", "an exported allocator method can return with the mutex still held: the next API call deadlocks")
				}
			}
		}
	}

	// ---------------- R10.2 page table and mirror move together ----------------
	st2 := c.Rule("R10.2", "inside the allocator every page-table Insert/Update is paired with a store of the same page into the vAddr mirror and every Remove with a delete from the mirror; outside the allocator the page table is written only by the migration preparation", 4)
	for _, fn := range pint.Funcs {
		for _, b := range fn.Blocks {
			for _, in := range b.Instrs {
				op, ok := isPageTableCall(in, "Insert", "Update", "Remove")
				if !ok {
					continue
				}
				st2.Instances++
				c.MarkAnalysed(fn)
				paired := false
				for _, b2 := range fn.Blocks {
					for _, i2 := range b2.Instrs {
						if op == "Remove" {
							if core.IsBuiltin(i2, "delete") {
								if f := core.LoadedField(core.CallOf(i2).Args[0]); f != nil && f.Name() == "vAddrToPageMapping" {
									if b2 == b || b2.Dominates(b) || b.Dominates(b2) {
										paired = true
									}
								}
							}
						} else if mu, isMU := i2.(*ssa.MapUpdate); isMU {
							if f := core.LoadedField(mu.Map); f != nil && f.Name() == "vAddrToPageMapping" && b2 == b {
								// same page value
								if prov.Of(mu.Value) == prov.Of(core.CallOf(in).Args[0]) && strings.HasSuffix(prov.Of(mu.Key), ".VAddr") {
									paired = true
								}
							}
						}
					}
				}
				st2.Ob(paired)
				st2.Sample("%s: pageTable.%s paired with the mirror update: %v", core.FuncName(fn), op, paired)
				if !paired {
					c.ReportAt("R10.2", fn, in.Pos(), "pageTable."+op+":mirror", fmt.Sprintf("pageTable.%s is not accompanied by the matching update of vAddrToPageMapping: the allocator's view and the hardware page table disagree (a freed page stays in the mirror and can be freed or migrated again)", op))
				}
			}
		}
	}
	pd.Instrs(func(fn *ssa.Function, in ssa.Instruction) {
		op, ok := isPageTableCall(in, "Insert", "Update", "Remove")
		if !ok {
			return
		}
		st2.Instances++
		okW := core.FuncName(fn) == "Driver.preparePageForMigration" && op == "Update"
		st2.Ob(okW)
		if !okW {
			c.ReportAt("R10.2", fn, in.Pos(), "pageTable."+op+":outside-allocator", "the hardware page table is written outside the allocator ("+core.FuncName(fn)+"): the allocator's mirror is bypassed")
		}
	})

	// ---------------- R10.3 physical pages come from the device state ----------------
	st3 := c.Rule("R10.3", "the physical address of every page built by the allocator is a result of the device's allocatePage / allocateMultiplePages; the free list is changed only by its owner methods", 3)
	for _, fn := range pint.Funcs {
		for _, b := range fn.Blocks {
			for _, in := range b.Instrs {
				s, ok := in.(*ssa.Store)
				if !ok {
					continue
				}
				f := core.FieldOfAddr(s.Addr)
				if f == nil || f.Name() != "PAddr" || f.Pkg() == nil || f.Pkg().Path() != core.VMPkg {
					continue
				}
				st3.Instances++
				pv := prov.Of(s.Val)
				ok2 := core.ProvMatch(regexp.MustCompile(`\.allocatePage\(\)$|\.allocateMultiplePages\(.*\)\[.*\]$`), pv)
				st3.Ob(ok2)
				st3.Sample("%s: page.PAddr = %s", core.FuncName(fn), short(pv))
				if !ok2 {
					c.ReportAt("R10.3", fn, in.Pos(), "PAddr:source", "a page's physical address is "+short(pv)+", not a page handed out by the device's memory state: two live pages can share a physical page")
				}
			}
		}
	}
	// the physical page returned to a device is the one recorded for the page being removed
	pint.Instrs(func(fn *ssa.Function, in ssa.Instruction) {
		cc := core.CallOf(in)
		if cc == nil || !cc.IsInvoke() || cc.Method.Name() != "addSinglePAddr" {
			return
		}
		if strings.HasSuffix(core.FuncName(fn), ".setInitialAddress") {
			return // initial population of the free list
		}
		st3.Instances++
		pv := prov.Of(cc.Args[0])
		ok := strings.HasSuffix(pv, ".PAddr") && strings.Contains(pv, "vAddrToPageMapping[") && !core.ProvMatch(regexp.MustCompile(`[-+*]`), strings.ReplaceAll(pv, "(1<<", ""))
		st3.Ob(ok)
		st3.Sample("%s: returns %s to the device", core.FuncName(fn), short(pv))
		if !ok {
			c.ReportAt("R10.3", fn, in.Pos(), "release:paddr-source", "the physical page returned to the device is "+short(pv)+", not the PAddr recorded in the mirror for the very page being removed: pages of a buffer are not physically consecutive (fragmented free list, Remap / Distribute, unified devices), so live pages of other buffers are put on the free list and handed out again")
		}
	})
	pint.Instrs(func(fn *ssa.Function, in ssa.Instruction) {
		f := writtenField(in)
		if f == nil || f.Name() != "availablePAddrs" {
			return
		}
		st3.Instances++
		owner := namedTypeName(fn.Signature.Recv().Type())
		ok := fn.Signature.Recv() != nil && strings.HasSuffix(owner, "deviceMemoryStateImpl")
		st3.Ob(ok)
		if !ok {
			c.ReportAt("R10.3", fn, in.Pos(), "availablePAddrs:writer", "the free list of physical pages is modified outside the device memory state")
		}
	})

	// ---------------- R10.8 a page is recorded on the device that owns its physical page ----------------
	st8 := c.Rule("R10.8", "the DeviceID of every page built by the allocator is deviceIDByPAddr applied to the very physical address stored in the same page (the requested device may be a unified GPU that owns no memory itself)", 3)
	{
		paddrOf := map[string]string{} // page literal provenance (base) -> PAddr provenance
		type devStore struct {
			fn   *ssa.Function
			in   ssa.Instruction
			base string
			val  string
		}
		var devs []devStore
		for _, fn := range pint.Funcs {
			for _, b := range fn.Blocks {
				for _, in := range b.Instrs {
					s, ok := in.(*ssa.Store)
					if !ok {
						continue
					}
					f := core.FieldOfAddr(s.Addr)
					if f == nil || f.Pkg() == nil || f.Pkg().Path() != core.VMPkg {
						continue
					}
					base := fmt.Sprintf("%s#%p", core.FuncName(fn), s.Addr.(*ssa.FieldAddr).X)
					switch f.Name() {
					case "PAddr":
						paddrOf[base] = prov.Of(s.Val)
					case "DeviceID":
						devs = append(devs, devStore{fn, in, base, prov.Of(s.Val)})
					}
				}
			}
		}
		for _, d := range devs {
			st8.Instances++
			pa := paddrOf[d.base]
			ok := pa != "" && d.val == "recv.deviceIDByPAddr("+pa+")"
			st8.Ob(ok)
			st8.Sample("%s: page.DeviceID = %s", core.FuncName(d.fn), short(d.val))
			if !ok {
				c.ReportAt("R10.8", d.fn, d.in.Pos(), "DeviceID:source", "a page's DeviceID is "+short(d.val)+", not the device that owns its physical address ("+short(pa)+"): when the requested device is a unified GPU the page is recorded on a device that has no memory, outside of which its physical page lies")
			}
		}
	}

	// ---------------- R10.9 re-homing a page returns its old physical page ----------------
	st9 := c.Rule("R10.9", "a function of the allocator that maps an already mapped virtual page onto a new physical page (pageTable.Update) returns the page's previous physical page to its device (addSinglePAddr of the mirror's old entry): otherwise every Remap / migration leaks one physical page and sequences that stay within capacity run out of memory", 2)
	for _, fn := range pint.Funcs {
		var updates []ssa.Instruction
		releases := false
		for _, b := range fn.Blocks {
			for _, in := range b.Instrs {
				if _, ok := isPageTableCall(in, "Update"); ok {
					updates = append(updates, in)
				}
				if cc := core.CallOf(in); cc != nil && cc.IsInvoke() && cc.Method.Name() == "addSinglePAddr" {
					if strings.Contains(prov.Of(cc.Args[0]), "vAddrToPageMapping[") {
						releases = true
					}
				}
			}
		}
		for _, in := range updates {
			st9.Instances++
			c.MarkAnalysed(fn)
			st9.Ob(releases)
			st9.Sample("%s: re-maps a virtual page; releases the previous physical page: %v", core.FuncName(fn), releases)
			if !releases {
				c.ReportAt("R10.9", fn, in.Pos(), "remap:old-page-leaked", core.FuncName(fn)+" points an already mapped virtual page at a freshly allocated physical page and never returns the previous physical page to its device: each call leaks a page, and bouncing one page between two devices exhausts both memories")
			}
		}
	}

	// ---------------- R10.10 buddy allocator: a block leaving a free list flips its parent's merge bit ----------------
	st10 := c.Rule("R10.10", "in the buddy allocator the merge bit of a parent block records that exactly one of its two halves is in use; whenever allocateMultiplePages takes a block from freeList[i], every path on which the block has a parent (i > 0) passes updateMergeListBitField(indexOfBlock(block, i-1)) before the function splits the block or returns: otherwise a later free merges the parent while its other half is still allocated and live pages are handed out again", 1)
	if fn := c.MustFunc("R10.10", drvIntPkg, "deviceBuddyMemoryState.allocateMultiplePages"); fn != nil {
		c.MarkAnalysed(fn)
		g := core.BuildGraph(fn, 0, nil)
		for _, n := range g.Nodes {
			cc := core.CallOf(n.Instr)
			if cc == nil || cc.IsInvoke() || cc.StaticCallee() == nil || cc.StaticCallee().Name() != "Remove" || cc.StaticCallee().Pkg == nil || cc.StaticCallee().Pkg.Pkg.Path() != "container/list" {
				continue
			}
			ia, ok := cc.Args[0].(*ssa.IndexAddr)
			if !ok {
				continue
			}
			if f := core.LoadedField(ia.X); f == nil || f.Name() != "freeList" {
				continue
			}
			level := core.StripConv(ia.Index)
			st10.Instances++
			noParent := CmpCut(func(_ *core.Node, op token.Token, x, y ssa.Value) int {
				if core.StripConv(x) != level {
					return 0
				}
				if z, isC := core.ConstInt(y); !isC || z != 0 {
					return 0
				}
				switch op {
				case token.GTR, token.NEQ:
					return -1
				case token.EQL, token.LEQ:
					return 1
				}
				return 0
			})
			isUpdate := func(m *core.Node) bool {
				c2 := core.CallOf(m.Instr)
				if c2 == nil || c2.StaticCallee() == nil || c2.StaticCallee().Name() != "updateMergeListBitField" {
					return false
				}
				// the argument is indexOfBlock(<taken block>, i-1)
				inner, ok := c2.Args[len(c2.Args)-1].(*ssa.Call)
				if !ok || inner.Call.StaticCallee() == nil || inner.Call.StaticCallee().Name() != "indexOfBlock" {
					return false
				}
				lv, ok := core.StripConv(inner.Call.Args[len(inner.Call.Args)-1]).(*ssa.BinOp)
				if !ok || lv.Op != token.SUB || core.StripConv(lv.X) != level {
					return false
				}
				k, isC := core.ConstInt(lv.Y)
				return isC && k == 1
			}
			leak := ""
			g.Walk(core.After(n, nil), core.WalkOpts{Stop: isUpdate, CutEdge: func(m *core.Node, i int) bool { return noParent(m, i) }}, func(st core.State) {
				if _, isR := st.N.Instr.(*ssa.Return); isR {
					leak = "returns"
				}
				if c2 := core.CallOf(st.N.Instr); c2 != nil && c2.StaticCallee() != nil && c2.StaticCallee().Name() == "updateSplitBlockBitField" && leak == "" {
					leak = "starts splitting the block"
				}
			})
			st10.Ob(leak == "")
			st10.Sample("allocateMultiplePages: taking a block from freeList[i] flips the parent's merge bit on every path with i > 0: %v", leak == "")
			if leak != "" {
				c.ReportAt("R10.10", fn, n.Instr.Pos(), "buddy:parent-merge-bit", "a block is taken from freeList[i] and the function "+leak+" on a path with i > 0 that did not flip the merge bit of the block's parent (the update is made only under a narrower condition): the parent still looks as if one half were free, a later free of a sibling merges it while this half is allocated, and live physical pages are handed out again")
			}
		}
	}

	// ---------------- R10.12 the buddy block covers the request ----------------
	st12 := c.Rule("R10.12", "allocateMultiplePages hands out numPages consecutive pages starting at the block it took, so the block has to hold them: the block order is the exit value of a loop `for order = c; (1 << order) < numPages * 2^c; order++` (on exit 2^order >= numPages * pageSize) or the closed form c + bits.Len(uint(numPages - 1)), and the free-list level that bounds the search and the splitting is len(freeList) - 1 - (order - c). With a smaller order the trailing pages lie in the block's buddy, which is on a free list and is handed out again", 1)
	if fn := c.MustFunc("R10.12", drvIntPkg, "deviceBuddyMemoryState.allocateMultiplePages"); fn != nil {
		c.MarkAnalysed(fn)
		var numPages *ssa.Parameter
		for _, prm := range fn.Params[1:] {
			if b, ok := prm.Type().Underlying().(*types.Basic); ok && b.Info()&types.IsInteger != 0 {
				numPages = prm
			}
		}
		isNumPages := func(v ssa.Value) bool { return numPages != nil && core.StripConv(v) == numPages }
		var order ssa.Value // the SSA value that holds the order after it was established
		base := int64(-1)
		how := ""
		for _, b := range fn.Blocks {
			for _, in := range b.Instrs {
				switch x := in.(type) {
				case *ssa.If:
					// idiom A: loop while (1 << o) < numPages * K, o an induction variable from c by +1, K == 1 << c
					bo, ok := x.Cond.(*ssa.BinOp)
					if !ok || bo.Op != token.LSS {
						continue
					}
					sh, ok := core.StripConv(bo.X).(*ssa.BinOp)
					if !ok || sh.Op != token.SHL {
						continue
					}
					if one, isC := core.ConstInt(sh.X); !isC || one != 1 {
						continue
					}
					phi, ok := core.StripConv(sh.Y).(*ssa.Phi)
					if !ok || phi.Block() != b {
						continue
					}
					mul, ok := core.StripConv(bo.Y).(*ssa.BinOp)
					if !ok || mul.Op != token.MUL {
						continue
					}
					var k int64
					if kk, isC := core.ConstInt(mul.Y); isC && isNumPages(mul.X) {
						k = kk
					} else if kk, isC := core.ConstInt(mul.X); isC && isNumPages(mul.Y) {
						k = kk
					} else {
						continue
					}
					init, step := int64(-1), false
					for _, e := range phi.Edges {
						if v, isC := core.ConstInt(e); isC {
							init = v
						} else if inc, ok := e.(*ssa.BinOp); ok && inc.Op == token.ADD && inc.X == phi {
							if d, isC := core.ConstInt(inc.Y); isC && d == 1 {
								step = true
							}
						}
					}
					// the true edge stays in the loop (comes back to this block), the false edge leaves it
					loops := len(b.Succs) == 2 && reachesBlock(b.Succs[0], b) && !reachesBlock(b.Succs[1], b)
					// the search may start below log2(K): the exit value is the same for every numPages >= 1
					lg := int64(-1)
					for i := int64(0); i < 62; i++ {
						if k == int64(1)<<uint(i) {
							lg = i
						}
					}
					if init >= 0 && step && loops && lg >= 0 && init <= lg {
						order, base, how = phi, lg, "loop while (1 << order) < numPages * pageSize"
					}
				case *ssa.BinOp:
					// idiom B: c + bits.Len(uint(numPages - 1))
					if x.Op != token.ADD {
						continue
					}
					for _, pair := range [][2]ssa.Value{{x.X, x.Y}, {x.Y, x.X}} {
						k, isC := core.ConstInt(pair[0])
						call, ok := core.StripConv(pair[1]).(*ssa.Call)
						if !isC || !ok {
							continue
						}
						cal := call.Call.StaticCallee()
						if cal == nil || cal.Pkg == nil || cal.Pkg.Pkg.Path() != "math/bits" || (cal.Name() != "Len" && cal.Name() != "Len64") {
							continue
						}
						sub, ok := core.StripConv(call.Call.Args[0]).(*ssa.BinOp)
						if !ok || sub.Op != token.SUB || !isNumPages(sub.X) {
							continue
						}
						if d, isC := core.ConstInt(sub.Y); isC && d == 1 {
							order, base, how = x, k, "closed form c + bits.Len(uint(numPages - 1))"
						}
					}
				}
			}
		}
		st12.Instances++
		okOrder := order != nil
		okLevel := false
		if okOrder {
			// level = (len(freeList) - 1) - (order - c), and level bounds a comparison of the function
			for _, b := range fn.Blocks {
				for _, in := range b.Instrs {
					lv, ok := in.(*ssa.BinOp)
					if !ok || lv.Op != token.SUB {
						continue
					}
					d, ok := core.StripConv(lv.Y).(*ssa.BinOp)
					if !ok || d.Op != token.SUB || core.StripConv(d.X) != order {
						continue
					}
					if k, isC := core.ConstInt(d.Y); !isC || k != base {
						continue
					}
					if !strings.Contains(prov.Of(lv.X), "freeList") {
						continue
					}
					if refs := lv.Referrers(); refs != nil {
						for _, r := range *refs {
							switch r.(type) {
							case *ssa.BinOp, *ssa.Phi:
								okLevel = true
							}
						}
					}
				}
			}
		}
		st12.Ob(okOrder && okLevel)
		st12.Sample("allocateMultiplePages: block order established by %q; level derived from it: %v", how, okLevel)
		if !okOrder {
			c.ReportAt("R10.12", fn, fn.Pos(), "buddy:block-order", "the order of the block that serves a request of numPages pages is not established as the smallest order with 2^order >= numPages * pageSize (neither the search loop nor c + bits.Len(uint(numPages-1))): for a page count that is not a power of two a smaller block is taken, the trailing pages of the request lie in the block's buddy, which sits on a free list, and the next allocation on the device returns the same physical pages")
		} else if !okLevel {
			c.ReportAt("R10.12", fn, fn.Pos(), "buddy:level-from-order", "the free-list level used for the search and the splitting is not len(freeList) - 1 - (order - "+fmt.Sprint(base)+"): the block taken does not have the size the order stands for")
		}
	}

	// ---------------- R10.13 Distribute re-homes exactly the pages of the buffer ----------------
	st13 := c.Rule("R10.13", "Distribute remaps the buffer in pieces that tile it: the i-th chunk of the chunk loop starts at addr + i * (chunk size) with the chunk size it passes as length, and the i-th left-over page starts at addr + (pages per chunk * number of chunks + i) * pageSize with length pageSize (products compared as multisets of factors, so any association and order is accepted). A left-over page addressed with the chunk stride lies beyond the buffer: a page of a neighbouring buffer is re-homed, or the driver panics on an unmapped page", 2)
	if fn := c.MustFunc("R10.13", driverPkg, "distributorImpl.Distribute"); fn != nil {
		c.MarkAnalysed(fn)
		var addrParam *ssa.Parameter
		for _, prm := range fn.Params {
			if core.PinnedName(fn, prm.Name()) == "addr" {
				addrParam = prm
			}
		}
		var factors func(v ssa.Value) []ssa.Value
		factors = func(v ssa.Value) []ssa.Value {
			v = core.StripConv(v)
			if bo, ok := v.(*ssa.BinOp); ok && bo.Op == token.MUL {
				return append(factors(bo.X), factors(bo.Y)...)
			}
			return []ssa.Value{v}
		}
		sameSet := func(a, b []ssa.Value) bool {
			if len(a) != len(b) {
				return false
			}
			used := make([]bool, len(b))
			for _, x := range a {
				found := false
				for j, y := range b {
					if !used[j] && x == y {
						used[j], found = true, true
						break
					}
				}
				if !found {
					return false
				}
			}
			return true
		}
		loopBound := func(phi *ssa.Phi) ssa.Value {
			for _, in := range phi.Block().Instrs {
				if iff, ok := in.(*ssa.If); ok {
					if bo, ok := iff.Cond.(*ssa.BinOp); ok && bo.Op == token.LSS && core.StripConv(bo.X) == ssa.Value(phi) {
						return core.StripConv(bo.Y)
					}
				}
			}
			return nil
		}
		type remap struct {
			in        ssa.Instruction
			off, size ssa.Value
		}
		var calls []remap
		for _, b := range fn.Blocks {
			for _, in := range b.Instrs {
				cc := core.CallOf(in)
				if cc == nil || !cc.IsInvoke() || cc.Method.Name() != "Remap" || len(cc.Args) != 4 {
					continue
				}
				a, ok := core.StripConv(cc.Args[1]).(*ssa.BinOp)
				if !ok || a.Op != token.ADD || addrParam == nil {
					calls = append(calls, remap{in: in})
					continue
				}
				var off ssa.Value
				if core.StripConv(a.X) == ssa.Value(addrParam) {
					off = a.Y
				} else if core.StripConv(a.Y) == ssa.Value(addrParam) {
					off = a.X
				}
				calls = append(calls, remap{in: in, off: off, size: cc.Args[2]})
			}
		}
		var chunkSize []ssa.Value
		var chunkBound ssa.Value
		// chunk calls first: the length is a product
		for _, r := range calls {
			if r.off == nil || len(factors(r.size)) < 2 {
				continue
			}
			st13.Instances++
			of := factors(r.off)
			var iv *ssa.Phi
			var rest []ssa.Value
			for _, f := range of {
				if ph, ok := f.(*ssa.Phi); ok && iv == nil && loopBound(ph) != nil {
					iv = ph
					continue
				}
				rest = append(rest, f)
			}
			ok := iv != nil && sameSet(rest, factors(r.size))
			st13.Ob(ok)
			st13.Sample("Distribute: chunk i at addr + i * chunk size: %v", ok)
			if ok {
				chunkSize, chunkBound = factors(r.size), loopBound(iv)
			} else {
				c.ReportAt("R10.13", fn, r.in.Pos(), "chunk:stride", "a chunk is remapped at an offset that is not (loop index) * (the length passed for the chunk): chunks overlap or leave gaps")
			}
		}
		for _, r := range calls {
			if r.off == nil {
				st13.Instances++
				st13.Ob(false)
				c.Undecided("R10.13", fn, r.in.Pos(), "remap:address-shape", "a Remap of Distribute does not address addr + offset")
				continue
			}
			if len(factors(r.size)) != 1 {
				continue
			}
			st13.Instances++
			page := factors(r.size)[0]
			of := factors(r.off)
			okT := false
			if chunkSize != nil && len(of) == 2 {
				var sum ssa.Value
				if of[0] == page {
					sum = of[1]
				} else if of[1] == page {
					sum = of[0]
				}
				if add, ok := core.StripConv(sum).(*ssa.BinOp); sum != nil && ok && add.Op == token.ADD {
					for _, pair := range [][2]ssa.Value{{add.X, add.Y}, {add.Y, add.X}} {
						ph, isPhi := core.StripConv(pair[1]).(*ssa.Phi)
						if !isPhi || loopBound(ph) == nil {
							continue
						}
						// K = (chunk size without the page size) * (number of chunks)
						var want []ssa.Value
						dropped := false
						for _, f := range chunkSize {
							if f == page && !dropped {
								dropped = true
								continue
							}
							want = append(want, f)
						}
						want = append(want, chunkBound)
						if dropped && sameSet(factors(pair[0]), want) {
							okT = true
						}
					}
				}
			}
			st13.Ob(okT)
			st13.Sample("Distribute: left-over page i at addr + (pages per chunk * chunks + i) * pageSize: %v", okT)
			if !okT {
				c.ReportAt("R10.13", fn, r.in.Pos(), "tail:stride", "a left-over page is remapped at an offset that is not (pages per chunk * number of chunks + i) * pageSize: with two or more left-over pages the second one lies a whole chunk further, beyond the buffer (a neighbour's page is re-homed or the page table panics)")
			}
		}
	}

	// ---------------- R10.4 no container mutated while ranged ----------------
	st4 := c.Rule("R10.4", "a `for … range X` loop whose body reassigns X (remove-while-iterating) leaves the loop right after the assignment (return or break); otherwise elements are skipped or the stale length indexes past the end", 1)
	for _, p := range []*PkgInfo{pd, pint} {
		pk := c.Pkg(p.Rel)
		core.FuncDecls(pk, func(fd *ast.FuncDecl) {
			ast.Inspect(fd.Body, func(n ast.Node) bool {
				rs, ok := n.(*ast.RangeStmt)
				if !ok {
					return true
				}
				rx := types.ExprString(rs.X)
				ast.Inspect(rs.Body, func(m ast.Node) bool {
					blk, ok := m.(*ast.BlockStmt)
					if !ok {
						return true
					}
					for i, st := range blk.List {
						as, ok := st.(*ast.AssignStmt)
						if !ok || len(as.Lhs) != 1 || types.ExprString(as.Lhs[0]) != rx {
							continue
						}
						st4.Instances++
						okNext := false
						if i+1 < len(blk.List) {
							switch nx := blk.List[i+1].(type) {
							case *ast.ReturnStmt:
								okNext = true
							case *ast.BranchStmt:
								okNext = nx.Tok == token.BREAK
							}
						}
						st4.Ob(okNext)
						st4.Sample("%s: range %s with in-loop reassignment, leaves the loop: %v", core.DeclName(fd), rx, okNext)
						if !okNext {
							c.Report(core.Finding{Rule: "R10.4", Pkg: p.Rel, Func: core.DeclName(fd), Detail: "mutate-while-ranging:" + rx, Pos: c.Position(as.Pos()),
								Msg: fmt.Sprintf("%s is reassigned inside `for … range %s` and the loop continues: the element after a removed one is skipped and, with two removals, the stale length indexes past the end (slice bounds panic)", rx, rx)})
						}
					}
					return true
				})
				return true
			})
		})
	}

	// ---------------- R10.5 page alignment ----------------
	st5 := c.Rule("R10.5", "virtual-address cursors start at one page and advance only by whole pages; buffers are sized in whole pages", 3)
	pint.Instrs(func(fn *ssa.Function, in ssa.Instruction) {
		s, ok := storeToField(in, "processMemoryState.nextVAddr")
		if !ok {
			return
		}
		st5.Instances++
		pv := prov.Of(s.Val)
		ok2 := pv == "(1<<recv.log2PageSize)" || core.ProvMatch(regexp.MustCompile(`^\(.*\.nextVAddr\+\(\(1<<recv\.log2PageSize\)\*param:numPages\)\)$`), pv)
		st5.Ob(ok2)
		st5.Sample("%s: nextVAddr = %s", core.FuncName(fn), short(pv))
		if !ok2 {
			c.ReportAt("R10.5", fn, in.Pos(), "nextVAddr:step", "the virtual-address cursor becomes "+short(pv)+": it must start at one page and advance by pageSize * numPages, otherwise buffers are not page aligned or overlap")
		}
	})
	for _, name := range []string{"memoryAllocatorImpl.Allocate", "memoryAllocatorImpl.AllocateUnified"} {
		fn := c.MustFunc("R10.5", drvIntPkg, name)
		if fn == nil {
			continue
		}
		for _, b := range fn.Blocks {
			for _, in := range b.Instrs {
				if !callsFunc(in, pint.Pkg, "memoryAllocatorImpl.allocatePages") {
					continue
				}
				st5.Instances++
				pv := prov.Of(core.CallOf(in).Args[1])
				ok := pv == "(((param:byteSize-1)/(1<<recv.log2PageSize))+1)"
				st5.Ob(ok)
				st5.Sample("%s: numPages = %s", name, pv)
				if !ok {
					c.ReportAt("R10.5", fn, in.Pos(), "numPages", "the number of pages for a buffer is "+pv+", not ceil(byteSize / pageSize): the last bytes of the buffer are unmapped (or a page is wasted and the next buffer misplaced)")
				}
			}
		}
	}
	// page virtual addresses inside an allocation: next + i*pageSize
	if fn := c.MustFunc("R10.5", drvIntPkg, "memoryAllocatorImpl.allocatePages"); fn != nil {
		for _, b := range fn.Blocks {
			for _, in := range b.Instrs {
				s, ok := in.(*ssa.Store)
				if !ok {
					continue
				}
				f := core.FieldOfAddr(s.Addr)
				if f == nil || f.Name() != "VAddr" {
					continue
				}
				st5.Instances++
				pv := prov.Of(s.Val)
				ok2 := core.ProvMatch(regexp.MustCompile(`^\(.*\.nextVAddr\+\(iter\(.*\)\*\(1<<recv\.log2PageSize\)\)\)$`), pv)
				st5.Ob(ok2)
				if !ok2 {
					c.ReportAt("R10.5", fn, in.Pos(), "page:VAddr", "the i-th page of an allocation is mapped at "+short(pv)+", not nextVAddr + i*pageSize")
				}
			}
		}
	}

	// ---------------- R10.6 Free releases what Allocate mapped ----------------
	st6 := c.Rule("R10.6", "Free removes every page of the buffer: allocatePages records, per buffer, exactly the trip count of its page-insertion loop, and Free calls removePage in a loop over that recorded count with a stride of one page starting at the buffer's first address", 4)
	loopConds := func(fn *ssa.Function, at *ssa.BasicBlock) []string {
		var out []string
		for _, b := range fn.Blocks {
			if len(b.Instrs) == 0 {
				continue
			}
			iff, ok := b.Instrs[len(b.Instrs)-1].(*ssa.If)
			if !ok || !b.Dominates(at) || len(b.Succs) != 2 {
				continue
			}
			// the branch taken into `at` must be the true edge of a loop header
			if !(b.Succs[0] == at || b.Succs[0].Dominates(at)) || !reaches(at, b) {
				continue
			}
			pv := prov.Of(iff.Cond)
			if strings.HasPrefix(pv, "(iter(") {
				out = append(out, pv)
			}
		}
		return out
	}
	recordedField, recordedBound := "", ""
	if fn := c.MustFunc("R10.6", drvIntPkg, "memoryAllocatorImpl.allocatePages"); fn != nil {
		c.MarkAnalysed(fn)
		bound := ""
		for _, b := range fn.Blocks {
			for _, in := range b.Instrs {
				if _, ok := isPageTableCall(in, "Insert"); ok {
					for _, lc := range loopConds(fn, b) {
						if m := regexp.MustCompile(`^\(iter\(\{\(@\+1\)\|0\}\)<(.*)\)$`).FindStringSubmatch(lc); m != nil {
							bound = m[1]
						}
					}
				}
			}
		}
		st6.Instances++
		st6.Ob(bound != "")
		if bound == "" {
			c.ReportAt("R10.6", fn, fn.Pos(), "insert-loop", "the page-insertion loop of allocatePages (for i := 0; i < N; i++ { … pageTable.Insert … }) was not found: the number of pages mapped per buffer cannot be established")
		}
		for _, b := range fn.Blocks {
			for _, in := range b.Instrs {
				mu, ok := in.(*ssa.MapUpdate)
				if !ok || bound == "" || prov.Of(mu.Value) != bound {
					continue
				}
				mp := prov.Of(mu.Map)
				if i := strings.LastIndex(mp, "."); i >= 0 {
					recordedField, recordedBound = mp[i+1:], bound
					st6.Sample("allocatePages records %s[%s] = %s (the insertion loop bound)", short(mp), short(prov.Of(mu.Key)), bound)
					kp := prov.Of(mu.Key)
					st6.Instances++
					okKey := strings.HasSuffix(kp, ".nextVAddr")
					st6.Ob(okKey)
					if !okKey {
						c.ReportAt("R10.6", fn, in.Pos(), "record:key", "the page count of a buffer is recorded under "+short(kp)+", not under the buffer's first virtual address (the value Allocate returns)")
					}
				}
			}
		}
		st6.Instances++
		st6.Ob(recordedField != "")
		if recordedField == "" && bound != "" {
			c.ReportAt("R10.6", fn, fn.Pos(), "record:count", "allocatePages maps "+bound+" pages per buffer but records that count nowhere: Free cannot know how many pages the buffer has")
		}
	}
	if fn := c.MustFunc("R10.6", drvIntPkg, "memoryAllocatorImpl.Free"); fn != nil {
		c.MarkAnalysed(fn)
		calls := 0
		for _, b := range fn.Blocks {
			for _, in := range b.Instrs {
				if !callsFunc(in, pint.Pkg, "memoryAllocatorImpl.removePage") {
					continue
				}
				calls++
				st6.Instances++
				arg := prov.Of(core.CallOf(in).Args[1])
				conds := loopConds(fn, b)
				okLoop := len(conds) > 0
				okBound := false
				for _, lc := range conds {
					if recordedField != "" && core.ProvMatch(regexp.MustCompile(`^\(iter\(\{\(@\+1\)\|0\}\)<(\{1\|)?[^{}|]*\.`+regexp.QuoteMeta(recordedField)+`\[param:ptr\]\}?\)$`), lc) {
						okBound = true
					}
				}
				okArg := core.ProvEq(arg, "(param:ptr+(iter({(@+1)|0})*(1<<recv.log2PageSize)))")
				st6.Ob(okLoop && okBound && okArg)
				st6.Sample("Free: removePage(%s) under %v", arg, conds)
				switch {
				case !okLoop:
					c.ReportAt("R10.6", fn, in.Pos(), "free:single-page", "Free calls removePage once, outside any loop: only the first page of a multi-page buffer is unmapped and returned to the device, the others stay mapped and their physical pages are lost")
				case !okBound:
					c.ReportAt("R10.6", fn, in.Pos(), "free:bound", fmt.Sprintf("the loop in Free runs under %v, not for i < the page count recorded by allocatePages (%s = %s): Free removes too few or too many pages", conds, recordedField, recordedBound))
				case !okArg:
					c.ReportAt("R10.6", fn, in.Pos(), "free:stride", "Free removes the page at "+short(arg)+", not ptr + i*pageSize")
				}
			}
		}
		st6.Instances++
		st6.Ob(calls > 0)
		if calls == 0 {
			c.ReportAt("R10.6", fn, fn.Pos(), "free:no-remove", "Free does not call removePage")
		}
	}

	// ---------------- R10.7 the mirror identifies a page like the page table does ----------------
	st7 := c.Rule("R10.7", "every map of the allocator that holds pages identifies a page the way the page table does, by process and virtual address: its key carries the PID, or it lives inside the per-process state (each process's cursor starts at the same address, so equal virtual addresses in different processes are the rule, not the exception)", 1)
	for _, tn := range []string{"memoryAllocatorImpl", "processMemoryState"} {
		obj := pint.Pkg.Pkg.Scope().Lookup(tn)
		if obj == nil {
			c.Report(core.Finding{Rule: "R10.7", Kind: "undecided", Pkg: drvIntPkg, Func: tn, Detail: "anchor", Msg: "type " + tn + " not found"})
			continue
		}
		stt, ok := obj.Type().Underlying().(*types.Struct)
		if !ok {
			continue
		}
		for i := 0; i < stt.NumFields(); i++ {
			f := stt.Field(i)
			mt, ok := f.Type().Underlying().(*types.Map)
			if !ok || namedTypeName(mt.Elem()) != "vm.Page" {
				continue
			}
			st7.Instances++
			okKey := tn == "processMemoryState" || typeMentions(mt.Key(), "vm.PID")
			st7.Ob(okKey)
			st7.Sample("%s.%s %s: key carries the process: %v", tn, f.Name(), f.Type().String(), okKey)
			if !okKey {
				c.Report(core.Finding{Rule: "R10.7", Pkg: drvIntPkg, Func: tn, Detail: "mirror-key:" + f.Name(), Pos: c.Position(f.Pos()),
					Msg: fmt.Sprintf("%s.%s is keyed by %s only, while pages are identified by (PID, VAddr) and every process allocates from the same first address: the second process's page overwrites the first one's entry, and Free/RemovePage/migration of one process's buffer then operates on the other process's page", tn, f.Name(), mt.Key().String())})
			}
		}
	}

	checkIntegerWidths(c, "R10.22", "Addresses and block offsets in the allocator are not narrowed, nor widened after they could wrap.", 5, []widthScope{{rel: drvIntPkg}}, []string{"narrow", "widen-wrapped", "unsigned-diff"}, widthAllowDrvInt)
	checkMigrationTargetDevice(c, "R10.23")
	checkCapacityTestedBeforePop(c, pint)
	checkClampAgreement(c, "R10.25", "In the distributor the value is the number of GPUs the even share is dealt to: clamped under a test against the page count it is never clamped, the dealing loop runs past the GPU list and the driver panics after it has re-homed part of the buffer.", 1, pd)
	checkNoListCopy(c, "R10.26", pint)
	checkUnifiedPageFromGPUWithRoom(c)
	checkUniversalScan(c, "R10.28", "deviceBuddyMemoryState.noAvailablePAddrs walks every level of the free lists - its loop bound is the length of freeList itself - and leaves with false from the arm where a level is not empty. Bounded one short, a device whose only free block is at the top level is taken for full: the allocation panics, or the page is placed elsewhere, while the memory is there", "amd/driver/internal", "deviceBuddyMemoryState.noAvailablePAddrs", "freeList", "Len()")
	return core.Meta{Level: "other",
		Explanation: "Structural clauses of device memory management: a lockset analysis of the allocator (every field access under the embedded mutex, helpers only from lock-holding call sites), pairing of every page-table write with the allocator's vAddr mirror and who-may-write the page table, physical addresses taken only from the device memory state, no container mutated while ranged in the driver packages, page-granular cursor and size arithmetic, Free looping over exactly the page count recorded at allocation, and the key shape of the allocator's page maps.",
		NotDecided:  "invariants over allocate/free/remap histories (disjointness of live physical pages, buddy-allocator merging): these are state-machine properties beyond structural rules",
		Assumptions: commonAssumptions}
}

func reaches(from, to *ssa.BasicBlock) bool {
	seen := map[*ssa.BasicBlock]bool{}
	var walk func(b *ssa.BasicBlock) bool
	walk = func(b *ssa.BasicBlock) bool {
		if b == to {
			return true
		}
		if seen[b] {
			return false
		}
		seen[b] = true
		for _, s := range b.Succs {
			if walk(s) {
				return true
			}
		}
		return false
	}
	for _, s := range from.Succs {
		if walk(s) {
			return true
		}
	}
	return false
}

// typeMentions: t is, or is a struct with a field of, a named type called name.
func typeMentions(t types.Type, name string) bool {
	if namedTypeName(t) == name {
		return true
	}
	if st, ok := t.Underlying().(*types.Struct); ok {
		for i := 0; i < st.NumFields(); i++ {
			if namedTypeName(st.Field(i).Type()) == name {
				return true
			}
		}
	}
	return false
}

// checkRoundRobinCursors (R10.14): an integer field that indexes a slice field of the same object
// directly (s.A[s.cur]) has to stay below len(s.A) in every state the object is left in: every
// store to the field is a value reduced modulo len(s.A) of the same object, or the constant 0.
// A reader that applies the modulo itself does not make an unreduced store safe: another reader
// (Remap / Distribute onto a unified device go through allocateMultipleUnifiedGPUPages) does not.
func checkRoundRobinCursors(c *core.Ctx, pi *PkgInfo) {
	st := c.Rule("R10.14", "a round-robin cursor that is used directly as an index (s.A[s.cur], found from the index expressions of the package) is stored only reduced modulo len(s.A) of the same object or as the constant 0, so that a sequence of allocations within capacity cannot leave it out of range for the reader that does not reduce it again", 2)
	type cursor struct{ cur, arr *types.Var }
	cursors := map[cursor]token.Pos{}
	fieldLoad := func(v ssa.Value) (*types.Var, ssa.Value) {
		for {
			switch x := v.(type) {
			case *ssa.Convert:
				v = x.X
				continue
			case *ssa.ChangeType:
				v = x.X
				continue
			}
			break
		}
		ld, ok := v.(*ssa.UnOp)
		if !ok || ld.Op != token.MUL {
			return nil, nil
		}
		fa, ok := ld.X.(*ssa.FieldAddr)
		if !ok {
			return nil, nil
		}
		return fieldOfStruct(fa.X.Type(), fa.Field), fa.X
	}
	for _, fn := range pi.Funcs {
		for _, b := range fn.Blocks {
			for _, in := range b.Instrs {
				ia, ok := in.(*ssa.IndexAddr)
				if !ok {
					continue
				}
				cur, base1 := fieldLoad(ia.Index)
				arr, base2 := fieldLoad(ia.X)
				if cur == nil || arr == nil || base1 != base2 {
					continue
				}
				if _, isSlice := arr.Type().Underlying().(*types.Slice); !isSlice {
					continue
				}
				k := cursor{cur, arr}
				if _, ok := cursors[k]; !ok {
					cursors[k] = ia.Pos()
					st.Sample("%s: %s[%s] is indexed without a reduction", core.FuncName(fn), arr.Name(), cur.Name())
				}
			}
		}
	}
	for _, fn := range pi.Funcs {
		for _, b := range fn.Blocks {
			for _, in := range b.Instrs {
				sto, ok := in.(*ssa.Store)
				if !ok {
					continue
				}
				fa, ok := sto.Addr.(*ssa.FieldAddr)
				if !ok {
					continue
				}
				f := fieldOfStruct(fa.X.Type(), fa.Field)
				for k := range cursors {
					if k.cur != f {
						continue
					}
					st.Instances++
					c.MarkAnalysed(fn)
					ok := false
					how := "an unreduced value"
					if kv, isC := core.ConstInt(sto.Val); isC && kv == 0 {
						ok, how = true, "0"
					}
					if rem, isB := sto.Val.(*ssa.BinOp); isB && rem.Op == token.REM {
						if call, isCall := rem.Y.(*ssa.Call); isCall {
							if bi, isBi := call.Call.Value.(*ssa.Builtin); isBi && bi.Name() == "len" && len(call.Call.Args) == 1 {
								if a, base := fieldLoad(call.Call.Args[0]); a == k.arr && base == fa.X {
									ok, how = true, "a value % len("+k.arr.Name()+")"
								} else {
									how = "a value reduced modulo the length of something else"
								}
							}
						}
					}
					st.Ob(ok)
					st.Sample("%s: %s is stored as %s", core.FuncName(fn), f.Name(), how)
					if !ok {
						c.ReportAt("R10.14", fn, sto.Pos(), "cursor:"+f.Name()+":unreduced-store", core.FuncName(fn)+" stores "+how+" in "+f.Name()+", which indexes "+k.arr.Name()+" directly elsewhere ("+c.Position(cursors[k])+"): after enough single allocations the cursor is past the end and the next allocation that indexes with it (Remap / Distribute onto a unified device) panics with plenty of memory free")
					}
				}
			}
		}
	}
}
