package rules

import (
	"fmt"
	"go/ast"
	"go/token"
	"go/types"
	"path/filepath"
	"strings"

	"golang.org/x/tools/go/ssa"

	"verif/internal/core"
)

// units.go: two quantities of one Go type that count different things
// (twenty-sixth seeding batch).

// checkMaskWalkedPerByte: a per-byte dirty mask is indexed by a counter that steps by one.
func checkMaskWalkedPerByte(c *core.Ctx, rule, why string, floor int, rels ...string) {
	st := c.Rule(rule, "a dirty mask has one entry per byte: every loop that indexes a DirtyMask with its counter advances that counter by 1. A loop that consults mask[0], mask[4], ... treats the mask as one entry per dword: a byte or short store's enabled byte is dropped unless it is the first of its dword, and an enabled first byte takes its three disabled neighbours along. "+why, floor)
	prov := core.NewLocalProv(c)
	for _, rel := range rels {
		for _, fn := range c.SrcFuncs(rel) {
			for _, b := range fn.Blocks {
				for _, in := range b.Instrs {
					var x, idx ssa.Value
					switch y := in.(type) {
					case *ssa.IndexAddr:
						x, idx = y.X, y.Index
					case *ssa.Index:
						x, idx = y.X, y.Index
					}
					if x == nil || !strings.Contains(prov.Of(x), "DirtyMask") && !strings.Contains(strings.ToLower(prov.Of(x)), "mask") {
						continue
					}
					iv := core.StripConv(idx)
					// go/ssa rotates `for i := range x`: the index in the body is phi+1
					if bo, ok := iv.(*ssa.BinOp); ok && bo.Op == token.ADD {
						if _, isK := core.ConstInt(bo.Y); isK {
							iv = bo.X
						}
					}
					phi, ok := iv.(*ssa.Phi)
					if !ok {
						continue
					}
					st.Instances++
					c.MarkAnalysed(fn)
					good := true
					for _, e := range phi.Edges {
						bo, ok := e.(*ssa.BinOp)
						if !ok || bo.Op != token.ADD || bo.X != ssa.Value(phi) {
							continue
						}
						if k, isK := core.ConstInt(bo.Y); !isK || k != 1 {
							good = false
						}
					}
					st.Ob(good)
					if !good {
						c.ReportAt(rule, fn, in.Pos(), "mask-walked-by-stride", core.FuncName(fn)+" indexes a per-byte mask with a counter that does not advance by one. "+why)
					}
				}
			}
		}
	}
}

// R09.20: the LDS mask has one entry per granule of the granularity the offsets are scaled by.
func checkLDSMaskUnits(c *core.Ctx) {
	st := c.Rule("R09.20", "the LDS reservation mask of a compute unit has ldsByteSize / ldsGranularity entries - the granularity that withinLDSLimitation and FreeResourcesForWG scale the offsets with: the argument of newResourceMask in createLDSMask is a quotient whose divisor is the field ldsGranularity. Divided by a dword count instead of the byte granule the mask has four times the entries, the dispatcher believes every unit has four times its LDS, and work-groups are mapped with LDS ranges beyond the unit's capacity", 1)
	fn := c.MustFunc("R09.20", resPkg, "CUResourcePoolImpl.createLDSMask")
	if fn == nil {
		return
	}
	c.MarkAnalysed(fn)
	for _, b := range fn.Blocks {
		for _, in := range b.Instrs {
			cc := core.CallOf(in)
			if cc == nil || cc.StaticCallee() == nil || cc.StaticCallee().Name() != "newResourceMask" || len(cc.Args) == 0 {
				continue
			}
			st.Instances++
			good := false
			if q, ok := core.StripConv(cc.Args[0]).(*ssa.BinOp); ok && q.Op == token.QUO {
				if f := core.LoadedField(core.StripConv(q.Y)); f != nil && f.Name() == "ldsGranularity" {
					if g := core.LoadedField(core.StripConv(q.X)); g != nil && g.Name() == "ldsByteSize" {
						good = true
					}
				}
			}
			st.Ob(good)
			if !good {
				c.ReportAt("R09.20", fn, in.Pos(), "lds-mask-units", "createLDSMask sizes the mask with something other than ldsByteSize / ldsGranularity")
			}
		}
	}
}

// R13.14: a register count rounded up to its allocation granule is a multiple of the granule.
func checkRoundedCountsAreRegisters(c *core.Ctx) {
	st := c.Rule("R13.14", "the register counts that overrideRegisterCountsFromSymbols stores are counts of registers rounded up to the allocation granule, ((n + g-1) / g) * g: what is stored into WFSgprCount / WIVgprCount is a product with the constant the quotient was divided by. Without the final multiplication the value counts granules: the override stops firing when it should (4 granules against 4 registers) and stores a quarter of the registers when it does", 2)
	fn := c.MustFunc("R13.14", instsPkg, "overrideRegisterCountsFromSymbols")
	if fn == nil {
		return
	}
	c.MarkAnalysed(fn)
	for _, b := range fn.Blocks {
		for _, in := range b.Instrs {
			s, ok := in.(*ssa.Store)
			if !ok {
				continue
			}
			f := core.FieldOfAddr(s.Addr)
			if f == nil || (f.Name() != "WFSgprCount" && f.Name() != "WIVgprCount") {
				continue
			}
			st.Instances++
			var rounded func(v ssa.Value, d int) bool
			rounded = func(v ssa.Value, d int) bool {
				v = core.StripConv(v)
				if d > 4 {
					return false
				}
				if core.LoadedField(v) == f {
					return true // the value the field already holds (max(old, new), a phi with the old value)
				}
				switch x := v.(type) {
				case *ssa.BinOp:
					if x.Op != token.MUL {
						return false
					}
					for _, pair := range [][2]ssa.Value{{x.X, x.Y}, {x.Y, x.X}} {
						q, isQ := core.StripConv(pair[0]).(*ssa.BinOp)
						k1, isK1 := core.ConstInt(pair[1])
						if isQ && q.Op == token.QUO && isK1 {
							if k2, isK2 := core.ConstInt(q.Y); isK2 && k1 == k2 {
								return true
							}
						}
					}
				case *ssa.Call:
					if b, isB := x.Call.Value.(*ssa.Builtin); isB && (b.Name() == "max" || b.Name() == "min") {
						for _, a := range x.Call.Args {
							if !rounded(a, d+1) {
								return false
							}
						}
						return true
					}
				case *ssa.Phi:
					for _, e := range x.Edges {
						if !rounded(e, d+1) {
							return false
						}
					}
					return true
				}
				return false
			}
			good := rounded(s.Val, 0)
			st.Ob(good)
			if !good {
				c.ReportAt("R13.14", fn, s.Pos(), "count-not-in-registers:"+f.Name(), "overrideRegisterCountsFromSymbols stores into "+f.Name()+" a value that is not (quotient by the granule) times the granule")
			}
		}
	}
}

// R18.19: in mccl a pointer is advanced by bytes.
func checkPointerAdvancedInBytes(c *core.Ctx) {
	st := c.Rule("R18.19", "in amd/benchmarks/mccl a device pointer is advanced by a byte offset: every driver.Ptr(...) conversion that is added to a pointer has the element size 4 as a factor of its argument (the collectives move float32 elements). An element index added as it is puts chunk k at a quarter of its offset: the chunks overlap and the tail of the buffer never reaches the other GPUs, whose data then differs from the root's", 6)
	c.Load("./amd/benchmarks/mccl")
	for _, p := range c.RepoPkgs() {
		if core.RelPkg(p.PkgPath) != "amd/benchmarks/mccl" {
			continue
		}
		for i, f := range p.Syntax {
			if i < len(p.CompiledGoFiles) && strings.HasSuffix(p.CompiledGoFiles[i], "_test.go") {
				continue
			}
			rel, _ := filepath.Rel(core.RepoDir, c.Fset.Position(f.Pos()).Filename)
			for _, d := range f.Decls {
				fd, ok := d.(*ast.FuncDecl)
				if !ok || fd.Body == nil {
					continue
				}
				// locals that are a product with 4
				scaled := map[string]bool{}
				hasFour := func(e ast.Expr) bool {
					found := false
					ast.Inspect(e, func(n ast.Node) bool {
						if be, ok := n.(*ast.BinaryExpr); ok && be.Op == token.MUL {
							for k, side := range []ast.Expr{be.X, be.Y} {
								other := be.Y
								if k == 1 {
									other = be.X
								}
								// 4 times something that varies: `4 * mem.KB` is a size, not a scaling
								if lit, ok := side.(*ast.BasicLit); ok && lit.Value == "4" && p.TypesInfo.Types[other].Value == nil {
									found = true
								}
							}
						}
						if id, ok := n.(*ast.Ident); ok && scaled[id.Name] {
							found = true
						}
						return true
					})
					return found
				}
				ast.Inspect(fd.Body, func(n ast.Node) bool {
					if as, ok := n.(*ast.AssignStmt); ok && len(as.Lhs) == 1 && len(as.Rhs) == 1 {
						if id, ok := as.Lhs[0].(*ast.Ident); ok && hasFour(as.Rhs[0]) {
							scaled[id.Name] = true
						}
					}
					call, ok := n.(*ast.CallExpr)
					if !ok || len(call.Args) != 1 {
						return true
					}
					if sel, ok := call.Fun.(*ast.SelectorExpr); !ok || sel.Sel.Name != "Ptr" {
						return true
					}
					if _, isLit := call.Args[0].(*ast.BasicLit); isLit {
						return true
					}
					st.Instances++
					good := hasFour(call.Args[0])
					st.Ob(good)
					if !good {
						c.Report(core.Finding{Rule: "R18.19", Pkg: "amd/benchmarks/mccl", Func: core.DeclName(fd), Detail: "pointer-advanced-by-elements", Pos: fmt.Sprintf("%s:%d", rel, c.Fset.Position(call.Pos()).Line),
							Msg: core.DeclName(fd) + " advances a device pointer by " + typesExprString(call.Args[0]) + ", which has no factor 4: an element index where a byte offset is meant"})
					}
					return true
				})
			}
		}
	}
}

// R20.23: a field of a parsed instruction comes from the text.
func checkParsedFieldsComeFromText(c *core.Ctx) {
	st := c.Rule("R20.23", "in updateInstMemoryPart no field of the instruction is filled from another field of the same instruction: every field is what the trace line says. A stride copied from the access width is right for dense accesses only; a broadcast (stride 0), a gather with a larger stride or a descending access is parsed into a structure that is not the one that was serialised", 1)
	fn := c.MustFunc("R20.23", nvTracePkg, "updateInstMemoryPart")
	if fn == nil {
		return
	}
	c.MarkAnalysed(fn)
	st.Instances++
	bad := false
	for _, b := range fn.Blocks {
		for _, in := range b.Instrs {
			s, ok := in.(*ssa.Store)
			if !ok {
				continue
			}
			dst, ok := s.Addr.(*ssa.FieldAddr)
			if !ok {
				continue
			}
			ld, ok := core.StripConv(s.Val).(*ssa.UnOp)
			if !ok || ld.Op != token.MUL {
				continue
			}
			src, ok := ld.X.(*ssa.FieldAddr)
			if ok && src.X == dst.X && src.Field != dst.Field {
				bad = true
				c.ReportAt("R20.23", fn, s.Pos(), "field-copied-from-field:"+fieldNameOf(dst), "updateInstMemoryPart fills "+fieldNameOf(dst)+" from "+fieldNameOf(src)+" instead of from the line")
			}
		}
	}
	st.Ob(!bad)
}

// R11.23: the dirty-tracking record of a buffer has its size in bytes.
func checkBufferRecordInBytes(c *core.Ctx) {
	st := c.Rule("R11.23", "the buffer record that AllocateMemory / AllocateUnifiedMemory keep for dirty tracking has the allocation's byte size: the value stored into buffer.size is the byteSize parameter. touchesDirtyBuffer takes vAddr + size as the end of the buffer; with a page count there, a copy that starts at an offset inside a dirty buffer overlaps nothing, no flush precedes it, and it reads what was in DRAM before the kernel", 2)
	prov := core.NewLocalProv(c)
	for _, name := range []string{"Driver.AllocateMemory", "Driver.AllocateUnifiedMemory"} {
		fn := c.MustFunc("R11.23", driverPkg, name)
		if fn == nil {
			continue
		}
		c.MarkAnalysed(fn)
		for _, b := range fn.Blocks {
			for _, in := range b.Instrs {
				s, ok := in.(*ssa.Store)
				if !ok {
					continue
				}
				f := core.FieldOfAddr(s.Addr)
				if f == nil || core.ShortFieldID(f) != "buffer.size" {
					continue
				}
				st.Instances++
				p := prov.Of(core.StripConv(s.Val))
				good := p == "param:byteSize"
				st.Ob(good)
				if !good {
					c.ReportAt("R11.23", fn, s.Pos(), "buffer-size-not-bytes", name+" records "+short(p)+" as the buffer's size; the byte size of the allocation is meant")
				}
			}
		}
	}
}

// R07.19: the emulation register files hold every register of the series.
func checkEmuRegisterFileSizes(c *core.Ctx) {
	st := c.Rule("R07.19", "emu.NewWavefront allocates 4 bytes for each of the 102 scalar registers s0..s101 and for each of the 256 vector registers of each of the 64 lanes: the constant lengths of SRegFile and VRegFile are at least 408 and 65536. Sized by the last index instead of the count, the last register of each series is missing: an operand that covers s101, or v192..v255 on lane 63, panics in emulation and works in timing mode", 2)
	fn := c.MustFunc("R07.19", emuPkg, "NewWavefront")
	if fn == nil {
		return
	}
	c.MarkAnalysed(fn)
	want := map[string]int64{"SRegFile": 4 * 102, "VRegFile": 4 * 64 * 256}
	for _, b := range fn.Blocks {
		for _, in := range b.Instrs {
			s, ok := in.(*ssa.Store)
			if !ok {
				continue
			}
			f := core.FieldOfAddr(s.Addr)
			if f == nil || want[f.Name()] == 0 {
				continue
			}
			st.Instances++
			good := false
			switch mk := s.Val.(type) {
			case *ssa.MakeSlice:
				if k, isK := core.ConstInt(mk.Len); isK && k >= want[f.Name()] {
					good = true
				}
			}
			if !good {
				if sl, ok := s.Val.(*ssa.Slice); ok {
					if al, ok := sl.X.(*ssa.Alloc); ok {
						if n := arrayLenOfPtr(al.Type()); n >= want[f.Name()] {
							good = true
						}
					}
				}
			}
			st.Ob(good)
			if !good {
				c.ReportAt("R07.19", fn, s.Pos(), "register-file-too-small:"+f.Name(), fmt.Sprintf("NewWavefront allocates fewer than %d bytes for %s", want[f.Name()], f.Name()))
			}
		}
	}
}

func arrayLenOfPtr(t types.Type) int64 {
	if p, ok := t.Underlying().(*types.Pointer); ok {
		if a, ok := p.Elem().Underlying().(*types.Array); ok {
			return a.Len()
		}
	}
	return -1
}
