package rules

import (
	"bytes"
	"fmt"
	"go/ast"
	"go/constant"
	"go/printer"
	"go/token"
	"go/types"
	"regexp"
	"sort"
	"strings"

	"golang.org/x/tools/go/ssa"

	"verif/internal/core"
)

// ---- edge cuts (GUARD conditions) ---------------------------------------------

// An EdgeCut names, for an If node, the successor edges on which the wanted
// condition holds. Guarded(target, cut) then decides "every path to target takes
// such an edge".
type EdgeCut func(n *core.Node, i int) bool

// condEdges: the If tests value `v` (possibly under negations) and edge i is
// the one on which pred(v) == want.
func boolCut(match func(n *core.Node, v ssa.Value) bool, want bool) EdgeCut {
	return func(n *core.Node, i int) bool {
		ifi, ok := n.Instr.(*ssa.If)
		if !ok {
			return false
		}
		v, neg := stripNot(ifi.Cond)
		// a predicate helper (`func (d *T) busy() bool { return d.flag }`) is the expression it returns,
		// unless the rule is about the call itself
		if !match(n, v) {
			if body, ok := predicateBody(v); ok {
				v2, n2 := stripNot(body)
				v = v2
				if n2 {
					neg = !neg
				}
			}
		}
		// also accept `v == true/false`
		if b, ok := v.(*ssa.BinOp); ok && (b.Op == token.EQL || b.Op == token.NEQ) {
			if cb, ok := core.ConstBool(b.Y); ok {
				v = b.X
				if cb != (b.Op == token.EQL) {
					neg = !neg
				}
				v2, n2 := stripNot(v)
				v = v2
				if n2 {
					neg = !neg
				}
			}
		}
		if !match(n, v) {
			return false
		}
		// edge 0 is taken when cond true; cond = v xor neg
		holdsOnTrueEdge := !neg
		if want {
			if holdsOnTrueEdge {
				return i == 0
			}
			return i == 1
		}
		if holdsOnTrueEdge {
			return i == 1
		}
		return i == 0
	}
}

// BoolFieldCut: edges on which the boolean struct field ("Struct.field") has
// the wanted value.
func BoolFieldCut(field string, want bool) EdgeCut {
	return boolCut(func(n *core.Node, v ssa.Value) bool {
		f := core.LoadedField(v)
		return f != nil && core.ShortFieldID(f) == field
	}, want)
}

// CallResultCut: edges on which the boolean result of a call to one of the
// functions (FuncID) has the wanted value.
func CallResultCut(want bool, ids ...string) EdgeCut {
	return boolCut(func(n *core.Node, v ssa.Value) bool {
		in, ok := v.(ssa.Instruction)
		return ok && core.IsCall(in, ids...)
	}, want)
}

// CallToCut: like CallResultCut but the callee is given as a set of SSA functions.
func CallFnCut(want bool, fns map[*ssa.Function]bool) EdgeCut {
	return boolCut(func(n *core.Node, v ssa.Value) bool {
		call, ok := v.(*ssa.Call)
		return ok && call.Call.StaticCallee() != nil && fns[call.Call.StaticCallee()]
	}, want)
}

// NilCut: edges on which the value selected by match is nil (wantNil) or
// non-nil.
func NilCut(match func(v ssa.Value) bool, wantNil bool) EdgeCut {
	return func(n *core.Node, i int) bool {
		ifi, ok := n.Instr.(*ssa.If)
		if !ok {
			return false
		}
		v, neg := stripNot(ifi.Cond)
		if body, ok := predicateBody(v); ok {
			v2, n2 := stripNot(body)
			v = v2
			if n2 {
				neg = !neg
			}
		}
		b, ok := v.(*ssa.BinOp)
		if !ok || (b.Op != token.EQL && b.Op != token.NEQ) {
			return false
		}
		var x ssa.Value
		switch {
		case core.IsNilConst(b.Y):
			x = b.X
		case core.IsNilConst(b.X):
			x = b.Y
		default:
			return false
		}
		if !match(x) {
			return false
		}
		isNilOnTrue := (b.Op == token.EQL) != neg
		if wantNil == isNilOnTrue {
			return i == 0
		}
		return i == 1
	}
}

// CmpCut: edges of an If whose condition is an integer comparison for which
// decide(op, x, y) returns (+1: holds on true edge, -1: holds on false edge, 0: not this one).
func CmpCut(decide func(n *core.Node, op token.Token, x, y ssa.Value) int) EdgeCut {
	return func(n *core.Node, i int) bool {
		ifi, ok := n.Instr.(*ssa.If)
		if !ok {
			return false
		}
		v, neg := stripNot(ifi.Cond)
		if body, ok := predicateBody(v); ok {
			v2, n2 := stripNot(body)
			v = v2
			if n2 {
				neg = !neg
			}
		}
		b, ok := v.(*ssa.BinOp)
		if !ok {
			return false
		}
		switch b.Op {
		case token.EQL, token.NEQ, token.LSS, token.LEQ, token.GTR, token.GEQ:
		default:
			return false
		}
		d := decide(n, b.Op, b.X, b.Y)
		if d == 0 {
			// the same comparison written with its operands exchanged (0 < x for x > 0)
			d = decide(n, mirrorCmp(b.Op), b.Y, b.X)
		}
		if d == 0 {
			return false
		}
		if neg {
			d = -d
		}
		if d > 0 {
			return i == 0
		}
		return i == 1
	}
}

func AnyCut(cuts ...EdgeCut) EdgeCut {
	return func(n *core.Node, i int) bool {
		for _, c := range cuts {
			if c(n, i) {
				return true
			}
		}
		return false
	}
}

// ---- package-level helpers -------------------------------------------------------

type PkgInfo struct {
	c       *core.Ctx
	Rel     string
	Pkg     *ssa.Package
	Funcs   []*ssa.Function
	callers map[*ssa.Function][]*ssa.Function
}

func NewPkgInfo(c *core.Ctx, rel string) *PkgInfo {
	p := &PkgInfo{c: c, Rel: rel, Pkg: c.SSAPkg(rel), Funcs: c.SrcFuncs(rel), callers: map[*ssa.Function][]*ssa.Function{}}
	for _, fn := range p.Funcs {
		seen := map[*ssa.Function]bool{}
		for _, b := range fn.Blocks {
			for _, in := range b.Instrs {
				if call, ok := in.(ssa.CallInstruction); ok {
					if cal := call.Common().StaticCallee(); cal != nil && cal.Pkg == p.Pkg && !seen[cal] {
						seen[cal] = true
						p.callers[cal] = append(p.callers[cal], fn)
					}
				}
				// closures: treat the parent as caller of the anonymous function
				if mc, ok := in.(*ssa.MakeClosure); ok {
					if cl, ok := mc.Fn.(*ssa.Function); ok && !seen[cl] {
						seen[cl] = true
						p.callers[cl] = append(p.callers[cl], fn)
					}
				}
			}
		}
	}
	return p
}

// Instrs iterates over all instructions of the package's source functions.
// Callers: static callers of fn inside the package.
func (p *PkgInfo) Callers(fn *ssa.Function) []*ssa.Function { return p.callers[fn] }

func (p *PkgInfo) Instrs(f func(fn *ssa.Function, in ssa.Instruction)) {
	for _, fn := range p.Funcs {
		for _, b := range fn.Blocks {
			for _, in := range b.Instrs {
				f(fn, in)
			}
		}
	}
}

// Having returns the set of functions that transitively (static calls within
// the package) contain an instruction matching pred.
func (p *PkgInfo) Having(pred func(in ssa.Instruction) bool) map[*ssa.Function]bool {
	has := map[*ssa.Function]bool{}
	p.Instrs(func(fn *ssa.Function, in ssa.Instruction) {
		if pred(in) {
			has[fn] = true
		}
	})
	for changed := true; changed; {
		changed = false
		for cal, crs := range p.callers {
			if !has[cal] {
				continue
			}
			for _, cr := range crs {
				if !has[cr] {
					has[cr] = true
					changed = true
				}
			}
		}
	}
	return has
}

// Direct returns functions that directly contain a matching instruction.
func (p *PkgInfo) Direct(pred func(in ssa.Instruction) bool) []*ssa.Function {
	set := map[*ssa.Function]bool{}
	var out []*ssa.Function
	p.Instrs(func(fn *ssa.Function, in ssa.Instruction) {
		if pred(in) && !set[fn] {
			set[fn] = true
			out = append(out, fn)
		}
	})
	return out
}

// GuardedUp decides "every execution of an instruction matching target is
// preceded, on every path from a package entry point, by taking one of the cut
// edges". It starts at the functions that directly contain a target; when a
// target is not guarded inside the function (with callees inlined) the
// obligation moves to every static caller inside the package (depth-bounded).
// A function without callers in which the target is unguarded is a violation.
// Returns the list of (function, target position) that are unguarded.
type Unguarded struct {
	Top    *ssa.Function // outermost function in which the target is still unguarded
	Target *core.Node
}

func (p *PkgInfo) GuardedUp(target func(in ssa.Instruction) bool, cut EdgeCut) (int, []Unguarded) {
	has := p.Having(target)
	inline := func(cal *ssa.Function) bool { return cal.Pkg == p.Pkg && has[cal] }
	var out []Unguarded
	total := 0
	type key struct {
		fn *ssa.Function
		in ssa.Instruction
	}
	done := map[key]bool{}
	var check func(fn *ssa.Function, only ssa.Instruction, depth int)
	check = func(fn *ssa.Function, only ssa.Instruction, depth int) {
		if done[key{fn, only}] {
			return
		}
		done[key{fn, only}] = true
		p.c.MarkAnalysed(fn)
		g := core.BuildGraph(fn, 4, inline)
		for _, t := range g.NodesWhere(func(n *core.Node) bool { return n.Instr == only }) {
			if g.Guarded(t, cut) {
				continue
			}
			crs := p.callers[fn]
			if len(crs) == 0 || depth >= 4 {
				out = append(out, Unguarded{Top: fn, Target: t})
				continue
			}
			for _, cr := range crs {
				check(cr, only, depth+1)
			}
		}
	}
	p.Instrs(func(fn *ssa.Function, in ssa.Instruction) {
		if target(in) {
			total++
			check(fn, in, 0)
		}
	})
	return total, out
}

// ---- misc matchers ---------------------------------------------------------------

// MethodOnField: call of method `name` (static, any package) whose receiver is
// a load of the struct field "Struct.field".
func MethodOnField(in ssa.Instruction, field string, names ...string) (string, bool) {
	cc := core.CallOf(in)
	if cc == nil {
		return "", false
	}
	var recv ssa.Value
	var mname string
	if cc.IsInvoke() {
		recv, mname = cc.Value, cc.Method.Name()
	} else if fn := cc.StaticCallee(); fn != nil && fn.Signature.Recv() != nil && len(cc.Args) > 0 {
		recv, mname = cc.Args[0], fn.Name()
	} else {
		return "", false
	}
	f := core.LoadedField(recv)
	if f == nil || core.ShortFieldID(f) != field {
		return "", false
	}
	if len(names) == 0 {
		return mname, true
	}
	for _, n := range names {
		if n == mname {
			return mname, true
		}
	}
	return mname, false
}

// SendOn: Send call on the port held in field `port` (field name only).
func SendOn(in ssa.Instruction, port string) bool {
	return core.IsPortMethod(in, "Send") && portOfCall(in) == port
}

func storeToField(in ssa.Instruction, field string) (*ssa.Store, bool) {
	st, ok := in.(*ssa.Store)
	if !ok {
		return nil, false
	}
	f := core.FieldOfAddr(st.Addr)
	if f == nil || core.ShortFieldID(f) != field {
		return nil, false
	}
	return st, true
}

func sortedKeys[V any](m map[string]V) []string {
	var ks []string
	for k := range m {
		ks = append(ks, k)
	}
	sort.Strings(ks)
	return ks
}

// ---- FIELDS ---------------------------------------------------------------------------

// FieldSpec: every Build() of Builder in the package must call each required
// setter with an argument whose provenance matches the regexp.
type FieldSpec struct {
	Builder  string            // "mem.ReadReqBuilder"
	Require  map[string]string // setter -> regexp on provenance of first arg
	MinSites int
	// OnlyIn restricts the spec to chains inside functions whose name matches (optional).
	OnlyIn string
	// SameBase lists setters whose provenance, after removing the matched
	// suffix, must be identical (all fields copied from the same message).
	SameBase []string
}

func (p *PkgInfo) CheckFields(rule string, specs []FieldSpec) {
	c := p.c
	st := c.Rule(rule, "every message built with the listed builders carries the required fields, each taken from the named field of the source message (provenance resolved through SSA, parameters followed to their call sites)", 0)
	prov := core.NewProv(c)
	for _, sp := range specs {
		sites := 0
		var only *regexp.Regexp
		if sp.OnlyIn != "" {
			only = regexp.MustCompile(sp.OnlyIn)
		}
		for _, fn := range p.Funcs {
			if only != nil && !only.MatchString(core.FuncName(fn)) {
				continue
			}
			for _, bc := range core.BuilderChains(fn) {
				if bc.Builder != sp.Builder {
					continue
				}
				sites++
				st.Instances++
				c.MarkAnalysed(fn)
				bases := map[string]string{}
				for _, setter := range sortedKeys(sp.Require) {
					re := regexp.MustCompile(sp.Require[setter])
					args, ok := bc.Setters[setter]
					if !ok || len(args) == 0 {
						st.Ob(false)
						c.ReportAt(rule, fn, bc.Build.Pos(), sp.Builder+"."+setter, fmt.Sprintf("%s built without %s: the field is not carried over", sp.Builder, setter))
						continue
					}
					pv := prov.Of(args[0])
					loc := re.FindStringIndex(pv)
					if loc == nil {
						// the same expression with commutative operands exchanged
						for _, v := range core.ProvVariants(pv) {
							if l2 := re.FindStringIndex(v); l2 != nil {
								pv, loc = v, l2
								break
							}
						}
					}
					ok2 := loc != nil
					st.Ob(ok2)
					if !ok2 {
						c.ReportAt(rule, fn, bc.Build.Pos(), sp.Builder+"."+setter, fmt.Sprintf("%s(%s): argument does not come from the required source /%s/", setter, pv, sp.Require[setter]))
					} else {
						bases[setter] = pv[:loc[0]]
						st.Sample("%s: %s.%s(%s)", core.FuncName(fn), sp.Builder, setter, pv)
					}
				}
				var first string
				for i, s := range sp.SameBase {
					b, ok := bases[s]
					if !ok {
						continue
					}
					if i == 0 || first == "" {
						first = b
						continue
					}
					st.Ob(b == first)
					if b != first {
						c.ReportAt(rule, fn, bc.Build.Pos(), sp.Builder+"."+s+":base", fmt.Sprintf("%s is taken from %q but %s from %q: fields of different messages are mixed", s, b, sp.SameBase[0], first))
					}
				}
			}
		}
		if sites < sp.MinSites {
			c.Report(core.Finding{Rule: rule, Kind: "floor", Pkg: p.Rel, Func: "-", Detail: sp.Builder,
				Msg: fmt.Sprintf("%d build sites of %s found, expected at least %d", sites, sp.Builder, sp.MinSites)})
		}
	}
}

// WhoMay checks that every instruction matching pred lives in a function whose
// name is in allow. Returns the number of matching sites.
func (p *PkgInfo) WhoMay(rule, what string, pred func(in ssa.Instruction) bool, allow ...string) int {
	st := p.c.Rule(rule, "", 0)
	set := map[string]bool{}
	for _, a := range allow {
		set[a] = true
	}
	n := 0
	p.Instrs(func(fn *ssa.Function, in ssa.Instruction) {
		if !pred(in) {
			return
		}
		n++
		st.Instances++
		name := core.FuncName(fn)
		ok := set[name]
		st.Ob(ok)
		if !ok {
			p.c.ReportAt(rule, fn, in.Pos(), what, fmt.Sprintf("%s outside the functions that own it (%s)", what, strings.Join(allow, ", ")))
		} else {
			st.Sample("%s: %s", name, what)
		}
	})
	return n
}

func namedTypeName(t types.Type) string {
	if p, ok := t.(*types.Pointer); ok {
		t = p.Elem()
	}
	if n, ok := t.(*types.Named); ok {
		if n.Obj().Pkg() != nil {
			return n.Obj().Pkg().Name() + "." + n.Obj().Name()
		}
		return n.Obj().Name()
	}
	return t.String()
}

func typesExprString(e ast.Expr) string { return types.ExprString(e) }

func stmtStr(s ast.Stmt) string {
	var buf bytes.Buffer
	printer.Fprint(&buf, token.NewFileSet(), s)
	return buf.String()
}

// boolCutAny: both edges of an If whose condition (under negations) matches:
// Guarded with this cut asks whether such a test dominates the target.
func boolCutAny(match func(n *core.Node, v ssa.Value) bool) EdgeCut {
	return func(n *core.Node, i int) bool {
		ifi, ok := n.Instr.(*ssa.If)
		if !ok {
			return false
		}
		v, _ := stripNot(ifi.Cond)
		return match(n, v)
	}
}

// mirrorCmp: the operator of the same comparison with its operands exchanged.
func mirrorCmp(op token.Token) token.Token {
	switch op {
	case token.LSS:
		return token.GTR
	case token.GTR:
		return token.LSS
	case token.LEQ:
		return token.GEQ
	case token.GEQ:
		return token.LEQ
	}
	return op
}

// cmpConstRight returns a comparison with a constant operand on the right: `0 < x` is
// delivered as (>, x, 0). Rules that read a comparison against a constant use it so
// that the operand order chosen by the author does not matter.
func cmpConstRight(bo *ssa.BinOp) (token.Token, ssa.Value, ssa.Value) {
	if _, xc := bo.X.(*ssa.Const); xc {
		if _, yc := bo.Y.(*ssa.Const); !yc {
			return mirrorCmp(bo.Op), bo.Y, bo.X
		}
	}
	return bo.Op, bo.X, bo.Y
}

// reachesBlock: `to` is reachable from `from` in the function's control-flow graph.
func reachesBlock(from, to *ssa.BasicBlock) bool {
	seen := map[*ssa.BasicBlock]bool{}
	var walk func(b *ssa.BasicBlock) bool
	walk = func(b *ssa.BasicBlock) bool {
		if b == to {
			return true
		}
		if seen[b] {
			return false
		}
		seen[b] = true
		for _, s := range b.Succs {
			if walk(s) {
				return true
			}
		}
		return false
	}
	return walk(from)
}

// predicateBody: v is a call of a side-effect-free one-expression helper of the
// repository (`func (d *T) busy() bool { return d.n > 0 }`, a single block that
// only loads and computes); the result is the returned expression, in the
// helper's own SSA values. Field-based matchers work on it unchanged.
func predicateBody(v ssa.Value) (ssa.Value, bool) {
	call, ok := v.(*ssa.Call)
	if !ok {
		return nil, false
	}
	cal := call.Call.StaticCallee()
	if cal == nil || len(cal.Blocks) != 1 || cal.Pkg == nil {
		return nil, false
	}
	if call.Parent() == nil || call.Parent().Pkg == nil || cal.Pkg.Pkg.Path() != call.Parent().Pkg.Pkg.Path() {
		return nil, false
	}
	var ret *ssa.Return
	for _, in := range cal.Blocks[0].Instrs {
		switch x := in.(type) {
		case *ssa.FieldAddr, *ssa.Field, *ssa.IndexAddr, *ssa.Index, *ssa.BinOp, *ssa.Convert, *ssa.ChangeType, *ssa.DebugRef:
		case *ssa.UnOp:
			if x.Op == token.ARROW {
				return nil, false
			}
		case *ssa.Lookup:
		case *ssa.MakeInterface:
		case *ssa.Call:
			if b, isB := x.Call.Value.(*ssa.Builtin); isB && (b.Name() == "len" || b.Name() == "cap") {
				continue
			}
			// encoding/binary.Size only inspects its argument
			if f := core.CalleeFunc(x); f != nil && f.Pkg() != nil && f.Pkg().Path() == "encoding/binary" && f.Name() == "Size" {
				continue
			}
			return nil, false
		case *ssa.Return:
			ret = x
		default:
			return nil, false
		}
	}
	if ret == nil || len(ret.Results) != 1 {
		return nil, false
	}
	return ret.Results[0], true
}

// formatArms resolves a dispatch on Inst.FormatType (or Format.FormatType): for every
// FormatType constant of the insts package, the functions of root's package that the
// arm of that format can call, transitively. Branches on the format are decided with
// opReach, every other branch is explored.
func formatArms(c *core.Ctx, root *ssa.Function) map[string]map[*ssa.Function]bool {
	out := map[string]map[*ssa.Function]bool{}
	ip := c.SSAPkg(instsPkg)
	if root == nil || ip == nil {
		return out
	}
	isFmt := isLoadOfField("FormatType")
	scope := ip.Pkg.Scope()
	for _, n := range scope.Names() {
		k, ok := scope.Lookup(n).(*types.Const)
		if !ok || namedTypeName(k.Type()) != "insts.FormatType" {
			continue
		}
		v, exact := constant.Int64Val(k.Val())
		if !exact {
			continue
		}
		set := map[*ssa.Function]bool{}
		var add func(fn *ssa.Function)
		add = func(fn *ssa.Function) {
			if fn == nil || fn.Pkg != root.Pkg || set[fn] {
				return
			}
			set[fn] = true
			for _, b := range fn.Blocks {
				for _, in := range b.Instrs {
					if cc := core.CallOf(in); cc != nil {
						add(cc.StaticCallee())
					}
				}
			}
		}
		for _, b := range opReach(root, isFmt, v) {
			for _, in := range b.Instrs {
				if cc := core.CallOf(in); cc != nil {
					add(cc.StaticCallee())
				}
			}
		}
		out[n] = set
	}
	return out
}

// condField: the struct field a branch condition loads, through negations and
// one-expression predicate helpers (`if d.busy()` with `busy() bool { return d.flag }`).
// The polarity is not reported: callers that need it use BoolFieldCut.
func condField(v ssa.Value) *types.Var {
	for i := 0; i < 4; i++ {
		v, _ = stripNot(v)
		if f := core.LoadedField(v); f != nil {
			return f
		}
		body, ok := predicateBody(v)
		if !ok {
			return nil
		}
		v = body
	}
	return nil
}

// provThroughFrames: the provenance of a value at a node of an expanded graph; a value
// that is a parameter of an expanded helper is replaced by the argument at the helper's
// call site (repeatedly, up to the root function).
func provThroughFrames(prov *core.Prov, n *core.Node, v ssa.Value) string {
	fr := n.Frame
	for fr != nil && fr.Parent != nil && fr.CallSite != nil {
		prm, isP := core.StripConv(v).(*ssa.Parameter)
		if !isP {
			break
		}
		idx := -1
		for i, q := range fr.Fn.Params {
			if q == prm {
				idx = i
			}
		}
		call, isCall := fr.CallSite.Instr.(*ssa.Call)
		if idx < 0 || !isCall || idx >= len(call.Call.Args) {
			break
		}
		v = call.Call.Args[idx]
		fr = fr.Parent
	}
	return prov.Of(v)
}

// checkRetrievedThenGivenUp: in the tick handlers of a package (functions with a single bool
// result), no `return false` is reachable after a message was taken off a port with
// RetrieveIncoming (helpers of the package expanded, results of expanded calls followed;
// the edge on which the retrieved value was found nil does not count). Returns the
// number of retrieval sites examined.
func checkRetrievedThenGivenUp(c *core.Ctx, st *core.RuleStat, rule string, pi *PkgInfo, what string) {
	for _, fn := range pi.Funcs {
		if fn.Signature.Results().Len() != 1 {
			continue
		}
		if bt, ok := fn.Signature.Results().At(0).Type().Underlying().(*types.Basic); !ok || bt.Kind() != types.Bool {
			continue
		}
		var g *core.Graph
		for _, b := range fn.Blocks {
			for _, in := range b.Instrs {
				cc := core.CallOf(in)
				if cc == nil || !cc.IsInvoke() || cc.Method.Name() != "RetrieveIncoming" {
					continue
				}
				if g == nil {
					g = core.BuildGraph(fn, 2, func(cal *ssa.Function) bool { return cal.Pkg == fn.Pkg })
				}
				n := g.NodeOf(in)
				if n == nil {
					continue
				}
				st.Instances++
				c.MarkAnalysed(fn)
				retrieved, _ := in.(ssa.Value)
				empty := NilCut(func(v ssa.Value) bool { return retrieved != nil && v == retrieved }, true)
				var bad *core.Node
				g.Walk(core.After(n, nil), core.WalkOpts{ForwardOnly: true, CutEdge: func(m *core.Node, i int) bool { return empty(m, i) }}, func(x core.State) {
					r, ok := x.N.Instr.(*ssa.Return)
					if !ok || x.N.Frame.Parent != nil || len(r.Results) != 1 || bad != nil {
						return
					}
					if core.EvalFact(x.N, r.Results[0], x.F) < 0 {
						bad = x.N
					}
				})
				st.Ob(bad == nil)
				if bad != nil {
					c.ReportAt(rule, fn, in.Pos(), "retrieved-then-given-up:"+core.FuncName(fn), core.FuncName(fn)+" takes the message off its port and can then return false: "+what)
				}
			}
		}
	}
}

// checkPeekedHandledConsumed: a handler that looks at the head of a port (PeekIncoming), acts on
// it and reports progress has taken it off the port: from the peek (message present) no path
// reaches `return true` of the peeking function without RetrieveIncoming on the same port. A
// message that is handled but left at the head is handled again on the next tick.
func checkPeekedHandledConsumed(c *core.Ctx, st *core.RuleStat, rule string, pi *PkgInfo, what string) {
	for _, fn := range pi.Funcs {
		if fn.Signature.Results().Len() != 1 {
			continue
		}
		if bt, ok := fn.Signature.Results().At(0).Type().Underlying().(*types.Basic); !ok || bt.Kind() != types.Bool {
			continue
		}
		var g *core.Graph
		for _, b := range fn.Blocks {
			for _, in := range b.Instrs {
				cc := core.CallOf(in)
				if cc == nil || !cc.IsInvoke() || cc.Method.Name() != "PeekIncoming" {
					continue
				}
				port := portOfCall(in)
				if g == nil {
					g = core.BuildGraph(fn, 3, func(cal *ssa.Function) bool { return cal.Pkg == fn.Pkg })
				}
				n := g.NodeOf(in)
				if n == nil {
					continue
				}
				st.Instances++
				c.MarkAnalysed(fn)
				peeked, _ := in.(ssa.Value)
				empty := NilCut(func(v ssa.Value) bool { return peeked != nil && v == peeked }, true)
				var bad *core.Node
				okW := g.Walk(core.After(n, nil), core.WalkOpts{ForwardOnly: true,
					CutEdge: func(m *core.Node, i int) bool { return empty(m, i) },
					Stop: func(m *core.Node) bool {
						rc := core.CallOf(m.Instr)
						return rc != nil && rc.IsInvoke() && rc.Method.Name() == "RetrieveIncoming" && portOfCall(m.Instr) == port
					}}, func(x core.State) {
					r, ok := x.N.Instr.(*ssa.Return)
					if !ok || x.N.Frame.Parent != nil || len(r.Results) != 1 || bad != nil {
						return
					}
					if core.EvalFact(x.N, r.Results[0], x.F) > 0 {
						bad = x.N
					}
				})
				st.Ob(bad == nil && okW)
				st.Sample("%s: a message peeked on %s is retrieved on every path that reports progress: %v", core.FuncName(fn), port, bad == nil)
				if !okW {
					c.Undecided(rule, fn, in.Pos(), "peeked-handled:"+core.FuncName(fn), "state cap reached")
				} else if bad != nil {
					c.ReportAt(rule, fn, in.Pos(), "handled-not-consumed:"+port+":"+core.FuncName(fn), core.FuncName(fn)+" looks at the head of "+port+", handles it and reports progress ("+c.Position(bad.Instr.Pos())+") on a path without RetrieveIncoming on "+port+": "+what)
				}
			}
		}
	}
}

// checkSliceRemovalIdiom: taking element i out of a slice is append(s[:i], s[i+1:]...) or
// copy(s[i:], s[i+1:]) followed by cutting the slice by one. For every append / copy whose two
// arguments are windows of the same slice (same local value, or the same field of the same
// object) the rule requires that the second window starts exactly one element after the first
// one ends (append) resp. starts (copy): any other pairing keeps the element that was to be
// removed and drops or duplicates a neighbour.
func checkSliceRemovalIdiom(c *core.Ctx, st *core.RuleStat, rule string, pi *PkgInfo, what string) {
	sameSrc := func(a, b ssa.Value) bool {
		if a == b {
			return true
		}
		fa, fb := core.LoadedField(a), core.LoadedField(b)
		if fa == nil || fa != fb {
			return false
		}
		la, ok1 := a.(*ssa.UnOp)
		lb, ok2 := b.(*ssa.UnOp)
		if !ok1 || !ok2 {
			return false
		}
		xa, ok1 := la.X.(*ssa.FieldAddr)
		xb, ok2 := lb.X.(*ssa.FieldAddr)
		return ok1 && ok2 && (xa.X == xb.X || core.LoadedField(xa.X) != nil && core.LoadedField(xa.X) == core.LoadedField(xb.X))
	}
	plusOne := func(j, i ssa.Value) bool {
		if j == nil {
			return false
		}
		bo, ok := j.(*ssa.BinOp)
		if !ok || bo.Op != token.ADD {
			return false
		}
		isOne := func(v ssa.Value) bool { k, ok := core.ConstInt(v); return ok && k == 1 }
		if i == nil {
			return false
		}
		return (bo.X == i && isOne(bo.Y)) || (bo.Y == i && isOne(bo.X))
	}
	zeroOrNil := func(v ssa.Value) bool {
		if v == nil {
			return true
		}
		k, ok := core.ConstInt(v)
		return ok && k == 0
	}
	for _, fn := range pi.Funcs {
		truncated := func(src ssa.Value) bool {
			for _, b := range fn.Blocks {
				for _, in := range b.Instrs {
					sl, ok := in.(*ssa.Slice)
					if ok && sl.High != nil && zeroOrNil(sl.Low) && sameSrc(sl.X, src) {
						if _, isAppendArg := sl.High.(*ssa.BinOp); isAppendArg || true {
							// a cut: s = s[:n] stored back or used as the new slice
							if sl.Referrers() != nil {
								for _, r := range *sl.Referrers() {
									if _, isStore := r.(*ssa.Store); isStore {
										return true
									}
								}
							}
						}
					}
				}
			}
			return false
		}
		for _, b := range fn.Blocks {
			for _, in := range b.Instrs {
				call, ok := in.(*ssa.Call)
				if !ok {
					continue
				}
				bi, ok := call.Call.Value.(*ssa.Builtin)
				if !ok || len(call.Call.Args) != 2 {
					continue
				}
				a0, ok0 := call.Call.Args[0].(*ssa.Slice)
				a1, ok1 := call.Call.Args[1].(*ssa.Slice)
				if !ok0 || !ok1 || !sameSrc(a0.X, a1.X) {
					continue
				}
				switch bi.Name() {
				case "append":
					if !zeroOrNil(a0.Low) || a0.High == nil || a1.High != nil {
						continue
					}
					st.Instances++
					c.MarkAnalysed(fn)
					ok := plusOne(a1.Low, a0.High)
					st.Ob(ok)
					st.Sample("%s: append(s[:i], s[i+1:]...) removes exactly element i: %v", core.FuncName(fn), ok)
					if !ok {
						c.ReportAt(rule, fn, call.Pos(), "slice-removal:append:"+core.FuncName(fn), core.FuncName(fn)+" rebuilds a slice from the window that ends at one index and a window that does not start at the next one: "+what)
					}
				case "copy":
					if a0.High != nil || a1.High != nil {
						continue
					}
					left := plusOne(a1.Low, a0.Low)  // copy(s[i:], s[i+1:])
					right := plusOne(a0.Low, a1.Low) // copy(s[i+1:], s[i:])
					if !left && !right {
						continue
					}
					st.Instances++
					c.MarkAnalysed(fn)
					cut := truncated(a0.X)
					ok := left == cut
					st.Ob(ok)
					st.Sample("%s: in-place copy shifts down: %v, slice cut afterwards: %v", core.FuncName(fn), left, cut)
					if !ok && right {
						c.ReportAt(rule, fn, call.Pos(), "slice-removal:copy-shifts-up:"+core.FuncName(fn), core.FuncName(fn)+" copies s[i:] onto s[i+1:] (a shift up, as for an insertion) and then cuts the slice by one: element i stays, its neighbour is overwritten with it and the last element is lost: "+what)
					} else if !ok {
						c.ReportAt(rule, fn, call.Pos(), "slice-removal:copy-without-cut:"+core.FuncName(fn), core.FuncName(fn)+" shifts the tail of a slice down by one but does not cut the slice: the last element is kept twice: "+what)
					}
				}
			}
		}
	}
}

// checkDrainLoops: a flush empties every port it drains. A drain loop is a loop that does nothing
// but take messages off a port (`for p.RetrieveIncoming() != nil {}`); it stops when that port is
// empty. The rule requires that a drain loop serves one port only and that each of its exits lies
// on the edge on which the retrieved message is nil: a loop over two ports joined by && stops as
// soon as either is empty and leaves the rest of the other in place, so requests that were handed
// over before the flush are served after it.
func checkDrainLoops(c *core.Ctx, st *core.RuleStat, rule string, pi *PkgInfo, what string) {
	for _, fn := range pi.Funcs {
		for _, b := range fn.Blocks {
			for _, h := range b.Succs {
				if !h.Dominates(b) {
					continue
				}
				// natural loop of the back edge b -> h
				loop := map[*ssa.BasicBlock]bool{h: true}
				stack := []*ssa.BasicBlock{b}
				for len(stack) > 0 {
					x := stack[len(stack)-1]
					stack = stack[:len(stack)-1]
					if loop[x] {
						continue
					}
					loop[x] = true
					stack = append(stack, x.Preds...)
				}
				var retrieves []*ssa.Call
				pure := true
				for blk := range loop {
					for _, in := range blk.Instrs {
						switch x := in.(type) {
						case *ssa.Call:
							if x.Call.IsInvoke() && x.Call.Method.Name() == "RetrieveIncoming" {
								retrieves = append(retrieves, x)
							} else {
								pure = false
							}
						case *ssa.If, *ssa.Jump, *ssa.BinOp, *ssa.UnOp, *ssa.Phi, *ssa.FieldAddr, *ssa.DebugRef, *ssa.ChangeInterface, *ssa.MakeInterface:
						default:
							pure = false
						}
					}
				}
				if !pure || len(retrieves) == 0 {
					continue
				}
				// one loop per back edge target: report once per header
				if b != lastBackEdgeSource(h, loop) {
					continue
				}
				st.Instances++
				c.MarkAnalysed(fn)
				ports := map[string]bool{}
				for _, r := range retrieves {
					ports[portOfCall(r)] = true
				}
				ok := len(ports) == 1
				// every exit of the loop is decided by a nil test of a retrieved message
				for blk := range loop {
					iff, isIf := blk.Instrs[len(blk.Instrs)-1].(*ssa.If)
					leaves := false
					for _, s := range blk.Succs {
						if !loop[s] {
							leaves = true
						}
					}
					if !leaves {
						continue
					}
					if !isIf {
						ok = false
						continue
					}
					cmp, isCmp := iff.Cond.(*ssa.BinOp)
					if !isCmp || (cmp.Op != token.NEQ && cmp.Op != token.EQL) {
						ok = false
						continue
					}
					isRet := false
					for _, r := range retrieves {
						if (cmp.X == ssa.Value(r) && core.IsNilConst(cmp.Y)) || (cmp.Y == ssa.Value(r) && core.IsNilConst(cmp.X)) {
							isRet = true
						}
					}
					if !isRet {
						ok = false
					}
				}
				st.Ob(ok)
				st.Sample("%s: a drain loop takes messages off %v until that port is empty: %v", core.FuncName(fn), sortedKeys(ports), ok)
				if !ok {
					c.ReportAt(rule, fn, retrieves[0].Pos(), "drain-loop:"+core.FuncName(fn), core.FuncName(fn)+" drains "+strings.Join(sortedKeys(ports), " and ")+" in one loop (or leaves the loop for another reason than an empty port): the loop ends as soon as one port is empty and the other keeps its messages: "+what)
				}
			}
		}
	}
}

// lastBackEdgeSource: a deterministic representative among the back-edge sources of a loop header.
func lastBackEdgeSource(h *ssa.BasicBlock, loop map[*ssa.BasicBlock]bool) *ssa.BasicBlock {
	var best *ssa.BasicBlock
	for _, p := range h.Preds {
		if loop[p] && h.Dominates(p) {
			if best == nil || p.Index > best.Index {
				best = p
			}
		}
	}
	return best
}

// checkCountdownExpiry: a countdown that is decremented on every tick, whatever its value, passes
// zero when the action it releases has to wait (the pipeline is busy in the cycle of expiry). Its
// expiry test therefore has to be an ordering test (<= 0): with == 0 the item that could not be
// released in the cycle it reached zero is at -1 one tick later and never expires. A decrement that
// is itself guarded by `counter > 0` stops at zero, and there an equality test is fine.
func checkCountdownExpiry(c *core.Ctx, st *core.RuleStat, rule string, pi *PkgInfo, what string) {
	for _, fn := range pi.Funcs {
		var g *core.Graph
		for _, b := range fn.Blocks {
			for _, in := range b.Instrs {
				sto, ok := in.(*ssa.Store)
				if !ok {
					continue
				}
				f := core.FieldOfAddr(sto.Addr)
				sub, isSub := sto.Val.(*ssa.BinOp)
				if f == nil || !isSub || sub.Op != token.SUB || core.LoadedField(sub.X) != f {
					continue
				}
				if k, isC := core.ConstInt(sub.Y); !isC || k != 1 {
					continue
				}
				// equality tests of the counter against 0 in this function
				var eqTests []*ssa.BinOp
				for _, b2 := range fn.Blocks {
					for _, in2 := range b2.Instrs {
						cmp, ok := in2.(*ssa.BinOp)
						if !ok || (cmp.Op != token.EQL && cmp.Op != token.NEQ) {
							continue
						}
						for _, pr := range [][2]ssa.Value{{cmp.X, cmp.Y}, {cmp.Y, cmp.X}} {
							if z, isC := core.ConstInt(pr[1]); isC && z == 0 && (core.LoadedField(pr[0]) == f || pr[0] == ssa.Value(sub)) {
								eqTests = append(eqTests, cmp)
							}
						}
					}
				}
				st.Instances++
				c.MarkAnalysed(fn)
				if g == nil {
					g = core.BuildGraph(fn, 0, nil)
				}
				guarded := false
				if n := g.NodeOf(sto); n != nil {
					guarded = g.Guarded(n, CmpCut(func(_ *core.Node, op token.Token, x, y ssa.Value) int {
						if core.LoadedField(x) != f {
							return 0
						}
						k, isC := core.ConstInt(y)
						if !isC {
							return 0
						}
						switch {
						case op == token.GTR && k >= 0, op == token.GEQ && k >= 1:
							return 1
						case op == token.LEQ && k >= 0, op == token.LSS && k >= 1:
							return -1
						}
						return 0
					}))
				}
				ok = guarded || len(eqTests) == 0
				st.Ob(ok)
				st.Sample("%s: %s-- (decrement guarded by > 0: %v), equality tests against 0: %d", core.FuncName(fn), f.Name(), guarded, len(eqTests))
				if !ok {
					c.ReportAt(rule, fn, eqTests[0].Pos(), "countdown-equality:"+f.Name(), core.FuncName(fn)+" decrements "+f.Name()+" on every pass, whatever its value, and tests it for expiry with "+eqTests[0].Op.String()+" 0: an item that cannot be released in the very cycle its counter reaches 0 is at -1 on the next pass and never expires: "+what)
				}
			}
		}
	}
}

// checkProgressAccumulated: a tick reports progress when any of its steps made progress. Where a
// function with a bool result collects that answer in a loop (over contexts, ports, banks,
// queues), the collected value must not forget earlier iterations: the value carried around the
// loop (the phi at the loop header that reaches the return) is, on the back edge, derived from
// itself (p = step() || p). A plain assignment p = step() keeps only the last iteration's answer:
// the component reports no progress, is not ticked again, and work that an earlier iteration
// started (requests queued for sending) is never continued.
func checkProgressAccumulated(c *core.Ctx, st *core.RuleStat, rule string, pi *PkgInfo, what string) {
	for _, fn := range pi.Funcs {
		res := fn.Signature.Results()
		if res.Len() < 1 {
			continue
		}
		if bt, ok := res.At(0).Type().Underlying().(*types.Basic); !ok || bt.Kind() != types.Bool {
			continue
		}
		for _, b := range fn.Blocks {
			for _, in := range b.Instrs {
				phi, ok := in.(*ssa.Phi)
				if !ok {
					break
				}
				if bt, ok := phi.Type().Underlying().(*types.Basic); !ok || bt.Kind() != types.Bool {
					continue
				}
				// a loop header phi: some edge comes from a block the header dominates
				var back []ssa.Value
				for i, p := range b.Preds {
					if b.Dominates(p) {
						back = append(back, phi.Edges[i])
					}
				}
				if len(back) == 0 {
					continue
				}
				// does the phi reach the return value?
				reachesReturn := false
				seen := map[ssa.Value]bool{}
				var fwd func(v ssa.Value, d int)
				fwd = func(v ssa.Value, d int) {
					if seen[v] || d > 8 || v.Referrers() == nil {
						return
					}
					seen[v] = true
					for _, r := range *v.Referrers() {
						switch x := r.(type) {
						case *ssa.Return:
							reachesReturn = true
						case *ssa.Phi:
							fwd(x, d+1)
						case *ssa.BinOp:
							fwd(x, d+1)
						case *ssa.UnOp:
							fwd(x, d+1)
						case *ssa.Store:
							// a result spilled to a local (functions with defer)
							if al, ok := x.Addr.(*ssa.Alloc); ok && al.Referrers() != nil {
								for _, rr := range *al.Referrers() {
									if ld, ok := rr.(*ssa.UnOp); ok && ld.Op == token.MUL {
										fwd(ld, d+1)
									}
								}
							}
						}
					}
				}
				fwd(phi, 0)
				if !reachesReturn {
					continue
				}
				st.Instances++
				c.MarkAnalysed(fn)
				ok = true
				for _, v := range back {
					dseen := map[ssa.Value]bool{}
					var dep func(v ssa.Value, d int) bool
					dep = func(v ssa.Value, d int) bool {
						if v == ssa.Value(phi) {
							return true
						}
						if dseen[v] || d > 10 {
							return false
						}
						dseen[v] = true
						switch x := v.(type) {
						case *ssa.Phi:
							for _, e := range x.Edges {
								if dep(e, d+1) {
									return true
								}
							}
						case *ssa.BinOp:
							return dep(x.X, d+1) || dep(x.Y, d+1)
						case *ssa.UnOp:
							return dep(x.X, d+1)
						}
						return false
					}
					// acceptable back-edge values: derived from the carried value, the constant true,
					// merges of acceptable values, and a short-circuit p || step() / step() || p, whose
					// phi has the constant on the edge of the operand that was true
					var good func(v ssa.Value, d int) bool
					good = func(v ssa.Value, d int) bool {
						if d > 8 {
							return false
						}
						if k, isC := v.(*ssa.Const); isC && k.Value != nil && k.Value.Kind() == constant.Bool && constant.BoolVal(k.Value) {
							return true
						}
						if dep(v, 0) {
							return true
						}
						x, isPhi := v.(*ssa.Phi)
						if !isPhi {
							return false
						}
						if x.Comment == "||" {
							for i, e := range x.Edges {
								if _, isC := e.(*ssa.Const); isC {
									pred := x.Block().Preds[i]
									if iff, ok := pred.Instrs[len(pred.Instrs)-1].(*ssa.If); ok && dep(iff.Cond, 0) {
										return true
									}
								} else if good(e, d+1) {
									return true
								}
							}
							return false
						}
						for _, e := range x.Edges {
							if !good(e, d+1) {
								return false
							}
						}
						return true
					}
					if !good(v, 0) {
						ok = false
					}
				}
				st.Ob(ok)
				name := phi.Comment
				if name == "" {
					name = phi.Name()
				}
				st.Sample("%s: the answer collected in %s keeps earlier iterations: %v", core.FuncName(fn), name, ok)
				if !ok {
					c.ReportAt(rule, fn, phi.Pos(), "progress-overwritten:"+core.FuncName(fn)+":"+name, core.FuncName(fn)+" assigns "+name+" anew in every iteration of a loop and returns it: only the last iteration's answer survives. "+what)
				}
			}
		}
	}
}

// checkStepResultsCount: a step that did something counts as progress. In a function with a bool
// result, the result of every call to a step of the same package that can consume or send a
// message (a bool-returning function that reaches RetrieveIncoming or Send) flows into the value
// the caller returns: as data, or through the short circuit `p = step() || p` (on the edge on which
// the step returned true a phi that reaches the return gets the constant true). A step whose result
// only steers a loop (`if !step() { break }`) can consume a message while the tick reports no
// progress: the component goes to sleep with the rest of its input unread.
func checkStepResultsCount(c *core.Ctx, st *core.RuleStat, rule string, pi *PkgInfo, what string) {
	effectful := map[*ssa.Function]bool{}
	for changed := true; changed; {
		changed = false
		for _, fn := range pi.Funcs {
			if effectful[fn] {
				continue
			}
			for _, b := range fn.Blocks {
				for _, in := range b.Instrs {
					cc := core.CallOf(in)
					if cc == nil {
						continue
					}
					if cc.IsInvoke() && (cc.Method.Name() == "RetrieveIncoming" || cc.Method.Name() == "Send") {
						effectful[fn], changed = true, true
					}
					if cal := cc.StaticCallee(); cal != nil && effectful[cal] && !effectful[fn] {
						effectful[fn], changed = true, true
					}
				}
			}
		}
	}
	isBoolFn := func(fn *ssa.Function) bool {
		res := fn.Signature.Results()
		if res.Len() != 1 {
			return false
		}
		bt, ok := res.At(0).Type().Underlying().(*types.Basic)
		return ok && bt.Kind() == types.Bool
	}
	for _, fn := range pi.Funcs {
		if !isBoolFn(fn) {
			continue
		}
		reachesReturn := func(v ssa.Value) bool {
			seen := map[ssa.Value]bool{}
			found := false
			var fwd func(v ssa.Value, d int)
			fwd = func(v ssa.Value, d int) {
				if seen[v] || d > 10 || found || v.Referrers() == nil {
					return
				}
				seen[v] = true
				for _, r := range *v.Referrers() {
					switch x := r.(type) {
					case *ssa.Return:
						found = true
					case *ssa.Phi:
						fwd(x, d+1)
					case *ssa.BinOp:
						fwd(x, d+1)
					case *ssa.Store:
						if al, ok := x.Addr.(*ssa.Alloc); ok && al.Referrers() != nil {
							for _, rr := range *al.Referrers() {
								if ld, ok := rr.(*ssa.UnOp); ok && ld.Op == token.MUL {
									fwd(ld, d+1)
								}
							}
						}
					}
				}
			}
			fwd(v, 0)
			return found
		}
		for _, b := range fn.Blocks {
			for _, in := range b.Instrs {
				call, ok := in.(*ssa.Call)
				if !ok {
					continue
				}
				cal := call.Call.StaticCallee()
				if cal == nil || cal.Pkg != fn.Pkg || !isBoolFn(cal) || !effectful[cal] || call.Referrers() == nil {
					continue
				}
				st.Instances++
				c.MarkAnalysed(fn)
				counted := false
				var visit func(v ssa.Value, neg bool, d int)
				visit = func(v ssa.Value, neg bool, d int) {
					if d > 4 || counted || v.Referrers() == nil {
						return
					}
					for _, r := range *v.Referrers() {
						switch x := r.(type) {
						case *ssa.Return:
							if !neg {
								counted = true
							}
						case *ssa.BinOp:
							if reachesReturn(x) {
								counted = true
							}
						case *ssa.Phi:
							if reachesReturn(x) {
								counted = true
							}
						case *ssa.Store:
							counted = true
						case *ssa.UnOp:
							if x.Op == token.NOT {
								visit(x, !neg, d+1)
							}
						case *ssa.If:
							// the edge taken when the step returned true
							succ := x.Block().Succs[0]
							if neg {
								succ = x.Block().Succs[1]
							}
							for _, pin := range succ.Instrs {
								phi, ok := pin.(*ssa.Phi)
								if !ok {
									break
								}
								for i, p := range succ.Preds {
									if p == x.Block() {
										if k, isC := phi.Edges[i].(*ssa.Const); isC && k.Value != nil && k.Value.Kind() == constant.Bool && constant.BoolVal(k.Value) && (reachesReturn(phi)) {
											counted = true
										}
									}
								}
							}
							// `if step() { progress = true }`: a store / phi further down is not followed;
							// a return true on that edge counts
							for _, sin := range succ.Instrs {
								if ret, ok := sin.(*ssa.Return); ok && len(ret.Results) == 1 {
									if k, isC := ret.Results[0].(*ssa.Const); isC && k.Value != nil && constant.BoolVal(k.Value) {
										counted = true
									}
								}
							}
							// every path from that edge returns true (`if !step() { return false }; ...; return true`)
							if !counted {
								g := core.BuildGraph(fn, 0, nil)
								if ifn := g.NodeOf(x); ifn != nil {
									idx := 0
									if neg {
										idx = 1
									}
									if idx < len(ifn.Succs) {
										allTrue, some := true, false
										okW := g.Walk([]core.State{{N: ifn.Succs[idx], F: core.FactFor(ifn, call, 1)}}, core.WalkOpts{ForwardOnly: true}, func(y core.State) {
											ret, isRet := y.N.Instr.(*ssa.Return)
											if !isRet || len(ret.Results) != 1 {
												return
											}
											some = true
											if core.EvalFact(y.N, ret.Results[0], y.F) <= 0 {
												allTrue = false
											}
										})
										if okW && some && allTrue {
											counted = true
										}
									}
								}
							}
							// a block that only merges into a phi with true
							if len(succ.Instrs) == 1 && len(succ.Succs) == 1 {
								nxt := succ.Succs[0]
								for _, pin := range nxt.Instrs {
									phi, ok := pin.(*ssa.Phi)
									if !ok {
										break
									}
									for i, p := range nxt.Preds {
										if p == succ {
											if k, isC := phi.Edges[i].(*ssa.Const); isC && k.Value != nil && k.Value.Kind() == constant.Bool && constant.BoolVal(k.Value) && reachesReturn(phi) {
												counted = true
											}
										}
									}
								}
							}
						}
					}
				}
				visit(call, false, 0)
				st.Ob(counted)
				st.Sample("%s: the result of %s counts as progress: %v", core.FuncName(fn), cal.Name(), counted)
				if !counted {
					c.ReportAt(rule, fn, call.Pos(), "step-result-dropped:"+core.FuncName(fn)+":"+cal.Name(), core.FuncName(fn)+" calls "+cal.Name()+", which can consume or send a message, and does not let its result count towards the progress it returns: "+what)
				}
			}
		}
	}
}

// checkNoStoreBeforeRefusal: a handler that only looked at the head of its port (PeekIncoming in
// its caller) and returns false leaves the message where it is and is offered the same message
// again; it must not have changed the component's state on that path. In every function with a
// bool result that receives a message or command as a parameter, no store to a field of the
// receiver is followed by a `return false` - a request that is refused because an earlier one is
// still running must not overwrite the parameters of the running one.
func checkNoStoreBeforeRefusal(c *core.Ctx, st *core.RuleStat, rule string, pi *PkgInfo, onlyRecv string, what string) {
	for _, fn := range pi.Funcs {
		res := fn.Signature.Results()
		if res.Len() != 1 || fn.Signature.Recv() == nil || len(fn.Params) < 2 {
			continue
		}
		if bt, ok := res.At(0).Type().Underlying().(*types.Basic); !ok || bt.Kind() != types.Bool {
			continue
		}
		if onlyRecv != "" && !strings.HasSuffix(namedTypeName(fn.Signature.Recv().Type()), onlyRecv) {
			continue
		}
		// a message / command parameter: a pointer to a named struct type
		isHandler := false
		for _, prm := range fn.Params[1:] {
			if pt, ok := prm.Type().(*types.Pointer); ok {
				if _, named := pt.Elem().(*types.Named); named {
					isHandler = true
				}
			}
		}
		if !isHandler {
			continue
		}
		var g *core.Graph
		recv := fn.Params[0]
		for _, b := range fn.Blocks {
			for _, in := range b.Instrs {
				sto, ok := in.(*ssa.Store)
				if !ok {
					continue
				}
				fa, ok := sto.Addr.(*ssa.FieldAddr)
				if !ok {
					continue
				}
				// a field of the receiver, or of the component it embeds by pointer
				base := fa.X
				if ld, isLd := base.(*ssa.UnOp); isLd && ld.Op == token.MUL {
					if efa, isFA := ld.X.(*ssa.FieldAddr); isFA {
						base = efa.X
					}
				}
				if base != ssa.Value(recv) {
					continue
				}
				if g == nil {
					g = core.BuildGraph(fn, 0, nil)
				}
				n := g.NodeOf(in)
				if n == nil {
					continue
				}
				st.Instances++
				c.MarkAnalysed(fn)
				var bad *core.Node
				okW := g.Walk(core.After(n, nil), core.WalkOpts{ForwardOnly: true}, func(x core.State) {
					r, isR := x.N.Instr.(*ssa.Return)
					if !isR || len(r.Results) != 1 || bad != nil {
						return
					}
					if core.EvalFact(x.N, r.Results[0], x.F) < 0 {
						bad = x.N
					}
				})
				st.Ob(okW && bad == nil)
				if bad != nil {
					c.ReportAt(rule, fn, in.Pos(), "store-before-refusal:"+core.FuncName(fn)+":"+fieldNameOf(fa), core.FuncName(fn)+" stores "+fieldNameOf(fa)+" and can then refuse the message ("+c.Position(bad.Instr.Pos())+": return false): "+what)
				}
			}
		}
	}
}

// checkBuilderPassThrough: what a caller configures on a builder is what the component gets. In
// the Build method of the package's Builder (its same-package helpers included) every store to a
// component field that is filled from a builder field anywhere in Build stores exactly that
// builder field (conversions allowed), on every path: no second store adjusts it (a clamp, a
// default), and the pairs confirmed by hand (`required`: component field -> builder field) are
// all present - a constructor default does not stand in for the configured value. The component
// enforces the value it holds; the rule makes that the value the configuration names.
func checkBuilderPassThrough(c *core.Ctx, rule, why string, pi *PkgInfo, required map[string]string) {
	st := c.Rule(rule, "the component is built with the configured values: in Builder.Build (same-package helpers included) a component field that is filled from a builder field is stored only from that builder field (conversions allowed) - no later store clamps, defaults or recomputes it - and every hand-confirmed pair (component field <- builder field) is present. "+why, len(required))
	prov := core.NewLocalProv(c)
	var builds []*ssa.Function
	for _, fn := range pi.Funcs {
		if fn.Name() == "Build" && fn.Signature.Recv() != nil && strings.HasSuffix(strings.TrimPrefix(fn.Signature.Recv().Type().String(), "*"), ".Builder") {
			builds = append(builds, fn)
		}
	}
	if len(builds) == 0 {
		c.Report(core.Finding{Rule: rule, Kind: "anchor", Pkg: pi.Rel, Func: "Builder.Build", Detail: "anchor", Msg: "Builder.Build not found"})
		return
	}
	type storeInfo struct {
		fn   *ssa.Function
		in   *ssa.Store
		from string // builder field, "" when the value is something else
		val  string
	}
	stores := map[string][]storeInfo{}
	seen := map[*ssa.Function]bool{}
	var visit func(fn *ssa.Function, d int)
	visit = func(fn *ssa.Function, d int) {
		if seen[fn] || d > 1 {
			return
		}
		seen[fn] = true
		c.MarkAnalysed(fn)
		for _, b := range fn.Blocks {
			for _, in := range b.Instrs {
				if s, ok := in.(*ssa.Store); ok {
					if f := core.FieldOfAddr(s.Addr); f != nil {
						pv := prov.Of(core.StripConv(s.Val))
						from := ""
						if m := regexp.MustCompile(`^recv\.(\w+)$`).FindStringSubmatch(pv); m != nil && fn.Signature.Recv() != nil {
							from = m[1]
						}
						id := core.ShortFieldID(f)
						stores[id] = append(stores[id], storeInfo{fn, s, from, pv})
					}
				}
				if cc := core.CallOf(in); cc != nil {
					if cal := cc.StaticCallee(); cal != nil && cal.Pkg == fn.Pkg && len(cal.Blocks) > 0 && cal.Signature.Recv() != nil && strings.HasSuffix(strings.TrimPrefix(cal.Signature.Recv().Type().String(), "*"), ".Builder") {
						visit(cc.StaticCallee(), d+1)
					}
				}
			}
		}
	}
	for _, b := range builds {
		visit(b, 0)
	}
	var ids []string
	for id := range stores {
		ids = append(ids, id)
	}
	sort.Strings(ids)
	for _, id := range ids {
		// the builder field the component field stands for: the hand-confirmed one, else the
		// first one stored
		src := required[id]
		for _, s := range stores[id] {
			if s.from != "" && src == "" {
				src = s.from
			}
		}
		if src == "" {
			continue
		}
		st.Instances++
		ok := true
		for _, s := range stores[id] {
			// a store of something else that can follow the pass-through store on a path (the
			// other arm of an if that builds a default when nothing was configured cannot)
			follows := false
			for _, p := range stores[id] {
				if p.from == src && p.fn == s.fn && instrReaches(p.in, s.in) {
					follows = true
				}
			}
			if s.from != src && follows {
				ok = false
				c.ReportAt(rule, s.fn, s.in.Pos(), "configured-value-altered:"+id, fmt.Sprintf("%s is filled from the builder's %s and then stored again as %s: the component enforces a value the caller did not configure. %s", id, src, short(s.val), why))
			}
		}
		st.Ob(ok)
		st.Sample("%s <- Builder.%s, %d store(s), all pass-through: %v", id, src, len(stores[id]), ok)
	}
	var req []string
	for f := range required {
		req = append(req, f)
	}
	sort.Strings(req)
	for _, f := range req {
		st.Instances++
		ok := false
		for _, s := range stores[f] {
			if s.from == required[f] {
				ok = true
			}
		}
		st.Ob(ok)
		if !ok {
			c.ReportAt(rule, builds[0], builds[0].Pos(), "configured-value-not-passed:"+f, fmt.Sprintf("Build no longer stores the builder's %s into %s: the component runs with whatever its constructor left there, whatever the caller configured. %s", required[f], f, why))
		}
	}
}

// instrReaches: b can execute after a in the same function.
func instrReaches(a, b ssa.Instruction) bool {
	if a.Block() == b.Block() {
		ia, ib := -1, -1
		for i, in := range a.Block().Instrs {
			if in == a {
				ia = i
			}
			if in == b {
				ib = i
			}
		}
		if ia < ib {
			return true
		}
	}
	seen := map[*ssa.BasicBlock]bool{}
	var walk func(x *ssa.BasicBlock) bool
	walk = func(x *ssa.BasicBlock) bool {
		for _, sc := range x.Succs {
			if sc == b.Block() {
				return true
			}
			if !seen[sc] {
				seen[sc] = true
				if walk(sc) {
					return true
				}
			}
		}
		return false
	}
	return walk(a.Block())
}
