package rules

import (
	"fmt"
	"regexp"
	"strings"

	"golang.org/x/tools/go/ssa"

	"verif/internal/core"
)

// R04.24: the operands of the DS (LDS) instructions.
//
// decodeDS builds DATA0, DATA1 and VDST only when the row's SRC0Width, SRC1Width and
// DSTWidth are not zero, and gives them the register count of that width. The manuals
// define the operands of a DS instruction by its mnemonic:
//
//	ds_<atomic>_<T>                      DATA0 = T                      (add sub rsub inc dec min max and or xor)
//	ds_<atomic>_rtn_<T>                  DATA0 = T, VDST = T
//	ds_mskor / ds_cmpst [_rtn]_<T>       DATA0 = DATA1 = T, (VDST = T)
//	ds_wrap_rtn_b32                      DATA0 = DATA1 = VDST = 32
//	ds_write_<T>                         DATA0 = T
//	ds_write2[st64]_<T>                  DATA0 = DATA1 = T
//	ds_wrxchg_rtn_<T>                    DATA0 = T, VDST = T
//	ds_wrxchg2[st64]_rtn_<T>             DATA0 = DATA1 = T, VDST = 2T
//	ds_read_<T>                          VDST = T
//	ds_read2[st64]_<T>                   VDST = 2T
//	ds_swizzle_b32                       VDST = 32
//	ds_permute_b32 / ds_bpermute_b32     DATA0 = 32, VDST = 32
//	ds_nop                               nothing
//
// where a type of 32 bits or fewer occupies one register, 64 two, 96 three, 128 four.
// Everything else (GWS, append / consume, *_src2_*, condxchg) is left undecided.
var dsType = regexp.MustCompile(`_(b8|b16|b32|b64|b96|b128|u8|i8|u16|i16|u32|i32|u64|i64|f32|f64)$`)

func dsRegs(bits int64) int64 {
	switch {
	case bits <= 0:
		return 0
	case bits <= 32:
		return 1
	case bits <= 64:
		return 2
	case bits <= 96:
		return 3
	}
	return 4
}

// dsExpected returns the register counts of DATA0, DATA1, VDST.
func dsExpected(name string) (regs [3]int64, decided bool) {
	n := strings.TrimSpace(name)
	if n == "ds_nop" {
		return regs, true
	}
	m := dsType.FindStringSubmatch(n)
	if m == nil {
		return regs, false
	}
	var bits int64
	fmt.Sscan(strings.TrimLeft(m[1], "buif"), &bits)
	w := dsRegs(bits)
	op := strings.TrimSuffix(strings.TrimPrefix(n, "ds_"), m[0])
	rtn := strings.HasSuffix(op, "_rtn")
	op = strings.TrimSuffix(op, "_rtn")
	switch op {
	case "add", "sub", "rsub", "inc", "dec", "min", "max", "and", "or", "xor":
		regs[0] = w
		if rtn {
			regs[2] = w
		}
	case "mskor", "cmpst", "wrap":
		regs[0], regs[1] = w, w
		if rtn {
			regs[2] = w
		}
	case "write":
		if rtn {
			return regs, false
		}
		regs[0] = w
	case "write2", "write2st64":
		regs[0], regs[1] = w, w
	case "wrxchg":
		regs[0], regs[2] = w, w
	case "wrxchg2", "wrxchg2st64":
		regs[0], regs[1], regs[2] = w, w, 2*w
	case "read":
		regs[2] = w
	case "read2", "read2st64":
		regs[2] = 2 * w
	case "swizzle":
		regs[2] = w
	case "permute", "bpermute":
		regs[0], regs[2] = w, w
	default:
		return regs, false
	}
	return regs, true
}

func checkDSOperands(c *core.Ctx, t *InstTables) {
	st := c.Rule("R04.24", "every DS row of the decode table gives DATA0, DATA1 and VDST the number of registers the mnemonic defines (zero for an operand the instruction does not have): decodeDS builds an operand only for a non-zero width, so a row of zeros decodes ds_read_u8 without a destination (and printing it dereferences nil) and ds_write_b64 without data. Grammar of the mnemonics transcribed from the manuals; GWS, append / consume, *_src2_* and condxchg rows are undecided and counted", 90)
	names := [3]string{"SRC0Width (DATA0)", "SRC1Width (DATA1)", "DSTWidth (VDST)"}
	undecided := 0
	for _, r := range t.Rows {
		if r.Format != "DS" {
			continue
		}
		want, ok := dsExpected(r.Name)
		if !ok {
			undecided++
			continue
		}
		have := [3]int64{dsRegs(r.Widths[1]), dsRegs(r.Widths[2]), dsRegs(r.Widths[0])}
		raw := [3]int64{r.Widths[1], r.Widths[2], r.Widths[0]}
		for i := 0; i < 3; i++ {
			st.Instances++
			st.Ob(have[i] == want[i])
			if have[i] != want[i] {
				c.Report(core.Finding{Rule: "R04.24", Pkg: instsPkg, Func: "DecodeTable", Detail: fmt.Sprintf("ds-operand:%s:%d", strings.TrimSpace(r.Name), i), Pos: c.Position(r.Pos),
					Msg: fmt.Sprintf("DS row %s (opcode %d) has %s %d, which gives the operand %d register(s); the instruction has %d: decodeDS %s", strings.TrimSpace(r.Name), r.Opcode, names[i], raw[i], have[i], want[i], map[bool]string{true: "does not build the operand at all, and the printer dereferences the missing destination", false: "builds an operand of the wrong size (or one the instruction does not have)"}[have[i] == 0])})
			}
		}
	}
	st.Sample("%d DS rows outside the transcribed grammar (undecided)", undecided)
}

// R04.29: the register counts of the FLAT operands follow the mnemonic.
//
//	flat_load_<ubyte|sbyte|ushort|sshort|dword>   VDST = 1      flat_load_dwordxN    VDST = N
//	flat_store_<byte|short|dword>                 DATA = 1      flat_store_dwordxN   DATA = N
//	flat_atomic_<op>                              DATA = 1, VDST = 1  (cmpswap: DATA = 2)
//	flat_atomic_<op>_x2                           DATA = 2, VDST = 2  (cmpswap_x2: DATA = 4)
//
// decodeFLAT builds both operands with a count of 0 (one register) and widens them in
// a switch over the opcode; the blocks it executes for a row's opcode (opReach) give
// the final counts.
func flatExpected(name string) (data, dst int64, decided bool) {
	n := strings.TrimSpace(name)
	xn := func(s string) int64 {
		switch {
		case strings.HasSuffix(s, "dwordx2"):
			return 2
		case strings.HasSuffix(s, "dwordx3"):
			return 3
		case strings.HasSuffix(s, "dwordx4"):
			return 4
		}
		return 1
	}
	switch {
	case strings.HasPrefix(n, "flat_load_"):
		return -1, xn(n), true
	case strings.HasPrefix(n, "flat_store_"):
		return xn(n), -1, true
	case strings.HasPrefix(n, "flat_atomic_"):
		w := int64(1)
		if strings.HasSuffix(n, "_x2") {
			w = 2
		}
		d := w
		if strings.Contains(n, "cmpswap") {
			d = 2 * w
		}
		return d, w, true
	}
	return 0, 0, false
}

func checkFLATOperands(c *core.Ctx, t *InstTables) {
	st := c.Rule("R04.29", "the register counts decodeFLAT gives DATA and VDST follow the mnemonic of the row: loads and stores of N dwords use N registers, a 64-bit atomic (_x2) two, compare-and-swap twice as many for DATA (source and comparand); decided per FLAT row by following the decoder for that opcode (opReach) to its last RegCount stores. A row whose opcode the decoder's switch does not list decodes a 64-bit atomic with single registers", 30)
	fn := c.SSAFunc(instsPkg, "Disassembler.decodeFLAT")
	if fn == nil {
		c.Report(core.Finding{Rule: "R04.29", Kind: "anchor", Pkg: instsPkg, Func: "Disassembler.decodeFLAT", Detail: "anchor", Msg: "decodeFLAT not found"})
		return
	}
	isOp := isLoadOfField("Opcode")
	for _, r := range t.Rows {
		if r.Format != "FLAT" {
			continue
		}
		name := strings.TrimSpace(r.Name)
		wantData, wantDst, ok := flatExpected(name)
		if !ok {
			continue
		}
		got := map[string]int64{"Data": 0, "Dst": 0}
		for _, b := range opReach(fn, isOp, r.Opcode) {
			for _, in := range b.Instrs {
				s, ok := in.(*ssa.Store)
				if !ok {
					continue
				}
				fa, ok := s.Addr.(*ssa.FieldAddr)
				if !ok || fieldNameOf(fa) != "RegCount" {
					continue
				}
				ld, ok := fa.X.(*ssa.UnOp)
				if !ok {
					continue
				}
				of := core.LoadedField(ld)
				if of == nil {
					continue
				}
				if k, isC := core.ConstInt(s.Val); isC {
					if _, tracked := got[of.Name()]; tracked {
						got[of.Name()] = k
					}
				}
			}
		}
		norm := func(k int64) int64 {
			if k == 0 {
				return 1
			}
			return k
		}
		for _, op := range []struct {
			field string
			want  int64
		}{{"Data", wantData}, {"Dst", wantDst}} {
			if op.want < 0 {
				continue
			}
			st.Instances++
			c.MarkAnalysed(fn)
			okW := norm(got[op.field]) == op.want
			st.Ob(okW)
			if !okW {
				c.Report(core.Finding{Rule: "R04.29", Pkg: instsPkg, Func: "Disassembler.decodeFLAT", Detail: fmt.Sprintf("flat-operand:%s:%s", name, op.field), Pos: c.Position(r.Pos),
					Msg: fmt.Sprintf("%s (FLAT opcode %d) is decoded with %d register(s) for %s; the instruction uses %d: the printed operand and the registers the units read or write are those of a narrower instruction", name, r.Opcode, norm(got[op.field]), op.field, op.want)})
			}
		}
	}
}

// R04.30: the register counts of the SMEM operands follow the mnemonic.
//
//	s_[buffer_]load_dwordxN / s_[buffer_]store_dwordxN   SDATA = N (1 for _dword)
//	s_memtime / s_memrealtime                             SDATA = 2 (a 64-bit counter)
//	s_buffer_* / s_atc_probe_buffer                       SBASE = 4 (a buffer resource), otherwise 2 (an address)
func smemExpected(name string) (data, base int64, decided bool) {
	n := strings.TrimSpace(name)
	base = 2
	if strings.HasPrefix(n, "s_buffer_") || n == "s_atc_probe_buffer" {
		base = 4
	}
	switch {
	case n == "s_memtime" || n == "s_memrealtime":
		return 2, -1, true
	case strings.Contains(n, "_dword"):
		k := int64(1)
		if i := strings.Index(n, "_dwordx"); i >= 0 {
			fmt.Sscan(n[i+len("_dwordx"):], &k)
		}
		return k, base, true
	}
	return 0, 0, false
}

func checkSMEMOperands(c *core.Ctx, t *InstTables) {
	st := c.Rule("R04.30", "the register counts decodeSMEM gives SDATA and SBASE follow the mnemonic of the row: N SGPRs for a load or store of N dwords, a pair for the 64-bit counters s_memtime / s_memrealtime, a pair for an address base and four SGPRs for the buffer resource of the s_buffer_* forms; decided per SMEM row by following the decoder for that opcode (opReach) to its last RegCount stores", 16)
	fn := c.SSAFunc(instsPkg, "Disassembler.decodeSMEM")
	if fn == nil {
		c.Report(core.Finding{Rule: "R04.30", Kind: "anchor", Pkg: instsPkg, Func: "Disassembler.decodeSMEM", Detail: "anchor", Msg: "decodeSMEM not found"})
		return
	}
	isOp := isLoadOfField("Opcode")
	for _, r := range t.Rows {
		if r.Format != "SMEM" {
			continue
		}
		name := strings.TrimSpace(r.Name)
		wantData, wantBase, ok := smemExpected(name)
		if !ok {
			continue
		}
		got := map[string]int64{"Data": 0, "Base": 0}
		for _, b := range opReach(fn, isOp, r.Opcode) {
			for _, in := range b.Instrs {
				s, ok := in.(*ssa.Store)
				if !ok {
					continue
				}
				fa, ok := s.Addr.(*ssa.FieldAddr)
				if !ok || fieldNameOf(fa) != "RegCount" {
					continue
				}
				ld, ok := fa.X.(*ssa.UnOp)
				if !ok {
					continue
				}
				of := core.LoadedField(ld)
				if of == nil {
					continue
				}
				if k, isC := core.ConstInt(s.Val); isC {
					if _, tracked := got[of.Name()]; tracked {
						got[of.Name()] = k
					}
				}
			}
		}
		norm := func(k int64) int64 {
			if k == 0 {
				return 1
			}
			return k
		}
		for _, op := range []struct {
			field string
			want  int64
		}{{"Data", wantData}, {"Base", wantBase}} {
			if op.want < 0 {
				continue
			}
			st.Instances++
			c.MarkAnalysed(fn)
			okW := norm(got[op.field]) == op.want
			st.Ob(okW)
			if !okW {
				c.Report(core.Finding{Rule: "R04.30", Pkg: instsPkg, Func: "Disassembler.decodeSMEM", Detail: fmt.Sprintf("smem-operand:%s:%s", name, op.field), Pos: c.Position(r.Pos),
					Msg: fmt.Sprintf("%s (SMEM opcode %d) is decoded with %d register(s) for %s; the instruction uses %d", name, r.Opcode, norm(got[op.field]), op.field, op.want)})
			}
		}
	}
}

// sop2Expected: the register counts of (SDST, SSRC0, SSRC1) of a SOP2 instruction, from its
// mnemonic and the ISA's operand table: a 64-bit instruction works on SGPR pairs, except that the
// shift amount of the 64-bit shifts, the offset / width operand of the 64-bit bit-field extracts and
// both sources of s_bfm_b64 are 32-bit.
func sop2Expected(name string) (dst, s0, s1 int64, ok bool) {
	name = strings.TrimSuffix(name, "_e32")
	is64 := strings.HasSuffix(name, "_b64") || strings.HasSuffix(name, "_i64") || strings.HasSuffix(name, "_u64")
	switch name {
	case "s_lshl_b64", "s_lshr_b64", "s_ashr_i64", "s_bfe_u64", "s_bfe_i64":
		return 2, 2, 1, true
	case "s_bfm_b64":
		return 2, 1, 1, true
	case "s_cbranch_g_fork", "s_rfe_restore_b64", "s_setvskip":
		return 0, 0, 0, false
	}
	if is64 {
		return 2, 2, 2, true
	}
	return 1, 1, 1, true
}

// checkSOP2Operands (R04.33): decodeSOP2 widens the operands by a test of the mnemonic
// (strings.Contains(InstName, "64")); the decoder is followed per SOP2 row with the tests of
// InstName decided for that row's mnemonic (nameReach), and the RegCount stores it reaches are
// compared with the ISA's operand widths.
func checkSOP2Operands(c *core.Ctx, t *InstTables) {
	st := c.Rule("R04.33", "the register counts decodeSOP2 gives SDST, SSRC0 and SSRC1 follow the ISA's operand table for the row's mnemonic: SGPR pairs for 64-bit instructions, except the 32-bit shift amount of s_lshl_b64 / s_lshr_b64 / s_ashr_i64, the 32-bit offset-and-width operand of s_bfe_u64 / s_bfe_i64 and both 32-bit sources of s_bfm_b64; decided per SOP2 row by following the decoder with its tests of the mnemonic resolved for that row (nameReach) to its RegCount stores", 40)
	fn := c.SSAFunc(instsPkg, "Disassembler.decodeSOP2")
	if fn == nil {
		c.Report(core.Finding{Rule: "R04.33", Kind: "anchor", Pkg: instsPkg, Func: "Disassembler.decodeSOP2", Detail: "anchor", Msg: "decodeSOP2 not found"})
		return
	}
	seen := map[string]bool{}
	for _, r := range t.Rows {
		if r.Format != "SOP2" {
			continue
		}
		name := strings.TrimSpace(r.Name)
		if seen[name] {
			continue
		}
		seen[name] = true
		wd, w0, w1, ok := sop2Expected(name)
		if !ok {
			continue
		}
		got := map[string]int64{"Dst": 0, "Src0": 0, "Src1": 0}
		for _, b := range nameReach(fn, name) {
			for _, in := range b.Instrs {
				s, ok := in.(*ssa.Store)
				if !ok {
					continue
				}
				fa, ok := s.Addr.(*ssa.FieldAddr)
				if !ok || fieldNameOf(fa) != "RegCount" {
					continue
				}
				ld, ok := fa.X.(*ssa.UnOp)
				if !ok {
					continue
				}
				of := core.LoadedField(ld)
				if of == nil {
					continue
				}
				if k, isC := core.ConstInt(s.Val); isC {
					if _, tracked := got[of.Name()]; tracked {
						got[of.Name()] = k
					}
				}
			}
		}
		norm := func(k int64) int64 {
			if k == 0 {
				return 1
			}
			return k
		}
		for _, op := range []struct {
			field string
			want  int64
		}{{"Dst", wd}, {"Src0", w0}, {"Src1", w1}} {
			st.Instances++
			c.MarkAnalysed(fn)
			okW := norm(got[op.field]) == op.want
			st.Ob(okW)
			if !okW {
				c.Report(core.Finding{Rule: "R04.33", Pkg: instsPkg, Func: "Disassembler.decodeSOP2", Detail: fmt.Sprintf("sop2-operand:%s:%s", name, op.field), Pos: c.Position(r.Pos),
					Msg: fmt.Sprintf("%s (SOP2 opcode %d) is decoded with %d register(s) for %s; the instruction uses %d (s_lshl_b64 s[0:1], s[2:3], s4 decodes and prints its shift amount as s[4:5], and the register pair is read where one SGPR is meant)", name, r.Opcode, norm(got[op.field]), op.field, op.want)})
			}
		}
	}
}
