package rules

import (
	"fmt"
	"regexp"
	"strings"

	"verif/internal/core"
)

// R04.24: the operands of the DS (LDS) instructions.
//
// decodeDS builds DATA0, DATA1 and VDST only when the row's SRC0Width, SRC1Width and
// DSTWidth are not zero, and gives them the register count of that width. The manuals
// define the operands of a DS instruction by its mnemonic:
//
//	ds_<atomic>_<T>                      DATA0 = T                      (add sub rsub inc dec min max and or xor)
//	ds_<atomic>_rtn_<T>                  DATA0 = T, VDST = T
//	ds_mskor / ds_cmpst [_rtn]_<T>       DATA0 = DATA1 = T, (VDST = T)
//	ds_wrap_rtn_b32                      DATA0 = DATA1 = VDST = 32
//	ds_write_<T>                         DATA0 = T
//	ds_write2[st64]_<T>                  DATA0 = DATA1 = T
//	ds_wrxchg_rtn_<T>                    DATA0 = T, VDST = T
//	ds_wrxchg2[st64]_rtn_<T>             DATA0 = DATA1 = T, VDST = 2T
//	ds_read_<T>                          VDST = T
//	ds_read2[st64]_<T>                   VDST = 2T
//	ds_swizzle_b32                       VDST = 32
//	ds_permute_b32 / ds_bpermute_b32     DATA0 = 32, VDST = 32
//	ds_nop                               nothing
//
// where a type of 32 bits or fewer occupies one register, 64 two, 96 three, 128 four.
// Everything else (GWS, append / consume, *_src2_*, condxchg) is left undecided.
var dsType = regexp.MustCompile(`_(b8|b16|b32|b64|b96|b128|u8|i8|u16|i16|u32|i32|u64|i64|f32|f64)$`)

func dsRegs(bits int64) int64 {
	switch {
	case bits <= 0:
		return 0
	case bits <= 32:
		return 1
	case bits <= 64:
		return 2
	case bits <= 96:
		return 3
	}
	return 4
}

// dsExpected returns the register counts of DATA0, DATA1, VDST.
func dsExpected(name string) (regs [3]int64, decided bool) {
	n := strings.TrimSpace(name)
	if n == "ds_nop" {
		return regs, true
	}
	m := dsType.FindStringSubmatch(n)
	if m == nil {
		return regs, false
	}
	var bits int64
	fmt.Sscan(strings.TrimLeft(m[1], "buif"), &bits)
	w := dsRegs(bits)
	op := strings.TrimSuffix(strings.TrimPrefix(n, "ds_"), m[0])
	rtn := strings.HasSuffix(op, "_rtn")
	op = strings.TrimSuffix(op, "_rtn")
	switch op {
	case "add", "sub", "rsub", "inc", "dec", "min", "max", "and", "or", "xor":
		regs[0] = w
		if rtn {
			regs[2] = w
		}
	case "mskor", "cmpst", "wrap":
		regs[0], regs[1] = w, w
		if rtn {
			regs[2] = w
		}
	case "write":
		if rtn {
			return regs, false
		}
		regs[0] = w
	case "write2", "write2st64":
		regs[0], regs[1] = w, w
	case "wrxchg":
		regs[0], regs[2] = w, w
	case "wrxchg2", "wrxchg2st64":
		regs[0], regs[1], regs[2] = w, w, 2*w
	case "read":
		regs[2] = w
	case "read2", "read2st64":
		regs[2] = 2 * w
	case "swizzle":
		regs[2] = w
	case "permute", "bpermute":
		regs[0], regs[2] = w, w
	default:
		return regs, false
	}
	return regs, true
}

func checkDSOperands(c *core.Ctx, t *InstTables) {
	st := c.Rule("R04.24", "every DS row of the decode table gives DATA0, DATA1 and VDST the number of registers the mnemonic defines (zero for an operand the instruction does not have): decodeDS builds an operand only for a non-zero width, so a row of zeros decodes ds_read_u8 without a destination (and printing it dereferences nil) and ds_write_b64 without data. Grammar of the mnemonics transcribed from the manuals; GWS, append / consume, *_src2_* and condxchg rows are undecided and counted", 90)
	names := [3]string{"SRC0Width (DATA0)", "SRC1Width (DATA1)", "DSTWidth (VDST)"}
	undecided := 0
	for _, r := range t.Rows {
		if r.Format != "DS" {
			continue
		}
		want, ok := dsExpected(r.Name)
		if !ok {
			undecided++
			continue
		}
		have := [3]int64{dsRegs(r.Widths[1]), dsRegs(r.Widths[2]), dsRegs(r.Widths[0])}
		raw := [3]int64{r.Widths[1], r.Widths[2], r.Widths[0]}
		for i := 0; i < 3; i++ {
			st.Instances++
			st.Ob(have[i] == want[i])
			if have[i] != want[i] {
				c.Report(core.Finding{Rule: "R04.24", Pkg: instsPkg, Func: "DecodeTable", Detail: fmt.Sprintf("ds-operand:%s:%d", strings.TrimSpace(r.Name), i), Pos: c.Position(r.Pos),
					Msg: fmt.Sprintf("DS row %s (opcode %d) has %s %d, which gives the operand %d register(s); the instruction has %d: decodeDS %s", strings.TrimSpace(r.Name), r.Opcode, names[i], raw[i], have[i], want[i], map[bool]string{true: "does not build the operand at all, and the printer dereferences the missing destination", false: "builds an operand of the wrong size (or one the instruction does not have)"}[have[i] == 0])})
			}
		}
	}
	st.Sample("%d DS rows outside the transcribed grammar (undecided)", undecided)
}
