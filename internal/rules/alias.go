package rules

import (
	"go/token"
	"go/types"
	"strings"

	"golang.org/x/tools/go/ssa"

	"verif/internal/core"
)

// alias.go: Go value / alias semantics (twenty-fourth seeding batch): an update
// made to a copy, or two things that must be independent sharing storage. The
// compiler accepts all of it; the rules name the shapes.

// checkNoAppendOntoWindow: append(x[lo:hi], ...) with lo given and no capacity
// bound writes past hi into x itself.
func checkNoAppendOntoWindow(c *core.Ctx, rule, why string, floor int, rels ...string) {
	st := c.Rule(rule, "no append whose first argument is a window x[lo:hi] (a lower bound, no third index) of storage that outlives the call: the window keeps x's capacity, so the appended elements are written into x behind hi. The deletion idiom append(x[:i], x[i+1:]...) and the filter idiom x[:0] have no lower bound and are left alone. "+why, floor)
	fc := newFreshCtx(c)
	for _, rel := range rels {
		for _, fn := range c.SrcFuncs(rel) {
			for _, b := range fn.Blocks {
				for _, in := range b.Instrs {
					call, ok := in.(*ssa.Call)
					if !ok || !core.IsBuiltin(call, "append") || len(call.Call.Args) == 0 {
						continue
					}
					st.Instances++
					sl, ok := call.Call.Args[0].(*ssa.Slice)
					if !ok || sl.Low == nil || sl.Max != nil {
						st.Ob(true)
						continue
					}
					if k, isK := core.ConstInt(sl.Low); isK && k == 0 {
						st.Ob(true)
						continue
					}
					if fc.value(sl.X, map[ssa.Value]bool{}).ok {
						st.Ob(true) // a window of storage this call allocated
						continue
					}
					c.MarkAnalysed(fn)
					st.Ob(false)
					c.ReportAt(rule, fn, call.Pos(), "append-onto-window", core.FuncName(fn)+" appends onto a window of existing storage: the appended bytes overwrite what follows the window in that storage. "+why)
				}
			}
		}
	}
}

// checkRegisterReadsFresh: R07.7's rule, callable under another property.
func checkRegisterReadsFresh(c *core.Ctx, rule string) {
	st := c.Rule(rule, "the byte-valued register reads (ReadReg / ReadOperandBytes of the emulation wavefront, the timing register-file accessor and the timing wavefront) return storage allocated by that call on every path: the shared ALU reads several operands before it uses them, so a buffer kept by the timing accessor makes the first operand read back as the second in timing mode and not in emulation", 3)
	fc := newFreshCtx(c)
	for _, rel := range []string{emuPkg, cuPkg, wfPkg} {
		for _, fn := range c.SrcFuncs(rel) {
			if fn.Name() != "ReadReg" && fn.Name() != "ReadOperandBytes" {
				continue
			}
			res := fn.Signature.Results()
			if res.Len() != 1 {
				continue
			}
			if _, isSlice := res.At(0).Type().Underlying().(*types.Slice); !isSlice {
				continue
			}
			st.Instances++
			c.MarkAnalysed(fn)
			r := fc.result(fn, 0)
			okR := r.ok || strings.HasPrefix(r.why, "the result of interface method")
			st.Ob(okR)
			if !okR {
				c.ReportAt(rule, fn, fn.Pos(), "read-shared-bytes:"+core.FuncName(fn), core.FuncName(fn)+" can return bytes that are not allocated by the call ("+r.why+")")
			}
		}
	}
}

// checkFieldStoredFresh: every store into the named field stores storage allocated by the storing call.
func checkFieldStoredFresh(c *core.Ctx, rule, text string, floor int, rel, fieldID string) {
	st := c.Rule(rule, text, floor)
	fc := newFreshCtx(c)
	for _, fn := range c.SrcFuncs(rel) {
		for _, b := range fn.Blocks {
			for _, in := range b.Instrs {
				s, ok := in.(*ssa.Store)
				if !ok {
					continue
				}
				f := core.FieldOfAddr(s.Addr)
				if f == nil || core.ShortFieldID(f) != fieldID {
					continue
				}
				if core.IsNilConst(s.Val) {
					continue
				}
				st.Instances++
				c.MarkAnalysed(fn)
				r := fc.value(s.Val, map[ssa.Value]bool{})
				st.Ob(r.ok)
				if !r.ok {
					c.ReportAt(rule, fn, s.Pos(), "shared-storage-stored:"+f.Name(), core.FuncName(fn)+" stores into "+fieldID+" storage that this call did not allocate ("+r.why+"): two commands in flight share it")
				}
			}
		}
	}
}

// checkResultFresh: result #idx of the named function is allocated by the call.
func checkResultFresh(c *core.Ctx, rule, text, rel, name string, idx int) {
	st := c.Rule(rule, text, 1)
	fn := c.MustFunc(rule, rel, name)
	if fn == nil {
		return
	}
	st.Instances++
	c.MarkAnalysed(fn)
	r := newFreshCtx(c).result(fn, idx)
	st.Ob(r.ok)
	if !r.ok {
		c.ReportAt(rule, fn, fn.Pos(), "result-not-fresh:"+name, name+" can return storage that the call did not allocate ("+r.why+"): what the caller keeps is rewritten by the next call")
	}
}

// R09.19: every dispatcher gets a grid builder of its own.
func checkGridBuilderPerDispatcher(c *core.Ctx) {
	st := c.Rule("R09.19", "every placement algorithm that dispatching.Builder.Build creates gets a grid builder made in that Build call (kernels.NewGridBuilder()), not one kept in the builder: the grid builder holds the kernel's packet, filter, count and cursor, the command processor builds eight dispatchers from one builder, and with one shared grid builder a second kernel's SetKernel rewinds the cursor under the first - work-groups of the first kernel are never mapped and it is reported complete", 2)
	fn := c.MustFunc("R09.19", dispPkg, "Builder.Build")
	if fn == nil {
		return
	}
	fc := newFreshCtx(c)
	for _, b := range fn.Blocks {
		for _, in := range b.Instrs {
			s, ok := in.(*ssa.Store)
			if !ok {
				continue
			}
			f := core.FieldOfAddr(s.Addr)
			if f == nil || f.Name() != "gridBuilder" {
				continue
			}
			st.Instances++
			c.MarkAnalysed(fn)
			v := s.Val
			if mi, isMI := v.(*ssa.MakeInterface); isMI {
				v = mi.X
			}
			good := false
			if call, isCall := v.(*ssa.Call); isCall {
				if cal := core.CalleeFunc(call); cal != nil && cal.Name() == "NewGridBuilder" {
					good = true
				}
			}
			if !good {
				good = fc.value(v, map[ssa.Value]bool{}).ok
			}
			st.Ob(good)
			if !good {
				c.ReportAt("R09.19", fn, s.Pos(), "grid-builder-shared:"+core.ShortFieldID(f), "Builder.Build gives the algorithm a grid builder that was not made in this call: the dispatchers built from one builder share it")
			}
		}
	}
}

// R10.26: a container/list.List is not copied.
func checkNoListCopy(c *core.Ctx, rule string, pi *PkgInfo) {
	st := c.Rule(rule, "no container/list.List is copied by value (a load of a List out of a slice, map or field into a local) and then operated on through the copy's address - reading Len / Front / Back of a copy aside: the copy's root shares the element pointers but the elements still name the original list, so Remove on the copy unlinks nothing and reports nothing - a block that was merged stays on its level's free list and the same physical pages are handed out twice", 1)
	isList := func(t types.Type) bool {
		n, ok := t.(*types.Named)
		return ok && n.Obj().Pkg() != nil && n.Obj().Pkg().Path() == "container/list" && n.Obj().Name() == "List"
	}
	for _, fn := range pi.Funcs {
		uses := 0
		for _, b := range fn.Blocks {
			for _, in := range b.Instrs {
				switch x := in.(type) {
				case *ssa.IndexAddr:
					if pt, ok := x.Type().(*types.Pointer); ok && isList(pt.Elem()) {
						uses++
					}
				case *ssa.UnOp:
					if x.Op == token.MUL && isList(x.Type()) {
						// a copy that is only looked at (Len, Front, Back) is harmless; one whose address goes
						// anywhere else is operated on as if it were the list
						st.Instances++
						bad := false
						if x.Referrers() != nil {
							for _, r := range *x.Referrers() {
								s, ok := r.(*ssa.Store)
								if !ok || s.Val != ssa.Value(x) {
									continue
								}
								cell, ok := s.Addr.(*ssa.Alloc)
								if !ok || cell.Referrers() == nil {
									continue
								}
								for _, r2 := range *cell.Referrers() {
									cc := core.CallOf(r2)
									if cc == nil {
										continue
									}
									name := ""
									if cal := core.CalleeFunc(r2); cal != nil {
										name = cal.Name()
									}
									if name != "Len" && name != "Front" && name != "Back" && name != "Init" { // Init of a copy is a no-op: the zero List initialises itself on first use
										bad = true
									}
								}
							}
						}
						st.Ob(!bad)
						if bad {
							c.MarkAnalysed(fn)
							c.ReportAt(rule, fn, x.Pos(), "list-copied-by-value", core.FuncName(fn)+" copies a container/list.List and operates on the copy: the elements still belong to the original list, so Remove / Insert on the copy change nothing")
						}
					}
				}
			}
		}
		if uses > 0 {
			st.Instances++
			st.Ob(true)
			c.MarkAnalysed(fn)
		}
	}
}

// R12.31: a listener list read under its mutex is not walked after the unlock.
func checkListWalkedUnderItsLock(c *core.Ctx, rule string, pi *PkgInfo) {
	st := c.Rule(rule, "CommandQueue.listeners, loaded while listenerMutex is held, is not indexed or ranged after that function's Unlock of the mutex: the local is a slice header over the array that Unsubscribe compacts in place, so a walk outside the lock steps over a subscribed listener when an older one leaves - its DrainCommandQueue never wakes", 1)
	for _, fn := range pi.Funcs {
		if !strings.HasPrefix(core.FuncName(fn), "CommandQueue.") {
			continue
		}
		var loads []ssa.Value
		for _, b := range fn.Blocks {
			for _, in := range b.Instrs {
				if u, ok := in.(*ssa.UnOp); ok && u.Op == token.MUL {
					if f := core.FieldOfAddr(u.X); f != nil && f.Name() == "listeners" {
						loads = append(loads, u)
					}
				}
			}
		}
		if len(loads) == 0 {
			continue
		}
		g := core.BuildGraph(fn, 0, nil)
		unlocks := g.NodesWhere(func(n *core.Node) bool {
			if _, isDefer := n.Instr.(*ssa.Defer); isDefer {
				return false
			}
			cc := core.CallOf(n.Instr)
			if cc == nil || cc.IsInvoke() || cc.StaticCallee() == nil || cc.StaticCallee().Name() != "Unlock" || len(cc.Args) == 0 {
				return false
			}
			f := core.FieldOfAddr(cc.Args[0])
			return f != nil && f.Name() == "listenerMutex"
		})
		st.Instances++
		c.MarkAnalysed(fn)
		bad := false
		for _, u := range unlocks {
			reach, _ := g.Reach(core.After(u, nil), core.WalkOpts{})
			for n := range reach {
				var x ssa.Value
				switch y := n.Instr.(type) {
				case *ssa.IndexAddr:
					x = y.X
				case *ssa.Index:
					x = y.X
				case *ssa.Range:
					x = y.X
				}
				for _, l := range loads {
					if x == l && !bad {
						bad = true
						c.ReportAt(rule, fn, n.Instr.Pos(), "list-walked-after-unlock", core.FuncName(fn)+" walks the listener list after it has released listenerMutex: the walk races with Unsubscribe's in-place removal")
					}
				}
			}
		}
		st.Ob(!bad)
	}
}

// checkNoSharedElementAcrossIterations: one variable's address appended in every iteration.
func checkNoSharedElementAcrossIterations(c *core.Ctx, rule, why string, floor int, pis ...*PkgInfo) {
	st := c.Rule(rule, "what a loop appends to a list in each iteration is a value of that iteration: no address of a variable declared outside the loop is appended inside it (every entry would be the same pointer and show the last iteration's contents). "+why, floor)
	for _, pi := range pis {
		for _, fn := range pi.Funcs {
			for _, b := range fn.Blocks {
				if !inCycle(b) {
					continue
				}
				for _, in := range b.Instrs {
					call, ok := in.(*ssa.Call)
					if !ok || !core.IsBuiltin(call, "append") || len(call.Call.Args) < 2 {
						continue
					}
					st.Instances++
					// the variadic part: a slice of a fresh array whose elements are stored just before
					var elems []ssa.Value
					if sl, ok := call.Call.Args[1].(*ssa.Slice); ok {
						if arr, ok := sl.X.(*ssa.Alloc); ok && arr.Referrers() != nil {
							for _, r := range *arr.Referrers() {
								if ia, ok := r.(*ssa.IndexAddr); ok && ia.Referrers() != nil {
									for _, r2 := range *ia.Referrers() {
										if s, ok := r2.(*ssa.Store); ok {
											elems = append(elems, s.Val)
										}
									}
								}
							}
						}
					}
					bad := false
					for _, e := range elems {
						if mi, ok := e.(*ssa.MakeInterface); ok {
							e = mi.X
						}
						if al, ok := e.(*ssa.Alloc); ok && al.Heap && !inCycle(al.Block()) {
							bad = true
						}
					}
					st.Ob(!bad)
					if bad {
						c.MarkAnalysed(fn)
						c.ReportAt(rule, fn, call.Pos(), "same-variable-appended-every-iteration", core.FuncName(fn)+" appends the address of one variable in every iteration of a loop. "+why)
					}
				}
			}
		}
	}
}

// checkValueReceiverNotWritten: a method with a value receiver does not write into its receiver.
func checkValueReceiverNotWritten(c *core.Ctx, rule, why string, floor int, rels ...string) {
	st := c.Rule(rule, "a method whose receiver is an array or struct value (not a pointer) does not write into the receiver or hand out its address: the method works on a copy, the write is lost and nothing reports it. "+why, floor)
	for _, rel := range rels {
		for _, fn := range c.SrcFuncs(rel) {
			recv := fn.Signature.Recv()
			if recv == nil || len(fn.Params) == 0 {
				continue
			}
			switch recv.Type().Underlying().(type) {
			case *types.Array, *types.Struct:
			default:
				continue
			}
			st.Instances++
			// the receiver is spilled to a cell only if its address is taken
			var cell *ssa.Alloc
			for _, b := range fn.Blocks {
				for _, in := range b.Instrs {
					if s, ok := in.(*ssa.Store); ok && s.Val == ssa.Value(fn.Params[0]) {
						if al, ok := s.Addr.(*ssa.Alloc); ok {
							cell = al
						}
					}
				}
			}
			bad := false
			if cell != nil && cell.Referrers() != nil {
				var written func(v ssa.Value, d int) bool
				written = func(v ssa.Value, d int) bool {
					if d > 4 || v.Referrers() == nil {
						return false
					}
					for _, r := range *v.Referrers() {
						switch x := r.(type) {
						case *ssa.Store:
							if x.Addr == v && x.Val != ssa.Value(fn.Params[0]) {
								return true
							}
							if x.Val == v {
								return true // the address escapes
							}
						case *ssa.IndexAddr, *ssa.FieldAddr:
							if written(x.(ssa.Value), d+1) {
								return true
							}
						case *ssa.MakeInterface:
							return true
						case *ssa.Call:
							return true
						}
					}
					return false
				}
				bad = written(cell, 0)
			}
			st.Ob(!bad)
			if bad {
				c.MarkAnalysed(fn)
				c.ReportAt(rule, fn, fn.Pos(), "value-receiver-written", core.FuncName(fn)+" writes into (or hands out the address of) its value receiver: the caller's value is not changed. "+why)
			}
		}
	}
}

// R04.44: printing does not change the instruction.
func checkPrinterDoesNotWriteInst(c *core.Ctx) {
	st := c.Rule("R04.44", "the instruction printer does not write into the instruction it prints: no store in a method of InstPrinter (helpers of the package included) has an address that is reached from an *Inst or *Operand parameter (field selections, loads of pointer fields, index expressions). A printer that normalises the sign of an offset through a local copy of the Offset pointer changes the decoded instruction: the second print differs from the first, the Inst no longer equals a fresh decode of the same bytes, and the emulator - which caches decoded instructions - executes the changed one", 20)
	fromParam := func(v ssa.Value) bool {
		for d := 0; d < 12; d++ {
			switch x := v.(type) {
			case *ssa.Parameter:
				if pt, ok := x.Type().(*types.Pointer); ok {
					if n, ok := pt.Elem().(*types.Named); ok && (n.Obj().Name() == "Inst" || n.Obj().Name() == "Operand") {
						return true
					}
				}
				return false
			case *ssa.FieldAddr:
				v = x.X
			case *ssa.IndexAddr:
				v = x.X
			case *ssa.UnOp:
				if x.Op != token.MUL {
					return false
				}
				v = x.X
			case *ssa.Phi:
				for _, e := range x.Edges {
					v = e
					break
				}
			default:
				return false
			}
		}
		return false
	}
	for _, fn := range c.SrcFuncs(instsPkg) {
		if !inFile(c, "inst_printer.go")(fn) && !inFile(c, "sdwa.go")(fn) {
			continue
		}
		st.Instances++
		bad := false
		for _, b := range fn.Blocks {
			for _, in := range b.Instrs {
				if s, ok := in.(*ssa.Store); ok && fromParam(s.Addr) {
					if _, isAlloc := s.Addr.(*ssa.Alloc); isAlloc {
						continue
					}
					bad = true
					c.MarkAnalysed(fn)
					c.ReportAt("R04.44", fn, s.Pos(), "printer-writes-instruction", core.FuncName(fn)+" stores into the instruction (or operand) it was given to print")
				}
			}
		}
		st.Ob(!bad)
	}
}
