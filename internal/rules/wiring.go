package rules

import (
	"fmt"
	"go/constant"
	"go/token"
	"go/types"
	"sort"
	"strings"

	"golang.org/x/tools/go/ssa"

	"verif/internal/core"
)

// Rules about the configuration and wiring layer: the builders that create components, hand
// them their parameters and connect them. The components' own rules assume a platform that is
// put together the way the shipped builders do it; these rules read the builders.

const (
	mi300aPkg  = "amd/samples/runner/timingconfig/mi300a"
	r9nanoPkg  = "amd/samples/runner/timingconfig/r9nano"
	tconfigPkg = "amd/samples/runner/timingconfig"
)

// inCycle: the block lies on a cycle of the function's control-flow graph.
func inCycle(b *ssa.BasicBlock) bool {
	seen := map[*ssa.BasicBlock]bool{}
	var walk func(x *ssa.BasicBlock) bool
	walk = func(x *ssa.BasicBlock) bool {
		for _, s := range x.Succs {
			if s == b {
				return true
			}
			if !seen[s] {
				seen[s] = true
				if walk(s) {
					return true
				}
			}
		}
		return false
	}
	return walk(b)
}

// checkCreatedOncePerBuild: an object that the components built in a loop must share is created
// outside that loop: the call that creates it lies in no loop, and the function it lies in is
// called from no loop (followed through the package).
func checkCreatedOncePerBuild(c *core.Ctx, rule string, pi *PkgInfo, ctor, why string) {
	st := c.Rule(rule, "the command processor's dispatchers share one record of which SIMD slot, register range and LDS range of each compute unit is in use: resource.NewCUResourcePool is called once per command processor - its call site lies in no loop, and neither does any call, direct or indirect, of the function that contains it. "+why, 1)
	perIter := map[*ssa.Function]string{}
	changed := true
	for changed {
		changed = false
		for _, fn := range pi.Funcs {
			for _, b := range fn.Blocks {
				for _, in := range b.Instrs {
					cc := core.CallOf(in)
					if cc == nil || cc.StaticCallee() == nil {
						continue
					}
					cal := cc.StaticCallee()
					if cal.Pkg != fn.Pkg {
						continue
					}
					if _, done := perIter[cal]; done {
						continue
					}
					if inCycle(b) {
						perIter[cal] = "called in a loop of " + core.FuncName(fn)
						changed = true
					} else if w, ok := perIter[fn]; ok {
						perIter[cal] = "called from " + core.FuncName(fn) + ", which is " + w
						changed = true
					}
				}
			}
		}
	}
	for _, fn := range pi.Funcs {
		for _, b := range fn.Blocks {
			for _, in := range b.Instrs {
				cc := core.CallOf(in)
				if cc == nil || cc.StaticCallee() == nil || cc.StaticCallee().Name() != ctor {
					continue
				}
				st.Instances++
				c.MarkAnalysed(fn)
				why2 := ""
				if inCycle(b) {
					why2 = "inside a loop of " + core.FuncName(fn)
				} else if w, ok := perIter[fn]; ok {
					why2 = "in " + core.FuncName(fn) + ", which is " + w
				}
				st.Ob(why2 == "")
				st.Sample("%s: %s created once per build: %v", core.FuncName(fn), ctor, why2 == "")
				if why2 != "" {
					c.ReportAt(rule, fn, in.Pos(), "created-per-iteration:"+ctor, ctor+" is called "+why2+": every dispatcher gets a pool of its own. "+why)
				}
			}
		}
	}
}

// checkAppendToOwnField: `x.A = append(x.A, v)`. A store of append(load of field B, ...) into a
// different field A of the same object makes A alias B's backing array: what is appended to A
// afterwards lands in B, and A never holds its own elements.
func checkAppendToOwnField(c *core.Ctx, rule, why string, floor int, pis ...*PkgInfo) {
	st := c.Rule(rule, "a list field grows from itself: every store of append(<field G of an object>, ...) into a field of that same object stores into G. `cp.L1SCaches = append(cp.L1ICaches, port)` leaves the scalar caches off their own list and puts them on the instruction caches' (the two then share one backing array). "+why, floor)
	prov := core.NewLocalProv(c)
	for _, pi := range pis {
		for _, fn := range pi.Funcs {
			for _, b := range fn.Blocks {
				for _, in := range b.Instrs {
					s, ok := in.(*ssa.Store)
					if !ok {
						continue
					}
					call, ok := s.Val.(*ssa.Call)
					if !ok || !core.IsBuiltin(call, "append") {
						continue
					}
					dst, okD := s.Addr.(*ssa.FieldAddr)
					ld, okL := call.Call.Args[0].(*ssa.UnOp)
					if !okD || !okL || ld.Op != token.MUL {
						continue
					}
					src, okS := ld.X.(*ssa.FieldAddr)
					if !okS || prov.Of(src.X) != prov.Of(dst.X) {
						continue
					}
					st.Instances++
					c.MarkAnalysed(fn)
					okF := src.Field == dst.Field
					st.Ob(okF)
					if !okF {
						c.ReportAt(rule, fn, s.Pos(), "append-to-other-list:"+fieldNameOf(dst), fmt.Sprintf("%s stores append(%s, ...) into %s of the same object: %s never receives its own elements and later appends to it overwrite %s's. %s", core.FuncName(fn), fieldNameOf(src), fieldNameOf(dst), fieldNameOf(dst), fieldNameOf(src), why))
					}
				}
			}
		}
	}
}

// checkGuardedFieldUsed: a builder function that refuses to go on when a configured list is empty
// (`if len(b.X) == 0 { panic }`) goes on to use that list. A guard on one list followed by the
// use of its sibling is the trace of a copied call site.
func checkGuardedFieldUsed(c *core.Ctx, rule, why string, floor int, pi *PkgInfo) {
	st := c.Rule(rule, "a builder function that panics when a configured list is empty uses that list afterwards: for every `len(b.X) == 0` test of a Builder field whose true edge leads to a panic, the function reads b.X again in what follows the test on the non-empty edge. Guarding the translation providers and then building the mapper from the memory providers sends every page lookup to the memory side. "+why, floor)
	for _, fn := range pi.Funcs {
		if fn.Signature.Recv() == nil || !strings.HasSuffix(strings.TrimPrefix(fn.Signature.Recv().Type().String(), "*"), ".Builder") {
			continue
		}
		// field loads: how often each builder field is read
		reads := map[string]int{}
		guarded := map[string]ssa.Instruction{}
		usedAfter := map[string]bool{}
		for _, b := range fn.Blocks {
			for _, in := range b.Instrs {
				var fname string
				switch x := in.(type) {
				case *ssa.UnOp:
					if f := core.LoadedField(x); f != nil && x.Op == token.MUL {
						fname = f.Name()
					}
				case *ssa.Field:
					if stt, ok := x.X.Type().Underlying().(*types.Struct); ok {
						fname = stt.Field(x.Field).Name()
					}
				}
				if fname != "" {
					reads[fname]++
				}
			}
			iff, ok := b.Instrs[len(b.Instrs)-1].(*ssa.If)
			if !ok {
				continue
			}
			cond, neg := stripNot(iff.Cond)
			bo, ok := cond.(*ssa.BinOp)
			if !ok || (bo.Op != token.EQL && bo.Op != token.NEQ) {
				continue
			}
			call, ok := bo.X.(*ssa.Call)
			if !ok || !core.IsBuiltin(call, "len") {
				continue
			}
			if k, isC := core.ConstInt(bo.Y); !isC || k != 0 {
				continue
			}
			var fname string
			switch x := call.Call.Args[0].(type) {
			case *ssa.UnOp:
				if f := core.LoadedField(x); f != nil {
					fname = f.Name()
				}
			case *ssa.Field:
				if stt, ok := x.X.Type().Underlying().(*types.Struct); ok {
					fname = stt.Field(x.Field).Name()
				}
			}
			if fname == "" {
				continue
			}
			emptyEdge := 0
			if (bo.Op == token.NEQ) != neg {
				emptyEdge = 1
			}
			tgt := b.Succs[emptyEdge]
			if _, isPanic := tgt.Instrs[len(tgt.Instrs)-1].(*ssa.Panic); isPanic {
				guarded[fname] = iff
				// reads of the field in what follows the test on the non-empty edge
				after := map[*ssa.BasicBlock]bool{}
				var fwd func(x *ssa.BasicBlock)
				fwd = func(x *ssa.BasicBlock) {
					if after[x] {
						return
					}
					after[x] = true
					for _, sc := range x.Succs {
						fwd(sc)
					}
				}
				fwd(b.Succs[1-emptyEdge])
				for blk := range after {
					for _, in := range blk.Instrs {
						switch x := in.(type) {
						case *ssa.UnOp:
							if f := core.LoadedField(x); f != nil && x.Op == token.MUL && f.Name() == fname {
								usedAfter[fname] = true
							}
						case *ssa.Field:
							if stt, ok := x.X.Type().Underlying().(*types.Struct); ok && stt.Field(x.Field).Name() == fname {
								usedAfter[fname] = true
							}
						}
					}
				}
			}
		}
		var names []string
		for f := range guarded {
			names = append(names, f)
		}
		sort.Strings(names)
		for _, f := range names {
			st.Instances++
			c.MarkAnalysed(fn)
			ok := usedAfter[f]
			st.Ob(ok)
			st.Sample("%s: refuses an empty %s and uses it afterwards: %v", core.FuncName(fn), f, ok)
			if !ok {
				c.ReportAt(rule, fn, guarded[f].Pos(), "guarded-list-not-used:"+f, core.FuncName(fn)+" panics when "+f+" is empty and then never reads it: what it builds comes from another list. "+why)
			}
		}
	}
}

// checkFreeListFilledOnce: a free list of units is filled at one site of the builder.
func checkFreeListFilledOnce(c *core.Ctx, rule, why string, floor int, pis ...*PkgInfo) {
	st := c.Rule(rule, "every unit enters the free list of its parent once: for each slice field whose name starts with `free`, the builder functions of the package (methods of a ...Builder type) contain exactly one store of append(<that field>, ...). Two filling sites - one left behind when the registration moved - list every unit twice, and the dispatcher, which trusts the list, hands a unit a second block while it still runs the first; the two blocks' completions merge and the kernel never finishes. "+why, floor)
	for _, pi := range pis {
		sites := map[string][]ssa.Instruction{}
		fnOf := map[ssa.Instruction]*ssa.Function{}
		for _, fn := range pi.Funcs {
			if fn.Signature.Recv() == nil || !strings.HasSuffix(strings.TrimPrefix(fn.Signature.Recv().Type().String(), "*"), "Builder") {
				continue
			}
			for _, b := range fn.Blocks {
				for _, in := range b.Instrs {
					s, ok := in.(*ssa.Store)
					if !ok {
						continue
					}
					call, ok := s.Val.(*ssa.Call)
					if !ok || !core.IsBuiltin(call, "append") {
						continue
					}
					f := core.FieldOfAddr(s.Addr)
					if f == nil || !strings.HasPrefix(f.Name(), "free") {
						continue
					}
					id := core.ShortFieldID(f)
					sites[id] = append(sites[id], s)
					fnOf[s] = fn
				}
			}
		}
		var ids []string
		for id := range sites {
			ids = append(ids, id)
		}
		sort.Strings(ids)
		for _, id := range ids {
			st.Instances++
			ok := len(sites[id]) == 1
			st.Ob(ok)
			st.Sample("%s is filled at %d site(s) of the builders", id, len(sites[id]))
			if !ok {
				last := sites[id][len(sites[id])-1]
				c.MarkAnalysed(fnOf[last])
				c.ReportAt(rule, fnOf[last], last.Pos(), "free-list-filled-twice:"+id, fmt.Sprintf("%s is appended to at %d sites of the builders: every unit is on the list more than once. %s", id, len(sites[id]), why))
			}
		}
	}
}

// constArgsOf: the constant integer arguments of the calls of a method, by name, in the packages.
func constArgsOf(c *core.Ctx, method string, pis ...*PkgInfo) []struct {
	fn  *ssa.Function
	in  ssa.Instruction
	val int64
} {
	var out []struct {
		fn  *ssa.Function
		in  ssa.Instruction
		val int64
	}
	for _, pi := range pis {
		for _, fn := range pi.Funcs {
			for _, b := range fn.Blocks {
				for _, in := range b.Instrs {
					cc := core.CallOf(in)
					if cc == nil || cc.StaticCallee() == nil || cc.StaticCallee().Name() != method || len(cc.Args) == 0 {
						continue
					}
					if k, ok := core.ConstInt(cc.Args[len(cc.Args)-1]); ok {
						out = append(out, struct {
							fn  *ssa.Function
							in  ssa.Instruction
							val int64
						}{fn, in, k})
					}
				}
			}
		}
	}
	return out
}

// checkBankInterleaveCoversLine: DRAM banks interleave at no finer than the L2's line.
func checkBankInterleaveCoversLine(c *core.Ctx, rule string, pis ...*PkgInfo) {
	st := c.Rule(rule, "the banked memory keeps order only within a bank and routes a request by its start address, so two requests to one cache line must meet in one bank: in every platform builder the constant handed to the memory controllers' WithLog2InterleaveSize is at least the builder's cache line size (the constant handed to the L2's WithLog2BlockSize, or the default MakeBuilder gives log2CacheLineSize, which is what the builder passes there; the requests the L2 issues are lines). Interleaving at 32 bytes under 64-byte lines lets a partial access to the second half of a line overtake a full-line access to it", 1)
	for _, pi := range pis {
		il := constArgsOf(c, "WithLog2InterleaveSize", pi)
		bs := constArgsOf(c, "WithLog2BlockSize", pi)
		var line int64
		for _, b := range bs {
			if b.val > line {
				line = b.val
			}
		}
		// the line size is usually a field of the builder with a default set by MakeBuilder
		for _, fn := range pi.Funcs {
			if fn.Name() != "MakeBuilder" {
				continue
			}
			for _, b := range fn.Blocks {
				for _, in := range b.Instrs {
					if s, ok := in.(*ssa.Store); ok {
						if f := core.FieldOfAddr(s.Addr); f != nil && f.Name() == "log2CacheLineSize" {
							if k, isC := core.ConstInt(s.Val); isC && k > line {
								line = k
							}
						}
					}
				}
			}
		}
		for _, x := range il {
			st.Instances++
			c.MarkAnalysed(x.fn)
			ok := line > 0 && x.val >= line
			st.Ob(ok)
			st.Sample("%s: banks interleave at 2^%d bytes, lines are 2^%d bytes: %v", core.FuncName(x.fn), x.val, line, ok)
			if !ok {
				c.ReportAt(rule, x.fn, x.in.Pos(), "interleave-finer-than-line", fmt.Sprintf("%s interleaves the DRAM banks at 2^%d bytes while the caches above issue 2^%d-byte lines: the two halves of a line live in different banks, a request is routed by its start address only, and an access that starts in the second half overtakes (row hit) an earlier access to the whole line (row miss): reads return stale bytes, writes land in the wrong order", core.FuncName(x.fn), x.val, line))
			}
		}
	}
}

// checkLocalRangeOfGPU: the range a GPU serves from its own L2 / DRAM.
func checkLocalRangeOfGPU(c *core.Ctx, rule string, platform *PkgInfo, gpus ...*PkgInfo) {
	st := c.Rule(rule, "a GPU serves from its own L2 and DRAM exactly the physical range the platform gives it: in each GPU builder the L1-to-L2 address mapper that limits the address space (UseAddressSpaceLimitation = true) has LowAddress = memAddrOffset and HighAddress = memAddrOffset + dramSize stored into it, and the builder's default dramSize is the platform's per-GPU memory size (the spacing of memAddrOffset and the bank size of the RDMA table; both written 4 * mem.GB). A missing LowAddress or a larger default makes a GPU cache lines of its neighbours' memory in its own write-back L2: the owner's flush finds nothing, a copy or the other GPU reads stale DRAM", 4)
	prov := core.NewLocalProv(c)
	var platformSize int64 = -1
	for _, fn := range platform.Funcs {
		for _, b := range fn.Blocks {
			for _, in := range b.Instrs {
				if s, ok := in.(*ssa.Store); ok {
					if f := core.FieldOfAddr(s.Addr); f != nil && f.Name() == "gpuMemSize" {
						if k, isC := core.ConstInt(s.Val); isC {
							platformSize = k
						}
					}
				}
			}
		}
	}
	for _, pi := range gpus {
		stores := map[string]string{}
		var where *ssa.Function
		var defSize int64 = -1
		for _, fn := range pi.Funcs {
			for _, b := range fn.Blocks {
				for _, in := range b.Instrs {
					s, ok := in.(*ssa.Store)
					if !ok {
						continue
					}
					f := core.FieldOfAddr(s.Addr)
					if f == nil {
						continue
					}
					if f.Name() == "dramSize" && fn.Name() == "MakeBuilder" {
						if k, isC := core.ConstInt(s.Val); isC {
							defSize = k
						}
					}
					if strings.Contains(prov.Of(s.Addr), "l1AddressMapper") || strings.HasSuffix(core.ShortFieldID(f), "InterleavedAddressPortMapper."+f.Name()) {
						switch f.Name() {
						case "LowAddress", "HighAddress", "UseAddressSpaceLimitation":
							stores[f.Name()] = prov.Of(s.Val)
							where = fn
						}
					}
				}
			}
		}
		if where == nil {
			c.Report(core.Finding{Rule: rule, Kind: "anchor", Pkg: pi.Rel, Func: "-", Detail: "l1AddressMapper", Msg: "no address mapper with an address-space limit found in the GPU builder"})
			continue
		}
		c.MarkAnalysed(where)
		for _, w := range []struct{ f, want string }{{"LowAddress", "recv.memAddrOffset"}, {"HighAddress", "(recv.memAddrOffset+recv.dramSize)"}, {"UseAddressSpaceLimitation", "true"}} {
			st.Instances++
			got, has := stores[w.f]
			ok := has && (got == w.want || (w.f == "HighAddress" && got == "(recv.dramSize+recv.memAddrOffset)"))
			st.Ob(ok)
			if !ok {
				if !has {
					got = "nothing (the zero value)"
				}
				c.ReportAt(rule, where, where.Pos(), "local-range:"+w.f+":"+pi.Rel[strings.LastIndex(pi.Rel, "/")+1:], fmt.Sprintf("%s gives the L1-to-L2 mapper's %s %s, not %s: the GPU treats addresses outside [memAddrOffset, memAddrOffset+dramSize) as its own and caches its neighbours' lines in its own write-back L2 instead of going through RDMA to the owner", core.FuncName(where), w.f, short(got), w.want))
			}
		}
		st.Instances++
		ok := defSize > 0 && defSize == platformSize
		st.Ob(ok)
		st.Sample("%s: default dramSize %d, platform spacing %d", pi.Rel, defSize, platformSize)
		if !ok {
			c.Report(core.Finding{Rule: rule, Pkg: pi.Rel, Func: "MakeBuilder", Detail: "default-dram-size:" + pi.Rel[strings.LastIndex(pi.Rel, "/")+1:], Pos: c.Position(where.Pos()),
				Msg: fmt.Sprintf("the GPU builder's default dramSize is %d bytes while the platform places GPUs %d bytes apart and never passes a DRAM size: GPU k claims part of GPU k+1's range as local and serves it from its own L2", defSize, platformSize)})
		}
	}
}

// checkVecMemPipelineSingleLane: the order the CU's completion accounting relies on.
func checkVecMemPipelineSingleLane(c *core.Ctx, rule string, cu *PkgInfo, platforms ...*PkgInfo) {
	st := c.Rule(rule, "the compute unit retires a FLAT instruction when the response to its last-sent transaction arrives, which is right only while transactions leave the vector memory unit in the order they entered its transaction pipeline; an akita pipeline of several lanes loses that order once its output buffer is full (lower lanes drain first). (a) Where the CU builder replaces an unset width, the only constant it puts in is 1; (b) no platform builder configures WithVecMemTransPipelineWidth with a constant above 1. s_waitcnt and s_endpgm otherwise complete with transactions of the instruction still in flight", 2)
	// (a) the CU builder's fallback
	for _, fn := range cu.Funcs {
		for _, b := range fn.Blocks {
			for _, in := range b.Instrs {
				cc := core.CallOf(in)
				if cc == nil || cc.StaticCallee() == nil || cc.StaticCallee().Name() != "WithPipelineWidth" || len(cc.Args) == 0 {
					continue
				}
				arg := cc.Args[len(cc.Args)-1]
				if !strings.Contains(core.NewLocalProv(c).Of(arg), "vecMemTransPipelineWidth") {
					continue
				}
				st.Instances++
				c.MarkAnalysed(fn)
				var bad *ssa.Const
				seen := map[ssa.Value]bool{}
				var walk func(v ssa.Value, d int)
				walk = func(v ssa.Value, d int) {
					if d > 6 || seen[v] {
						return
					}
					seen[v] = true
					switch x := v.(type) {
					case *ssa.Const:
						if k, ok := core.ConstInt(x); ok && k != 1 {
							bad = x
						}
					case *ssa.Phi:
						for _, e := range x.Edges {
							walk(e, d+1)
						}
					case *ssa.Convert:
						walk(x.X, d+1)
					case *ssa.Call:
						if core.IsBuiltin(x, "max") || core.IsBuiltin(x, "min") {
							for _, a := range x.Call.Args {
								walk(a, d+1)
							}
						}
					}
				}
				walk(arg, 0)
				st.Ob(bad == nil)
				if bad != nil {
					c.ReportAt(rule, fn, in.Pos(), "default-width-not-one", fmt.Sprintf("%s can hand the vector memory unit's transaction pipeline the constant width %s: a CU built with defaults gets a multi-lane pipeline, its transactions overtake each other under back-pressure and the last one's response retires the instruction while earlier ones are in flight", core.FuncName(fn), bad.Value.String()))
				}
			}
		}
	}
	// (b) the platforms
	for _, x := range constArgsOf(c, "WithVecMemTransPipelineWidth", platforms...) {
		st.Instances++
		c.MarkAnalysed(x.fn)
		ok := x.val <= 1
		st.Ob(ok)
		if !ok {
			pk := ""
			if x.fn.Pkg != nil {
				pk = x.fn.Pkg.Pkg.Path()
				pk = pk[strings.LastIndex(pk, "/")+1:]
			}
			c.ReportAt(rule, x.fn, x.in.Pos(), "platform-width-above-one:"+pk, fmt.Sprintf("%s builds its compute units with a vector memory transaction pipeline of width %d: under back-pressure at the CU's memory port the transactions of one instruction leave out of order, and the response to the last-sent one retires the instruction (s_waitcnt passes, s_endpgm sends the work-group completion) while earlier ones are still in flight", core.FuncName(x.fn), x.val))
		}
	}
	_ = constant.MakeInt64
}
