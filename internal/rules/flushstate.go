package rules

import (
	"go/types"
	"sort"
	"strings"

	"golang.org/x/tools/go/ssa"

	"verif/internal/core"
)

// checkFlushResets: a component that can be flushed (discard / restart control
// messages) forgets everything its data path remembers. Every field of the
// component's struct that a function of the data path stores into (functions
// reachable from dataRoots inside the package) is also stored into by a
// function of the flush path (reachable from flushRoots). Containers that are
// changed through method calls or map updates are the business of the
// component's own flush rule; this one is about state added as plain fields: a
// request or transaction cached between ticks survives the flush otherwise and
// is replayed for the first request after the restart.
func checkFlushResets(c *core.Ctx, rule, pkgRel, structName string, dataRoots, flushRoots []string, floor int) {
	st := c.Rule(rule, "every field of "+structName+" that the request path ("+strings.Join(dataRoots, ", ")+" and what they call) stores into is also stored into by the flush path ("+strings.Join(flushRoots, ", ")+" and what they call): state that is cached in a field between ticks must not survive a discard / restart, or the first request after the restart is served with the discarded request's data", floor)
	pi := NewPkgInfo(c, pkgRel)
	if pi.Pkg == nil {
		return
	}
	obj := pi.Pkg.Pkg.Scope().Lookup(structName)
	if obj == nil {
		c.Report(core.Finding{Rule: rule, Kind: "anchor", Pkg: pkgRel, Func: "-", Detail: "struct:" + structName, Msg: "component struct not found"})
		return
	}
	stT, ok := obj.Type().Underlying().(*types.Struct)
	if !ok {
		return
	}
	closure := func(roots []string) map[*ssa.Function]bool {
		set := map[*ssa.Function]bool{}
		var add func(fn *ssa.Function)
		add = func(fn *ssa.Function) {
			if fn == nil || fn.Pkg != pi.Pkg || set[fn] {
				return
			}
			set[fn] = true
			for _, b := range fn.Blocks {
				for _, in := range b.Instrs {
					if cc := core.CallOf(in); cc != nil {
						add(cc.StaticCallee())
					}
					if mc, ok := in.(*ssa.MakeClosure); ok {
						if f, ok := mc.Fn.(*ssa.Function); ok {
							add(f)
						}
					}
				}
			}
		}
		for _, r := range roots {
			fn := c.MustFunc(rule, pkgRel, r)
			add(fn)
		}
		return set
	}
	data, flush := closure(dataRoots), closure(flushRoots)
	stored := func(set map[*ssa.Function]bool) map[string]*ssa.Function {
		out := map[string]*ssa.Function{}
		var fns []*ssa.Function
		for fn := range set {
			fns = append(fns, fn)
		}
		sort.Slice(fns, func(i, j int) bool { return core.FuncName(fns[i]) < core.FuncName(fns[j]) })
		for _, fn := range fns {
			for _, b := range fn.Blocks {
				for _, in := range b.Instrs {
					if s, ok := in.(*ssa.Store); ok {
						if f := core.FieldOfAddr(s.Addr); f != nil && core.ShortFieldID(f) == structName+"."+f.Name() {
							if _, seen := out[f.Name()]; !seen {
								out[f.Name()] = fn
							}
						}
					}
				}
			}
		}
		return out
	}
	ds, fs := stored(data), stored(flush)
	for i := 0; i < stT.NumFields(); i++ {
		f := stT.Field(i)
		st.Instances++
		writer, written := ds[f.Name()]
		// a function shared by both paths does not count as "the data path writes it"
		if written && flush[writer] && !data[writer] {
			written = false
		}
		_, reset := fs[f.Name()]
		ok := !written || reset
		st.Ob(ok)
		if written {
			st.Sample("%s.%s: stored by the request path (%s), reset by the flush path: %v", structName, f.Name(), core.FuncName(writer), reset)
		}
		if !ok {
			c.ReportAt(rule, writer, writer.Pos(), "state-survives-flush:"+f.Name(), structName+"."+f.Name()+" is stored by "+core.FuncName(writer)+" on the request path and by no function of the flush path: what it holds when the component is flushed is still there after the restart and is used for the first request that follows (a request that was discarded is sent down, or its response delivered, in place of the new one)")
		}
	}
}
