package rules

import (
	"fmt"
	"go/ast"
	"go/token"
	"path/filepath"
	"regexp"
	"sort"
	"strings"

	"verif/internal/core"
)

// R18.7: a benchmark that gives every GPU total/numGPUs items covers the total.
//
// The multi-GPU benchmarks launch one kernel per GPU over a share of the work. A share
// of `total / numGPUs` (integer division) at offset `i * share` or `i * total / numGPUs`
// covers `total` only when the division is exact; otherwise the tail is dropped (and
// with the second offset form holes appear between the shares). The rule is a necessary
// condition read off the source: a function of amd/benchmarks that divides a quantity
// by the GPU count also handles the remainder of that division - a `%` by the GPU
// count, a ceiling division, a share computed as a difference of two offsets
// `(i+1)*total/n - i*total/n`, or a special case for the last GPU.
func checkBenchmarkSplits(c *core.Ctx) {
	st := c.Rule("R18.7", "running on several GPUs computes every element the single-GPU run computes: in amd/benchmarks, a function that divides a work size by the number of GPUs / queues (total / len(b.gpus), total / numGPUs, ...) to obtain a per-GPU share also handles the remainder of that division in the same function (a % by the GPU count, a ceiling division (total + n - 1) / n, a share formed as the difference of two scaled offsets, a share that is incremented after the division, or a special case for the last GPU index); otherwise total mod n elements are never computed on n GPUs", 6)
	gpuCount := regexp.MustCompile(`(?i)^(uint32|uint64|int64|int32|int|uint)?\(?len\((b\.)?(gpus|queues|gpuids|gpuIDs)\)\)?$|^(b\.)?num_?gpus?$|^(uint32|uint64|int64|int|uint)\((b\.)?num_?gpus?\)$`)
	c.Load("./amd/benchmarks/...")
	type unit struct {
		af  *ast.File
		rel string
	}
	var units []unit
	for _, p := range c.RepoPkgs() {
		if !strings.HasPrefix(core.RelPkg(p.PkgPath), "amd/benchmarks") {
			continue
		}
		for i, f := range p.Syntax {
			if i < len(p.CompiledGoFiles) && !strings.HasSuffix(p.CompiledGoFiles[i], "_test.go") {
				rel, _ := filepath.Rel(core.RepoDir, p.CompiledGoFiles[i])
				units = append(units, unit{f, rel})
			}
		}
	}
	sort.Slice(units, func(i, j int) bool { return units[i].rel < units[j].rel })
	fset := c.Fset
	for _, u := range units {
		af, rel := u.af, u.rel
		for _, d := range af.Decls {
			fd, ok := d.(*ast.FuncDecl)
			if !ok || fd.Body == nil {
				continue
			}
			var shares []*ast.BinaryExpr
			handled := false
			// loop indices and integer parameters: i * total / n is an offset, not a share
			indexNames := map[string]bool{}
			if fd.Type.Params != nil {
				for _, fl := range fd.Type.Params.List {
					if id, ok := fl.Type.(*ast.Ident); ok && (id.Name == "int" || id.Name == "uint32" || id.Name == "uint64" || id.Name == "int64") {
						for _, nm := range fl.Names {
							if !core.ProvMatch(regexp.MustCompile(`(?i)num|count|size|len`), nm.Name) {
								indexNames[nm.Name] = true
							}
						}
					}
				}
			}
			ast.Inspect(fd.Body, func(n ast.Node) bool {
				if rs, ok := n.(*ast.RangeStmt); ok {
					if id, ok := rs.Key.(*ast.Ident); ok && id.Name != "_" {
						indexNames[id.Name] = true
					}
				}
				if fs, ok := n.(*ast.ForStmt); ok {
					if as, ok := fs.Init.(*ast.AssignStmt); ok && len(as.Lhs) == 1 {
						if id, ok := as.Lhs[0].(*ast.Ident); ok {
							indexNames[id.Name] = true
						}
					}
				}
				return true
			})
			var isIndex func(e ast.Expr) bool
			isIndex = func(e ast.Expr) bool {
				switch t := e.(type) {
				case *ast.Ident:
					return indexNames[t.Name]
				case *ast.ParenExpr:
					return isIndex(t.X)
				case *ast.CallExpr: // conversion
					if len(t.Args) == 1 {
						return isIndex(t.Args[0])
					}
				}
				return false
			}
			isCount := func(e ast.Expr) bool { return gpuCount.MatchString(strings.ReplaceAll(typesExprString(e), " ", "")) }
			ast.Inspect(fd.Body, func(n ast.Node) bool {
				be, ok := n.(*ast.BinaryExpr)
				if !ok {
					return true
				}
				switch be.Op {
				case token.QUO:
					if !isCount(be.Y) {
						return true
					}
					// i * total / n  (an offset) and (total + n - 1) / n (a ceiling) are not plain shares
					x := be.X
					for {
						if p, ok := x.(*ast.ParenExpr); ok {
							x = p.X
							continue
						}
						break
					}
					if xb, ok := x.(*ast.BinaryExpr); ok {
						if xb.Op == token.MUL && (isIndex(xb.X) || isIndex(xb.Y)) {
							return true
						}
						if xb.Op == token.SUB || xb.Op == token.ADD {
							s := strings.ReplaceAll(typesExprString(xb), " ", "")
							if strings.Contains(s, "-1") {
								handled = true // ceiling division
								return true
							}
						}
					}
					shares = append(shares, be)
				case token.REM:
					if isCount(be.Y) {
						handled = true
					}
				case token.EQL, token.NEQ, token.LSS, token.GEQ, token.GTR, token.LEQ:
					// a special case for the last GPU: index compared with count-1 (either side)
					for _, side := range []ast.Expr{be.X, be.Y} {
						if sb, ok := side.(*ast.BinaryExpr); ok && sb.Op == token.SUB && isCount(sb.X) {
							if lit, ok := sb.Y.(*ast.BasicLit); ok && lit.Value == "1" {
								handled = true
							}
						}
					}
				case token.SUB:
					// difference of two scaled offsets: both sides divide by the count
					l := strings.ReplaceAll(typesExprString(be.X), " ", "")
					r := strings.ReplaceAll(typesExprString(be.Y), " ", "")
					if strings.Contains(l, "/") && strings.Contains(r, "/") && strings.Contains(l, "+1") {
						handled = true
					}
				}
				return true
			})
			if len(shares) == 0 {
				continue
			}
			// a ceiling written as `share := total / n; if share*n < total { share++ }`
			shareVars := map[string]bool{}
			ast.Inspect(fd.Body, func(n ast.Node) bool {
				as, ok := n.(*ast.AssignStmt)
				if !ok || len(as.Lhs) != 1 || len(as.Rhs) != 1 {
					return true
				}
				for _, sh := range shares {
					if as.Rhs[0] == ast.Expr(sh) {
						if id, ok := as.Lhs[0].(*ast.Ident); ok {
							shareVars[id.Name] = true
						}
					}
				}
				return true
			})
			ast.Inspect(fd.Body, func(n ast.Node) bool {
				switch t := n.(type) {
				case *ast.IncDecStmt:
					if id, ok := t.X.(*ast.Ident); ok && t.Tok == token.INC && shareVars[id.Name] {
						handled = true
					}
				case *ast.AssignStmt:
					if t.Tok == token.ADD_ASSIGN && len(t.Lhs) == 1 {
						if id, ok := t.Lhs[0].(*ast.Ident); ok && shareVars[id.Name] {
							handled = true
						}
					}
				}
				return true
			})
			st.Instances++
			st.Ob(handled)
			if !handled {
				pos := fset.Position(shares[0].Pos())
				c.Report(core.Finding{Rule: "R18.7", Pkg: filepath.Dir(rel), Func: core.DeclName(fd), Detail: "share-without-remainder", Pos: fmt.Sprintf("%s:%d", rel, pos.Line),
					Msg: fmt.Sprintf("%s gives every GPU %s items and never looks at the remainder: with a size that is not a multiple of the GPU count the last elements are computed on one GPU and on no GPU when several are used (FIR with length 4098 on 4 GPUs leaves a hole at 2048 and a tail; ReLU with 5001 elements on 2 GPUs drops one)", core.DeclName(fd), typesExprString(shares[0]))})
			}
		}
	}
}
