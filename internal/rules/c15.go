package rules

import (
	"fmt"
	"go/token"
	"go/types"
	"regexp"
	"strings"

	"golang.org/x/tools/go/ssa"

	"verif/internal/core"
)

const robPkg = "amd/timing/rob"

func init() { register("C15", runC15) }

func runC15(c *core.Ctx) core.Meta {
	c.Load(robPkg, saPkg, timingPlatformPkgs[0], timingPlatformPkgs[1])
	c.BuildSSA()
	checkROBWiring(c)
	p := NewPkgInfo(c, robPkg)
	checkBuilderPassThrough(c, "R15.12", "The reorder buffer admits requests while fewer than bufferSize transactions are in flight: a Build that raises a small configured capacity to the width lets it hold more than it was configured for.", p, map[string]string{"ReorderBuffer.bufferSize": "bufferSize", "ReorderBuffer.numReqPerCycle": "numReqPerCycle"})
	const listField = "ReorderBuffer.transactions"
	const tableField = "ReorderBuffer.toBottomReqIDToTransactionTable"

	isListCall := func(in ssa.Instruction, names ...string) bool {
		m, ok := MethodOnField(in, listField, names...)
		return ok && m != ""
	}

	// R15.1 SEND-DISCIPLINE
	RunProto(c, &ProtoCfg{
		AllEffectsAfterSend: true,
		RuleBase:            "R15.1", Pkg: robPkg, FloorSends: 3,
		Effects: []Effect{
			RetrieveEffect,
			{Label: "list-insert", Consume: true, Match: func(n *core.Node) bool {
				return isListCall(n.Instr, "PushBack", "PushFront", "InsertBefore", "InsertAfter")
			}},
			{Label: "list-remove", Consume: true, Match: func(n *core.Node) bool { return isListCall(n.Instr, "Remove") }},
			{Label: "list-init", Consume: true, Match: func(n *core.Node) bool { return isListCall(n.Instr, "Init") }},
			FieldWriteEffect("table-write", tableField),
			FieldWriteEffect("isFlushing-write", "ReorderBuffer.isFlushing"),
		},
	})

	// R15.2 in-order retirement
	st := c.Rule("R15.2", "the transaction list is only appended at the back and retired from the front: allowed list operations on ReorderBuffer.transactions are {Front,PushBack,Remove,Len,Init}; the element removed and the response sent to the top port both derive from transactions.Front(); the send is guarded by the response having arrived", 5)
	allowed := map[string]bool{"Front": true, "PushBack": true, "Remove": true, "Len": true, "Init": true}
	prov := core.NewProv(c)
	p.Instrs(func(fn *ssa.Function, in ssa.Instruction) {
		m, ok := MethodOnField(in, listField)
		if !ok {
			return
		}
		st.Instances++
		st.Ob(allowed[m])
		if !allowed[m] {
			c.ReportAt("R15.2", fn, in.Pos(), "list."+m, "list operation "+m+" on the transaction list breaks arrival-order retirement (only Front/PushBack/Remove/Len/Init keep FIFO order)")
		}
		if m == "Remove" {
			cc := core.CallOf(in)
			pv := prov.Of(cc.Args[len(cc.Args)-1])
			ok := core.ProvMatch(regexp.MustCompile(`^recv\.transactions\.Front\(\)$`), pv)
			st.Ob(ok)
			st.Sample("%s: transactions.Remove(%s)", core.FuncName(fn), pv)
			if !ok {
				c.ReportAt("R15.2", fn, in.Pos(), "list.Remove:arg", "the element retired is "+pv+", not transactions.Front(): responses leave out of request order")
			}
		}
	})
	// the message sent to the top port derives from the head element only
	topSends := 0
	p.Instrs(func(fn *ssa.Function, in ssa.Instruction) {
		if !SendOn(in, "topPort") {
			return
		}
		topSends++
		st.Instances++
		pv := prov.Of(core.CallOf(in).Args[0])
		listOps := regexp.MustCompile(`transactions\.(\w+)\(`).FindAllStringSubmatch(pv, -1)
		ok := len(listOps) > 0
		for _, m := range listOps {
			if m[1] != "Front" {
				ok = false
			}
		}
		if strings.Contains(pv, "toBottomReqIDToTransactionTable") {
			ok = false
		}
		st.Ob(ok)
		st.Sample("%s: topPort.Send(%s)", core.FuncName(fn), pv)
		if !ok {
			c.ReportAt("R15.2", fn, in.Pos(), "topPort.Send:msg", "the response sent to the requester derives from "+pv+" rather than from the head of the transaction list only")
		}
	})
	if topSends != 1 {
		c.Report(core.Finding{Rule: "R15.2", Pkg: robPkg, Func: "-", Detail: "topPort.Send:count", Msg: fmt.Sprintf("%d Send sites on the top port; exactly one (the in-order retirement) is expected", topSends)})
	}
	// guarded by rspFromBottom != nil
	n, ung := p.GuardedUp(func(in ssa.Instruction) bool { return SendOn(in, "topPort") },
		NilCut(func(v ssa.Value) bool {
			f := core.LoadedField(v)
			return f != nil && core.ShortFieldID(f) == "transaction.rspFromBottom"
		}, false))
	st.Instances += n
	for i := 0; i < n-len(ung); i++ {
		st.Ob(true)
	}
	for _, u := range ung {
		st.Ob(false)
		c.ReportAt("R15.2", u.Target.Fn(), u.Target.Instr.Pos(), "topPort.Send:guard", "a response is sent to the requester on a path that did not test that the lower level's response has arrived (rspFromBottom != nil)")
	}
	// the head's response is stored by lookup of the response's RspTo only
	p.Instrs(func(fn *ssa.Function, in ssa.Instruction) {
		s, ok := storeToField(in, "transaction.rspFromBottom")
		if !ok {
			return
		}
		st.Instances++
		addr := prov.Of(s.Addr.(*ssa.FieldAddr).X)
		val := prov.Of(s.Val)
		ok2 := core.ProvMatch(regexp.MustCompile(`^recv\.toBottomReqIDToTransactionTable\[recv\.bottomPort\.PeekIncoming\(\)\.(GetRspTo\(\)|RespondTo)\]\.Value$`), addr) &&
			val == "recv.bottomPort.PeekIncoming()"
		st.Ob(ok2)
		st.Sample("%s: (%s).rspFromBottom = %s", core.FuncName(fn), addr, val)
		if !ok2 {
			c.ReportAt("R15.2", fn, in.Pos(), "rspFromBottom:store", fmt.Sprintf("response %s is attached to transaction %s; it must be attached to the transaction looked up by the response's own RspTo", val, addr))
		}
	})
	// table insert pairs the pushed element with the forwarded request's ID
	p.Instrs(func(fn *ssa.Function, in ssa.Instruction) {
		mu, ok := in.(*ssa.MapUpdate)
		if !ok {
			return
		}
		f := core.LoadedField(mu.Map)
		if f == nil || core.ShortFieldID(f) != tableField {
			return
		}
		st.Instances++
		k, v := prov.Of(mu.Key), prov.Of(mu.Value)
		m := regexp.MustCompile(`^(.*)\.reqToBottom\.Meta\(\)\.ID$`).FindStringSubmatch(k)
		ok2 := m != nil && v == "recv.transactions.PushBack("+m[1]+")"
		st.Ob(ok2)
		st.Sample("%s: table[%s] = %s", core.FuncName(fn), k, v)
		if !ok2 {
			c.ReportAt("R15.2", fn, in.Pos(), "table:insert", fmt.Sprintf("lookup table entry [%s] = %s does not map the forwarded request's ID to the list element just pushed for the same transaction", k, v))
		}
	})

	{
		stp := c.Rule("R15.10", "the component keeps ticking while any of its steps made progress: where a function with a bool result collects its answer in a loop (over requests per cycle, banks, ports), the value carried around the loop is derived from itself on the back edge (p = step() || p). A plain assignment keeps only the last iteration's answer; the component reports no progress and is not ticked again although an earlier iteration left work to continue", 1)
		checkProgressAccumulated(c, stp, "R15.10", p, "The component stops ticking with work pending; requests already accepted are never completed")
	}
	{
		stp := c.Rule("R15.11", "a step that did something counts as progress: in every function with a bool result, the result of each call to a step of the package that can consume or send a message flows into the returned value, as data or through the short circuit p = step() || p. A step whose result only steers a loop (if !step() { break }) can take a message off a port while the tick reports no progress; the component is not ticked again and the messages behind it are never read", 1)
		checkStepResultsCount(c, stp, "R15.11", p, "a response that was attached or a request that was forwarded in this tick does not keep the component ticking; with more input queued than one tick handles it goes to sleep and nothing wakes it (a port notifies only when a message arrives at an empty buffer)")
	}
	// R15.9 a handled message leaves its port
	st9 := c.Rule("R15.9", "a message the reorder buffer looked at and reported progress for is taken off its port: from PeekIncoming (message present) no path of a handler reaches `return true` without RetrieveIncoming on the same port (callees followed); a message left at the head is handled again on the next tick (a request forwarded twice, a response attached twice) and blocks the port", 2)
	checkPeekedHandledConsumed(c, st9, "R15.9", p, "the same message is handled again on the next tick")

	// R15.8 a restart empties each port
	st8 := c.Rule("R15.8", "a restart discards every request that was handed to the buffer before it: each drain loop of the reorder buffer (a loop that only takes messages off a port) serves one port and is left only where the retrieved message is nil, so the top port and the bottom port are each emptied completely. Requests left in the top port are accepted after the restart and their responses reach the requester although they were discarded", 1)
	checkDrainLoops(c, st8, "R15.8", p, "requests that waited in the top port survive the restart, are sent to the lower level and answered after the flush was acknowledged")

	// R15.3 capacity
	st3 := c.Rule("R15.3", "a transaction is inserted only on paths that tested the capacity predicate false; the predicate compares transactions.Len() >= bufferSize", 2)
	capPred := map[*ssa.Function]bool{}
	// The number of transactions held is transactions.Len(), or the length of a map of the reorder
	// buffer that holds exactly the listed transactions: every insertion into the map sits in a
	// function that pushes onto the list, every deletion in a function that removes from the list,
	// and the map is replaced only where the list is re-initialised.
	fnHasList := func(fn *ssa.Function, names ...string) bool {
		for _, b := range fn.Blocks {
			for _, in := range b.Instrs {
				if isListCall(in, names...) {
					return true
				}
			}
		}
		return false
	}
	reportedMeasure := map[string]bool{}
	mapInSync := map[string]string{} // field id -> "" (in sync) or the reason it is not
	syncOf := func(id string) string {
		if why, ok := mapInSync[id]; ok {
			return why
		}
		why := ""
		p.Instrs(func(fn *ssa.Function, in ssa.Instruction) {
			if why != "" {
				return
			}
			switch x := in.(type) {
			case *ssa.MapUpdate:
				if f := core.LoadedField(x.Map); f != nil && core.ShortFieldID(f) == id && !fnHasList(fn, "PushBack", "PushFront", "InsertBefore", "InsertAfter") {
					why = core.FuncName(fn) + " inserts into it without pushing onto the transaction list"
				}
			case *ssa.Call:
				if bi, ok := x.Call.Value.(*ssa.Builtin); ok && bi.Name() == "delete" && len(x.Call.Args) == 2 {
					if f := core.LoadedField(x.Call.Args[0]); f != nil && core.ShortFieldID(f) == id && !fnHasList(fn, "Remove") {
						why = core.FuncName(fn) + " deletes from it while the transaction stays in the list"
					}
				}
			case *ssa.Store:
				if f := core.FieldOfAddr(x.Addr); f != nil && core.ShortFieldID(f) == id && fn.Name() != "init" && !fnHasList(fn, "Init") && !strings.HasPrefix(fn.Name(), "Build") && !strings.HasPrefix(fn.Name(), "Make") && !strings.HasPrefix(fn.Name(), "New") {
					why = core.FuncName(fn) + " replaces it without re-initialising the transaction list"
				}
			}
		})
		mapInSync[id] = why
		return why
	}
	measureOf := func(v ssa.Value) string {
		if prov.Of(v) == "recv.transactions.Len()" {
			return "recv.transactions.Len()"
		}
		call, ok := v.(*ssa.Call)
		if !ok {
			return ""
		}
		bi, ok := call.Call.Value.(*ssa.Builtin)
		if !ok || bi.Name() != "len" || len(call.Call.Args) != 1 {
			return ""
		}
		f := core.LoadedField(call.Call.Args[0])
		if f == nil || !strings.HasPrefix(core.ShortFieldID(f), "ReorderBuffer.") {
			return ""
		}
		if _, isMap := f.Type().Underlying().(*types.Map); !isMap {
			return ""
		}
		id := core.ShortFieldID(f)
		if why := syncOf(id); why != "" {
			if reportedMeasure[id] {
				return ""
			}
			reportedMeasure[id] = true
			st3.Ob(false)
			c.ReportAt("R15.3", call.Parent(), call.Pos(), "capacity-measure:"+f.Name(), "the capacity test counts len("+f.Name()+"), which does not hold exactly the transactions in the buffer: "+why+"; transactions that are still queued are not counted and the buffer accepts more than its capacity")
			return ""
		}
		return "recv.transactions.Len()"
	}
	for _, fn := range p.Funcs {
		for _, b := range fn.Blocks {
			for _, in := range b.Instrs {
				r, ok := in.(*ssa.Return)
				if !ok || len(r.Results) != 1 {
					continue
				}
				bo, ok := r.Results[0].(*ssa.BinOp)
				if !ok {
					continue
				}
				x, y := prov.Of(bo.X), prov.Of(bo.Y)
				if m := measureOf(bo.X); m != "" {
					x = m
				}
				if m := measureOf(bo.Y); m != "" {
					y = m
				}
				isLen := func(s string) bool { return s == "recv.transactions.Len()" }
				isCap := func(s string) bool { return s == "recv.bufferSize" }
				if !(isLen(x) && isCap(y)) && !(isLen(y) && isCap(x)) {
					continue
				}
				capPred[fn] = true
				st3.Instances++
				op := bo.Op
				if isLen(y) { // bufferSize OP Len -> flip
					switch op {
					case token.LEQ:
						op = token.GEQ
					case token.LSS:
						op = token.GTR
					case token.GEQ:
						op = token.LEQ
					case token.GTR:
						op = token.LSS
					}
				}
				ok2 := op == token.GEQ || op == token.EQL
				st3.Ob(ok2)
				st3.Sample("%s: return %s %s %s", core.FuncName(fn), x, bo.Op, y)
				if !ok2 {
					c.ReportAt("R15.3", fn, in.Pos(), "capacity-predicate", fmt.Sprintf("capacity predicate is Len() %s bufferSize; with anything but >= the buffer holds more than its configured capacity (or never fills)", op))
				}
			}
		}
	}
	// the same comparison used directly as a branch condition
	directCap := CmpCut(func(_ *core.Node, op token.Token, x, y ssa.Value) int {
		px, py := prov.Of(x), prov.Of(y)
		if m := measureOf(x); m != "" {
			px = m
		}
		if m := measureOf(y); m != "" {
			py = m
		}
		if px == "recv.transactions.Len()" && py == "recv.bufferSize" {
			switch op {
			case token.GEQ, token.EQL:
				return -1 // not full on the false edge
			case token.LSS, token.NEQ:
				return 1
			}
		}
		if py == "recv.transactions.Len()" && px == "recv.bufferSize" {
			switch op {
			case token.LEQ, token.EQL:
				return -1
			case token.GTR, token.NEQ:
				return 1
			}
		}
		return 0
	})
	hasDirect := false
	p.Instrs(func(fn *ssa.Function, in ssa.Instruction) {
		if bo, ok := in.(*ssa.BinOp); ok && len(capPred) == 0 {
			px, py := prov.Of(bo.X), prov.Of(bo.Y)
			if m := measureOf(bo.X); m != "" {
				px = m
			}
			if m := measureOf(bo.Y); m != "" {
				py = m
			}
			if (px == "recv.transactions.Len()" && py == "recv.bufferSize") || (py == "recv.transactions.Len()" && px == "recv.bufferSize") {
				hasDirect = true
				st3.Instances++
				okOp := (px == "recv.transactions.Len()" && (bo.Op == token.GEQ || bo.Op == token.LSS)) || (py == "recv.transactions.Len()" && (bo.Op == token.LEQ || bo.Op == token.GTR))
				st3.Ob(okOp)
				if !okOp {
					c.ReportAt("R15.3", fn, in.Pos(), "capacity-predicate", fmt.Sprintf("capacity test is %s %s %s; anything but Len() >= bufferSize (or its negation) lets the buffer hold more than its capacity", px, bo.Op, py))
				}
			}
		}
	})
	if len(capPred) == 0 && !hasDirect {
		c.Report(core.Finding{Rule: "R15.3", Kind: "anchor", Pkg: robPkg, Func: "-", Detail: "capacity-predicate", Msg: "no comparison of transactions.Len() with bufferSize found"})
	}
	n3, ung3 := p.GuardedUp(func(in ssa.Instruction) bool {
		return isListCall(in, "PushBack", "PushFront", "InsertBefore", "InsertAfter")
	}, AnyCut(CallFnCut(false, capPred), directCap))
	st3.Instances += n3
	for i := 0; i < n3-len(ung3); i++ {
		st3.Ob(true)
	}
	for _, u := range ung3 {
		st3.Ob(false)
		c.ReportAt("R15.3", u.Target.Fn(), u.Target.Instr.Pos(), "insert:guard", "a transaction is inserted on a path that did not find the buffer non-full (reached from "+core.FuncName(u.Top)+")")
	}

	// R15.3 (cont.): the capacity test is repeated for every insertion. A test
	// hoisted out of the per-cycle loop guards only the first request: from an
	// insertion no second insertion may be reachable, within one Tick, without
	// passing the "not full" edge of a capacity test again.
	if tick := c.SSAFunc(robPkg, "ReorderBuffer.Tick"); tick != nil {
		capCut := AnyCut(CallFnCut(false, capPred), directCap)
		g := core.BuildGraph(tick, 5, func(cal *ssa.Function) bool { return cal.Pkg == tick.Pkg })
		inserts := g.NodesWhere(func(n *core.Node) bool {
			return isListCall(n.Instr, "PushBack", "PushFront", "InsertBefore", "InsertAfter")
		})
		for _, ins := range inserts {
			st3.Instances++
			reach, okW := g.Reach(core.After(ins, nil), core.WalkOpts{CutEdge: capCut})
			stale := false
			for _, other := range inserts {
				if reach[other] {
					stale = true
				}
			}
			st3.Ob(okW && !stale)
			if !okW {
				c.Undecided("R15.3", ins.Fn(), ins.Instr.Pos(), "insert:fresh-guard", "state cap reached")
			} else if stale {
				c.ReportAt("R15.3", ins.Fn(), ins.Instr.Pos(), "insert:stale-guard", "after this insertion another insertion is reachable in the same Tick without a new capacity test (the test sits outside the per-cycle loop): with more than one request per cycle the buffer holds up to numReqPerCycle-1 transactions more than its capacity")
			}
		}
		if len(inserts) == 0 {
			c.Report(core.Finding{Rule: "R15.3", Kind: "anchor", Pkg: robPkg, Func: "ReorderBuffer.Tick", Detail: "insert:fresh-guard", Msg: "no list insertion reachable from Tick"})
		}
	} else {
		c.Report(core.Finding{Rule: "R15.3", Kind: "anchor", Pkg: robPkg, Func: "ReorderBuffer.Tick", Detail: "anchor", Msg: "ReorderBuffer.Tick not found"})
	}

	// R15.4 FIELDS
	p.CheckFields("R15.4", []FieldSpec{
		{Builder: "mem.ReadReqBuilder", MinSites: 1, SameBase: []string{"WithAddress", "WithByteSize", "WithPID"},
			Require: map[string]string{"WithAddress": `\.Address$`, "WithByteSize": `\.AccessByteSize$`, "WithPID": `\.PID$`}},
		{Builder: "mem.WriteReqBuilder", MinSites: 1, SameBase: []string{"WithAddress", "WithPID", "WithData", "WithDirtyMask"},
			Require: map[string]string{"WithAddress": `\.Address$`, "WithPID": `\.PID$`, "WithData": `\.Data$`, "WithDirtyMask": `\.DirtyMask$`}},
		{Builder: "mem.DataReadyRspBuilder", MinSites: 1, SameBase: []string{"WithData", "WithRspTo"},
			Require: map[string]string{"WithData": `\.rspFromBottom\.Data$`, "WithRspTo": `\.reqFromTop\.Meta\(\)\.ID$`}},
		{Builder: "mem.WriteDoneRspBuilder", MinSites: 1,
			Require: map[string]string{"WithRspTo": `\.reqFromTop\.Meta\(\)\.ID$`}},
	})
	st4 := c.Stats["R15.4"]
	// the forwarded request comes from the request peeked at the top port, and
	// the response's destination is the original requester
	p.Instrs(func(fn *ssa.Function, in ssa.Instruction) {
		if SendOn(in, "bottomPort") {
			st4.Instances++
			pv := prov.Of(core.CallOf(in).Args[0])
			ok := strings.Contains(pv, "recv.topPort.PeekIncoming()")
			st4.Ob(ok)
			st4.Sample("%s: bottomPort.Send(%s)", core.FuncName(fn), pv)
			if !ok {
				c.ReportAt("R15.4", fn, in.Pos(), "bottomPort.Send:msg", "the request forwarded down ("+pv+") is not derived from the request at the head of the top port")
			}
		}
	})
	checkMetaStores(c, p, prov, "R15.4", "topPort", map[string]string{"Dst": `\.reqFromTop\.Meta\(\)\.Src$`})

	// R15.7 nothing cached in a field survives a flush (flushstate.go)
	checkFlushResets(c, "R15.7", robPkg, "ReorderBuffer", []string{"ReorderBuffer.runPipeline"}, []string{"ReorderBuffer.processControlMsg"}, 8)

	// R15.5 flush
	st5 := c.Rule("R15.5", "flush/restart clear the list and the lookup table together; the pipeline runs only while not flushing; unknown responses are consumed", 3)
	initFns := p.Direct(func(in ssa.Instruction) bool { return isListCall(in, "Init") })
	for _, fn := range initFns {
		st5.Instances++
		hasTable := false
		for _, b := range fn.Blocks {
			for _, in := range b.Instrs {
				if s, ok := storeToField(in, tableField); ok {
					if _, ok := s.Val.(*ssa.MakeMap); ok {
						hasTable = true
					}
				}
			}
		}
		st5.Ob(hasTable)
		st5.Sample("%s: transactions.Init() paired with table re-creation=%v", core.FuncName(fn), hasTable)
		if !hasTable {
			c.ReportAt("R15.5", fn, fn.Pos(), "init-without-table-reset", "the transaction list is cleared without re-creating the ID lookup table: a late response for a discarded request still finds an entry")
		}
	}
	// the handler group of a function that acknowledges on controlPort: the function itself and the
	// functions of the package that call it and work on the control port themselves (the handler
	// that peeked the message and delegates the acknowledgement to a helper)
	usesCtrl := func(fn *ssa.Function) bool {
		for _, b := range fn.Blocks {
			for _, in := range b.Instrs {
				if cc := core.CallOf(in); cc != nil && cc.IsInvoke() && portOfCall(in) == "controlPort" {
					return true
				}
			}
		}
		return false
	}
	ctrlGroup := func(fn *ssa.Function) map[*ssa.Function]bool {
		g := map[*ssa.Function]bool{fn: true}
		for _, cand := range p.Funcs {
			if !usesCtrl(cand) {
				continue
			}
			for _, b := range cand.Blocks {
				for _, in := range b.Instrs {
					if cc := core.CallOf(in); cc != nil && cc.StaticCallee() == fn {
						g[cand] = true
					}
				}
			}
		}
		return g
	}
	var reachesInit func(fn *ssa.Function, d int) bool
	reachesInit = func(fn *ssa.Function, d int) bool {
		for _, f2 := range initFns {
			if f2 == fn {
				return true
			}
		}
		if d >= 2 {
			return false
		}
		for _, b := range fn.Blocks {
			for _, in := range b.Instrs {
				if cc := core.CallOf(in); cc != nil {
					if cal := cc.StaticCallee(); cal != nil && cal.Pkg == fn.Pkg && reachesInit(cal, d+1) {
						return true
					}
				}
			}
		}
		return false
	}
	ctrlHandlers := map[*ssa.Function]bool{}
	for _, fn := range p.Direct(func(in ssa.Instruction) bool { return SendOn(in, "controlPort") }) {
		for h := range ctrlGroup(fn) {
			ctrlHandlers[h] = true
		}
	}
	// every discard/restart control message handler must clear: functions that send on controlPort
	for _, fn := range p.Direct(func(in ssa.Instruction) bool { return SendOn(in, "controlPort") }) {
		st5.Instances++
		has := false
		for h := range ctrlGroup(fn) {
			if reachesInit(h, 0) {
				has = true
			}
		}
		st5.Ob(has)
		if !has {
			c.ReportAt("R15.5", fn, fn.Pos(), "ctrl-without-clear", "a control message is acknowledged without clearing the in-flight transactions")
		}
	}
	n5, ung5 := p.GuardedUp(func(in ssa.Instruction) bool { return SendOn(in, "topPort") || SendOn(in, "bottomPort") }, BoolFieldCut("ReorderBuffer.isFlushing", false))
	st5.Instances += n5
	for i := 0; i < n5-len(ung5); i++ {
		st5.Ob(true)
	}
	for _, u := range ung5 {
		st5.Ob(false)
		c.ReportAt("R15.5", u.Target.Fn(), u.Target.Instr.Pos(), "pipeline-while-flushing", "requests/responses are forwarded on a path that did not test isFlushing==false (top: "+core.FuncName(u.Top)+")")
	}
	// isFlushing is set true only with discard and false only with restart: each store is in a function acknowledging on controlPort
	p.Instrs(func(fn *ssa.Function, in ssa.Instruction) {
		if _, ok := storeToField(in, "ReorderBuffer.isFlushing"); !ok {
			return
		}
		st5.Instances++
		ok := ctrlHandlers[fn]
		st5.Ob(ok)
		if !ok {
			c.ReportAt("R15.5", fn, in.Pos(), "isFlushing:writer", "isFlushing is written outside the control-message handlers")
		}
	})
	// unknown response consumed: the RetrieveIncoming on bottomPort in the function that looks up the table must not be guarded by found==true
	for _, fn := range p.Funcs {
		var lookup bool
		for _, b := range fn.Blocks {
			for _, in := range b.Instrs {
				if l, ok := in.(*ssa.Lookup); ok {
					if f := core.LoadedField(l.X); f != nil && core.ShortFieldID(f) == tableField {
						lookup = true
					}
				}
			}
		}
		if !lookup {
			continue
		}
		st5.Instances++
		g := core.BuildGraph(fn, 0, nil)
		rets := g.NodesWhere(func(n *core.Node) bool { return isRetrieve(n) && portOfCall(n.Instr) == "bottomPort" })
		ok := len(rets) > 0
		for _, r := range rets {
			// reachable with found == false
			cut := boolCut(func(n *core.Node, v ssa.Value) bool {
				e, ok := v.(*ssa.Extract)
				if !ok || e.Index != 1 {
					return false
				}
				_, isLookup := e.Tuple.(*ssa.Lookup)
				return isLookup
			}, true)
			// remove found==true edges: retrieve must still be reachable
			if g.Guarded(r, cut) {
				ok = false
			}
		}
		st5.Ob(ok)
		st5.Sample("%s: response with unknown RspTo is consumed=%v", core.FuncName(fn), ok)
		if !ok {
			c.ReportAt("R15.5", fn, fn.Pos(), "unknown-rsp-not-consumed", "a response whose ID is not in the table (a discarded request) is not consumed: it blocks the bottom port forever")
		}
	}

	checkIntegerWidths(c, "R15.13", "Addresses and sizes of duplicated requests are not narrowed.", 5, []widthScope{{rel: robPkg}}, []string{"narrow", "widen-wrapped", "unsigned-diff"}, widthAllowC15)
	checkFlushFlagReadAfterControl(c)
	checkMaskWalkedPerByte(c, "R15.15", "In the reorder buffer a write whose mask looks all-dirty through that loop loses its mask on the way down, and the lower level overwrites bytes the requester marked clean.", 0, robPkg)
	return core.Meta{Level: "other",
		Explanation: "Structural clauses of the reorder buffer decided on SSA of amd/timing/rob: SEND-DISCIPLINE on every handler (no commit after a failed Send, nothing consumed before a Send), FIFO-only list operations with retirement from Front(), capacity guard before insertion with a >= predicate, FIELDS of duplicated requests/responses by provenance, flush/restart clearing list and table together and gating the pipeline.",
		NotDecided:  "response timing, widths per cycle (numReqPerCycle) and akita port behaviour; values carried in Data are not compared, only their provenance",
		Assumptions: commonAssumptions}
}

// checkMetaStores: in every function that sends on `port`, stores to
// msg.Meta().<field> for the required fields must have matching provenance.
func checkMetaStores(c *core.Ctx, p *PkgInfo, prov *core.Prov, rule, port string, req map[string]string) {
	st := c.Rule(rule, "", 0)
	for _, fn := range p.Direct(func(in ssa.Instruction) bool { return SendOn(in, port) }) {
		found := map[string]bool{}
		for _, b := range fn.Blocks {
			for _, in := range b.Instrs {
				s, ok := in.(*ssa.Store)
				if !ok {
					continue
				}
				fa, ok := s.Addr.(*ssa.FieldAddr)
				if !ok {
					continue
				}
				f := core.FieldOfAddr(fa)
				re, want := req[f.Name()]
				if !want || core.ShortFieldID(f) != "MsgMeta."+f.Name() {
					continue
				}
				found[f.Name()] = true
				st.Instances++
				pv := prov.Of(s.Val)
				ok2 := core.ProvMatch(regexp.MustCompile(re), pv)
				st.Ob(ok2)
				st.Sample("%s: msg.Meta().%s = %s", core.FuncName(fn), f.Name(), pv)
				if !ok2 {
					c.ReportAt(rule, fn, in.Pos(), port+":Meta."+f.Name(), fmt.Sprintf("message sent on %s has %s = %s, required /%s/", port, f.Name(), pv, re))
				}
			}
		}
		for k := range req {
			if !found[k] {
				st.Instances++
				st.Ob(false)
				c.ReportAt(rule, fn, fn.Pos(), port+":Meta."+k+":missing", "message sent on "+port+" never gets its "+k+" set from the original request")
			}
		}
	}
}
