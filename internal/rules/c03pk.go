package rules

import (
	"fmt"
	"go/token"
	"regexp"
	"strings"

	"golang.org/x/tools/go/ssa"

	"verif/internal/core"
)

// R03.45: the halves of packed operands are selected by the instruction's own selector bits.
//
// A VOP3P instruction computes two results. The low result takes, for source k, the half named by
// op_sel[k]; the high result the half named by op_sel_hi[k] (bit set = upper half). The handlers
// spell this as `if op_sel&M != 0 { x = srcK_hi } else { x = srcK_lo }`. In SSA that is a phi of
// two values that both come from ReadOperand(inst.SrcK), one of them through >> 32, under a test
// of (selector & M). The rule requires M == 1 << k, the upper half on the edge where the bit is
// set, and that the low 32 bits of the value written to the destination depend only on phis
// selected by OpSel and the upper 32 bits only on phis selected by OpSelHi.
func checkPackedHalfSelection(c *core.Ctx, handlers []handlerRef) {
	st := c.Rule("R03.45", "packed (VOP3P) handlers select the half of source k with bit k of the selector, the upper half where the bit is set, op_sel for the low result and op_sel_hi for the high result: every merge of the two halves of one ReadOperand(inst.SrcK) value under a test of (OpSel | OpSelHi) & M has M == 1 << k; the low 32 bits of the value written to the destination depend only on merges selected by OpSel, the bits shifted up by 32 only on merges selected by OpSelHi", 8)
	pk := regexp.MustCompile(`^v_pk_`)
	seen := map[*ssa.Function]bool{}
	for _, h := range handlers {
		match := false
		for _, n := range h.insts {
			if pk.MatchString(baseMnemonic(n)) {
				match = true
			}
		}
		fn := c.SSAFunc(h.alu.pkg, h.alu.typ+"."+h.name)
		if !match || fn == nil || seen[fn] {
			continue
		}
		seen[fn] = true
		c.MarkAnalysed(fn)
		// srcHalf: which source and which half a value is
		var srcHalf func(v ssa.Value, d int) (k int, hi bool, ok bool)
		srcHalf = func(v ssa.Value, d int) (int, bool, bool) {
			if d > 8 {
				return 0, false, false
			}
			switch x := v.(type) {
			case *ssa.Convert:
				return srcHalf(x.X, d+1)
			case *ssa.ChangeType:
				return srcHalf(x.X, d+1)
			case *ssa.UnOp:
				if x.Op == token.SUB {
					return srcHalf(x.X, d+1)
				}
			case *ssa.BinOp:
				if x.Op == token.SHR {
					if n, isC := core.ConstInt(x.Y); isC && n == 32 {
						k, _, ok := srcHalf(x.X, d+1)
						return k, true, ok
					}
				}
				if x.Op == token.AND {
					if _, isC := core.ConstInt(x.Y); isC {
						return srcHalf(x.X, d+1)
					}
				}
			case *ssa.Call:
				if x.Call.IsInvoke() {
					if x.Call.Method.Name() == "ReadOperand" && len(x.Call.Args) > 0 {
						f := operandFieldName(x.Call.Args[0])
						if len(f) == 4 && strings.HasPrefix(f, "Src") {
							return int(f[3] - '0'), false, true
						}
					}
					return 0, false, false
				}
				if len(x.Call.Args) == 1 {
					return srcHalf(x.Call.Args[0], d+1)
				}
			}
			return 0, false, false
		}
		selOf := map[*ssa.Phi]string{} // merge -> "OpSel" / "OpSelHi"
		for _, b := range fn.Blocks {
			for _, in := range b.Instrs {
				phi, ok := in.(*ssa.Phi)
				if !ok || len(phi.Edges) != 2 {
					continue
				}
				k0, hi0, ok0 := srcHalf(phi.Edges[0], 0)
				k1, hi1, ok1 := srcHalf(phi.Edges[1], 0)
				if !ok0 || !ok1 || k0 != k1 || hi0 == hi1 {
					continue
				}
				idom := b.Idom()
				if idom == nil {
					continue
				}
				iff, ok := idom.Instrs[len(idom.Instrs)-1].(*ssa.If)
				if !ok {
					continue
				}
				st.Instances++
				cmp, _ := iff.Cond.(*ssa.BinOp)
				var and *ssa.BinOp
				setOnTrue := true
				if cmp != nil && (cmp.Op == token.NEQ || cmp.Op == token.EQL) {
					if z, isC := core.ConstInt(cmp.Y); isC && z == 0 {
						and, _ = core.StripConv(cmp.X).(*ssa.BinOp)
						setOnTrue = cmp.Op == token.NEQ
					}
				}
				if and == nil || and.Op != token.AND {
					st.Ob(false)
					c.Undecided("R03.45", fn, phi.Pos(), fmt.Sprintf("half-select:Src%d", k0), "the two halves of a source are merged under a condition that is not (selector & mask) != 0")
					continue
				}
				m, isC := core.ConstInt(and.Y)
				sel := ""
				if f := core.LoadedField(core.StripConv(and.X)); f != nil {
					sel = f.Name()
				}
				// which edge is taken when the bit is set
				trueSucc := idom.Succs[0]
				if !setOnTrue {
					trueSucc = idom.Succs[1]
				}
				hiOnSet := false
				for i, p := range b.Preds {
					onTrue := p == trueSucc || trueSucc.Dominates(p)
					_, hi, _ := srcHalf(phi.Edges[i], 0)
					if onTrue && hi {
						hiOnSet = true
					}
				}
				okM := isC && m == int64(1)<<uint(k0)
				okSel := sel == "OpSel" || sel == "OpSelHi"
				st.Ob(okM)
				st.Ob(hiOnSet)
				st.Ob(okSel)
				st.Sample("%s: the half of Src%d is chosen by %s & %#x, upper half where set: %v", core.FuncName(fn), k0, sel, m, hiOnSet)
				if okSel {
					selOf[phi] = sel
				}
				if !okM {
					c.ReportAt("R03.45", fn, phi.Pos(), fmt.Sprintf("half-select:Src%d:mask%#x", k0, m), fmt.Sprintf("%s chooses the half of Src%d with %s & %#x; the selector bit of source %d is %#x: the operand follows another source's selector (op_sel:[0,1,0] takes the upper half of SRC2 for the low result)", core.FuncName(fn), k0, sel, m, k0, 1<<uint(k0)))
				}
				if !hiOnSet {
					c.ReportAt("R03.45", fn, phi.Pos(), fmt.Sprintf("half-select:Src%d:polarity", k0), fmt.Sprintf("%s takes the lower half of Src%d where the selector bit is set", core.FuncName(fn), k0))
				}
				if !okSel {
					c.ReportAt("R03.45", fn, phi.Pos(), fmt.Sprintf("half-select:Src%d:selector", k0), fmt.Sprintf("%s chooses the half of Src%d by %q, not by OpSel / OpSelHi", core.FuncName(fn), k0, sel))
				}
			}
		}
		// the two result halves
		for _, b := range fn.Blocks {
			for _, in := range b.Instrs {
				name, cc := stateMethod(in)
				if name != "WriteOperand" || operandFieldName(cc.Args[0]) != "Dst" {
					continue
				}
				or, ok := cc.Args[2].(*ssa.BinOp)
				if !ok || or.Op != token.OR {
					continue
				}
				for _, side := range []ssa.Value{or.X, or.Y} {
					want := "OpSel"
					v := side
					if sh, ok := v.(*ssa.BinOp); ok && sh.Op == token.SHL {
						if n, isC := core.ConstInt(sh.Y); isC && n == 32 {
							want, v = "OpSelHi", sh.X
						}
					}
					deps := map[string]bool{}
					seenV := map[ssa.Value]bool{}
					var walk func(v ssa.Value, d int)
					walk = func(v ssa.Value, d int) {
						if seenV[v] || d > 12 {
							return
						}
						seenV[v] = true
						if phi, ok := v.(*ssa.Phi); ok {
							if s, ok := selOf[phi]; ok {
								deps[s] = true
								return
							}
							for _, e := range phi.Edges {
								walk(e, d+1)
							}
							return
						}
						if instr, ok := v.(ssa.Instruction); ok {
							for _, op := range instr.Operands(nil) {
								if *op != nil {
									walk(*op, d+1)
								}
							}
						}
					}
					walk(v, 0)
					if len(deps) == 0 {
						continue
					}
					st.Instances++
					ok := len(deps) == 1 && deps[want]
					st.Ob(ok)
					st.Sample("%s: the %s result half depends on merges selected by %v", core.FuncName(fn), map[string]string{"OpSel": "low", "OpSelHi": "high"}[want], sortedKeys(deps))
					if !ok {
						c.ReportAt("R03.45", fn, in.Pos(), "result-half:"+want, fmt.Sprintf("%s builds the %s half of the result from operands selected by %v; the ISA selects them with %s", core.FuncName(fn), map[string]string{"OpSel": "low", "OpSelHi": "high"}[want], sortedKeys(deps), want))
					}
				}
			}
		}
	}
}
