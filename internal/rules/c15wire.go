package rules

import (
	"go/constant"
	"go/types"
	"sort"
	"strings"

	"golang.org/x/tools/go/ssa"

	"verif/internal/core"
)

const saPkg = "amd/samples/runner/timingconfig/shaderarray"

var timingPlatformPkgs = []string{"amd/samples/runner/timingconfig/mi300a", "amd/samples/runner/timingconfig/r9nano"}

// portNameOf: the constant port name of an AddPort / GetPortByName argument:
// a string constant, or the constant format of fmt.Sprintf.
func portNameOf(v ssa.Value) (string, bool) {
	if k, ok := v.(*ssa.Const); ok && k.Value != nil && k.Value.Kind() == constant.String {
		return constant.StringVal(k.Value), true
	}
	if call, ok := v.(*ssa.Call); ok {
		if cal := call.Call.StaticCallee(); cal != nil && cal.Pkg != nil && cal.Pkg.Pkg.Path() == "fmt" && cal.Name() == "Sprintf" && len(call.Call.Args) > 0 {
			return portNameOf(call.Call.Args[0])
		}
	}
	return "", false
}

func callNamed(in ssa.Instruction, name string) *ssa.CallCommon {
	cc := core.CallOf(in)
	if cc == nil {
		return nil
	}
	if cc.IsInvoke() {
		if cc.Method.Name() == name {
			return cc
		}
		return nil
	}
	if cal := cc.StaticCallee(); cal != nil && cal.Name() == name {
		return cc
	}
	return nil
}

// R15.6: the flush / restart fan-out of the command processor reaches every component
// the shader array exposes a control port for.
func checkROBWiring(c *core.Ctx) {
	st := c.Rule("R15.6", "a GPU flush reaches every reorder buffer: each port the shader-array builder exports with AddPort (constant names and Sprintf formats) is looked up by name in every timing platform builder (mi300a, r9nano); every looked-up shader-array port is plugged into a connection, and every control port (name containing Ctrl) also reaches the command processor (stored into a CommandProcessor field or passed to one of its methods, directly, via AsRemote or inside a value built from it) - a control port nobody looks up belongs to a component the command processor never flushes or restarts", 40)
	exported := map[string]string{} // name -> position
	for _, fn := range c.SrcFuncs(saPkg) {
		for _, b := range fn.Blocks {
			for _, in := range b.Instrs {
				cc := callNamed(in, "AddPort")
				if cc == nil {
					continue
				}
				args := cc.Args
				if !cc.IsInvoke() && len(args) > 0 {
					args = args[1:]
				}
				if len(args) < 1 {
					continue
				}
				if n, ok := portNameOf(args[0]); ok {
					exported[n] = c.Position(in.Pos())
					c.MarkAnalysed(fn)
				} else {
					c.ReportAt("R15.6", fn, in.Pos(), "export:name-not-constant", "a shader-array port is exported under a name that is not a constant or a constant format")
				}
			}
		}
	}
	if len(exported) == 0 {
		c.Report(core.Finding{Rule: "R15.6", Kind: "anchor", Pkg: saPkg, Func: "Builder", Detail: "anchor", Msg: "no AddPort call with a constant name found in the shader-array builder"})
		return
	}
	for _, rel := range timingPlatformPkgs {
		looked := map[string][]*ssa.Call{}
		fnOf := map[*ssa.Call]*ssa.Function{}
		for _, fn := range c.SrcFuncs(rel) {
			for _, b := range fn.Blocks {
				for _, in := range b.Instrs {
					call, ok := in.(*ssa.Call)
					if !ok {
						continue
					}
					cc := callNamed(in, "GetPortByName")
					if cc == nil {
						continue
					}
					args := cc.Args
					if !cc.IsInvoke() && len(args) > 0 {
						args = args[1:]
					}
					if len(args) < 1 {
						continue
					}
					if n, ok := portNameOf(args[0]); ok {
						if _, isExp := exported[n]; isExp {
							looked[n] = append(looked[n], call)
							fnOf[call] = fn
							c.MarkAnalysed(fn)
						}
					}
				}
			}
		}
		var names []string
		for n := range exported {
			names = append(names, n)
		}
		sort.Strings(names)
		for _, n := range names {
			st.Instances++
			calls := looked[n]
			st.Ob(len(calls) > 0)
			if len(calls) == 0 {
				what := "the platform never connects it"
				if strings.Contains(n, "Ctrl") {
					what = "the command processor never flushes or restarts that component: after a GPU flush a reorder buffer still holds the discarded transactions, keeps waiting for their responses and answers none of the requests that follow"
				}
				c.Report(core.Finding{Rule: "R15.6", Pkg: rel, Func: "Builder", Detail: "port-not-connected:" + n, Pos: exported[n],
					Msg: "the shader array exports port " + n + " but the " + rel[strings.LastIndex(rel, "/")+1:] + " builder never looks it up: " + what})
				continue
			}
			for _, call := range calls {
				plugged, toCP := portUses(call)
				st.Instances++
				ok := plugged && (toCP || !strings.Contains(n, "Ctrl"))
				st.Ob(ok)
				if !plugged {
					c.ReportAt("R15.6", fnOf[call], call.Pos(), "port-not-plugged:"+n, "port "+n+" is looked up but not plugged into any connection")
				} else if !ok {
					c.ReportAt("R15.6", fnOf[call], call.Pos(), "ctrl-port-not-registered:"+n, "control port "+n+" is plugged into a connection but never handed to the command processor: no flush or restart is sent to it")
				}
			}
		}
	}
}

// portUses follows a looked-up port through the function (phi, interface conversions,
// AsRemote, values built from it and stored in locals, variadic argument slices).
func portUses(start *ssa.Call) (plugged, toCP bool) {
	seen := map[ssa.Value]bool{}
	work := []ssa.Value{start}
	isCP := func(t types.Type) bool { return strings.Contains(types.TypeString(t, nil), "cp.CommandProcessor") }
	for len(work) > 0 {
		v := work[len(work)-1]
		work = work[:len(work)-1]
		if seen[v] {
			continue
		}
		seen[v] = true
		refs := v.Referrers()
		if refs == nil {
			continue
		}
		for _, r := range *refs {
			switch x := r.(type) {
			case *ssa.Phi, *ssa.MakeInterface, *ssa.ChangeInterface, *ssa.ChangeType, *ssa.Convert, *ssa.Slice, *ssa.IndexAddr, *ssa.Index, *ssa.Extract, *ssa.TypeAssert:
				work = append(work, x.(ssa.Value))
			case *ssa.UnOp:
				if x.X == v { // a load of a followed address
					work = append(work, x)
				}
			case *ssa.Store:
				if x.Val != v {
					continue
				}
				// stored into a field / element: follow the container
				switch a := x.Addr.(type) {
				case *ssa.FieldAddr:
					if isCP(a.X.Type()) {
						toCP = true
					}
					work = append(work, a.X)
					if al, ok := a.X.(*ssa.Alloc); ok {
						for _, rr := range *al.Referrers() {
							if u, ok := rr.(*ssa.UnOp); ok {
								work = append(work, u)
							}
						}
					}
				case *ssa.IndexAddr:
					work = append(work, a.X)
				case *ssa.Alloc:
					for _, rr := range *a.Referrers() {
						if u, ok := rr.(*ssa.UnOp); ok {
							work = append(work, u)
						}
					}
				}
			case *ssa.Call:
				cc := x.Common()
				name := ""
				if cc.IsInvoke() {
					name = cc.Method.Name()
				} else if cal := cc.StaticCallee(); cal != nil {
					name = cal.Name()
				} else if b, ok := cc.Value.(*ssa.Builtin); ok {
					name = b.Name()
				}
				switch name {
				case "PlugIn":
					plugged = true
				case "AsRemote", "append":
					work = append(work, x)
				}
				if cc.IsInvoke() && isCP(cc.Value.Type()) {
					toCP = true
				}
				if !cc.IsInvoke() {
					if sig := cc.Signature(); sig != nil && sig.Recv() != nil && isCP(sig.Recv().Type()) {
						toCP = true
					}
					for _, a := range cc.Args {
						if isCP(a.Type()) && a != v {
							toCP = true
						}
					}
				}
			}
		}
	}
	return
}
