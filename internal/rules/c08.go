package rules

import (
	"fmt"
	"go/ast"
	"go/token"
	"go/types"
	"regexp"
	"sort"
	"strings"

	"golang.org/x/tools/go/ssa"

	"verif/internal/core"
)

const kernelsPkg = "amd/kernels"

func init() { register("C08", runC08) }

func runC08(c *core.Ctx) core.Meta {
	c.Load(kernelsPkg, driverPkg, emuPkg, cuPkg, dispPkg)
	c.BuildSSA()
	prov := core.NewLocalProv(c)
	prov.InlinePure = true // a counting formula moved into an expression helper keeps its provenance

	// ---------------- R08.1 one work-group counting formula ----------------
	checkWGCountFormula(c, prov, "R08.1", []string{kernelsPkg, driverPkg, emuPkg, cuPkg}, 12)
	checkBuilderReinitialised(c, "R08.6")
	checkPerKernelFieldsStoredAlways(c, "R08.11")
	// R08.7: the hardware-initialised registers are laid out alike in both modes and as the ABI says (c02.go, R02.2)
	checkInitRegistersMirrored(c, "R08.7")

	// ---------------- R08.5 every work-group is handed out once by the placement algorithms (c09.go) ----------------
	checkPlacementSiblings(c, NewPkgInfo(c, dispPkg), prov, "R08.5")
	checkPartitionStarts(c, NewPkgInfo(c, dispPkg))
	// R08.9: the announced work-group count is reached only when every handed-out work-group was sent (c09.go, R09.4)
	checkLaunchResponse(c, NewPkgInfo(c, dispPkg), prov, "R08.9")

	// ---------------- R08.2 partial work-group sizes ----------------
	st2 := c.Rule("R08.2", "the current size of a work-group in each dimension is min(grid - id*wgSize, wgSize) of that same dimension; work-items are spawned up to the current sizes; enumeration advances x fastest, then y, then z", 6)
	if fn := c.MustFunc("R08.2", kernelsPkg, "gridBuilderImpl.NextWG"); fn != nil {
		c.MarkAnalysed(fn)
		for _, b := range fn.Blocks {
			for _, in := range b.Instrs {
				for _, D := range []string{"X", "Y", "Z"} {
					if s, ok := storeToField(in, "WorkGroup.CurrSize"+D); ok {
						st2.Instances++
						pv := prov.Of(s.Val)
						id := strings.ToLower(D) + "id"
						want := "kernels.min((recv.packet.GridSize" + D + "-(recv." + id + "*recv.packet.WorkgroupSize" + D + ")),recv.packet.WorkgroupSize" + D + ")"
						ok2 := core.ProvEq(pv, want)
						st2.Ob(ok2)
						st2.Sample("NextWG: CurrSize%s = %s", D, short(pv))
						if !ok2 {
							c.ReportAt("R08.2", fn, in.Pos(), "CurrSize"+D, "the current size in "+D+" is "+short(pv)+", not min(grid - id*wgSize, wgSize) of the same dimension: lanes are enabled for coordinates outside the grid or work-items are dropped")
						}
					}
					if s, ok := storeToField(in, "WorkGroup.ID"+D); ok {
						st2.Instances++
						pv := prov.Of(s.Val)
						ok2 := pv == "recv."+strings.ToLower(D)+"id"
						st2.Ob(ok2)
						if !ok2 {
							c.ReportAt("R08.2", fn, in.Pos(), "ID"+D, "work-group id "+D+" is "+short(pv))
						}
					}
				}
			}
		}
		// advance: xid++ ; on x exhausted xid=0,yid++ ; on y exhausted yid=0,zid++
		g := core.BuildGraph(fn, 0, nil)
		left := func(D string) EdgeCut {
			return CmpCut(func(_ *core.Node, op token.Token, x, y ssa.Value) int {
				px := prov.Of(x)
				if !strings.Contains(px, "GridSize"+D) || strings.Contains(px, "min(") && false {
					return 0
				}
				if z, isC := core.ConstInt(y); !isC || z != 0 {
					return 0
				}
				switch op {
				case token.LEQ:
					return 1
				case token.GTR:
					return -1
				}
				return 0
			})
		}
		for _, n := range g.Nodes {
			for _, sp := range []struct{ f, guard string }{{"yid", "X"}, {"zid", "Y"}} {
				if s, ok := storeToField(n.Instr, "gridBuilderImpl."+sp.f); ok && strings.HasSuffix(prov.Of(s.Val), "+1)") {
					st2.Instances++
					okG := g.Guarded(n, left(sp.guard))
					st2.Ob(okG)
					st2.Sample("NextWG: %s++ only when dimension %s is exhausted: %v", sp.f, sp.guard, okG)
					if !okG {
						c.ReportAt("R08.2", fn, n.Instr.Pos(), "advance:"+sp.f, sp.f+" advances on a path that did not find dimension "+sp.guard+" exhausted: work-groups are skipped or visited twice")
					}
				}
			}
		}
	}
	// the enumeration cursor is advanced only by NextWG (which applies the work-group filter) and reset by SetKernel:
	// any other writer (e.g. an arithmetic Skip) would count positions instead of accepted work-groups
	for _, fn := range c.SrcFuncs(kernelsPkg) {
		for _, b := range fn.Blocks {
			for _, in := range b.Instrs {
				f := writtenField(in)
				if f == nil || (f.Name() != "xid" && f.Name() != "yid" && f.Name() != "zid") || core.ShortFieldID(f) != "gridBuilderImpl."+f.Name() {
					continue
				}
				st2.Instances++
				name := core.FuncName(fn)
				ok := name == "gridBuilderImpl.NextWG" || name == "gridBuilderImpl.SetKernel"
				st2.Ob(ok)
				if !ok {
					c.ReportAt("R08.2", fn, in.Pos(), "cursor-writer:"+f.Name(), "the enumeration cursor "+f.Name()+" is written in "+name+": only NextWG (which applies the work-group filter) may advance it, otherwise skipped positions are counted instead of accepted work-groups and the per-CU partitions of a filtered (multi-GPU) launch overlap")
				}
			}
		}
	}
	checkSkipCountsAccepted(c, st2, "R08.2")
	// spawnWorkItems loops bounded by CurrSize
	if fd := findFuncDecl(c.Pkg(kernelsPkg), "gridBuilderImpl.spawnWorkItems"); fd != nil {
		var conds []string
		ast.Inspect(fd.Body, func(n ast.Node) bool {
			if f, ok := n.(*ast.ForStmt); ok && f.Cond != nil {
				conds = append(conds, normExpr(exprStr(f.Cond)))
			}
			return true
		})
		st2.Instances++
		want := []string{"z<wg.CurrSizeZ", "y<wg.CurrSizeY", "x<wg.CurrSizeX"}
		ok := len(conds) == 3
		for i := range want {
			if i < len(conds) && conds[i] != want[i] {
				ok = false
			}
		}
		st2.Ob(ok)
		st2.Sample("spawnWorkItems loops: %v", conds)
		if !ok {
			c.Report(core.Finding{Rule: "R08.2", Pkg: kernelsPkg, Func: "gridBuilderImpl.spawnWorkItems", Detail: "loop-bounds", Pos: c.Position(fd.Pos()), Msg: fmt.Sprintf("work-items are spawned with loop bounds %v; they must be z<CurrSizeZ, y<CurrSizeY, x<CurrSizeX (x fastest) so that exactly the work-items inside the grid exist", conds)})
		}
	} else {
		c.Report(core.Finding{Rule: "R08.2", Kind: "anchor", Pkg: kernelsPkg, Func: "gridBuilderImpl.spawnWorkItems", Detail: "anchor", Msg: "spawnWorkItems not found"})
	}

	checkWavefrontFormation(c, prov, "R08.3")

	checkWGDistribution(c, prov, "R08.4")
	checkFilteredCountWholeGrid(c, "R08.10")

	checkIntegerWidths(c, "R08.12", "Grid arithmetic is not narrowed, nor widened after it could wrap.", 5, []widthScope{{rel: kernelsPkg}}, []string{"narrow", "widen-wrapped", "unsigned-diff"}, widthAllowC08)
	RunProto(c, &ProtoCfg{AllEffectsAfterSend: true, RuleBase: "R08.13", Pkg: dispPkg, FloorSends: 2, Effects: []Effect{RetrieveEffect, FieldWriteEffect("currWG.valid-write", "dispatchLocation.valid"), FieldWriteEffect("numDispatchedWGs-write", "DispatcherImpl.numDispatchedWGs"), FieldWriteEffect("inflightWGs-write", "DispatcherImpl.inflightWGs")}, Exempt: map[string]string{}})
	checkResultFresh(c, "R08.14", "Driver.distributeWGToGPUs returns a range table allocated by that call: the work-group filters handed to the GPUs keep it and are consulted lazily by the grid builders, so a table kept in the driver and rewritten by the next launch changes the ranges of a launch that is still being enumerated", driverPkg, "Driver.distributeWGToGPUs", 0)
	checkWGCountersStepByOne(c, "R08.15")
	return core.Meta{Level: "other",
		Explanation: "Structural clauses of the grid partition: one ceil(grid/wg) formula (same dimension, recognised form) at every counting site of the grid builder, the driver and both register initialisations; partial sizes min(grid - id*wg, wg) per dimension, x-fastest enumeration and spawning bounded by the current sizes; wavefront membership keyed on in-group id / 64 with lane bit id % 64 and first flat id quotient*64, the in-group id formula and its inverse decomposition in both modes' lane-id initialisation; the multi-GPU filter's flattening and half-open cumulative ranges. Shared with C02: identical initial registers in both modes (R02.2).",
		NotDecided:  "the partition as arithmetic over all grid and work-group sizes (every work-item exactly once) is not proved; only the formulas' shapes and their mutual consistency are decided",
		Assumptions: commonAssumptions}
}

func exprStr(e ast.Expr) string {
	return typesExprString(e)
}

// checkWGDistribution: the multi-GPU work-group filter and the per-GPU ranges
// (shared by C08 and C18).
func checkWGDistribution(c *core.Ctx, prov *core.Prov, rule string) {
	// ---------------- R08.4 filter / distribution consistency ----------------
	st4 := c.Rule(rule, "the multi-GPU work-group filter flattens a work-group id as z*numX*numY + y*numX + x (x fastest, the grid builder's enumeration order) and accepts the half-open range [dist[i], dist[i+1]); the ranges are cumulative and the driver panics if they do not cover all work-groups", 3)
	for _, fn := range c.SrcFuncs(driverPkg) {
		if fn.Parent() == nil || core.FuncName(fn.Parent()) != "Driver.processUnifiedMultiGPULaunchKernelCommand" {
			continue
		}
		c.MarkAnalysed(fn)
		g := core.BuildGraph(fn, 0, nil)
		var flat string
		for _, n := range g.Nodes {
			if bo, ok := n.Instr.(*ssa.BinOp); ok && (bo.Op == token.GEQ || bo.Op == token.LSS || bo.Op == token.LEQ || bo.Op == token.GTR || bo.Op == token.EQL || bo.Op == token.NEQ) {
				px, py := prov.Of(bo.X), prov.Of(bo.Y)
				bop := bo.Op
				if strings.Contains(px, "wgDist") && !strings.Contains(py, "wgDist") {
					px, py, bop = py, px, mirrorCmp(bop) // dist[i] <= id is id >= dist[i]
				}
				if strings.Contains(py, "wgDist") {
					st4.Instances++
					flat = px
					okR := (bop == token.GEQ && core.ProvMatch(regexp.MustCompile(`\[\*?free:currentGPUIndex\]$`), py)) || (bop == token.LSS && core.ProvMatch(regexp.MustCompile(`\[\(\*?free:currentGPUIndex\+1\)\]$`), py))
					st4.Ob(okR)
					if !okR {
						c.ReportAt(rule, fn, bo.Pos(), "filter:range", "the filter compares the flattened id with "+short(py)+" using "+bo.Op.String()+": each GPU must accept exactly [dist[i], dist[i+1])")
					}
				}
			}
		}
		st4.Instances++
		okF := core.ProvMatch(regexp.MustCompile(`^\(+param:wg\.IDZ\*.*GridSizeX.*\*.*GridSizeY.*\+\(param:wg\.IDY\*.*GridSizeX[^Y]*\)\)\+param:wg\.IDX\)$`), flat)
		st4.Ob(okF)
		st4.Sample("WGFilter: flattened id = %s", short(flat))
		if !okF {
			c.ReportAt(rule, fn, fn.Pos(), "filter:flatten", "the filter flattens the work-group id as "+short(flat)+", not z*numX*numY + y*numX + x")
		}
	}
	if fn := c.MustFunc(rule, driverPkg, "Driver.distributeWGToGPUs"); fn != nil {
		st4.Instances++
		cum := false
		guard := false
		for _, b := range fn.Blocks {
			for _, in := range b.Instrs {
				if s, ok := in.(*ssa.Store); ok {
					if ia, ok := s.Addr.(*ssa.IndexAddr); ok && strings.HasSuffix(prov.Of(ia.Index), "+1)") {
						pv := prov.Of(s.Val)
						if core.ProvMatch(regexp.MustCompile(`^\(iter\(.*\)\+\(.*CUCount\*.*\)\)$`), pv) {
							cum = true
						} else {
							st4.Sample("distributeWGToGPUs: range end = %s", pv)
						}
					}
				}
				if bo, ok := in.(*ssa.BinOp); ok && bo.Op == token.LSS && strings.HasPrefix(prov.Of(bo.X), "iter(") && strings.Contains(prov.Of(bo.Y), "GridSize") {
					guard = true
				}
				if bo, ok := in.(*ssa.BinOp); ok && bo.Op == token.GTR && strings.HasPrefix(prov.Of(bo.Y), "iter(") && strings.Contains(prov.Of(bo.X), "GridSize") {
					guard = true
				}
			}
		}
		st4.Ob(cum && guard)
		st4.Sample("distributeWGToGPUs: cumulative ranges=%v, coverage test=%v", cum, guard)
		if !(cum && guard) {
			c.ReportAt(rule, fn, fn.Pos(), "distribution", "the per-GPU work-group ranges are not cumulative sums checked to cover the total number of work-groups")
		}
	}

}

// checkWGCountFormula: one work-group counting formula (R08.1; shared with C18 as R18.9 for
// the driver's distribution over GPUs).
func checkWGCountFormula(c *core.Ctx, prov *core.Prov, rule string, pkgs []string, floor int) {
	dim := regexp.MustCompile(`GridSize([XYZ])`)
	st1 := c.Rule(rule, "every place that computes the number of work-groups of a dimension (grid builder, the multi-GPU filter and distribution in the driver, the work-group-count registers of both modes) uses ceil(grid/wg) in one of the forms (g-1)/w+1 or (g+w-1)/w, with grid size and work-group size of the same dimension", floor)
	for _, rel := range pkgs {
		for _, fn := range c.SrcFuncs(rel) {
			for _, b := range fn.Blocks {
				for _, in := range b.Instrs {
					q, ok := in.(*ssa.BinOp)
					if !ok || q.Op != token.QUO {
						continue
					}
					num, den := prov.Of(q.X), prov.Of(q.Y)
					if !strings.Contains(num, "GridSize") || !strings.Contains(den, "WorkgroupSize") {
						continue
					}
					st1.Instances++
					c.MarkAnalysed(fn)
					d := dim.FindStringSubmatch(num)
					okDim := d != nil && strings.Contains(den, "WorkgroupSize"+d[1]) && !regexp.MustCompile(`WorkgroupSize[^`+d[1]+`]`).MatchString(den)
					st1.Ob(okDim)
					if !okDim {
						c.ReportAt(rule, fn, q.Pos(), "count:dimension-mix", "a work-group count divides "+short(num)+" by "+short(den)+": grid size and work-group size of different dimensions")
					}
					// form A: (g-1)/w, result +1 ; form B: ((g+w)-1)/w
					formA := core.ProvMatch(regexp.MustCompile(`^\(.*GridSize[XYZ]\)?-1\)$`), num) && !strings.Contains(num, "WorkgroupSize")
					formB := strings.Contains(num, "WorkgroupSize") && core.ProvMatch(regexp.MustCompile(`\+.*WorkgroupSize[XYZ].*-1\)$`), num)
					okForm := false
					if formA {
						// the quotient must be incremented by 1
						var uses func(v ssa.Value, d int)
						uses = func(v ssa.Value, d int) {
							if v.Referrers() == nil || d > 3 {
								return
							}
							for _, r := range *v.Referrers() {
								switch t := r.(type) {
								case *ssa.BinOp:
									if t.Op == token.ADD {
										if k, isC := core.ConstInt(t.Y); isC && k == 1 {
											okForm = true
										}
										if k, isC := core.ConstInt(t.X); isC && k == 1 {
											okForm = true
										}
									}
								case *ssa.Convert:
									uses(t, d+1) // int((g-1)/w) + 1
								case *ssa.ChangeType:
									uses(t, d+1)
								}
							}
						}
						uses(q, 0)
					}
					if formB {
						okForm = true
					}
					st1.Ob(okForm)
					st1.Sample("%s: %s / %s", core.FuncName(fn), short(num), short(den))
					if !okForm {
						c.ReportAt(rule, fn, q.Pos(), "count:form", "the number of work-groups is computed as "+short(num)+" / "+short(den)+", which is not ceil(grid/wg) in a recognised form: partial work-groups are not counted (or one too many is announced)")
					}
				}
			}
		}
	}

}

// checkBuilderReinitialised (R08.6): a grid builder is reused for kernel after kernel (the
// dispatchers keep one for the life of the command processor). Every field of the builder that
// the enumeration changes incrementally - the work-group cursor, a count that is accumulated over
// the filter - has to be set afresh by SetKernel before it is incremented or read again:
// otherwise the second kernel on a builder continues from the first one's value (a filtered
// launch announces the previous count plus its own).
func checkBuilderReinitialised(c *core.Ctx, rule string) {
	st := c.Rule(rule, "SetKernel re-initialises every field of the grid builder that the enumeration updates incrementally (fields stored as f+k / f-k anywhere in the package: the cursor xid/yid/zid, the accumulated work-group count): on every path through SetKernel, helpers expanded, a store of a value that does not depend on the field's old value comes before the first increment of the field and before SetKernel returns. A builder is reused for every kernel of a dispatcher, so a field that is only incremented announces (or resumes from) the previous kernel's value", 3)
	pi := NewPkgInfo(c, kernelsPkg)
	if pi.Pkg == nil {
		return
	}
	set := c.MustFunc(rule, kernelsPkg, "gridBuilderImpl.SetKernel")
	if set == nil {
		return
	}
	derives := func(v ssa.Value, f *types.Var) bool {
		seen := map[ssa.Value]bool{}
		var walk func(v ssa.Value, d int) bool
		walk = func(v ssa.Value, d int) bool {
			if seen[v] || d > 6 {
				return false
			}
			seen[v] = true
			if core.LoadedField(v) == f {
				return true
			}
			switch x := v.(type) {
			case *ssa.BinOp:
				return walk(x.X, d+1) || walk(x.Y, d+1)
			case *ssa.Convert:
				return walk(x.X, d+1)
			case *ssa.Phi:
				for _, e := range x.Edges {
					if walk(e, d+1) {
						return true
					}
				}
			}
			return false
		}
		return walk(v, 0)
	}
	fieldStore := func(in ssa.Instruction) (*types.Var, *ssa.Store) {
		sto, ok := in.(*ssa.Store)
		if !ok {
			return nil, nil
		}
		fa, ok := sto.Addr.(*ssa.FieldAddr)
		if !ok || !strings.HasSuffix(namedTypeName(fa.X.Type()), "gridBuilderImpl") {
			return nil, nil
		}
		return fieldOfStruct(fa.X.Type(), fa.Field), sto
	}
	incremental := map[*types.Var]bool{}
	var order []*types.Var
	for _, fn := range pi.Funcs {
		for _, b := range fn.Blocks {
			for _, in := range b.Instrs {
				if f, sto := fieldStore(in); f != nil && derives(sto.Val, f) && !incremental[f] {
					incremental[f] = true
					order = append(order, f)
				}
			}
		}
	}
	c.MarkAnalysed(set)
	g := core.BuildGraph(set, 3, func(cal *ssa.Function) bool { return cal.Pkg == set.Pkg })
	for _, f := range order {
		f := f
		st.Instances++
		bad := ""
		var at token.Pos
		okW := g.Walk([]core.State{{N: g.Entry}}, core.WalkOpts{ForwardOnly: true, Stop: func(n *core.Node) bool {
			ff, sto := fieldStore(n.Instr)
			return ff == f && !derives(sto.Val, f)
		}}, func(x core.State) {
			if bad != "" {
				return
			}
			if ff, sto := fieldStore(x.N.Instr); ff == f && derives(sto.Val, f) {
				bad, at = "is incremented in "+core.FuncName(x.N.Fn())+" before it was set", sto.Pos()
			}
			if r, ok := x.N.Instr.(*ssa.Return); ok && x.N.Frame.Parent == nil {
				bad, at = "is still the previous kernel's when SetKernel returns", r.Pos()
			}
		})
		st.Ob(bad == "" && okW)
		st.Sample("SetKernel sets %s afresh before it is incremented or returned: %v", f.Name(), bad == "")
		if !okW {
			c.Undecided(rule, set, set.Pos(), "reinit:"+f.Name(), "state cap reached")
		} else if bad != "" {
			c.ReportAt(rule, set, at, "not-reinitialised:"+f.Name(), "on a path through SetKernel the builder's "+f.Name()+" "+bad+": a builder that is reused for the next kernel (every dispatcher keeps one) continues from the previous kernel's value - a filtered launch announces the previous NumWG plus its own work-groups, the dispatcher waits for completions that never come")
		}
	}
}

// sumOfProducts parses a provenance expression built from +, * and parentheses into its terms and
// their factors; everything else is an atom.
func sumOfProducts(expr string) [][]string {
	expr = strings.TrimSpace(expr)
	// split at top-level operators
	split := func(s string, op byte) []string {
		var out []string
		depth, start := 0, 0
		for i := 0; i < len(s); i++ {
			switch s[i] {
			case '(', '[', '{':
				depth++
			case ')', ']', '}':
				depth--
			default:
				if s[i] == op && depth == 0 {
					out = append(out, s[start:i])
					start = i + 1
				}
			}
		}
		return append(out, s[start:])
	}
	strip := func(s string) string {
		for {
			s = strings.TrimSpace(s)
			if len(s) < 2 || s[0] != '(' || s[len(s)-1] != ')' {
				return s
			}
			// the parentheses enclose the whole string?
			depth := 0
			whole := true
			for i := 0; i < len(s)-1; i++ {
				switch s[i] {
				case '(':
					depth++
				case ')':
					depth--
				}
				if depth == 0 {
					whole = false
					break
				}
			}
			if !whole {
				return s
			}
			s = s[1 : len(s)-1]
		}
	}
	var terms func(s string) [][]string
	var factors func(s string) []string
	factors = func(s string) []string {
		s = strip(s)
		parts := split(s, '*')
		if len(parts) == 1 {
			return []string{s}
		}
		var out []string
		for _, p := range parts {
			out = append(out, factors(p)...)
		}
		return out
	}
	terms = func(s string) [][]string {
		s = strip(s)
		parts := split(s, '+')
		if len(parts) == 1 {
			return [][]string{factors(s)}
		}
		var out [][]string
		for _, p := range parts {
			out = append(out, terms(p)...)
		}
		return out
	}
	return terms(expr)
}

// checkPartitionStarts (R08.8): the partition algorithm gives compute unit i the work-groups
// [i*share, (i+1)*share) by positioning a grid builder of its own with Skip. The argument of
// every Skip in the dispatching package, followed through the package's helpers to the
// expression the caller wrote, is (loop counter) * numWGPerPartition, bare or clamped with
// min(.., numWG): a partition that starts behind the grid is empty. Any other start - a clamp
// to the last work-group, an offset, another stride - makes two partitions hand out the same
// work-group while another one is never dispatched, with the dispatched count still right.
func checkPartitionStarts(c *core.Ctx, pi *PkgInfo) {
	st := c.Rule("R08.8", "in the dispatching package every GridBuilder.Skip positions partition i at work-group i * numWGPerPartition: the argument, followed through package helpers to what the caller wrote, is the product of the loop counter and the algorithm's numWGPerPartition field, bare or as one argument of min whose other argument is the numWG field itself. A clamp to numWG-1 puts every empty partition on the last work-group, which is then dispatched once per empty partition while as many others are never dispatched", 1)
	isField := func(v ssa.Value, name string) bool {
		f := core.LoadedField(core.StripConv(v))
		return f != nil && f.Name() == name
	}
	var accept func(v ssa.Value, d int) bool
	accept = func(v ssa.Value, d int) bool {
		v = core.StripConv(v)
		switch x := v.(type) {
		case *ssa.BinOp:
			if x.Op == token.MUL {
				_, px := core.StripConv(x.X).(*ssa.Phi)
				_, py := core.StripConv(x.Y).(*ssa.Phi)
				return (px && isField(x.Y, "numWGPerPartition")) || (py && isField(x.X, "numWGPerPartition"))
			}
		case *ssa.Call:
			if core.IsBuiltin(x, "min") && len(x.Call.Args) == 2 && d < 2 {
				a, b := x.Call.Args[0], x.Call.Args[1]
				return (accept(a, d+1) && isField(b, "numWG")) || (accept(b, d+1) && isField(a, "numWG"))
			}
		}
		return false
	}
	var judge func(fn *ssa.Function, v ssa.Value, at ssa.Instruction, d int)
	judge = func(fn *ssa.Function, v ssa.Value, at ssa.Instruction, d int) {
		if p, ok := core.StripConv(v).(*ssa.Parameter); ok && d < 3 {
			idx := paramIndex(fn, p)
			n := 0
			for _, caller := range pi.Funcs {
				for _, b := range caller.Blocks {
					for _, in := range b.Instrs {
						if cc := core.CallOf(in); cc != nil && cc.StaticCallee() == fn && idx >= 0 && idx < len(cc.Args) {
							n++
							judge(caller, cc.Args[idx], in, d+1)
						}
					}
				}
			}
			if n > 0 {
				return
			}
		}
		st.Instances++
		c.MarkAnalysed(fn)
		ok := accept(v, 0)
		st.Ob(ok)
		st.Sample("%s: a partition's grid builder starts at %s: %v", core.FuncName(fn), short(core.NewLocalProv(c).Of(v)), ok)
		if !ok {
			c.ReportAt("R08.8", fn, at.Pos(), "partition-start:"+core.FuncName(fn), core.FuncName(fn)+" positions a partition's grid builder at "+short(core.NewLocalProv(c).Of(v))+", which is not (partition index) * numWGPerPartition, bare or clamped to numWG: partitions overlap (an empty partition clamped to numWG-1 stands on the last work-group and dispatches it again) and as many work-groups are never dispatched, while the dispatched count still reaches the announced total")
		}
	}
	for _, fn := range pi.Funcs {
		for _, b := range fn.Blocks {
			for _, in := range b.Instrs {
				cc := core.CallOf(in)
				if cc == nil || !cc.IsInvoke() || cc.Method.Name() != "Skip" || len(cc.Args) != 1 {
					continue
				}
				judge(fn, cc.Args[0], in, 0)
			}
		}
	}
}

// checkSkipCountsAccepted (R08.2, shared with C09 as R09.13): GridBuilder.Skip(n) advances by n
// accepted work-groups - it calls NextWG, which applies the multi-GPU filter - because the
// partition algorithm positions partition i with Skip(i * share) where share is derived from the
// filtered NumWG. A Skip that moves the x/y/z cursor arithmetically counts grid positions
// instead: with a filter the partitions overlap, some work-groups are mapped to several compute
// units and as many are never mapped.
func checkSkipCountsAccepted(c *core.Ctx, st *core.RuleStat, rule string) {
	// Skip(n) = n calls of NextWG
	if fn := c.MustFunc(rule, kernelsPkg, "gridBuilderImpl.Skip"); fn != nil {
		st.Instances++
		calls := false
		for _, b := range fn.Blocks {
			for _, in := range b.Instrs {
				if callsFunc(in, fn.Pkg, "gridBuilderImpl.NextWG") {
					calls = true
				}
			}
		}
		st.Ob(calls)
		if !calls {
			c.ReportAt(rule, fn, fn.Pos(), "skip-without-nextwg", "Skip no longer advances by calling NextWG: it does not skip accepted work-groups")
		}
	}
}

// checkWavefrontFormation (R08.3, shared with C06 as R06.form): which work-item sits in which
// lane of which wavefront, and the initial EXEC mask of partial wavefronts.
func checkWavefrontFormation(c *core.Ctx, prov *core.Prov, rule string) {
	// ---------------- R08.3 wavefront formation ----------------
	st3 := c.Rule(rule, "a work-item's wavefront is chosen by its in-group id divided by the wavefront size (a new wavefront starts when that quotient changes, since in partial work-groups ids are not contiguous), its lane bit is id modulo the wavefront size, and the wavefront's first flat id is quotient*size; the in-group id is z*SX*SY + y*SX + x, the inverse of the lane-id decomposition used by both register initialisations", 5)
	if fn := c.MustFunc(rule, kernelsPkg, "gridBuilderImpl.formWavefronts"); fn != nil {
		c.MarkAnalysed(fn)
		// helpers of the grid builder (a constructor for the wavefront) are expanded at their call sites
		g := core.BuildGraph(fn, 2, func(cal *ssa.Function) bool { return cal.Pkg == fn.Pkg })
		idExpr := ""
		for _, n := range g.Nodes {
			// the wavefront creation
			if call, ok := n.Instr.(*ssa.Call); ok && call.Call.StaticCallee() != nil && call.Call.StaticCallee().Name() == "NewWavefront" {
				st3.Instances++
				okQ := g.Guarded(n, CmpCut(func(_ *core.Node, op token.Token, x, y ssa.Value) int {
					px, py := prov.Of(x), prov.Of(y)
					isQuo := func(s string) bool { return core.ProvMatch(regexp.MustCompile(`/64\)$`), s) }
					if isQuo(px) || isQuo(py) {
						if op == token.NEQ {
							return 1
						}
						if op == token.EQL {
							return -1
						}
					}
					// the running form: ids come in increasing order, so `id >= end` with
					// end = (id/64)*64 + 64 set whenever a wavefront is started is the same test
					if strings.Contains(py, "/64)*64)+64)") && strings.Contains(px, ".IDX") {
						if op == token.GEQ {
							return 1
						}
						if op == token.LSS {
							return -1
						}
					}
					return 0
				}))
				st3.Ob(okQ)
				st3.Sample("formWavefronts: new wavefront keyed on id/64 changing: %v", okQ)
				if !okQ {
					c.ReportAt(rule, fn, n.Instr.Pos(), "new-wavefront:key", "a new wavefront is not started on a change of (in-group id / 64): with `id % 64 == 0` a partial work-group of non-power-of-two width folds later rows into an earlier wavefront and two work-items share a lane")
				}
			}
			if s, ok := storeToField(n.Instr, "Wavefront.InitExecMask"); ok {
				st3.Instances++
				pv := prov.Of(s.Val)
				m := core.ProvFind(regexp.MustCompile(`\|\(1<<\((.*)%64\)\)\)$`), pv)
				st3.Ob(m != nil)
				if m == nil {
					c.ReportAt(rule, fn, s.Pos(), "exec-bit", "the initial EXEC mask is updated as "+short(pv)+", not by OR-ing 1 << (in-group id % 64)")
				} else {
					idExpr = m[1]
				}
			}
			if s, ok := storeToField(n.Instr, "Wavefront.FirstWiFlatID"); ok {
				st3.Instances++
				pv := provThroughFrames(prov, n, s.Val)
				ok2 := core.ProvMatch(regexp.MustCompile(`/64\)\*64\)$`), pv)
				st3.Ob(ok2)
				if !ok2 {
					c.ReportAt(rule, fn, s.Pos(), "first-flat-id", "the wavefront's first flat id is "+short(pv)+", not (in-group id / 64) * 64: lane k of the wavefront would not be in-group id first+k")
				}
			}
		}
		st3.Instances++
		// z*SizeX*SizeY + y*SizeX + x in any order of terms and factors (the WorkItem.FlattenedID
		// helper writes the terms the other way round)
		okID := func() bool {
			terms := sumOfProducts(idExpr)
			if len(terms) != 3 {
				return false
			}
			var keys []string
			for _, t := range terms {
				var fs []string
				for _, f := range t {
					if i := strings.LastIndex(f, "."); i >= 0 {
						f = f[i+1:]
					}
					fs = append(fs, f)
				}
				sort.Strings(fs)
				keys = append(keys, strings.Join(fs, "*"))
			}
			sort.Strings(keys)
			return strings.Join(keys, " + ") == "IDX + IDY*SizeX + IDZ*SizeX*SizeY"
		}()
		st3.Ob(okID)
		st3.Sample("formWavefronts: in-group id = %s", short(idExpr))
		if !okID {
			c.ReportAt(rule, fn, fn.Pos(), "in-group-id", "the in-group id is "+short(idExpr)+", not z*SizeX*SizeY + y*SizeX + x (full work-group sizes)")
		}
	}
	// decomposition in both register initialisations
	for _, sp := range []struct{ pkg, fn string }{{emuPkg, "ComputeUnit.initWfRegs"}, {cuPkg, "WfDispatcherImpl.initRegisters"}} {
		fd := findFuncDecl(c.Pkg(sp.pkg), sp.fn)
		if fd == nil {
			c.Report(core.Finding{Rule: rule, Kind: "anchor", Pkg: sp.pkg, Func: sp.fn, Detail: "anchor", Msg: "register initialisation not found"})
			continue
		}
		_, lane := summariseInit(c.Pkg(sp.pkg), fd)
		want := map[string]string{
			"z": "z:=i/(wf.WG.SizeX*wf.WG.SizeY)",
			"y": "y:=i%(wf.WG.SizeX*wf.WG.SizeY)/wf.WG.SizeX",
			"x": "x:=i%(wf.WG.SizeX*wf.WG.SizeY)%wf.WG.SizeX",
		}
		for _, k := range []string{"x", "y", "z"} {
			st3.Instances++
			ok := false
			for _, l := range lane {
				// the plane size may be written SizeX*SizeY or SizeY*SizeX
				if l == want[k] || l == strings.ReplaceAll(want[k], "(wf.WG.SizeX*wf.WG.SizeY)", "(wf.WG.SizeY*wf.WG.SizeX)") {
					ok = true
				}
			}
			st3.Ob(ok)
			if !ok {
				c.Report(core.Finding{Rule: rule, Pkg: sp.pkg, Func: sp.fn, Detail: "decompose:" + k, Pos: c.Position(fd.Pos()), Msg: "the lane's " + k + " coordinate is not derived as " + want[k] + ": lane registers do not hold the coordinates of the work-item the grid builder placed in that lane"})
			}
		}
		// the loop covers first..first+64 and the lane is i - first
		var loopOK, laneOK bool
		ast.Inspect(fd.Body, func(n ast.Node) bool {
			if f, ok := n.(*ast.ForStmt); ok && f.Cond != nil {
				if normExpr(exprStr(f.Cond)) == "i<wf.FirstWiFlatID+64" && f.Init != nil && normExpr(stmtStr(f.Init)) == "i:=wf.FirstWiFlatID" {
					loopOK = true
				}
			}
			if as, ok := n.(*ast.AssignStmt); ok && len(as.Lhs) == 1 && exprStr(as.Lhs[0]) == "laneID" {
				if normExpr(exprStr(as.Rhs[0])) == "i-wf.FirstWiFlatID" {
					laneOK = true
				}
			}
			return true
		})
		st3.Instances++
		st3.Ob(loopOK && laneOK)
		if !(loopOK && laneOK) {
			c.Report(core.Finding{Rule: rule, Pkg: sp.pkg, Func: sp.fn, Detail: "lane-loop", Pos: c.Position(fd.Pos()), Msg: "lane ids are not initialised for flat ids FirstWiFlatID .. FirstWiFlatID+63 with lane = id - FirstWiFlatID"})
		}
	}

}

// checkFilteredCountWholeGrid (R08.10, shared with C18 as R18.11): NumWG of a filtered launch
// (one member GPU's share of a unified device) is found by asking the filter about every
// work-group of the grid. The counting loops of countWG are left only through their loop tests:
// the filter accepts a run that is contiguous in NextWG's order (x fastest), not in the order the
// counting loops happen to use, so an early exit "once the run has been left" counts one column
// of a 2-D grid - the placement algorithm stops after that many and the launch reports completion
// with most of the member's share never run.
func checkFilteredCountWholeGrid(c *core.Ctx, rule string) {
	st := c.Rule(rule, "the work-group count of a filtered launch is taken over the whole grid: every loop of gridBuilderImpl.countWG is left only through its own loop test (no edge from inside a loop body to the outside, no return inside a loop). An early exit tied to the filter's answers counts a prefix in the counting loops' own order, which is not the order the filter's range is contiguous in", 3)
	fn := c.MustFunc(rule, kernelsPkg, "gridBuilderImpl.countWG")
	if fn == nil {
		return
	}
	c.MarkAnalysed(fn)
	for _, h := range fn.Blocks {
		loop := map[*ssa.BasicBlock]bool{h: true}
		var stack []*ssa.BasicBlock
		for _, p := range h.Preds {
			if h.Dominates(p) {
				stack = append(stack, p)
			}
		}
		if len(stack) == 0 {
			continue
		}
		for len(stack) > 0 {
			x := stack[len(stack)-1]
			stack = stack[:len(stack)-1]
			if loop[x] {
				continue
			}
			loop[x] = true
			stack = append(stack, x.Preds...)
		}
		st.Instances++
		var bad ssa.Instruction
		for b := range loop {
			last := b.Instrs[len(b.Instrs)-1]
			if _, isRet := last.(*ssa.Return); isRet {
				bad = last
			}
			if b == h {
				continue
			}
			for _, s := range b.Succs {
				if !loop[s] {
					bad = last
				}
			}
		}
		st.Ob(bad == nil)
		if bad != nil {
			c.ReportAt(rule, fn, bad.Pos(), "count-loop-left-early", "countWG leaves a counting loop from inside its body: the filtered work-group count covers only part of the grid, HasNext turns false after that many work-groups and the kernel is reported complete while the rest of this GPU's share never ran (a 2-D kernel on the second GPU of a unified device)")
		}
	}
}
