package rules

import (
	"fmt"
	"go/token"
	"go/types"
	"regexp"
	"sort"
	"strings"

	"golang.org/x/tools/go/ssa"

	"verif/internal/core"
)

// R03.19: floating-point min / max handlers, decided on a finite domain.
//
// A min / max handler only compares its operands and selects one of them, so
// its behaviour is determined by the relative order of the operands and by
// which of them are NaN. Each operand is given an abstract value (a rank 1..3
// or NaN); the handler's comparison skeleton is evaluated under every
// assignment (comparisons with a NaN are false, != is true, math.IsNaN and
// x != x recognise it, math.Min / math.Max propagate it), helper functions of
// the repository are evaluated the same way with their parameters bound, and
// the abstract value that reaches the destination write is compared with
// what the ISA prescribes: the smallest / largest operand among those that are
// not NaN (V_MIN3 = V_MIN(V_MIN(S0,S1),S2)), NaN only if all operands are NaN.

type fval struct {
	side string // "S0", "S1", "S2", "" for a computed value
	rank int    // 1..3, meaningful if !nan
	nan  bool
	ok   bool
}

func (v fval) String() string {
	if !v.ok {
		return "?"
	}
	s := v.side
	if s == "" {
		s = "computed"
	}
	if v.nan {
		return s + "=NaN"
	}
	return fmt.Sprintf("%s=%d", s, v.rank)
}

type fselEval struct {
	prov  *core.Prov
	env   map[string]fval
	depth int
	notes map[string]bool
}

type fframe struct {
	fn     *ssa.Function
	params map[*ssa.Parameter]fval
	phis   map[*ssa.Phi]fval
}

func (e *fselEval) sideOf(v ssa.Value) string {
	pv := e.prov.Of(v)
	if !strings.Contains(pv, "ReadOperand(") {
		return ""
	}
	n := 0
	side := ""
	for _, s := range []string{"Src0", "Src1", "Src2"} {
		if strings.Contains(pv, "."+s) {
			n++
			side = "S" + s[3:]
		}
	}
	if n == 1 {
		return side
	}
	return ""
}

func (e *fselEval) val(v ssa.Value, fr *fframe) fval {
	for i := 0; i < 12; i++ {
		switch t := v.(type) {
		case *ssa.Convert:
			v = t.X
			continue
		case *ssa.ChangeType:
			v = t.X
			continue
		case *ssa.Phi:
			if r, ok := fr.phis[t]; ok {
				return r
			}
			return fval{}
		case *ssa.Parameter:
			if r, ok := fr.params[t]; ok {
				return r
			}
			return fval{}
		case *ssa.Call:
			cal := t.Call.StaticCallee()
			if cal == nil {
				if name, cc := stateMethod(t); name == "ReadOperand" && cc != nil {
					if sd := e.sideOf(t); sd != "" {
						if r, ok := e.env[sd]; ok {
							return r
						}
					}
				}
				return fval{}
			}
			full := ""
			if cal.Pkg != nil {
				full = cal.Pkg.Pkg.Path() + "." + cal.Name()
			}
			switch full {
			case "math.Float32frombits", "math.Float64frombits", "math.Float32bits", "math.Float64bits":
				v = t.Call.Args[0]
				continue
			case "math.Min", "math.Max":
				a, b := e.val(t.Call.Args[0], fr), e.val(t.Call.Args[1], fr)
				if !a.ok || !b.ok {
					return fval{}
				}
				if a.nan || b.nan {
					return fval{nan: true, ok: true} // Go: NaN if either argument is NaN
				}
				if (full == "math.Min") == (a.rank <= b.rank) {
					return a
				}
				return b
			}
			// operand modifiers keep the operand (neg / abs are a property of
			// the encoding, the rule speaks about the modified operand)
			if strings.HasPrefix(cal.Name(), "applyF") && strings.HasSuffix(cal.Name(), "Modifier") && len(t.Call.Args) >= 1 {
				v = t.Call.Args[0]
				continue
			}
			// helper of the repository with float parameters: evaluate it
			if len(cal.Blocks) > 0 && e.depth < 3 && cal.Signature.Results().Len() == 1 {
				fr2 := &fframe{fn: cal, params: map[*ssa.Parameter]fval{}, phis: map[*ssa.Phi]fval{}}
				for i, p := range cal.Params {
					if i < len(t.Call.Args) {
						fr2.params[p] = e.val(t.Call.Args[i], fr)
					}
				}
				e.depth++
				res := e.run(fr2, nil)
				e.depth--
				if len(res) == 1 {
					for _, r := range res {
						return r
					}
				}
				return fval{}
			}
			return fval{}
		}
		break
	}
	if sd := e.sideOf(v); sd != "" {
		if r, ok := e.env[sd]; ok {
			return r
		}
	}
	return fval{}
}

// cond evaluates a branch condition; known=false means both branches are explored.
func (e *fselEval) cond(v ssa.Value, fr *fframe) (holds, known bool) {
	switch t := v.(type) {
	case *ssa.UnOp:
		if t.Op == token.NOT {
			h, k := e.cond(t.X, fr)
			return !h, k
		}
	case *ssa.Call:
		if cal := t.Call.StaticCallee(); cal != nil && cal.Pkg != nil && cal.Pkg.Pkg.Path() == "math" && cal.Name() == "IsNaN" {
			a := e.val(t.Call.Args[0], fr)
			if a.ok {
				return a.nan, true
			}
		}
	case *ssa.BinOp:
		if _, isF := t.X.Type().Underlying().(*types.Basic); !isF || t.X.Type().Underlying().(*types.Basic).Info()&types.IsFloat == 0 {
			return false, false
		}
		a, b := e.val(t.X, fr), e.val(t.Y, fr)
		if !a.ok || !b.ok {
			return false, false
		}
		if a.nan || b.nan {
			return t.Op == token.NEQ, true
		}
		switch t.Op {
		case token.LSS:
			return a.rank < b.rank, true
		case token.LEQ:
			return a.rank <= b.rank, true
		case token.GTR:
			return a.rank > b.rank, true
		case token.GEQ:
			return a.rank >= b.rank, true
		case token.EQL:
			return a.rank == b.rank, true
		case token.NEQ:
			return a.rank != b.rank, true
		}
	}
	return false, false
}

// run explores the function under the current assignment. For the handler
// (sink != nil) every value written to the destination operand is passed to
// sink; for a helper the set of returned values is the result.
func (e *fselEval) run(fr *fframe, sink func(fval)) map[string]fval {
	out := map[string]fval{}
	type key struct{ b, pred *ssa.BasicBlock }
	seen := map[key]bool{}
	var walk func(b, pred *ssa.BasicBlock, phis map[*ssa.Phi]fval)
	walk = func(b, pred *ssa.BasicBlock, phis map[*ssa.Phi]fval) {
		if seen[key{b, pred}] {
			return
		}
		seen[key{b, pred}] = true
		cur := map[*ssa.Phi]fval{}
		for k, v := range phis {
			cur[k] = v
		}
		// phis are evaluated simultaneously on the incoming environment
		frIn := &fframe{fn: fr.fn, params: fr.params, phis: phis}
		for _, in := range b.Instrs {
			phi, ok := in.(*ssa.Phi)
			if !ok {
				break
			}
			if pred != nil {
				for i, p := range b.Preds {
					if p == pred {
						cur[phi] = e.val(phi.Edges[i], frIn)
					}
				}
			}
		}
		frc := &fframe{fn: fr.fn, params: fr.params, phis: cur}
		for _, in := range b.Instrs {
			if sink != nil {
				if name, cc := stateMethod(in); name == "WriteOperand" && strings.HasSuffix(e.prov.Of(cc.Args[0]), ".Dst") {
					sink(e.val(cc.Args[len(cc.Args)-1], frc))
				}
			}
			if ret, ok := in.(*ssa.Return); ok && sink == nil && len(ret.Results) == 1 {
				r := e.val(ret.Results[0], frc)
				out[r.String()] = r
			}
		}
		if iff, ok := b.Instrs[len(b.Instrs)-1].(*ssa.If); ok {
			if h, k := e.cond(iff.Cond, frc); k {
				if h {
					walk(b.Succs[0], b, cur)
				} else {
					walk(b.Succs[1], b, cur)
				}
				return
			}
		}
		for _, sc := range b.Succs {
			walk(sc, b, cur)
		}
	}
	walk(fr.fn.Blocks[0], nil, fr.phis)
	return out
}

func checkFloatMinMax(c *core.Ctx, handlers []handlerRef, prov *core.Prov) {
	st := c.Rule("R03.19", "every floating-point min / max handler (v_min_f*, v_max_f*, v_min3_f*, v_max3_f*; tied to its name through decode table -> dispatch switch -> callee) writes the smallest / largest of those operands that are not NaN, and NaN only when all operands are NaN (ISA: `if S0 == NaN then D = S1 else if S1 == NaN then D = S0 else D = min(S0, S1)`; the three-operand forms nest the two-operand one): the handler's comparison skeleton, including repository helpers, math.Min / math.Max, math.IsNaN and x != x, is evaluated under every assignment of ranks 1..3 and NaN to the operands and the value that reaches the destination write is compared with the prescribed one", 4)
	name := regexp.MustCompile(`^v_(min|max)(3?)_f(16|32|64)(_e32|_e64)?$`)
	seen := map[string]bool{}
	for _, h := range handlers {
		for _, iname := range h.insts {
			m := name.FindStringSubmatch(iname)
			if m == nil || seen[h.alu.pkg+"."+h.name] {
				continue
			}
			seen[h.alu.pkg+"."+h.name] = true
			fn := c.SSAFunc(h.alu.pkg, h.alu.typ+"."+h.name)
			if fn == nil || len(fn.Blocks) == 0 {
				continue
			}
			nOps := 2
			if m[2] == "3" {
				nOps = 3
			}
			isMin := m[1] == "min"
			// every assignment of {1,2,3,NaN} to the operands
			type asg []int // 0 = NaN
			var all []asg
			var gen func(cur asg)
			gen = func(cur asg) {
				if len(cur) == nOps {
					all = append(all, append(asg{}, cur...))
					return
				}
				for v := 0; v <= 3; v++ {
					gen(append(cur, v))
				}
			}
			gen(nil)
			modelled := true
			var bad []string
			nChecked := 0
			for _, a := range all {
				ev := &fselEval{prov: prov, env: map[string]fval{}, notes: map[string]bool{}}
				want := 0 // rank, 0 = NaN
				for i, r := range a {
					ev.env[fmt.Sprintf("S%d", i)] = fval{side: fmt.Sprintf("S%d", i), rank: r, nan: r == 0, ok: true}
					if r != 0 && (want == 0 || (isMin && r < want) || (!isMin && r > want)) {
						want = r
					}
				}
				got := map[string]bool{}
				unknown := false
				ev.run(&fframe{fn: fn, params: map[*ssa.Parameter]fval{}, phis: map[*ssa.Phi]fval{}}, func(v fval) {
					if !v.ok {
						unknown = true
						return
					}
					if v.nan {
						got["NaN"] = true
					} else {
						got[fmt.Sprint(v.rank)] = true
					}
				})
				if unknown || len(got) == 0 {
					modelled = false
					break
				}
				nChecked++
				w := "NaN"
				if want != 0 {
					w = fmt.Sprint(want)
				}
				if len(got) != 1 || !got[w] {
					var ops []string
					for _, r := range a {
						if r == 0 {
							ops = append(ops, "NaN")
						} else {
							ops = append(ops, fmt.Sprint(r))
						}
					}
					bad = append(bad, fmt.Sprintf("(%s)->%s want %s", strings.Join(ops, ","), strings.Join(sortedKeys(got), "/"), w))
				}
			}
			if !modelled {
				st.Sample("%s.%s (%s): selection not recognised (half-precision helpers, sorting); not modelled", h.alu.typ, h.name, iname)
				continue
			}
			st.Instances++
			c.MarkAnalysed(fn)
			st.Ob(len(bad) == 0)
			st.Sample("%s.%s (%s): %d operand assignments evaluated, %d deviate", h.alu.typ, h.name, iname, nChecked, len(bad))
			if len(bad) > 0 {
				sort.Strings(bad)
				show := bad
				if len(show) > 4 {
					show = show[:4]
				}
				c.ReportAt("R03.19", fn, fn.Pos(), "fminmax-table:"+m[1]+m[2]+"_f"+m[3], fmt.Sprintf("%s deviates from %s for %d of %d operand assignments (ranks 1..3, NaN), e.g. %s: a NaN operand has to yield the other operand", h.name, iname, len(bad), nChecked, strings.Join(show, "; ")))
			}
		}
	}
}
