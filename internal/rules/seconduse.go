package rules

import (
	"fmt"
	"go/token"
	"go/types"
	"sort"
	"strings"

	"golang.org/x/tools/go/ssa"

	"verif/internal/core"
)

// Rules written after the nineteenth seeding batch: state that one use leaves behind and the next
// use picks up.

// checkPerKernelFieldsStoredAlways (R08.11 / R09.15 / R18.13): everything the enumeration of a
// kernel reads from the grid builder is written by SetKernel on every path.
func checkPerKernelFieldsStoredAlways(c *core.Ctx, rule string) {
	st := c.Rule(rule, "a grid builder is reused for every kernel of its dispatcher, so SetKernel installs the new kernel completely: every field of gridBuilderImpl that NextWG, countWG, Skip or NumWG read is stored by SetKernel (helpers expanded) on every path from its entry to its return, whatever the launch carries. A field that is only overwritten when the new launch has a value for it - the work-group filter, nil for an ordinary launch - keeps the previous kernel's value: an ordinary kernel after one share of a unified multi-GPU launch is counted and enumerated through the stale filter, and reported complete with most of its work-groups never dispatched", 5)
	pi := NewPkgInfo(c, kernelsPkg)
	set := c.MustFunc(rule, kernelsPkg, "gridBuilderImpl.SetKernel")
	if pi.Pkg == nil || set == nil {
		return
	}
	read := map[*types.Var]bool{}
	for _, fn := range pi.Funcs {
		if fn == set || fn.Signature.Recv() == nil || !strings.HasSuffix(fn.Signature.Recv().Type().String(), "gridBuilderImpl") {
			continue
		}
		for _, b := range fn.Blocks {
			for _, in := range b.Instrs {
				if u, ok := in.(*ssa.UnOp); ok && u.Op == token.MUL {
					if f := core.LoadedField(u); f != nil && core.ShortFieldID(f) == "gridBuilderImpl."+f.Name() {
						read[f] = true
					}
				}
			}
		}
	}
	g := core.BuildGraph(set, 2, func(cal *ssa.Function) bool { return cal.Pkg == set.Pkg })
	var fields []*types.Var
	for f := range read {
		fields = append(fields, f)
	}
	sort.Slice(fields, func(i, j int) bool { return fields[i].Name() < fields[j].Name() })
	for _, f := range fields {
		// fields the enumeration itself maintains (the cursor, the count) are R08.6's subject;
		// here: is there a path through SetKernel without a store to f
		stores := func(n *core.Node) bool {
			if d, isD := n.Instr.(*ssa.Defer); isD {
				// a deferred closure that stores the field: the store happens when the frame returns
				if mc, isMC := d.Call.Value.(*ssa.MakeClosure); isMC {
					if lit, isFn := mc.Fn.(*ssa.Function); isFn {
						for _, b := range lit.Blocks {
							for _, in := range b.Instrs {
								if s, ok := in.(*ssa.Store); ok && core.FieldOfAddr(s.Addr) == f && b == lit.Blocks[0] {
									return true
								}
							}
						}
					}
				}
				return false
			}
			s, ok := n.Instr.(*ssa.Store)
			return ok && core.FieldOfAddr(s.Addr) == f
		}
		st.Instances++
		c.MarkAnalysed(set)
		missed := false
		g.Walk([]core.State{{N: g.Entry}}, core.WalkOpts{ForwardOnly: true, Stop: stores}, func(x core.State) {
			if _, isRet := x.N.Instr.(*ssa.Return); isRet && x.N.Frame.Parent == nil {
				missed = true
			}
		})
		st.Ob(!missed)
		if missed {
			c.ReportAt(rule, set, set.Pos(), "per-kernel-field-not-always-stored:"+f.Name(), "SetKernel has a path that leaves gridBuilderImpl."+f.Name()+" as the previous kernel left it, and the enumeration of the new kernel reads it: the second kernel on a dispatcher runs with state of the first (with the work-group filter: an ordinary launch after a unified multi-GPU share dispatches only that share's work-groups and reports completion)")
		}
	}
}

// checkDirtyMarkUnconditional (R11.17 / R02.19).
func checkDirtyMarkUnconditional(c *core.Ctx, rule string) {
	st := c.Rule(rule, "every kernel launch marks every buffer the process has at that moment: in Driver.markBuffersDirty the call that marks a context's buffers (markAllBuffersDirty) depends on nothing but the process id of the context - no test of a flag an earlier launch left behind (Context.l2Dirty is set by the first launch and never cleared). A skip for contexts that were marked before leaves buffers allocated after the first kernel clean for ever: no flush precedes their copies, and the copy reads DRAM underneath the second kernel's dirty lines", 1)
	fn := c.MustFunc(rule, driverPkg, "Driver.markBuffersDirty")
	if fn == nil {
		return
	}
	c.MarkAnalysed(fn)
	for _, b := range fn.Blocks {
		for _, in := range b.Instrs {
			cal := core.CalleeFunc(in)
			if cal == nil || cal.Name() != "markAllBuffersDirty" {
				continue
			}
			st.Instances++
			bad := ""
			for d := b; d != nil; d = d.Idom() {
				iff, ok := d.Instrs[len(d.Instrs)-1].(*ssa.If)
				if !ok || d == b {
					continue
				}
				var walk func(v ssa.Value, depth int)
				walk = func(v ssa.Value, depth int) {
					if depth > 5 {
						return
					}
					if f := core.LoadedField(v); f != nil && f.Name() != "pid" {
						bad = f.Name()
					}
					switch x := v.(type) {
					case *ssa.BinOp:
						walk(x.X, depth+1)
						walk(x.Y, depth+1)
					case *ssa.UnOp:
						if x.Op == token.NOT {
							walk(x.X, depth+1)
						}
					case *ssa.Phi:
						for _, e := range x.Edges {
							walk(e, depth+1)
						}
					}
				}
				walk(iff.Cond, 0)
			}
			st.Ob(bad == "")
			if bad != "" {
				c.ReportAt(rule, fn, in.Pos(), "dirty-mark-depends-on:"+bad, "markBuffersDirty marks a context's buffers only under a test of Context."+bad+": a context that an earlier launch has marked is skipped, so buffers allocated since then stay clean although this kernel may write them, and their next copy goes unflushed")
			}
		}
	}
}

// checkWavefrontsCreatedFresh (R07.13).
func checkWavefrontsCreatedFresh(c *core.Ctx) {
	st := c.Rule("R07.13", "every wavefront the emulation compute unit starts is a new object: each value appended to the unit's wavefront lists in initWfs is the result of NewWavefront in that call, on every path. A recycled object carries whatever its previous life left in the registers that are plain fields (VCC, SCC, M0): the second work-group on a compute unit reads another wavefront's values where the flat-cell model and the timing model read 0", 1)
	fn := c.MustFunc("R07.13", emuPkg, "ComputeUnit.initWfs")
	if fn == nil {
		return
	}
	c.MarkAnalysed(fn)
	for _, b := range fn.Blocks {
		for _, in := range b.Instrs {
			call, ok := in.(*ssa.Call)
			if !ok || !core.IsBuiltin(call, "append") {
				continue
			}
			if !strings.Contains(call.Type().String(), "Wavefront") {
				continue
			}
			st.Instances++
			fresh := true
			seen := map[ssa.Value]bool{}
			var walk func(v ssa.Value, d int)
			walk = func(v ssa.Value, d int) {
				if d > 8 || seen[v] {
					return
				}
				seen[v] = true
				switch x := v.(type) {
				case *ssa.Slice:
					walk(x.X, d+1)
				case *ssa.Alloc: // the varargs array: what is stored into it
					for _, r := range *x.Referrers() {
						if ia, ok := r.(*ssa.IndexAddr); ok {
							for _, r2 := range *ia.Referrers() {
								if s, ok := r2.(*ssa.Store); ok {
									walk(s.Val, d+1)
								}
							}
						}
					}
				case *ssa.Phi:
					for _, e := range x.Edges {
						walk(e, d+1)
					}
				case *ssa.Call:
					if cal := x.Call.StaticCallee(); cal == nil || cal.Name() != "NewWavefront" {
						fresh = false
					}
				default:
					fresh = false
				}
			}
			walk(call.Call.Args[1], 0)
			st.Ob(fresh)
			if !fresh {
				c.ReportAt("R07.13", fn, in.Pos(), "wavefront-not-fresh", "initWfs can start a wavefront object that was not created by NewWavefront in this call (a pooled one): VCC, SCC and M0 are plain fields of the object and keep the values of the wavefront that used it before")
			}
		}
	}
}

// checkLDSBoundBeforeEveryRun (R03.51).
func checkLDSBoundBeforeEveryRun(c *core.Ctx) {
	st := c.Rule("R03.51", "the timing LDS unit runs every DS instruction on the LDS of the instruction's own work-group: in LDSUnit.runExecStage every path to the ALU call passes SetLDS(toExec.WG.LDS) first. A rebind that is skipped when the LDS window (offset) is the one seen last keeps the ALU on the slice of a work-group that has finished: the next work-group placed in that window writes into the dead group's memory and reads zeros back", 1)
	fn := c.MustFunc("R03.51", cuPkg, "LDSUnit.runExecStage")
	if fn == nil {
		return
	}
	c.MarkAnalysed(fn)
	g := core.BuildGraph(fn, 0, nil)
	prov := core.NewLocalProv(c)
	isBind := func(n *core.Node) bool {
		cc := core.CallOf(n.Instr)
		if cc == nil || !cc.IsInvoke() || cc.Method.Name() != "SetLDS" {
			return false
		}
		return strings.HasSuffix(prov.Of(cc.Args[0]), ".WG.LDS")
	}
	for _, n := range g.Nodes {
		cc := core.CallOf(n.Instr)
		if cc == nil || !cc.IsInvoke() || cc.Method.Name() != "Run" {
			continue
		}
		st.Instances++
		unbound := false
		g.Walk([]core.State{{N: g.Entry}}, core.WalkOpts{ForwardOnly: true, Stop: isBind}, func(x core.State) {
			if x.N == n {
				unbound = true
			}
		})
		st.Ob(!unbound)
		if unbound {
			c.ReportAt("R03.51", fn, n.Instr.Pos(), "alu-run-without-lds-bind", "LDSUnit.runExecStage reaches the ALU on a path that did not bind the ALU to the executing wavefront's WG.LDS: the instruction runs on whatever LDS was bound last - after a work-group finished and another took its LDS window, the dead group's slice")
		}
	}
}

// checkScratchFieldsReset (generic): a slice field that a function both grows and consumes.
func checkScratchFieldsReset(c *core.Ctx, rule, why string, floor int, pis ...*PkgInfo) {
	st := c.Rule(rule, "a list kept in a long-lived object and built up for one operation starts empty for the next: for every slice field that a function of the package appends to and, in the same call, hands on whole (to a callee, or as its result), some function of the package stores an empty value into it (nil, x[:0], a fresh make or literal). A per-operation list that only grows replays the earlier operations' entries with the next one. "+why, floor)
	for _, pi := range pis {
		type site struct {
			fn *ssa.Function
			in ssa.Instruction
		}
		scratch := map[*types.Var]site{}
		reset := map[*types.Var]bool{}
		for _, fn := range pi.Funcs {
			appended := map[*types.Var]ssa.Instruction{}
			handed := map[*types.Var]bool{}
			for _, b := range fn.Blocks {
				for _, in := range b.Instrs {
					switch x := in.(type) {
					case *ssa.Store:
						f := core.FieldOfAddr(x.Addr)
						if f == nil {
							continue
						}
						if _, isSlice := f.Type().Underlying().(*types.Slice); !isSlice {
							continue
						}
						switch v := x.Val.(type) {
						case *ssa.Call:
							if core.IsBuiltin(v, "append") {
								if ld, ok := v.Call.Args[0].(*ssa.UnOp); ok && core.LoadedField(ld) == f {
									appended[f] = x
									continue
								}
							}
							reset[f] = true
						case *ssa.Const:
							if v.IsNil() {
								reset[f] = true
							}
						case *ssa.MakeSlice:
							reset[f] = true
						case *ssa.Slice:
							if k, isC := core.ConstInt(v.High); isC && k == 0 {
								reset[f] = true
							} else {
								reset[f] = true // any re-slice shortens the list
							}
						default:
							reset[f] = true
						}
					case *ssa.Call:
						if core.IsBuiltin(x, "append") || core.IsBuiltin(x, "len") {
							continue
						}
						for _, a := range x.Call.Args {
							if ld, ok := a.(*ssa.UnOp); ok {
								if f := core.LoadedField(ld); f != nil {
									handed[f] = true
								}
							}
						}
					case *ssa.Return:
						for _, a := range x.Results {
							if ld, ok := a.(*ssa.UnOp); ok {
								if f := core.LoadedField(ld); f != nil {
									handed[f] = true
								}
							}
						}
					}
				}
			}
			for f, in := range appended {
				if handed[f] {
					scratch[f] = site{fn, in}
				}
			}
		}
		var fs []*types.Var
		for f := range scratch {
			fs = append(fs, f)
		}
		sort.Slice(fs, func(i, j int) bool { return fs[i].Name() < fs[j].Name() })
		for _, f := range fs {
			st.Instances++
			c.MarkAnalysed(scratch[f].fn)
			st.Ob(reset[f])
			st.Sample("%s grows and hands on %s; the package resets it somewhere: %v", core.FuncName(scratch[f].fn), f.Name(), reset[f])
			if !reset[f] {
				c.ReportAt(rule, scratch[f].fn, scratch[f].in.Pos(), "scratch-list-never-reset:"+f.Name(), fmt.Sprintf("%s appends to the field %s and hands the whole list on in the same call, and nothing in the package ever empties it: the second operation is carried out with the first one's entries as well. %s", core.FuncName(scratch[f].fn), f.Name(), why))
			}
		}
	}
}

// checkEngineRunPrecededByWakeup (R20.17).
func checkEngineRunPrecededByWakeup(c *core.Ctx) {
	st := c.Rule("R20.17", "the trace runner wakes the driver for every batch of kernels it submits: every call of Engine.Run in nvidia/runner is preceded, in the same loop iteration (or in the same straight-line function), by Driver.TickLater. The driver sleeps once its queue ran dry; kernels queued afterwards are only looked at when it is ticked again - an Engine.Run without a wake-up returns at once and the benchmark's kernels never execute", 1)
	for _, fn := range c.SrcFuncs("nvidia/runner") {
		for _, b := range fn.Blocks {
			for _, in := range b.Instrs {
				cc := core.CallOf(in)
				if cc == nil || !cc.IsInvoke() || cc.Method.Name() != "Run" || !strings.Contains(cc.Value.Type().String(), "Engine") {
					continue
				}
				st.Instances++
				c.MarkAnalysed(fn)
				// a TickLater from which this Run is reached without passing a loop back edge
				ok := false
				for _, b2 := range fn.Blocks {
					for _, in2 := range b2.Instrs {
						if cal := core.CalleeFunc(in2); cal != nil && cal.Name() == "TickLater" {
							if b2 == b || (b2.Dominates(b) && !(inCycle(b) && !inCycle(b2))) {
								ok = true
							}
						}
					}
				}
				// through a helper: the call sites of fn
				if !ok && fn.Parent() == nil {
					for _, caller := range c.SrcFuncs("nvidia/runner") {
						for _, cb := range caller.Blocks {
							for _, cin := range cb.Instrs {
								if c2 := core.CallOf(cin); c2 != nil && c2.StaticCallee() == fn {
									for _, b2 := range caller.Blocks {
										for _, in2 := range b2.Instrs {
											if cal := core.CalleeFunc(in2); cal != nil && cal.Name() == "TickLater" && (b2 == cb || (b2.Dominates(cb) && !(inCycle(cb) && !inCycle(b2)))) {
												ok = true
											}
										}
									}
								}
							}
						}
					}
				}
				st.Ob(ok)
				if !ok {
					c.ReportAt("R20.17", fn, in.Pos(), "engine-run-without-wakeup:"+core.FuncName(fn), core.FuncName(fn)+" runs the engine without waking the driver for this batch (no TickLater in the same iteration): after the first batch the driver is asleep, the engine has no event and returns at once, and the kernels just queued are never dispatched")
				}
			}
		}
	}
}

// checkNoStateBetweenCalls: the functions reached from the given entry points store nothing into
// the object they are methods of (allow-listed fields excepted) and touch no package-level
// variable of the package.
func checkNoStateBetweenCalls(c *core.Ctx, rule, text string, floor int, rel string, entries []string, allowFields map[string]string) {
	st := c.Rule(rule, text, floor)
	pi := NewPkgInfo(c, rel)
	if pi.Pkg == nil {
		return
	}
	seen := map[*ssa.Function]bool{}
	var visit func(fn *ssa.Function, d int)
	visit = func(fn *ssa.Function, d int) {
		if seen[fn] || d > 5 {
			return
		}
		seen[fn] = true
		st.Instances++
		c.MarkAnalysed(fn)
		ok := true
		for _, b := range fn.Blocks {
			for _, in := range b.Instrs {
				if s, isS := in.(*ssa.Store); isS {
					if f := core.FieldOfAddr(s.Addr); f != nil && fn.Signature.Recv() != nil {
						recvT := strings.TrimPrefix(fn.Signature.Recv().Type().String(), "*")
						if strings.HasSuffix(recvT, "."+strings.SplitN(core.ShortFieldID(f), ".", 2)[0]) {
							if fa, isFA := s.Addr.(*ssa.FieldAddr); isFA {
								if _, isRecv := fa.X.(*ssa.Parameter); isRecv {
									if _, allowed := allowFields[f.Name()]; !allowed {
										ok = false
										c.ReportAt(rule, fn, s.Pos(), "state-kept-between-calls:"+f.Name(), core.FuncName(fn)+" stores into "+core.ShortFieldID(f)+" of the object it is called on: what one call computed is still there for the next call, which may be about a different input")
									}
								}
							}
						}
					}
				}
				for _, op := range in.Operands(nil) {
					if g, isG := (*op).(*ssa.Global); isG && g.Pkg == fn.Pkg {
						if _, allowed := allowFields[g.Name()]; !allowed {
							switch g.Type().(*types.Pointer).Elem().Underlying().(type) {
							case *types.Map, *types.Slice, *types.Struct, *types.Pointer:
								ok = false
								c.ReportAt(rule, fn, in.Pos(), "package-level-state:"+g.Name(), core.FuncName(fn)+" uses the package-level variable "+g.Name()+": state shared by every call in the process, whatever input it is about")
							}
						}
					}
				}
				if cc := core.CallOf(in); cc != nil {
					if cal := cc.StaticCallee(); cal != nil && cal.Pkg == fn.Pkg && len(cal.Blocks) > 0 {
						visit(cal, d+1)
					}
				}
			}
		}
		st.Ob(ok)
	}
	for _, e := range entries {
		if fn := c.MustFunc(rule, rel, e); fn != nil {
			visit(fn, 0)
		}
	}
}
