package rules

import (
	"fmt"
	"go/ast"
	"go/constant"
	"go/token"
	"go/types"
	"sort"
	"strings"

	"golang.org/x/tools/go/packages"
	"golang.org/x/tools/go/ssa"

	"verif/internal/core"
)

const cuPkg = "amd/timing/cu"

func init() { register("C07", runC07) }

// ---- decision-table evaluation of the register accessors ------------------------------

type regEnv struct {
	p        *packages.Package
	regType  string // constant name, e.g. "VCCLO"
	regCount int64
	name     string // reg.Name
	callee   func(name string) int
	trace    *[]string // effect statements executed on the decided path
}

const (
	outHandled = 1
	outPanic   = 2
	outFall    = 4 // reached the end of the statement list
)

// evalCond: 1 true, 0 false, -1 unknown
func (e *regEnv) evalCond(x ast.Expr) int {
	switch x := x.(type) {
	case *ast.ParenExpr:
		return e.evalCond(x.X)
	case *ast.UnaryExpr:
		if x.Op == token.NOT {
			v := e.evalCond(x.X)
			if v < 0 {
				return -1
			}
			return 1 - v
		}
	case *ast.CallExpr:
		s := exprString(x.Fun)
		if strings.HasSuffix(s, ".IsSReg") || strings.HasSuffix(s, ".IsVReg") {
			return 0 // special registers only
		}
		return -1
	case *ast.BinaryExpr:
		switch x.Op {
		case token.LAND:
			a, b := e.evalCond(x.X), e.evalCond(x.Y)
			if a == 0 || b == 0 {
				return 0
			}
			if a == 1 && b == 1 {
				return 1
			}
			return -1
		case token.LOR:
			a, b := e.evalCond(x.X), e.evalCond(x.Y)
			if a == 1 || b == 1 {
				return 1
			}
			if a == 0 && b == 0 {
				return 0
			}
			return -1
		case token.EQL, token.NEQ, token.GEQ, token.LEQ, token.LSS, token.GTR:
			ls := exprString(x.X)
			var res int = -1
			switch {
			case strings.HasSuffix(ls, ".RegType"):
				if id, ok := x.Y.(*ast.SelectorExpr); ok {
					res = b2i(id.Sel.Name == e.regType)
				} else if id, ok := x.Y.(*ast.Ident); ok {
					res = b2i(id.Name == e.regType)
				}
				if x.Op == token.NEQ && res >= 0 {
					res = 1 - res
				} else if x.Op != token.EQL && x.Op != token.NEQ {
					res = -1
				}
				return res
			case ls == "regCount" || strings.HasSuffix(ls, ".RegCount"):
				tv, ok := e.p.TypesInfo.Types[x.Y]
				if !ok || tv.Value == nil {
					return -1
				}
				k, _ := constant.Int64Val(tv.Value)
				switch x.Op {
				case token.EQL:
					return b2i(e.regCount == k)
				case token.NEQ:
					return b2i(e.regCount != k)
				case token.GEQ:
					return b2i(e.regCount >= k)
				case token.LEQ:
					return b2i(e.regCount <= k)
				case token.LSS:
					return b2i(e.regCount < k)
				case token.GTR:
					return b2i(e.regCount > k)
				}
			case strings.HasSuffix(ls, ".Name"):
				tv, ok := e.p.TypesInfo.Types[x.Y]
				if !ok || tv.Value == nil || tv.Value.Kind() != constant.String {
					return -1
				}
				r := b2i(constant.StringVal(tv.Value) == e.name)
				if x.Op == token.NEQ {
					r = 1 - r
				}
				return r
			}
		}
	}
	return -1
}

func b2i(b bool) int {
	if b {
		return 1
	}
	return 0
}

func isPanicCall(s ast.Stmt) bool {
	es, ok := s.(*ast.ExprStmt)
	if !ok {
		return false
	}
	call, ok := es.X.(*ast.CallExpr)
	if !ok {
		return false
	}
	n := exprString(call.Fun)
	return n == "log.Panicf" || n == "log.Panic" || n == "panic" || n == "log.Fatalf"
}

// evalStmts returns the set of outcomes (bit set) of executing the statements.
func (e *regEnv) evalStmts(list []ast.Stmt) int {
	for i, s := range list {
		switch s := s.(type) {
		case *ast.ReturnStmt:
			if e.trace != nil {
				*e.trace = append(*e.trace, stmtStr(s))
			}
			return outHandled
		case *ast.ExprStmt:
			if isPanicCall(s) {
				return outPanic
			}
			if e.trace != nil {
				if call, ok := s.X.(*ast.CallExpr); ok {
					n := exprString(call.Fun)
					if n == "copy" || strings.HasSuffix(n, ".SetVCC") || strings.HasSuffix(n, ".SetEXEC") || strings.HasSuffix(n, ".SetSCC") {
						*e.trace = append(*e.trace, stmtStr(s))
					}
				}
			}
		case *ast.AssignStmt:
			if e.trace != nil {
				for _, l := range s.Lhs {
					ls := exprString(l)
					if strings.HasSuffix(ls, ".vcc") || strings.HasSuffix(ls, ".exec") || strings.HasSuffix(ls, ".scc") || strings.HasSuffix(ls, ".M0") {
						*e.trace = append(*e.trace, stmtStr(s))
					}
				}
			}
			// buf := wf.ReadReg(reg, ...) : the outcome of the callee under the same environment
			if len(s.Rhs) == 1 {
				if call, ok := s.Rhs[0].(*ast.CallExpr); ok {
					if sel, ok := call.Fun.(*ast.SelectorExpr); ok && (sel.Sel.Name == "ReadReg" || sel.Sel.Name == "WriteReg") && e.callee != nil {
						if o := e.callee(sel.Sel.Name); o&outPanic != 0 {
							if o&^outPanic == 0 {
								return outPanic
							}
							rest := e.evalStmts(list[i+1:])
							return outPanic | rest
						}
					}
				}
			}
		case *ast.BlockStmt:
			o := e.evalStmts(s.List)
			if o&outFall == 0 {
				return o
			}
			rest := e.evalStmts(list[i+1:])
			return (o &^ outFall) | rest
		case *ast.IfStmt:
			var o int
			c := e.evalCond(s.Cond)
			thenO := func() int { return e.evalStmts(s.Body.List) }
			elseO := func() int {
				if s.Else == nil {
					return outFall
				}
				switch el := s.Else.(type) {
				case *ast.BlockStmt:
					return e.evalStmts(el.List)
				case *ast.IfStmt:
					return e.evalStmts([]ast.Stmt{el})
				}
				return outFall
			}
			switch c {
			case 1:
				o = thenO()
			case 0:
				o = elseO()
			default:
				o = thenO() | elseO()
			}
			if o&outFall == 0 {
				return o
			}
			rest := e.evalStmts(list[i+1:])
			return (o &^ outFall) | rest
		case *ast.SwitchStmt:
			if s.Tag == nil || !strings.HasSuffix(exprString(s.Tag), ".RegType") {
				continue
			}
			o := outFall
			matched := false
			for _, st := range s.Body.List {
				cc := st.(*ast.CaseClause)
				for _, v := range cc.List {
					n := ""
					if sel, ok := v.(*ast.SelectorExpr); ok {
						n = sel.Sel.Name
					} else if id, ok := v.(*ast.Ident); ok {
						n = id.Name
					}
					if n == e.regType {
						matched = true
					}
				}
				if matched {
					o = e.evalStmts(cc.Body)
					break
				}
			}
			if !matched {
				for _, st := range s.Body.List {
					if cc := st.(*ast.CaseClause); cc.List == nil {
						o = e.evalStmts(cc.Body)
					}
				}
			}
			if o&outFall == 0 {
				return o
			}
			rest := e.evalStmts(list[i+1:])
			return (o &^ outFall) | rest
		}
	}
	return outFall
}

func runC07(c *core.Ctx) core.Meta {
	c.Load(emuPkg, cuPkg, "amd/timing/wavefront", instsPkg)
	c.BuildSSA()
	checkEndedWavefrontReleasesRegisters(c)
	checkOperandDecodedFromOwnBytes(c, emuPkg, "amd/timing/wavefront")
	checkWavefrontsCreatedFresh(c)
	prov := core.NewProv(c)

	// ---------------- R07.7 register reads hand out their own bytes (fresh.go) ----------------
	st77 := c.Rule("R07.7", "the byte-valued register reads (ReadReg / ReadOperandBytes of the emulation wavefront, the timing register-file accessor and the timing wavefront) return storage allocated by that call on every path, never a window into the register file or a buffer kept by the accessor: handlers read several operands before they use them (ds_write2 reads DATA0 and DATA1, then copies), so a buffer that the next read overwrites makes the first operand read back as the second", 3)
	{
		fc := newFreshCtx(c)
		for _, rel := range []string{emuPkg, cuPkg, "amd/timing/wavefront"} {
			for _, fn := range c.SrcFuncs(rel) {
				if fn.Name() != "ReadReg" && fn.Name() != "ReadOperandBytes" {
					continue
				}
				res := fn.Signature.Results()
				if res.Len() != 1 {
					continue
				}
				if _, isSlice := res.At(0).Type().Underlying().(*types.Slice); !isSlice {
					continue
				}
				st77.Instances++
				c.MarkAnalysed(fn)
				r := fc.result(fn, 0)
				// bytes obtained through the register-file interface are judged at the implementation
				okR := r.ok || strings.HasPrefix(r.why, "the result of interface method")
				st77.Ob(okR)
				st77.Sample("%s returns bytes of its own: %v %s", core.FuncName(fn), okR, r.why)
				if !okR {
					c.ReportAt("R07.7", fn, fn.Pos(), "read-shared-bytes:"+core.FuncName(fn), core.FuncName(fn)+" can return bytes that are not allocated by the call ("+r.why+"): the next register read of the wavefront overwrites what the caller still holds, so an operand read back changes with the history of reads (timing ds_write2_b32 stores DATA1 into both slots)")
				}
			}
		}
	}

	// ---------------- R07.10 the register file serves every access ----------------
	st10 := c.Rule("R07.10", "the timing register file performs every access it is given: on every path through SimpleRegisterFile.Read and SimpleRegisterFile.Write that returns, the bytes are copied (a must-pass of the copy between the storage and the access's data). RegisterAccess is passed by value: a path that declines an access and reports it in access.OK reports it to nobody - the write is lost and the read returns the caller's zeroed buffer. A range guard that is off by one declines exactly the accesses that end at the last byte of the file (the top wavefront's last register on lane 63)", 2)
	for _, name := range []string{"SimpleRegisterFile.Read", "SimpleRegisterFile.Write"} {
		fn := c.MustFunc("R07.10", cuPkg, name)
		if fn == nil {
			continue
		}
		c.MarkAnalysed(fn)
		st10.Instances++
		g := core.BuildGraph(fn, 1, func(cal *ssa.Function) bool { return cal.Pkg == fn.Pkg })
		var leak *core.Node
		okW := g.Walk([]core.State{{N: g.Entry}}, core.WalkOpts{ForwardOnly: true, Stop: func(n *core.Node) bool {
			call, ok := n.Instr.(*ssa.Call)
			return ok && core.IsBuiltin(call, "copy")
		}}, func(x core.State) {
			if _, isRet := x.N.Instr.(*ssa.Return); isRet && x.N.Frame.Parent == nil && leak == nil {
				leak = x.N
			}
		})
		st10.Ob(okW && leak == nil)
		st10.Sample("%s: every returning path copies the bytes: %v", name, leak == nil)
		if leak != nil {
			c.ReportAt("R07.10", fn, leak.Instr.Pos(), "access-declined-silently:"+name, name+" can return without copying: the access is dropped (its OK flag is set on a by-value copy that nobody sees), a write is lost and a read returns zeros; with a guard `offset+size < len(storage)` that is every access ending at the last byte of the register file")
		}
	}

	// ---------------- R07.9 the 64-bit view of an operand reads four bytes only for a one-dword operand ----------------
	st9 := c.Rule("R07.9", "ReadOperand returns the low 64 bits of an operand in both register stores (the timing store pads the accessor's bytes to eight and reads them whole): in the emulation store, a function with a uint64 result that takes its value from a 32-bit read of a register-file slice (binary.LittleEndian.Uint32 / insts.BytesToUint32, widened) does so only on paths that found the operand's byte width to be 4 (w == 4, w <= 4, w < 8 or the complementary edge of the opposite test). A 32-bit read chosen for every width but 8 drops bits 32..63 of operands of three and more registers (the base of s_buffer_load: a buffer above 4 GiB)", 1)
	for _, fn := range c.SrcFuncs(emuPkg) {
		res := fn.Signature.Results()
		if res.Len() != 1 {
			continue
		}
		if bt, ok := res.At(0).Type().Underlying().(*types.Basic); !ok || bt.Kind() != types.Uint64 {
			continue
		}
		var g *core.Graph
		for _, b := range fn.Blocks {
			for _, in := range b.Instrs {
				call, ok := in.(*ssa.Call)
				if !ok {
					continue
				}
				name := ""
				if call.Call.IsInvoke() {
					name = call.Call.Method.Name()
				} else if cal := call.Call.StaticCallee(); cal != nil {
					name = cal.Name()
				}
				if name != "Uint32" && name != "BytesToUint32" {
					continue
				}
				// widened and returned
				returned := false
				if call.Referrers() != nil {
					for _, r := range *call.Referrers() {
						if cv, ok := r.(*ssa.Convert); ok && cv.Referrers() != nil {
							for _, rr := range *cv.Referrers() {
								if _, isRet := rr.(*ssa.Return); isRet {
									returned = true
								}
							}
						}
					}
				}
				if !returned {
					continue
				}
				if g == nil {
					g = core.BuildGraph(fn, 0, nil)
				}
				n := g.NodeOf(call)
				if n == nil {
					continue
				}
				st9.Instances++
				c.MarkAnalysed(fn)
				guarded := g.Guarded(n, CmpCut(func(_ *core.Node, op token.Token, x, y ssa.Value) int {
					if _, isC := x.(*ssa.Const); isC {
						return 0
					}
					k, isC := core.ConstInt(y)
					if !isC {
						return 0
					}
					switch {
					case op == token.EQL && k == 4, op == token.LEQ && k >= 4 && k < 8, op == token.LSS && k > 4 && k <= 8:
						return 1
					case op == token.NEQ && k == 4, op == token.GTR && k >= 4 && k < 8, op == token.GEQ && k > 4 && k <= 8:
						return -1
					}
					return 0
				}))
				st9.Ob(guarded)
				st9.Sample("%s: the 32-bit read of the register file is taken only for a 4-byte operand: %v", core.FuncName(fn), guarded)
				if !guarded {
					c.ReportAt("R07.9", fn, call.Pos(), "narrow-read-for-wide-operand:"+core.FuncName(fn), core.FuncName(fn)+" returns a 32-bit read of the register file on a path that did not establish that the operand is four bytes wide: an operand of three or more registers is read back as its first dword only, while ReadOperandBytes and the timing store return its low 64 bits (s_buffer_load with a buffer base above 4 GiB loses the upper address bits)")
				}
			}
		}
	}

	// ---------------- R07.8 every register-file access carries its wavefront's offset ----------------
	st8 := c.Rule("R07.8", "every register-file access the compute unit builds for a wavefront (a RegisterAccess value) addresses that wavefront's own registers: its WaveOffset is set, and set from the wavefront's SRegOffset when the access goes to the scalar file and from its VRegOffset when it goes to a vector file (or from an offset parameter of an accessor); its LaneID is never an offset. The scalar file ignores the lane, so an access with lane and offset exchanged writes the same-numbered SGPR of the wavefront at offset 0 and leaves the own register unset", 8)
	for _, fn := range c.SrcFuncs(cuPkg) {
		for _, b := range fn.Blocks {
			for _, in := range b.Instrs {
				al, ok := in.(*ssa.Alloc)
				if !ok || !strings.HasSuffix(namedTypeName(al.Type().(*types.Pointer).Elem()), "cu.RegisterAccess") || al.Referrers() == nil {
					continue
				}
				var waveVals, laneVals []ssa.Value
				file := ""
				copied := false
				for _, r := range *al.Referrers() {
					if sto, ok := r.(*ssa.Store); ok && sto.Addr == ssa.Value(al) {
						copied = true // a copy of an access built elsewhere (a parameter, another variable)
					}
				}
				if copied {
					continue
				}
				for _, r := range *al.Referrers() {
					switch x := r.(type) {
					case *ssa.FieldAddr:
						if x.Referrers() == nil {
							continue
						}
						for _, rr := range *x.Referrers() {
							if sto, ok := rr.(*ssa.Store); ok && sto.Addr == ssa.Value(x) {
								switch fieldNameOf(x) {
								case "WaveOffset":
									waveVals = append(waveVals, sto.Val)
								case "LaneID":
									laneVals = append(laneVals, sto.Val)
								}
							}
						}
					case *ssa.UnOp:
						// the value handed to a register file
						if x.Referrers() == nil {
							continue
						}
						for _, rr := range *x.Referrers() {
							call, ok := rr.(ssa.CallInstruction)
							if !ok || !call.Common().IsInvoke() {
								continue
							}
							recv := call.Common().Value
							if f := core.LoadedField(recv); f != nil {
								file = f.Name()
							} else if ld, ok := recv.(*ssa.UnOp); ok {
								if ia, ok := ld.X.(*ssa.IndexAddr); ok {
									if f := core.LoadedField(ia.X); f != nil {
										file = f.Name()
									}
								}
							}
						}
					}
				}
				offsetField := func(v ssa.Value) string {
					v = core.StripConv(v)
					if f := core.LoadedField(v); f != nil {
						return f.Name()
					}
					if _, isP := v.(*ssa.Parameter); isP {
						return "param"
					}
					return ""
				}
				st8.Instances++
				c.MarkAnalysed(fn)
				ok = len(waveVals) > 0
				why := "WaveOffset is never set (offset 0: the registers of the first wavefront of the file)"
				for _, v := range waveVals {
					of := offsetField(v)
					switch {
					case of == "param" || of == "WaveOffset":
					case of == "SRegOffset" && (file == "" || file == "SRegFile"):
					case of == "VRegOffset" && (file == "" || file == "VRegFile"):
					default:
						ok = false
						why = "WaveOffset is " + prov.Of(v) + " for an access to " + file
					}
				}
				for _, v := range laneVals {
					if of := offsetField(v); of == "SRegOffset" || of == "VRegOffset" {
						ok = false
						why = "LaneID is the wavefront's " + of
					}
				}
				st8.Ob(ok)
				st8.Sample("%s: access to %s carries the wavefront's own offset: %v", core.FuncName(fn), file, ok)
				if !ok {
					c.ReportAt("R07.8", fn, al.Pos(), "register-access-offset:"+core.FuncName(fn), core.FuncName(fn)+" builds a register-file access whose "+why+": the access lands in the registers of the wavefront at offset 0 of the file (a dispatch overwrites another resident wavefront's register and leaves its own unset)")
				}
			}
		}
	}

	// ---------------- R07.1 half-register merges ----------------
	st1 := c.Rule("R07.1", "every read-modify-write of a 64-bit special register that installs a 32-bit half (x = (x & M) | (uint64(v) << S), in one or two statements) keeps exactly the other half: M == ^(0xffffffff << S); in the context of a HI half S is 32, of a LO half S is 0; half reads are uint32(x >> S) with the same S", 8)
	type accessor struct{ pkg, fn string }
	accessors := []accessor{
		{emuPkg, "Wavefront.ReadReg"}, {emuPkg, "Wavefront.WriteReg"}, {emuPkg, "Wavefront.readRegOperand"},
		{cuPkg, "CURegFileAccessor.ReadReg"}, {cuPkg, "CURegFileAccessor.WriteReg"},
	}
	halfOf := func(g *core.Graph, n *core.Node) string {
		// which half context guards the node
		for _, k := range []string{"VCCLO", "VCCHI", "EXECLO", "EXECHI"} {
			k := k
			cut := CmpCut(func(_ *core.Node, op token.Token, x, y ssa.Value) int {
				if op != token.EQL {
					return 0
				}
				f := core.LoadedField(x)
				if f == nil {
					return 0
				}
				if f.Name() == "RegType" {
					if cst, ok := y.(*ssa.Const); ok && cst.Value != nil {
						if regTypeName(c, cst) == k {
							return 1
						}
					}
				}
				if f.Name() == "Name" {
					if cst, ok := y.(*ssa.Const); ok && cst.Value != nil && cst.Value.Kind() == constant.String {
						if strings.EqualFold(constant.StringVal(cst.Value), k) {
							return 1
						}
					}
				}
				return 0
			})
			if g.Guarded(n, cut) {
				return k
			}
		}
		return ""
	}
	shiftOfTerm := func(v ssa.Value) (int64, bool) {
		v0 := v
		if sh, ok := v0.(*ssa.BinOp); ok && sh.Op == token.SHL {
			if s, ok := core.ConstInt(sh.Y); ok {
				if _, isConv := sh.X.(*ssa.Convert); isConv {
					return s, true
				}
			}
			return 0, false
		}
		if cv, ok := v0.(*ssa.Convert); ok {
			if b, ok := cv.X.Type().Underlying().(*types.Basic); ok && b.Kind() == types.Uint32 {
				return 0, true
			}
		}
		return 0, false
	}
	for _, a := range accessors {
		fn := c.MustFunc("R07.1", a.pkg, a.fn)
		if fn == nil {
			continue
		}
		c.MarkAnalysed(fn)
		g := core.BuildGraph(fn, 0, nil)
		lastAnd := map[string]uint64{} // field -> mask of the preceding `x &= M` in the same block
		var lastBlock *ssa.BasicBlock
		for _, n := range g.Nodes {
			if n.Block != lastBlock {
				lastAnd = map[string]uint64{}
				lastBlock = n.Block
			}
			// two-statement form
			if s, ok := n.Instr.(*ssa.Store); ok {
				if f := core.FieldOfAddr(s.Addr); f != nil {
					if bo, ok := s.Val.(*ssa.BinOp); ok {
						if bo.Op == token.AND || bo.Op == token.AND_NOT {
							if m, ok := core.ConstUint(bo.Y); ok && core.LoadedField(bo.X) == f {
								if bo.Op == token.AND_NOT {
									m = ^m
								}
								lastAnd[f.Name()] = m
								continue
							}
						}
						if bo.Op == token.OR && core.LoadedField(bo.X) == f {
							if S, ok := shiftOfTerm(bo.Y); ok {
								st1.Instances++
								M, had := lastAnd[f.Name()]
								want := ^(uint64(0xffffffff) << uint(S))
								okM := had && M == want
								st1.Ob(okM)
								ctx := halfOf(g, n)
								st1.Sample("%s [%s]: %s = (%s & %#x) | v<<%d", a.fn, ctx, f.Name(), f.Name(), M, S)
								if !okM {
									c.ReportAt("R07.1", fn, s.Pos(), fmt.Sprintf("merge:%s:shift%d", ctx, S), fmt.Sprintf("the half written at bit %d is merged with mask %#x; keeping the other half requires %#x: the write destroys the other half (or keeps stale bits of this one)", S, M, want))
								}
								checkHalfCtx(c, st1, fn, s, ctx, S)
							}
						}
					}
				}
			}
			// one-expression form: OR(AND(x, M), T) anywhere
			if bo, ok := n.Instr.(*ssa.BinOp); ok && bo.Op == token.OR {
				for _, pair := range [][2]ssa.Value{{bo.X, bo.Y}, {bo.Y, bo.X}} {
					and, ok := pair[0].(*ssa.BinOp)
					if !ok || (and.Op != token.AND && and.Op != token.AND_NOT) {
						continue
					}
					M, ok := core.ConstUint(and.Y)
					if !ok {
						continue
					}
					if and.Op == token.AND_NOT {
						M = ^M
					}
					S, ok := shiftOfTerm(pair[1])
					if !ok {
						// the term may be a local computed earlier: SHL stored in a value
						continue
					}
					st1.Instances++
					want := ^(uint64(0xffffffff) << uint(S))
					okM := M == want
					st1.Ob(okM)
					ctx := halfOf(g, n)
					st1.Sample("%s [%s]: (x & %#x) | v<<%d", a.fn, ctx, M, S)
					if !okM {
						c.ReportAt("R07.1", fn, bo.Pos(), fmt.Sprintf("merge:%s:shift%d", ctx, S), fmt.Sprintf("the half written at bit %d is merged with mask %#x; keeping the other half requires %#x", S, M, want))
					}
					checkHalfCtx(c, st1, fn, bo, ctx, S)
					// the half that is kept comes from the register that is written
					srcReg, sinkReg := specialRegOfSource(and.X), specialRegOfSink(bo)
					if srcReg != "" && sinkReg != "" {
						okR := srcReg == sinkReg
						st1.Ob(okR)
						st1.Sample("%s [%s]: the kept half is read from %s, the merged value is written to %s", a.fn, ctx, srcReg, sinkReg)
						if !okR {
							c.ReportAt("R07.1", fn, bo.Pos(), "merge:"+sinkReg+":kept-half-from-"+srcReg, fmt.Sprintf("a half write of %s keeps the other half of %s: the write of one 32-bit half replaces the other half of %s with bits of a different register", strings.ToUpper(sinkReg), strings.ToUpper(srcReg), strings.ToUpper(sinkReg)))
						}
					}
				}
			}
			// half reads: uint32(x >> S) / uint32(x) in a half context
			if cv, ok := n.Instr.(*ssa.Convert); ok {
				if b, ok := cv.Type().Underlying().(*types.Basic); ok && b.Kind() == types.Uint32 {
					var S int64 = 0
					src := cv.X
					if sh, ok := src.(*ssa.BinOp); ok && sh.Op == token.SHR {
						if s, ok := core.ConstInt(sh.Y); ok {
							S = s
							src = sh.X
						}
					}
					if b2, ok := src.Type().Underlying().(*types.Basic); !ok || b2.Kind() != types.Uint64 {
						continue
					}
					ctx := halfOf(g, n)
					if ctx == "" {
						continue
					}
					st1.Instances++
					wantS := int64(0)
					if strings.HasSuffix(ctx, "HI") {
						wantS = 32
					}
					okS := S == wantS
					st1.Ob(okS)
					st1.Sample("%s [%s]: uint32(x >> %d)", a.fn, ctx, S)
					if !okS {
						c.ReportAt("R07.1", fn, cv.Pos(), fmt.Sprintf("read:%s:shift%d", ctx, S), fmt.Sprintf("reading %s takes bits from shift %d, expected %d: the wrong half is returned", ctx, S, wantS))
					}
					// and the source register matches the context
					sp := prov.Of(src)
					wantReg := "vcc"
					if strings.HasPrefix(ctx, "EXEC") {
						wantReg = "exec"
					}
					okR := strings.Contains(strings.ToLower(sp), wantReg)
					st1.Ob(okR)
					if !okR {
						c.ReportAt("R07.1", fn, cv.Pos(), "read:"+ctx+":source", "reading "+ctx+" takes its value from "+sp)
					}
				}
			}
		}
	}

	// ---------------- R07.2 kind coverage agrees ----------------
	st2 := c.Rule("R07.2", "the five register accessors (emu ReadReg / WriteReg / readRegOperand, timing ReadReg / WriteReg) handle the same set of (special register kind, register count) pairs, evaluated as decision tables, and that set contains every special register the decoder can produce as an operand that the ALUs use (SCC, M0, VCC, EXEC and their halves)", 5)
	required := []struct {
		k  string
		rc int64
	}{{"SCC", 1}, {"M0", 1}, {"VCC", 1}, {"VCC", 2}, {"EXEC", 1}, {"EXEC", 2}, {"VCCLO", 1}, {"VCCLO", 2}, {"VCCHI", 1}, {"EXECLO", 1}, {"EXECLO", 2}, {"EXECHI", 1}}
	regNames := map[string]string{"SCC": "scc", "M0": "m0", "VCC": "vcc", "EXEC": "exec", "VCCLO": "vcclo", "VCCHI": "vcchi", "EXECLO": "execlo", "EXECHI": "exechi"}
	table := map[string]map[string]bool{}
	evalAcc := func(a accessor, k string, rc int64) (int, bool) {
		p := c.Pkg(a.pkg)
		fd := findFuncDecl(p, a.fn)
		if fd == nil {
			return 0, false
		}
		env := &regEnv{p: p, regType: k, regCount: rc, name: regNames[k]}
		env.callee = func(name string) int {
			fd2 := findFuncDecl(p, "Wavefront."+name)
			if fd2 == nil || fd2 == fd {
				return 0
			}
			e2 := &regEnv{p: p, regType: k, regCount: rc, name: regNames[k]}
			return e2.evalStmts(fd2.Body.List)
		}
		o := env.evalStmts(fd.Body.List)
		return o, true
	}
	for _, a := range accessors {
		st2.Instances++
		table[a.fn] = map[string]bool{}
		for _, rq := range required {
			o, ok := evalAcc(a, rq.k, rq.rc)
			if !ok {
				c.Report(core.Finding{Rule: "R07.2", Kind: "anchor", Pkg: a.pkg, Func: a.fn, Detail: "anchor", Msg: "accessor not found"})
				break
			}
			handled := o&outPanic == 0
			table[a.fn][fmt.Sprintf("%s/%d", rq.k, rq.rc)] = handled
		}
	}
	for _, rq := range required {
		key := fmt.Sprintf("%s/%d", rq.k, rq.rc)
		var yes, no []string
		for _, a := range accessors {
			if table[a.fn][key] {
				yes = append(yes, a.pkg[strings.LastIndex(a.pkg, "/")+1:]+"."+a.fn)
			} else {
				no = append(no, a.pkg[strings.LastIndex(a.pkg, "/")+1:]+"."+a.fn)
			}
		}
		sort.Strings(yes)
		sort.Strings(no)
		st2.Ob(len(no) == 0)
		st2.Sample("%s handled by %d/5 accessors", key, len(yes))
		if len(no) > 0 {
			for _, a := range accessors {
				if !table[a.fn][key] {
					c.Report(core.Finding{Rule: "R07.2", Pkg: a.pkg, Func: a.fn, Detail: "unhandled:" + key,
						Msg: fmt.Sprintf("register %s with %d register(s) ends in the 'not supported' panic here (handled by: %s): the register stores of the two modes disagree / a decodable register cannot be accessed", rq.k, rq.rc, strings.Join(yes, ", "))})
				}
			}
		}
	}

	// R07.2 (continued): the decoder gives single registers RegCount 0 (getOperand); an access with count 0 must
	// behave like an access with count 1 in every accessor
	decoderCounts := map[int64]bool{}
	if fd := findFuncDecl(c.Pkg(instsPkg), "getOperand"); fd != nil {
		ast.Inspect(fd.Body, func(n ast.Node) bool {
			call, ok := n.(*ast.CallExpr)
			if !ok || len(call.Args) != 3 {
				return true
			}
			if fnm := exprString(call.Fun); fnm == "NewRegOperand" || fnm == "NewSRegOperand" || fnm == "NewVRegOperand" {
				if k, ok := constInt64(c.Pkg(instsPkg), call.Args[2]); ok {
					decoderCounts[k] = true
				}
			}
			return true
		})
	}
	st2.Sample("register counts the operand decoder attaches to single registers: %v", decoderCounts)
	if decoderCounts[0] {
		for _, a := range accessors {
			p := c.Pkg(a.pkg)
			fd := findFuncDecl(p, a.fn)
			if fd == nil {
				continue
			}
			for _, k := range []string{"SCC", "M0", "VCCLO", "VCCHI", "EXECLO", "EXECHI"} {
				run := func(rc int64) (int, string) {
					var tr []string
					env := &regEnv{p: p, regType: k, regCount: rc, name: regNames[k], trace: &tr}
					env.callee = func(name string) int {
						fd2 := findFuncDecl(p, "Wavefront."+name)
						if fd2 == nil || fd2 == fd {
							return 0
						}
						e2 := &regEnv{p: p, regType: k, regCount: rc, name: regNames[k], trace: &tr}
						return e2.evalStmts(fd2.Body.List)
					}
					o := env.evalStmts(fd.Body.List)
					return o, strings.ToLower(strings.Join(tr, " ; "))
				}
				o0, t0 := run(0)
				o1, t1 := run(1)
				st2.Instances++
				ok := o0&outPanic == 0 && (o0 == o1) && t0 == t1
				st2.Ob(ok)
				if !ok {
					what := "does " + short(t0) + " where a count of 1 does " + short(t1)
					if o0&outPanic != 0 {
						what = "ends in the 'not supported' panic"
					}
					c.Report(core.Finding{Rule: "R07.2", Pkg: a.pkg, Func: a.fn, Detail: "count0:" + k,
						Msg: fmt.Sprintf("for %s with register count 0 - the count the operand decoder attaches to every single register - %s %s: a decoded instruction that names %s is handled differently from one built with count 1 (wrong width, wrong half, or a panic)", k, a.fn, what, strings.ToLower(k))})
				}
			}
		}
	}

	// ---------------- R07.5 an operand write hands over exactly the operand's bytes ----------------
	st5 := c.Rule("R07.5", "WriteOperand of both register stores passes to the register accessor a slice of exactly the operand's width (ByteSize, times RegCount for multi-register operands): the timing accessor decides between a half write and a full 64-bit write of VCC / EXEC by the length of that slice, so eight bytes for a 32-bit operand overwrite the other half", 2)
	for _, w := range []struct{ pkg, fn string }{{emuPkg, "Wavefront.WriteOperand"}, {"amd/timing/wavefront", "Wavefront.WriteOperand"}} {
		fn := c.MustFunc("R07.5", w.pkg, w.fn)
		if fn == nil {
			continue
		}
		c.MarkAnalysed(fn)
		lp := core.NewLocalProv(c)
		for _, b := range fn.Blocks {
			for _, in := range b.Instrs {
				cc := core.CallOf(in)
				if cc == nil {
					continue
				}
				name := ""
				if cc.IsInvoke() {
					name = cc.Method.Name()
				} else if cc.StaticCallee() != nil {
					name = cc.StaticCallee().Name()
				}
				if name != "WriteReg" {
					continue
				}
				st5.Instances++
				data := cc.Args[len(cc.Args)-1]
				ok := false
				why := lp.Of(data)
				if sl, isS := data.(*ssa.Slice); isS && sl.High != nil {
					hp := lp.Of(sl.High)
					ok = strings.Contains(hp, ".ByteSize")
					why = "…[:" + hp + "]"
				}
				st5.Ob(ok)
				st5.Sample("%s.%s passes %s to WriteReg", w.pkg, w.fn, short(why))
				if !ok {
					c.ReportAt("R07.5", fn, in.Pos(), "operand-write-width", w.fn+" passes "+short(why)+" to the register accessor instead of the operand's own ByteSize (x RegCount) bytes: a 32-bit write to vcc_lo / vcc_hi / exec_lo arrives as eight bytes and the accessor overwrites the whole 64-bit register")
				}
			}
		}
	}

	// ---------------- R07.3 addressing agrees ----------------
	st3 := c.Rule("R07.3", "emulation addresses vector registers at lane*1024 + index*4 in every accessor, timing at index*4 + lane*stride + wavefront offset with a stride of at least the bytes one lane owns (file size / 64), so that the cells of different lanes and of co-resident wavefronts are disjoint; the width rule (ByteSize*regCount when regCount >= 2) is the same in every accessor", 4)
	// emu: offsets of the form laneID*256*4 + RegIndex()*4
	emuLane := map[string]bool{}
	for _, fnName := range []string{"Wavefront.ReadReg", "Wavefront.WriteReg", "Wavefront.readRegOperand", "Wavefront.VRegValue"} {
		fn := c.SSAFunc(emuPkg, fnName)
		if fn == nil {
			continue
		}
		for _, b := range fn.Blocks {
			for _, in := range b.Instrs {
				if bo, ok := in.(*ssa.BinOp); ok && bo.Op == token.ADD {
					pv := prov.Of(bo)
					if strings.Contains(pv, "param:laneID") || strings.Contains(pv, "param:lane") {
						if strings.Contains(pv, "*") {
							emuLane[normStride(pv)] = true
						}
					}
				}
			}
		}
	}
	st3.Instances++
	okE := len(emuLane) == 1 && emuLane["lane*1024+idx*4"]
	st3.Ob(okE)
	st3.Sample("emu vector register offsets: %v", sortedBoolKeys(emuLane))
	if !okE {
		c.Report(core.Finding{Rule: "R07.3", Pkg: emuPkg, Func: "Wavefront", Detail: "vreg-offset", Msg: fmt.Sprintf("emulation addresses vector registers as %v; every accessor must use lane*1024 + index*4", sortedBoolKeys(emuLane))})
	}
	// timing: getRegOffset and the ByteSizePerLane given by the builder
	if fn := c.MustFunc("R07.3", cuPkg, "SimpleRegisterFile.getRegOffset"); fn != nil {
		st3.Instances++
		ok := false
		for _, b := range fn.Blocks {
			for _, in := range b.Instrs {
				if r, isR := in.(*ssa.Return); isR && len(r.Results) == 1 {
					pv := prov.Of(r.Results[0])
					if strings.Contains(pv, "ByteSizePerLane") {
						ok = core.ProvHas(pv, "RegIndex()*4)") && core.ProvHas(pv, "*recv.ByteSizePerLane)")
						st3.Sample("timing vector register offset: %s", short(pv))
					}
				}
			}
		}
		st3.Ob(ok)
		if !ok {
			c.ReportAt("R07.3", fn, fn.Pos(), "getRegOffset", "the timing register file no longer addresses a vector register at index*4 + lane*ByteSizePerLane + wave offset")
		}
	}
	pcu := NewPkgInfo(c, cuPkg)
	pcu.Instrs(func(fn *ssa.Function, in ssa.Instruction) {
		call, ok := in.(*ssa.Call)
		if !ok || call.Call.StaticCallee() == nil || call.Call.StaticCallee().Name() != "NewSimpleRegisterFile" {
			return
		}
		st3.Instances++
		// cells (lane, register) are disjoint iff the lane stride is at least 4 bytes
		// times the registers a lane owns, i.e. (file size / 64 lanes). Accepted:
		// stride 0 (scalar file, no lanes); stride = X/64*4 for a file of X*4 bytes
		// (same X); or both constant with stride >= size/64.
		k, isC := core.ConstInt(call.Call.Args[1])
		sizeP, strideP := prov.Of(call.Call.Args[0]), prov.Of(call.Call.Args[1])
		ok2 := isC && k == 0
		if !ok2 && isC {
			if sz, isC2 := core.ConstInt(call.Call.Args[0]); isC2 && k >= sz/64 {
				ok2 = true
			}
		}
		if !ok2 && !isC {
			// sizeP = "(X*4)", strideP = "((X/64)*4)"
			if strings.HasPrefix(sizeP, "(") && strings.HasSuffix(sizeP, "*4)") {
				x := strings.TrimSuffix(strings.TrimPrefix(sizeP, "("), "*4)")
				ok2 = strideP == "(("+x+"/64)*4)"
			}
		}
		st3.Ob(ok2)
		st3.Sample("%s: NewSimpleRegisterFile(size %s, lane stride %s)", core.FuncName(fn), short(sizeP), short(strideP))
		if !ok2 {
			c.ReportAt("R07.3", fn, in.Pos(), "ByteSizePerLane", fmt.Sprintf("a vector register file of %s bytes is built with lane stride %s, which is not shown to be at least the bytes one lane owns (size / 64): the command processor hands out offsets up to that many bytes, so registers of resident wavefronts on neighbouring lanes share storage", short(sizeP), short(strideP)))
		}
	})
	// width rule
	for _, a := range append(accessors, accessor{emuPkg, "Wavefront.WriteOperand"}, accessor{emuPkg, "readFromRegFile"}) {
		fn := c.SSAFunc(a.pkg, a.fn)
		if fn == nil {
			continue
		}
		for _, b := range fn.Blocks {
			for _, in := range b.Instrs {
				bo, ok := in.(*ssa.BinOp)
				if !ok || bo.Op != token.MUL {
					continue
				}
				pv := prov.Of(bo)
				if !(strings.Contains(pv, "ByteSize") || strings.Contains(pv, "byteSize")) || !strings.Contains(strings.ToLower(pv), "regcount") {
					continue
				}
				st3.Instances++
				// guarded by regCount >= 2
				g := core.BuildGraph(fn, 0, nil)
				for _, n := range g.Nodes {
					if n.Instr != in {
						continue
					}
					okG := g.Guarded(n, CmpCut(func(_ *core.Node, op token.Token, x, y ssa.Value) int {
						if !strings.Contains(strings.ToLower(prov.Of(x)), "regcount") {
							return 0
						}
						k, isC := core.ConstInt(y)
						if !isC {
							return 0
						}
						switch {
						case op == token.GEQ && k == 2, op == token.GTR && k == 1:
							return 1
						case op == token.LSS && k == 2, op == token.LEQ && k == 1:
							return -1
						}
						return 0
					}))
					st3.Ob(okG)
					if !okG {
						c.ReportAt("R07.3", fn, in.Pos(), "width-rule", "the operand width ByteSize*regCount is applied on a path that did not test regCount >= 2 (the sibling accessors multiply only for multi-register operands)")
					}
				}
			}
		}
	}

	// ---------------- R07.6 staging buffers hold the widest operand ----------------
	st6w := c.Rule("R07.6", "a fixed-size staging buffer of an operand accessor (a local [N]byte that is sliced to the operand's byte width) holds the widest operand the decoder produces: N >= 4 * the largest constant the decoder stores into Operand.RegCount (16 registers: s_load_dwordx16)", 1)
	{
		maxRegs := int64(0)
		for _, fn := range c.SrcFuncs(instsPkg) {
			for _, b := range fn.Blocks {
				for _, in := range b.Instrs {
					if s, ok := in.(*ssa.Store); ok {
						if fa, ok := s.Addr.(*ssa.FieldAddr); ok && fieldNameOf(fa) == "RegCount" {
							if k, isC := core.ConstInt(s.Val); isC && k > maxRegs {
								maxRegs = k
							}
						}
					}
				}
			}
		}
		if maxRegs < 2 {
			c.Report(core.Finding{Rule: "R07.6", Kind: "anchor", Pkg: instsPkg, Func: "-", Detail: "max-regcount", Msg: "no constant RegCount stored by the decoder"})
		}
		for _, fnName := range []string{"Wavefront.ReadReg", "Wavefront.WriteReg", "Wavefront.ReadOperandBytes", "Wavefront.readRegOperand"} {
			fn := c.SSAFunc(emuPkg, fnName)
			if fn == nil {
				continue
			}
			for _, b := range fn.Blocks {
				for _, in := range b.Instrs {
					sl, ok := in.(*ssa.Slice)
					if !ok || sl.High == nil {
						continue
					}
					if _, isC := core.ConstInt(sl.High); isC {
						continue // a fixed window, not the operand width
					}
					al, ok := sl.X.(*ssa.Alloc)
					if !ok {
						continue
					}
					arr, ok := al.Type().Underlying().(*types.Pointer).Elem().Underlying().(*types.Array)
					if !ok {
						continue
					}
					st6w.Instances++
					c.MarkAnalysed(fn)
					okW := arr.Len() >= 4*maxRegs
					st6w.Ob(okW)
					st6w.Sample("%s: [%d]byte staging buffer, widest decoded operand %d registers", fnName, arr.Len(), maxRegs)
					if !okW {
						c.ReportAt("R07.6", fn, sl.Pos(), "staging-buffer:"+fnName, fmt.Sprintf("%s stages the operand in a [%d]byte buffer sliced to the operand width; the decoder produces operands of %d registers (%d bytes): reading such an operand back panics with slice bounds out of range", fnName, arr.Len(), maxRegs, 4*maxRegs))
					}
				}
			}
		}
	}

	// ---------------- R07.4 release touches own registers only ----------------
	st4 := c.Rule("R07.4", "releasing a wavefront's registers clears storage starting at the wavefront's own register-file offsets with lengths taken from its code object", 2)
	if fn := c.MustFunc("R07.4", cuPkg, "SchedulerImpl.resetRegisterValue"); fn != nil {
		c.MarkAnalysed(fn)
		for _, b := range fn.Blocks {
			for _, in := range b.Instrs {
				if !core.IsBuiltin(in, "copy") {
					continue
				}
				st4.Instances++
				a := core.CallOf(in).Args
				d, s := prov.Of(a[0]), prov.Of(a[1])
				okD := (strings.Contains(d, "VRegOffset") && core.ProvHas(d, "ByteSizePerLane*")) || strings.Contains(d, "SRegOffset")
				okS := s == "make(slice)"
				var lenOK bool
				if ms, ok := a[1].(*ssa.MakeSlice); ok {
					lp := prov.Of(ms.Len)
					lenOK = core.ProvHas(lp, "CodeObject.WIVgprCount*4") && strings.Contains(d, "VRegOffset") ||
						core.ProvHas(lp, "CodeObject.WFSgprCount*4") && strings.Contains(d, "SRegOffset")
				}
				st4.Ob(okD && okS && lenOK)
				st4.Sample("resetRegisterValue: copy(%s, zero[%v])", short(d), lenOK)
				if !(okD && okS && lenOK) {
					c.ReportAt("R07.4", fn, in.Pos(), "reset-range", "register release writes "+short(d)+" with a buffer not sized by the wavefront's own register counts: it can clear registers of a co-resident wavefront")
				}
			}
		}
	}

	checkNoDegenerateChoice(c, "R07.14", "In the timing wavefront the choice is between the scalar and the vector register offset of the wavefront: with the scalar one on both arms, vector registers written through that path land at the scalar offset, in another wavefront's registers, and are not read back.", 0, NewPkgInfo(c, wfPkg), NewPkgInfo(c, cuPkg))
	checkRegisterFileOffsetPairing(c, "R07.15")
	checkInitRegistersMirrored(c, "R07.16")
	checkHalfRegisterCases(c)
	checkInitWritesEachRegisterOnce(c)
	checkEmuRegisterFileSizes(c)
	checkReleaseClearsAllLanes(c)
	return core.Meta{Level: "other",
		Explanation: "Aliasing shapes of the architectural register stores decided statically: half-register merges (mask/shift agreement, LO/HI context) and half reads in all five accessors, the (register kind, count) coverage of the five accessors evaluated as decision tables and compared as siblings, vector-register strides of emulation versus the timing register file and its builder constants, the multi-register width rule, and the range cleared at wavefront release.",
		NotDecided:  "read-after-write equality over all access sequences (value level); bounds of register indices; SGPR/VGPR allocation offsets",
		Assumptions: commonAssumptions}
}

// specialRegOfSource: "vcc" / "exec" when v is the 64-bit value of that register (getter call or
// field load), "" otherwise.
func specialRegOfSource(v ssa.Value) string {
	name := ""
	switch x := v.(type) {
	case *ssa.Call:
		if x.Call.IsInvoke() {
			name = x.Call.Method.Name()
		} else if f := x.Call.StaticCallee(); f != nil {
			name = f.Name()
		}
	default:
		if f := core.LoadedField(v); f != nil {
			name = f.Name()
		}
	}
	switch strings.ToLower(name) {
	case "vcc":
		return "vcc"
	case "exec":
		return "exec"
	}
	return ""
}

// specialRegOfSink: the register a merged value is installed in (SetVCC / SetEXEC argument or a
// store to the vcc / exec field), following phis; "" when the value goes elsewhere.
func specialRegOfSink(v ssa.Value) string {
	seen := map[ssa.Value]bool{}
	out := ""
	var walk func(v ssa.Value)
	walk = func(v ssa.Value) {
		if seen[v] || v.Referrers() == nil {
			return
		}
		seen[v] = true
		for _, r := range *v.Referrers() {
			switch x := r.(type) {
			case *ssa.Phi:
				walk(x)
			case *ssa.Call:
				name := ""
				if x.Call.IsInvoke() {
					name = x.Call.Method.Name()
				} else if f := x.Call.StaticCallee(); f != nil {
					name = f.Name()
				}
				switch name {
				case "SetVCC":
					out = "vcc"
				case "SetEXEC":
					out = "exec"
				}
			case *ssa.Store:
				if x.Val == v {
					if f := core.FieldOfAddr(x.Addr); f != nil {
						switch strings.ToLower(f.Name()) {
						case "vcc":
							out = "vcc"
						case "exec":
							out = "exec"
						}
					}
				}
			}
		}
	}
	walk(v)
	return out
}

func checkHalfCtx(c *core.Ctx, st *core.RuleStat, fn *ssa.Function, in ssa.Instruction, ctx string, S int64) {
	if ctx == "" {
		return
	}
	want := int64(0)
	if strings.HasSuffix(ctx, "HI") {
		want = 32
	}
	ok := S == want
	st.Ob(ok)
	if !ok {
		c.ReportAt("R07.1", fn, in.Pos(), fmt.Sprintf("merge:%s:wrong-half", ctx), fmt.Sprintf("a write of %s installs the value at bit %d, expected %d", ctx, S, want))
	}
}

var regTypeNames map[int64]string

// regTypeName maps a RegType constant value to its name using the const block
// of amd/insts that declares the special registers (the block containing VCCHI).
func regTypeName(c *core.Ctx, cst *ssa.Const) string {
	named, ok := cst.Type().(*types.Named)
	if !ok || named.Obj().Name() != "RegType" {
		return ""
	}
	v, ok := constant.Int64Val(cst.Value)
	if !ok {
		return ""
	}
	if regTypeNames == nil {
		regTypeNames = map[int64]string{}
		p := c.Pkg(instsPkg)
		for _, f := range p.Syntax {
			for _, d := range f.Decls {
				gd, ok := d.(*ast.GenDecl)
				if !ok || gd.Tok != token.CONST {
					continue
				}
				has := false
				for _, sp := range gd.Specs {
					for _, n := range sp.(*ast.ValueSpec).Names {
						if n.Name == "VCCHI" {
							has = true
						}
					}
				}
				if !has {
					continue
				}
				for _, sp := range gd.Specs {
					for _, n := range sp.(*ast.ValueSpec).Names {
						if k, ok := p.TypesInfo.Defs[n].(*types.Const); ok {
							if kv, ok := constant.Int64Val(k.Val()); ok {
								regTypeNames[kv] = n.Name
							}
						}
					}
				}
			}
		}
	}
	return regTypeNames[v]
}

func normStride(pv string) string {
	// ((param:laneID*256)*4)+(X.RegIndex()*4)) -> lane*1024+idx*4 ; (param:lane*1024)+(param:i*4)
	s := pv
	lane := ""
	switch {
	case strings.Contains(s, "*256)*4)"):
		lane = "lane*1024"
	case strings.Contains(s, "*1024)"):
		lane = "lane*1024"
	default:
		return s
	}
	if strings.Contains(s, "RegIndex()*4)") || strings.Contains(s, "param:i*4)") {
		return lane + "+idx*4"
	}
	return s
}

func sortedBoolKeys(m map[string]bool) []string {
	var ks []string
	for k := range m {
		ks = append(ks, k)
	}
	sort.Strings(ks)
	return ks
}

var _ = ast.Inspect
