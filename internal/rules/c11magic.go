package rules

import (
	"fmt"
	"go/token"
	"go/types"
	"strings"

	"golang.org/x/tools/go/ssa"

	"verif/internal/core"
)

// checkCopySiblings: R11.9 .. R11.11, the clauses the audit of C11 added.
func checkCopySiblings(c *core.Ctx, pd *PkgInfo) {
	// ---- R11.9: every copy middleware performs the dirty-buffer test, or never meets a cache
	st9 := c.Rule("R11.9", "a copy observes the writes of completed kernels on every copy path: each middleware of the driver that handles MemCopyH2DCommand / MemCopyD2HCommand either tests the touched range for dirty buffers before it touches device memory (a call of needFlushing / a function that reads buffer.l2Dirty, dominating the access), or is installed only by platforms without write-back caches (no timing platform builder asks for it); the sibling that goes through the DMA engines does the former", 2)
	// which driver Builder option installs which middleware type
	installedBy := map[string][]string{} // middleware type -> builder option methods
	for _, fn := range pd.Funcs {
		if fn.Name() != "Build" {
			continue
		}
		for _, b := range fn.Blocks {
			for _, in := range b.Instrs {
				al, ok := in.(*ssa.Alloc)
				if !ok {
					continue
				}
				pt, ok := al.Type().(*types.Pointer)
				if !ok {
					continue
				}
				nt, ok := pt.Elem().(*types.Named)
				if !ok || !strings.Contains(nt.Obj().Name(), "emoryCopyMiddleware") {
					continue
				}
				installedBy[nt.Obj().Name()] = nil
			}
		}
	}
	handlers := map[string][]*ssa.Function{}
	for _, fn := range pd.Funcs {
		if fn.Signature.Recv() == nil {
			continue
		}
		rt := fn.Signature.Recv().Type()
		if p, ok := rt.(*types.Pointer); ok {
			rt = p.Elem()
		}
		nt, ok := rt.(*types.Named)
		if !ok || !strings.Contains(nt.Obj().Name(), "emoryCopyMiddleware") {
			continue
		}
		if strings.HasPrefix(fn.Name(), "processMemCopyH2D") || strings.HasPrefix(fn.Name(), "processMemCopyD2H") {
			handlers[nt.Obj().Name()] = append(handlers[nt.Obj().Name()], fn)
		}
	}
	readsDirty := func(fn *ssa.Function) bool {
		seen := map[*ssa.Function]bool{}
		var visit func(f *ssa.Function, d int) bool
		visit = func(f *ssa.Function, d int) bool {
			if seen[f] || d > 3 {
				return false
			}
			seen[f] = true
			for _, b := range f.Blocks {
				for _, in := range b.Instrs {
					if fa, ok := in.(*ssa.FieldAddr); ok && fieldNameOf(fa) == "l2Dirty" {
						return true
					}
					if cc := core.CallOf(in); cc != nil && cc.StaticCallee() != nil && cc.StaticCallee().Pkg == f.Pkg {
						if visit(cc.StaticCallee(), d+1) {
							return true
						}
					}
				}
			}
			return false
		}
		return visit(fn, 0)
	}
	// does a timing platform ask for the storage middleware?
	timingAsks := map[string]string{}
	for _, rel := range []string{"amd/samples/runner/timingconfig"} {
		for _, fn := range c.SrcFuncs(rel) {
			for _, b := range fn.Blocks {
				for _, in := range b.Instrs {
					if cc := core.CallOf(in); cc != nil && cc.StaticCallee() != nil && strings.Contains(cc.StaticCallee().Name(), "MemoryCopyMiddleware") && strings.HasPrefix(cc.StaticCallee().Name(), "With") {
						timingAsks[cc.StaticCallee().Name()] = core.FuncName(fn) + " at " + c.Position(in.Pos())
					}
				}
			}
		}
	}
	for _, mw := range sortedKeys(handlers) {
		for _, fn := range handlers[mw] {
			st9.Instances++
			c.MarkAnalysed(fn)
			ok := readsDirty(fn)
			where := ""
			if !ok {
				// acceptable only if no platform with caches installs it
				for opt, at := range timingAsks {
					if strings.Contains(strings.ToLower(opt), "magic") == strings.Contains(strings.ToLower(mw), "globalstorage") {
						where = at
					}
				}
				if where == "" {
					ok = true
				}
			}
			st9.Ob(ok)
			st9.Sample("%s.%s tests for dirty buffers: %v", mw, fn.Name(), readsDirty(fn))
			if !ok {
				c.ReportAt("R11.9", fn, fn.Pos(), "copy-without-dirty-test:"+mw, fmt.Sprintf("%s.%s reads / writes the device memory image without the dirty-buffer test its DMA sibling performs, and the timing platform can install it (%s): after H2D(src, x), MemCopyD2D(dst, src), a D2H(dst) returns zeros because the kernel's output is still in the write-back L2", mw, fn.Name(), where))
			}
		}
	}

	// ---- R11.10: results of the storage accesses of the copy path are not dropped
	st10 := c.Rule("R11.10", "a copy moves exactly the requested bytes or fails loudly: in the driver's copy middlewares no error result of mem.Storage.Read / Write is discarded", 2)
	for _, mw := range sortedKeys(handlers) {
		for _, fn := range handlers[mw] {
			for _, b := range fn.Blocks {
				for _, in := range b.Instrs {
					call, ok := in.(*ssa.Call)
					if !ok {
						continue
					}
					cal := call.Call.StaticCallee()
					if cal == nil || cal.Pkg == nil || !strings.HasSuffix(cal.Pkg.Pkg.Path(), "akita/v4/mem/mem") || (cal.Name() != "Read" && cal.Name() != "Write") {
						continue
					}
					st10.Instances++
					c.MarkAnalysed(fn)
					used := false
					if refs := call.Referrers(); refs != nil {
						for _, r := range *refs {
							switch x := r.(type) {
							case *ssa.Extract:
								if types.TypeString(x.Type(), nil) == "error" && x.Referrers() != nil && len(*x.Referrers()) > 0 {
									used = true
								}
							case *ssa.DebugRef:
							default:
								if types.TypeString(call.Type(), nil) == "error" {
									used = true
								}
							}
						}
					}
					st10.Ob(used)
					if !used {
						c.ReportAt("R11.10", fn, in.Pos(), "storage-error-dropped:"+cal.Name(), fmt.Sprintf("%s.%s drops the error of Storage.%s: a copy that reaches beyond the storage (the last page of the last GPU lies at [capacity, capacity+4096) because the allocator starts one page up) moves nothing and reports success", mw, fn.Name(), cal.Name()))
					}
				}
			}
		}
	}

	// ---- R11.11: the device-to-device copy kernel gets its bound in its own unit
	st11 := c.Rule("R11.11", "a device-to-device copy writes exactly the requested bytes: in EnqueueMemCopyD2D the number of work-items and the bound given to the copy kernel are derived from the byte count by the same unit (the kernel copies one 4-byte word per work-item and tests its index against the bound); a grid of ceil(num/4) work-items with a bound of num never trims the last word", 1)
	if fn := c.SSAFunc(driverPkg, "Driver.EnqueueMemCopyD2D"); fn != nil {
		st11.Instances++
		c.MarkAnalysed(fn)
		prov := core.NewLocalProv(c)
		gridDiv, boundDiv := false, false
		for _, b := range fn.Blocks {
			for _, in := range b.Instrs {
				s, ok := in.(*ssa.Store)
				if !ok {
					continue
				}
				pv := prov.Of(s.Val)
				if ia, ok := s.Addr.(*ssa.IndexAddr); ok && strings.Contains(types.TypeString(ia.X.Type(), nil), "[3]uint32") {
					if strings.Contains(pv, "param:num") && (strings.Contains(pv, "/") || strings.Contains(pv, "Ceil")) {
						gridDiv = true
					}
				}
				if fa, ok := s.Addr.(*ssa.FieldAddr); ok && strings.Contains(types.TypeString(fa.X.Type(), nil), "KernelMemCopyArgs") {
					if strings.Contains(pv, "param:num") && (strings.Contains(pv, "/") || strings.Contains(pv, ">>")) {
						boundDiv = true
					}
				}
			}
		}
		// the words are counted by num / 4: the remaining num % 4 bytes are moved on every path
		{
			isRem := func(v ssa.Value) bool {
				bo, ok := core.StripConv(v).(*ssa.BinOp)
				if !ok {
					return false
				}
				k, isC := core.ConstInt(bo.Y)
				if !isC {
					return false
				}
				_, isParam := core.StripConv(bo.X).(*ssa.Parameter)
				return isParam && ((bo.Op == token.REM && k == 4) || (bo.Op == token.AND && k == 3))
			}
			floorDiv := false
			for _, b := range fn.Blocks {
				for _, in := range b.Instrs {
					if bo, ok := in.(*ssa.BinOp); ok && (bo.Op == token.QUO || bo.Op == token.SHR) {
						if _, isParam := core.StripConv(bo.X).(*ssa.Parameter); isParam {
							if k, isC := core.ConstInt(bo.Y); isC && ((bo.Op == token.QUO && k == 4) || (bo.Op == token.SHR && k == 2)) {
								floorDiv = true
							}
						}
					}
				}
			}
			if floorDiv {
				g := core.BuildGraph(fn, 0, nil)
				var leak *core.Node
				okW := g.Walk([]core.State{{N: g.Entry}}, core.WalkOpts{ForwardOnly: true, Stop: func(n *core.Node) bool {
					iff, ok := n.Instr.(*ssa.If)
					if !ok {
						return false
					}
					cmp, ok := iff.Cond.(*ssa.BinOp)
					return ok && (isRem(cmp.X) || isRem(cmp.Y))
				}}, func(x core.State) {
					if _, isRet := x.N.Instr.(*ssa.Return); isRet && leak == nil {
						leak = x.N
					}
				})
				st11.Instances++
				st11.Ob(okW && leak == nil)
				st11.Sample("EnqueueMemCopyD2D: the num %% 4 remainder is looked at on every path: %v", leak == nil)
				if leak != nil {
					c.ReportAt("R11.11", fn, leak.Instr.Pos(), "d2d-tail-skipped", "EnqueueMemCopyD2D counts whole words (num / 4) for the copy kernel and can return without looking at the remaining num % 4 bytes: a copy of 1 to 3 bytes (or any path that returns early) moves nothing and reports success")
				}
			}
		}
		ok := gridDiv == boundDiv
		st11.Ob(ok)
		st11.Sample("EnqueueMemCopyD2D: grid in words: %v, bound in words: %v", gridDiv, boundDiv)
		if !ok {
			c.ReportAt("R11.11", fn, fn.Pos(), "d2d-bound-unit", "the copy kernel is launched with ceil(num/4) work-items, each copying a 4-byte word, but its bound argument is num (bytes): the bound never trims anything and MemCopyD2D(dst, src, 6) overwrites dst[6] and dst[7]")
		}
	}
}
