package rules

import (
	"go/types"

	"golang.org/x/tools/go/ssa"

	"verif/internal/core"
)

// freshness: does a pointer / slice value denote storage that was allocated
// during the current call (and is therefore not shared with an earlier or a
// later call)? Allocations (new, composite literals, make, append to nil,
// string conversions), results of module functions that themselves return
// fresh storage, and selections of those are fresh; anything loaded from a
// field, a package-level variable, a map or a parameter is not. The analysis is
// a may-alias over-approximation: "not fresh" is reported with the value that
// carries the sharing.
type freshCtx struct {
	c     *core.Ctx
	memo  map[*ssa.Function]map[int]freshRes
	stack map[*ssa.Function]bool
}

type freshRes struct {
	ok  bool
	why string
}

func newFreshCtx(c *core.Ctx) *freshCtx {
	return &freshCtx{c: c, memo: map[*ssa.Function]map[int]freshRes{}, stack: map[*ssa.Function]bool{}}
}

// result: is result #idx of fn fresh on every return?
func (fc *freshCtx) result(fn *ssa.Function, idx int) freshRes {
	if m, ok := fc.memo[fn]; ok {
		if r, ok := m[idx]; ok {
			return r
		}
	}
	if fc.stack[fn] {
		return freshRes{true, ""} // recursion: decided by the other returns
	}
	if len(fn.Blocks) == 0 {
		// no source: standard library and dependencies. Constructors and converters of the
		// libraries the repository uses return new storage; a method that hands out its
		// receiver's buffer (bytes.Buffer.Bytes) is named here
		name := fn.String()
		if name == "(*bytes.Buffer).Bytes" || name == "(*bytes.Buffer).Next" {
			return freshRes{false, "the buffer of a bytes.Buffer"}
		}
		return freshRes{true, ""}
	}
	fc.stack[fn] = true
	defer delete(fc.stack, fn)
	res := freshRes{true, ""}
	for _, b := range fn.Blocks {
		for _, in := range b.Instrs {
			ret, ok := in.(*ssa.Return)
			if !ok || idx >= len(ret.Results) {
				continue
			}
			if r := fc.value(ret.Results[idx], map[ssa.Value]bool{}); !r.ok {
				res = r
			}
		}
	}
	if fc.memo[fn] == nil {
		fc.memo[fn] = map[int]freshRes{}
	}
	fc.memo[fn][idx] = res
	return res
}

func (fc *freshCtx) value(v ssa.Value, seen map[ssa.Value]bool) freshRes {
	if seen[v] {
		return freshRes{true, ""}
	}
	seen[v] = true
	switch x := v.(type) {
	case *ssa.Const:
		return freshRes{true, ""}
	case *ssa.Alloc:
		return freshRes{true, ""}
	case *ssa.MakeSlice, *ssa.MakeMap, *ssa.MakeChan, *ssa.MakeClosure:
		return freshRes{true, ""}
	case *ssa.MakeInterface:
		return fc.value(x.X, seen)
	case *ssa.Convert:
		// string <-> []byte conversions copy; numeric conversions carry no storage
		return freshRes{true, ""}
	case *ssa.ChangeType:
		return fc.value(x.X, seen)
	case *ssa.ChangeInterface:
		return fc.value(x.X, seen)
	case *ssa.Slice:
		return fc.value(x.X, seen)
	case *ssa.SliceToArrayPointer:
		return fc.value(x.X, seen)
	case *ssa.Phi:
		for _, e := range x.Edges {
			if r := fc.value(e, seen); !r.ok {
				return r
			}
		}
		return freshRes{true, ""}
	case *ssa.Extract:
		if call, ok := x.Tuple.(*ssa.Call); ok {
			return fc.call(call, x.Index, seen)
		}
		return freshRes{false, "a value of unknown origin"}
	case *ssa.Call:
		return fc.call(x, 0, seen)
	case *ssa.FieldAddr:
		// &x.f is as fresh as x
		if r := fc.value(x.X, seen); !r.ok {
			return freshRes{false, "field " + fieldNameOf(x) + " inside " + r.why}
		}
		return freshRes{true, ""}
	case *ssa.IndexAddr:
		return fc.value(x.X, seen)
	case *ssa.UnOp:
		// a load: the loaded pointer / slice lives wherever it was stored
		if fa, ok := x.X.(*ssa.FieldAddr); ok {
			if al, isLocal := fa.X.(*ssa.Alloc); isLocal {
				// a field of a struct that is a local of this call: what was stored into that field?
				return fc.fieldOfLocal(al, fa.Field, seen, 0)
			}
		}
		if f := core.LoadedField(x); f != nil {
			return freshRes{false, "field " + core.ShortFieldID(f)}
		}
		if g, ok := x.X.(*ssa.Global); ok {
			return freshRes{false, "package-level variable " + g.Name()}
		}
		if ia, ok := x.X.(*ssa.IndexAddr); ok {
			inner := fc.value(ia.X, seen)
			if inner.ok {
				// an element of a fresh container: what was put there?
				return freshRes{false, "an element of a container filled elsewhere"}
			}
			return freshRes{false, "an element of " + inner.why}
		}
		if _, ok := x.X.(*ssa.Alloc); ok {
			// a local spilled to memory (defer): look at what was stored
			return fc.storedInto(x.X, seen)
		}
		return freshRes{false, "a loaded value"}
	case *ssa.Lookup:
		return freshRes{false, "a map element"}
	case *ssa.Parameter:
		return freshRes{false, "parameter " + x.Name()}
	case *ssa.FreeVar:
		return freshRes{false, "captured variable " + x.Name()}
	case *ssa.Global:
		return freshRes{false, "package-level variable " + x.Name()}
	}
	return freshRes{false, "a value of unknown origin"}
}

func (fc *freshCtx) storedInto(addr ssa.Value, seen map[ssa.Value]bool) freshRes {
	refs := addr.Referrers()
	if refs == nil {
		return freshRes{true, ""}
	}
	for _, r := range *refs {
		if st, ok := r.(*ssa.Store); ok && st.Addr == addr {
			if res := fc.value(st.Val, seen); !res.ok {
				return res
			}
		}
	}
	return freshRes{true, ""}
}

func (fc *freshCtx) call(call *ssa.Call, idx int, seen map[ssa.Value]bool) freshRes {
	if b, ok := call.Call.Value.(*ssa.Builtin); ok {
		switch b.Name() {
		case "append":
			// append(nil / fresh, ...) is fresh; append(shared, ...) may write into shared storage
			return fc.value(call.Call.Args[0], seen)
		case "new", "make":
			return freshRes{true, ""}
		}
		return freshRes{true, ""}
	}
	if call.Call.IsInvoke() {
		return freshRes{false, "the result of interface method " + call.Call.Method.Name()}
	}
	cal := call.Call.StaticCallee()
	if cal == nil {
		return freshRes{false, "the result of a dynamic call"}
	}
	// only results that can carry storage matter
	if t := cal.Signature.Results(); idx < t.Len() {
		switch t.At(idx).Type().Underlying().(type) {
		case *types.Pointer, *types.Slice, *types.Map, *types.Interface:
		default:
			return freshRes{true, ""}
		}
	}
	return fc.result(cal, idx)
}

// checkMessagesFresh: every message handed to a port's Send is a new object (or one
// that arrived through a port). akita ports and connections pass the pointer on
// unchanged: a message object kept in a field of the sender and filled in again
// for the next Send is still sitting in the receiver's buffer when it is
// overwritten.
func checkMessagesFresh(c *core.Ctx, rule string, pkgs []string, floor int) {
	st := c.Rule(rule, "every message passed to Send is allocated for that Send or is a message that arrived through a port; it is never an object that lives in a field, a map or a package-level variable of the sender. Ports and connections deliver the pointer itself, so a message that the sender fills in again for its next Send is still in the previous receiver's buffer: the receiver reads the next dispatch's payload, one unit of work runs twice and another never", floor)
	fc := newFreshCtx(c)
	for _, rel := range pkgs {
		pi := NewPkgInfo(c, rel)
		if pi.Pkg == nil {
			continue
		}
		pi.Instrs(func(fn *ssa.Function, in ssa.Instruction) {
			cc := core.CallOf(in)
			if cc == nil || !cc.IsInvoke() || cc.Method.Name() != "Send" || len(cc.Args) != 1 {
				return
			}
			st.Instances++
			c.MarkAnalysed(fn)
			arg := cc.Args[0]
			if mi, ok := arg.(*ssa.MakeInterface); ok {
				arg = mi.X
			}
			r := fc.value(arg, map[ssa.Value]bool{})
			shared := !r.ok && (len(r.why) >= 6 && (r.why[:6] == "field " || r.why[:6] == "a map " || r.why[:6] == "packag"))
			st.Ob(!shared)
			if shared {
				c.ReportAt(rule, fn, in.Pos(), "message-reused:"+core.FuncName(fn), "the message sent here is "+r.why+", an object of the sender that is reused for the next Send: the port delivers the pointer, so the receiver of this Send sees the fields of the next one")
			}
		})
	}
}

// fieldOfLocal: what a field of a local struct variable can hold: the values stored into
// the field, and the same field of every struct value assigned to the variable as a whole
// (a composite literal is built in a temporary and copied).
func (fc *freshCtx) fieldOfLocal(al *ssa.Alloc, field int, seen map[ssa.Value]bool, depth int) freshRes {
	res := freshRes{true, ""}
	if depth > 4 {
		return freshRes{false, "a struct copied too many times to follow"}
	}
	refs := al.Referrers()
	if refs == nil {
		return res
	}
	for _, r := range *refs {
		switch x := r.(type) {
		case *ssa.FieldAddr:
			if x.Field != field {
				continue
			}
			if r2 := fc.storedInto(x, seen); !r2.ok {
				res = r2
			}
		case *ssa.Store:
			if x.Addr != ssa.Value(al) {
				continue
			}
			if ld, ok := x.Val.(*ssa.UnOp); ok {
				if src, ok := ld.X.(*ssa.Alloc); ok {
					if r2 := fc.fieldOfLocal(src, field, seen, depth+1); !r2.ok {
						res = r2
					}
					continue
				}
			}
			if _, isConst := x.Val.(*ssa.Const); isConst {
				continue
			}
			res = freshRes{false, "a struct value of unknown origin"}
		}
	}
	return res
}

// checkPerUnitInstances (R05.9): objects with per-unit mutable state are built per unit.
func checkPerUnitInstances(c *core.Ctx, rule string) {
	st := c.Rule(rule, "every function of ALU-factory shape (one emu.StorageAccessor parameter, one emu.ALU result; the closures handed to BuildComputeUnitWithALU) returns an ALU allocated by that call: the ALU keeps per-wavefront state (the LDS pointer set before every wavefront), so an instance shared by the compute units of a GPU is overwritten by whichever unit runs concurrently under the parallel engine, and results differ from the serial run and from run to run", 2)
	fc := newFreshCtx(c)
	for _, p := range c.RepoPkgs() {
		rel := core.RelPkg(p.PkgPath)
		sp := c.SSAPkg(rel)
		if sp == nil {
			continue
		}
		var fns []*ssa.Function
		for _, fn := range c.SrcFuncs(rel) {
			fns = append(fns, fn)
			fns = append(fns, fn.AnonFuncs...)
		}
		seenFn := map[*ssa.Function]bool{}
		for _, fn := range fns {
			if seenFn[fn] {
				continue
			}
			seenFn[fn] = true
			sig := fn.Signature
			if sig.Params().Len() != 1 || sig.Results().Len() != 1 {
				continue
			}
			if namedTypeName(sig.Params().At(0).Type()) != "emu.StorageAccessor" || namedTypeName(sig.Results().At(0).Type()) != "emu.ALU" {
				continue
			}
			st.Instances++
			c.MarkAnalysed(fn)
			r := fc.result(fn, 0)
			st.Ob(r.ok)
			st.Sample("%s returns an ALU of its own: %v %s", core.FuncName(fn), r.ok, r.why)
			if !r.ok {
				c.ReportAt(rule, fn, fn.Pos(), "alu-shared:"+core.FuncName(fn), core.FuncName(fn)+" is an ALU factory that can hand out an ALU it did not allocate ("+r.why+"): the compute units built with it share one ALU and overwrite each other's LDS pointer when their events run concurrently")
			}
		}
	}
}
